/-
  C04 — metadata filters return exactly the documents that satisfy the predicate.

  ONLY property theorems and non-vacuity examples live here; helper lemmas are in
  CometProofs/{BSILoop,BSI,MetaInv,MetaEval,MetaQuery}.lean.

  Reading guide.  `run ops` is the model state (Comet/Meta.lean: a line-by-line model
  of metadata_index.go / metadata_index_search.go on top of Comet/BSI.lean, the
  transcribed roaring v1.9.4 BitSliceIndexing BSI) after the history `ops`;
  `Spec.run ops` is the specification state: the live documents
  `docs : Id ⇀ (Field ⇀ Value)` and the numeric field names seen so far.
  `sat N g f` is the denotational meaning of one filter on one document (ordinary signed
  comparison; floats arrive at two-decimal fixed point), `satLeaf` adds `Not(·)` as the
  complement within the filter's universe, `satQuery` the AND / OR structure, and
  `specAnswer sp fs gs` is the id set the property demands.
  `wfHist {} ops`: every `Add` uses an id that is not live at that moment (re-adding a
  removed id is fine) and a proper map (unique keys).

  STATUS.  The full statement `MetaFilterExactFull` is FALSE for the code as it is
  (`meta_exact_fails_without_noMixedSign`, `meta_exact_fails_without_noNotRange`, both
  from concrete witnesses that are replayed against the real code on every run:
  corpus/C04/meta_d8_*.json, meta_d9_*.json).  What is proved is
  `meta_filter_exact_partial`, with the explicit decidable hypotheses
    conform      per-field fixed type, unique live ids, no ':' inside field names
    wellTypedQ   operators / operand types fit the field's type; AND/OR groups
    noMixedSign  no numeric comparison whose operand and a stored value differ in sign  (D8)
    noNotRange   no Not(range)                                                        (D9)
  Clauses of the property that hold with no side condition are stated at full strength
  (`meta_only_live_returned`, `meta_removed_never_returned`, `meta_empty_filters_all_live`,
  `meta_group_algebra_*`, `meta_inv`).
-/
import CometProofs.MetaQuery
namespace Comet.Meta
open Comet

/-! ## the bit-sliced index -/

/-- FULL statement (what `CompareValue` is documented to compute): per column, the
    transcribed `compareValue` equals ordinary signed comparison.  FALSE — see
    `bsi_compare_mixed_sign_wrong`. -/
def BsiCompareCorrect : Prop :=
  ∀ (op : BSI.Op) (x s e : I64), BSI.compareOne 64 x.getLsbD op s e = BSI.signedCmp op x s e

/-- PARTIAL (hypothesis: the stored value and the operand — for `range` both ends — have
    the same sign): `compareValue` = signed comparison.  Induction over the slices,
    "the first differing bit decides". -/
theorem bsi_compare_same_sign (op : BSI.Op) (x s e : I64) (hs : x.msb = s.msb)
    (he : op = .range → x.msb = e.msb) :
    BSI.compareOne 64 x.getLsbD op s e = BSI.signedCmp op x s e :=
  BSI.compareOne_same_sign op x s e hs he

/-- the three witnesses of D8, on the transcribed algorithm: `Eq(−5)` accepts the stored
    value 5; `Gt(−1)` rejects the stored value 1; `Range(−100,−1)` accepts 0, 1 and 5 -/
theorem bsi_mixed_sign_witnesses :
    BSI.compareOne 64 (5 : I64).getLsbD .eq (-5) 0 = true ∧
    BSI.compareOne 64 (1 : I64).getLsbD .gt (-1) 0 = false ∧
    BSI.compareOne 64 (0 : I64).getLsbD .range (-100) (-1) = true ∧
    BSI.compareOne 64 (1 : I64).getLsbD .range (-100) (-1) = true ∧
    BSI.compareOne 64 (5 : I64).getLsbD .range (-100) (-1) = true := by decide

/-- the negation of the full statement, from the first witness -/
theorem bsi_compare_mixed_sign_wrong : ¬ BsiCompareCorrect := by
  intro h
  have := h .eq 5 (-5) 0
  revert this
  decide

/-- non-vacuity of `bsi_compare_same_sign`: negative against negative, and a range -/
example : BSI.compareOne 64 (-7 : I64).getLsbD .lt (-5) 0 = true ∧
    BSI.compareOne 64 (3 : I64).getLsbD .range 2 9 = true ∧
    BSI.compareOne 64 (-3 : I64).getLsbD .range (-2) (-1) = false := by decide

/-- a BSI that represents a map answers `CompareValue` with the columns whose value
    satisfies the comparison — when no stored value differs in sign from the operands -/
theorem bsi_compareValue_exact_partial {b : BSI.T} {m : Nat → Option I64} (h : BSI.Rep b m)
    (op : BSI.Op) (s e : I64)
    (hms : ∀ d v, m d = some v → v.msb = s.msb ∧ (op = .range → v.msb = e.msb)) (d : Nat) :
    d ∈ BSI.compareValue b op s e ↔ ∃ v, m d = some v ∧ BSI.signedCmp op v s e = true := by
  rw [BSI.mem_compareValue h]
  constructor
  · rintro ⟨v, hv, hc⟩
    rw [BSI.compareOne_same_sign op v s e (hms d v hv).1 (hms d v hv).2] at hc
    exact ⟨v, hv, hc⟩
  · rintro ⟨v, hv, hc⟩
    refine ⟨v, hv, ?_⟩
    rw [BSI.compareOne_same_sign op v s e (hms d v hv).1 (hms d v hv).2]
    exact hc

/-- `SetValue` / `ClearValues` maintain the representation (64 slices, existence bitmap =
    domain, slice `j` = ids whose value has bit `j`) -/
theorem bsi_rep_preserved {b : BSI.T} {m : Nat → Option I64} (h : BSI.Rep b m) (c : Nat) (v : I64) :
    BSI.Rep (BSI.setValue b c v) (fun d => if d = c then some v else m d) ∧
    BSI.Rep (BSI.clearValues b [c]) (fun d => if d = c then none else m d) :=
  ⟨BSI.rep_setValue h c v, BSI.rep_clearValues h c⟩

/-! ## the invariant -/

/-- **Every reachable state represents the live documents**: `allDocs = dom docs`;
    the bitmap under a categorical key holds `{d | docs d f = str v}` over the pairs
    `(f, v)` with that key; a BSI exists exactly for the names that ever carried a
    number and represents `{d ↦ x | docs d f = int x}` (fields of `Inv`). -/
theorem meta_inv (ops : List HOp) (hwf : wfHist {} ops = true) : InvS (run ops) (Spec.run ops) :=
  invS_run ops Meta.init {} invS_init hwf

/-- `allDocs` is the set of live ids -/
theorem meta_inv_allDocs (ops : List HOp) (hwf : wfHist {} ops = true) (d : Nat) :
    d ∈ (run ops).allDocs ↔ ((Spec.run ops).docs.lookup d).isSome = true :=
  (meta_inv ops hwf).all d

/-- `categorical["f:v"]` = the live documents whose value under `f` is the string `v`
    (per-field fixed types, no ':' in field names) -/
theorem meta_inv_categorical (ops : List HOp) (hwf : wfHist {} ops = true)
    (hc : conform (Spec.run ops) = true) (f v : String) (hf : noColon f = true) (d : Nat) :
    d ∈ catSet (run ops) (keyOf f v) ↔ (Spec.run ops).docs.get d f = some (.str v) :=
  mem_catSet (meta_inv ops hwf) hc f hf (.str v) (Or.inl rfl) d

/-- the BSI of a numeric field represents `{d ↦ x | docs d f = int x}` -/
theorem meta_inv_numeric (ops : List HOp) (hwf : wfHist {} ops = true) (f : String) (b : BSI.T)
    (hb : (run ops).numeric.lookup f = some b) :
    BSI.Rep b (fun d => intOf ((Spec.run ops).docs.get d f)) :=
  (meta_inv ops hwf).rep f b hb

/-! ## exactness -/

/-- FULL statement of the property on the model: for every history (ids not live at
    `Add`), every document set with per-field fixed types and every well-typed filter
    expression, `Execute` returns exactly the ids of the live documents for which the
    expression is true.  FALSE for the code as it is (D8, D9). -/
def MetaFilterExactFull : Prop :=
  ∀ (ops : List HOp) (fs : List Leaf) (gs : List LGroup),
    wfHist {} ops = true → conform (Spec.run ops) = true → wellTypedQ (Spec.run ops) fs gs = true →
    ∃ r, execute (run ops) (fs.map Leaf.toFilter) (gs.map LGroup.toGroup) = .ok r ∧
      ∀ d, d ∈ r ↔ d ∈ specAnswer (Spec.run ops) fs gs

/-- **Headline (PARTIAL)**: under `noMixedSign` and `noNotRange`, metadata search returns,
    without error, exactly the ids of the live documents for which the filter expression
    is true. -/
theorem meta_filter_exact_partial (ops : List HOp) (fs : List Leaf) (gs : List LGroup)
    (hwf : wfHist {} ops = true) (hc : conform (Spec.run ops) = true)
    (hwt : wellTypedQ (Spec.run ops) fs gs = true)
    (hms : noMixedSign (Spec.run ops) fs gs = true) (hnr : noNotRange fs gs = true) :
    ∃ r, execute (run ops) (fs.map Leaf.toFilter) (gs.map LGroup.toGroup) = .ok r ∧
      ∀ d, d ∈ r ↔ d ∈ specAnswer (Spec.run ops) fs gs :=
  execute_exact (meta_inv ops hwf) hc fs gs hwt hms hnr

/-- what membership in the specification's answer means: live, and the expression holds -/
theorem meta_specAnswer_meaning (sp : Spec) (hc : conform sp = true) (fs : List Leaf) (gs : List LGroup)
    (d : Nat) :
    d ∈ specAnswer sp fs gs ↔
      ((sp.docs.lookup d).isSome = true ∧ satQuery sp.numSeen (sp.docs.get d) fs gs = true) :=
  mem_specAnswer hc fs gs d

/-- the decidable check the driver applies to every implementation answer (`RB.same impl
    spec`) is sound and complete for "returns exactly the ids of …" -/
theorem meta_answer_checker_iff (impl : List Nat) (sp : Spec) (fs : List Leaf) (gs : List LGroup) :
    RB.same impl (specAnswer sp fs gs) = true ↔ ∀ d, d ∈ impl ↔ d ∈ specAnswer sp fs gs :=
  RB.same_iff

/-! ### the witnesses: both extra hypotheses are necessary -/

/-- D8 witness: one document holding `n = 5`, filter `Eq(n, −5)` -/
def d8Ops : List HOp := [.add 1 [("n", some (.int 5))]]
def d8Query : List Leaf := [⟨false, .cmp .eq "n" (.int (-5) "-5")⟩]

/-- D9 witness: documents holding `n = 0` and `n = 5`, filter `Not(Range(n, 0, 1))` -/
def d9Ops : List HOp := [.add 1 [("n", some (.int 0))], .add 2 [("n", some (.int 5))]]
def d9Query : List Leaf := [⟨true, .range "n" (.int 0 "0") (.int 1 "1")⟩]

/-- on the D8 witness the model (like the real code) returns document 1, the
    specification nothing -/
theorem meta_d8_witness :
    okIds (execute (run d8Ops) (d8Query.map Leaf.toFilter) []) = some [1] ∧
    specAnswer (Spec.run d8Ops) d8Query [] = [] := by decide

/-- on the D9 witness the model (like the real code) returns document 1 (the range
    itself), the specification document 2 (its complement) -/
theorem meta_d9_witness :
    okIds (execute (run d9Ops) (d9Query.map Leaf.toFilter) []) = some [1] ∧
    specAnswer (Spec.run d9Ops) d9Query [] = [2] := by decide

/-- the full statement fails even with `noNotRange` kept: `noMixedSign` is necessary (D8) -/
theorem meta_exact_fails_without_noMixedSign :
    ¬ (∀ (ops : List HOp) (fs : List Leaf) (gs : List LGroup),
      wfHist {} ops = true → conform (Spec.run ops) = true → wellTypedQ (Spec.run ops) fs gs = true →
      noNotRange fs gs = true →
      ∃ r, execute (run ops) (fs.map Leaf.toFilter) (gs.map LGroup.toGroup) = .ok r ∧
        ∀ d, d ∈ r ↔ d ∈ specAnswer (Spec.run ops) fs gs) := by
  intro h
  obtain ⟨r, hr, hm⟩ := h d8Ops d8Query [] (by decide) (by decide) (by decide) (by decide)
  have h1 : okIds (execute (run d8Ops) (d8Query.map Leaf.toFilter) ([].map LGroup.toGroup)) = some [1] :=
    meta_d8_witness.1
  rw [hr] at h1
  simp only [okIds, Option.some.injEq] at h1
  have := (hm 1).mp (by rw [h1]; simp)
  rw [meta_d8_witness.2] at this
  simp at this

/-- the full statement fails even with `noMixedSign` kept: `noNotRange` is necessary (D9) -/
theorem meta_exact_fails_without_noNotRange :
    ¬ (∀ (ops : List HOp) (fs : List Leaf) (gs : List LGroup),
      wfHist {} ops = true → conform (Spec.run ops) = true → wellTypedQ (Spec.run ops) fs gs = true →
      noMixedSign (Spec.run ops) fs gs = true →
      ∃ r, execute (run ops) (fs.map Leaf.toFilter) (gs.map LGroup.toGroup) = .ok r ∧
        ∀ d, d ∈ r ↔ d ∈ specAnswer (Spec.run ops) fs gs) := by
  intro h
  obtain ⟨r, hr, hm⟩ := h d9Ops d9Query [] (by decide) (by decide) (by decide) (by decide)
  have h1 : okIds (execute (run d9Ops) (d9Query.map Leaf.toFilter) ([].map LGroup.toGroup)) = some [1] :=
    meta_d9_witness.1
  rw [hr] at h1
  simp only [okIds, Option.some.injEq] at h1
  have := (hm 1).mp (by rw [h1]; simp)
  rw [meta_d9_witness.2] at this
  simp at this

/-- hence the full statement is false -/
theorem meta_filter_exact_full_fails : ¬ MetaFilterExactFull :=
  fun h => meta_exact_fails_without_noMixedSign (fun ops fs gs h1 h2 h3 _ => h ops fs gs h1 h2 h3)

/-! ### non-vacuity of the headline theorem -/

/-- a history with a removal, a re-added id, negative / zero / extreme integers, a float
    at fixed point (19.99 ↦ 1998), an empty string and strings containing ':' -/
def exOps : List HOp := [
  .add 1 [("n", some (.int (-5))), ("s", some (.str "")), ("p", some (.int 1998))],
  .add 2 [("n", some (.int (-9223372036854775808))), ("s", some (.str "a:b"))],
  .add 3 [("n", some (.int (-1))), ("b", some (.str "true"))],
  .remove 2,
  .add 2 [("s", some (.str ":")), ("p", some (.int 0))],
  .add 4 [("n", some (.int (-7)))]]

/-- `(n < −5 AND Not(s = "a:b"))  OR  (p ≥ 19.99 AND exists s)  OR  (s in (":", "zz") OR Not(not_exists zz))` -/
def exGroups : List LGroup := [
  ⟨.and, [⟨false, .cmp .lt "n" (.int (-5) "-5")⟩, ⟨true, .cmp .eq "s" (.str "a:b")⟩]⟩,
  ⟨.and, [⟨false, .cmp .gte "p" (.int 1998 "19.99")⟩, ⟨false, .ex false "s"⟩]⟩,
  ⟨.or, [⟨false, .isIn false "s" (some [.str ":", .str "zz"])⟩, ⟨true, .ex true "zz"⟩]⟩]

/-- the hypotheses of `meta_filter_exact_partial` hold of a non-trivial instance, and the
    answer is a non-empty proper subset of the live documents -/
example :
    wfHist {} exOps = true ∧ conform (Spec.run exOps) = true ∧
    wellTypedQ (Spec.run exOps) [] exGroups = true ∧
    noMixedSign (Spec.run exOps) [] exGroups = true ∧ noNotRange [] exGroups = true ∧
    (okIds (execute (run exOps) [] (exGroups.map LGroup.toGroup))).map (RB.same [1, 2, 4]) = some true ∧
    RB.same (specAnswer (Spec.run exOps) [] exGroups) [1, 2, 4] = true ∧
    RB.same ((Spec.run exOps).docs.map (·.1)) [1, 2, 3, 4] = true := by
  refine ⟨by decide, by decide, by decide, by decide, by decide, by decide, by decide, by decide⟩

/-! ## the clauses of the property, as named corollaries -/

/-- **A removed document is never returned**, and more: whatever the query (ill-typed,
    mixed signs, `Not(range)` included), every id of a successful answer is live.
    FULL strength. -/
theorem meta_only_live_returned (ops : List HOp) (hwf : wfHist {} ops = true)
    (fs : List Filter) (gs : List Group) (r : RB) (hr : execute (run ops) fs gs = .ok r)
    (d : Nat) (hd : d ∈ r) : ((Spec.run ops).docs.lookup d).isSome = true :=
  execute_live (meta_inv ops hwf) fs gs r hr d hd

/-- after `Remove id` no answer contains `id` (until it is added again). FULL strength. -/
theorem meta_removed_never_returned (ops : List HOp) (id : Nat)
    (hwf : wfHist {} (ops ++ [.remove id]) = true)
    (fs : List Filter) (gs : List Group) (r : RB)
    (hr : execute (run (ops ++ [.remove id])) fs gs = .ok r) : id ∉ r := by
  intro hd
  have := meta_only_live_returned _ hwf fs gs r hr id hd
  simp only [Spec.run, List.foldl_append, List.foldl_cons, List.foldl_nil, Spec.step,
    lookup_filter_ne] at this
  simp at this

/-- **An empty filter list returns all live documents.** FULL strength. -/
theorem meta_empty_filters_all_live (ops : List HOp) (hwf : wfHist {} ops = true) :
    ∃ r, execute (run ops) [] [] = .ok r ∧
      ∀ d, d ∈ r ↔ ((Spec.run ops).docs.lookup d).isSome = true :=
  ⟨(run ops).allDocs, rfl, fun d => (meta_inv ops hwf).all d⟩

/-- **`ne` on a string / boolean field matches every live document that does not match
    `eq`, including the documents lacking the field.** -/
theorem meta_ne_string_includes_missing (ops : List HOp) (hwf : wfHist {} ops = true)
    (hc : conform (Spec.run ops) = true) (f v : String) (hf : noColon f = true)
    (hcat : (Spec.run ops).numSeen.contains f = false) :
    ∃ r, evaluateFilter (run ops) (.cmp .ne f (.str v)) = .ok r ∧
      ∀ d, d ∈ r ↔ (((Spec.run ops).docs.lookup d).isSome = true ∧
        (Spec.run ops).docs.get d f ≠ some (.str v)) := by
  have hnm : f ∉ (Spec.run ops).numSeen := fun hm => by
    rw [List.contains_iff_mem.mpr hm] at hcat; cases hcat
  obtain ⟨r, hr, hm⟩ := evaluateFilter_exact (meta_inv ops hwf) hc (.cmp .ne f (.str v))
    (by simp [wellTypedF, hnm, Operand.isInt]) hf (by simp [mixedSignF, hnm])
  refine ⟨r, hr, fun d => ?_⟩
  rw [hm d]
  simp [sat, hnm, Operand.val]

/-- in particular a live document WITHOUT the field is matched by `ne` on a string field -/
theorem meta_ne_string_matches_doc_lacking_field (ops : List HOp) (hwf : wfHist {} ops = true)
    (hc : conform (Spec.run ops) = true) (f v : String) (hf : noColon f = true)
    (hcat : (Spec.run ops).numSeen.contains f = false) (d : Nat)
    (hlive : ((Spec.run ops).docs.lookup d).isSome = true)
    (hmiss : (Spec.run ops).docs.get d f = none) :
    ∃ r, evaluateFilter (run ops) (.cmp .ne f (.str v)) = .ok r ∧ d ∈ r := by
  obtain ⟨r, hr, hm⟩ := meta_ne_string_includes_missing ops hwf hc f v hf hcat
  exact ⟨r, hr, (hm d).mpr ⟨hlive, by rw [hmiss]; simp⟩⟩

/-- **`ne` on a numeric field matches the documents that HAVE the field with another
    value** (no stored value of the field differing in sign from the operand). -/
theorem meta_ne_numeric_requires_field (ops : List HOp) (hwf : wfHist {} ops = true)
    (hc : conform (Spec.run ops) = true) (f : String) (x : I64) (txt : String) (hf : noColon f = true)
    (hnum : (Spec.run ops).numSeen.contains f = true)
    (hms : mixedSignF (Spec.run ops).numSeen (Spec.run ops).docs (.cmp .ne f (.int x txt)) = false) :
    ∃ r, evaluateFilter (run ops) (.cmp .ne f (.int x txt)) = .ok r ∧
      ∀ d, d ∈ r ↔ ∃ y, (Spec.run ops).docs.get d f = some (.int y) ∧ y ≠ x := by
  have inv := meta_inv ops hwf
  have hnm : f ∈ (Spec.run ops).numSeen := List.contains_iff_mem.mp hnum
  obtain ⟨r, hr, hm⟩ := evaluateFilter_exact inv hc (.cmp .ne f (.int x txt))
    (by simp [wellTypedF, hnm, Operand.isInt]) hf hms
  refine ⟨r, hr, fun d => ?_⟩
  rw [hm d]
  simp only [sat, hnum, if_true, Operand.val]
  constructor
  · rintro ⟨_, hs⟩
    cases hg : (Spec.run ops).docs.get d f with
    | none => simp [hg] at hs
    | some w =>
      have hv := (conform_get hc hg).1
      rw [hnum] at hv
      cases w with
      | str _ => simp [Value.isInt] at hv
      | int y => exact ⟨y, rfl, by simpa [hg] using hs⟩
  · rintro ⟨y, hg, hne⟩
    exact ⟨inv.getLive d f _ hg, by simp [hg, hne]⟩

/-- **`Not(f)` selects the complement of `f` within `f`'s universe** — for every operator
    `Not` handles (all but `range`): the model's answer to `Not(f)` is
    `{d live | d in the universe of f ∧ ¬ f d}`, the universe being the documents carrying
    the field for numeric comparisons and every live document otherwise. -/
theorem meta_not_complement (ops : List HOp) (hwf : wfHist {} ops = true)
    (hc : conform (Spec.run ops) = true) (flt : Filter)
    (hwt : wellTypedF (Spec.run ops).numSeen (Spec.run ops).docs flt = true)
    (hcol : noColon flt.field = true)
    (hms : mixedSignF (Spec.run ops).numSeen (Spec.run ops).docs flt = false)
    (hnr : flt.isRange = false) :
    ∃ r, evaluateFilter (run ops) (notF flt) = .ok r ∧
      ∀ d, d ∈ r ↔ (((Spec.run ops).docs.lookup d).isSome = true ∧
        univ (Spec.run ops).numSeen ((Spec.run ops).docs.get d) flt = true ∧
        sat (Spec.run ops).numSeen ((Spec.run ops).docs.get d) flt = false) := by
  obtain ⟨r, hr, hm⟩ := leaf_exact (meta_inv ops hwf) hc ⟨true, flt⟩ hwt hcol hms
    (by simp [notRangeL, hnr])
  refine ⟨r, hr, fun d => ?_⟩
  rw [hm d]
  simp [satLeaf]

/-- the same on the specification side: the operator table of `Not` denotes the complement -/
theorem meta_not_table_is_complement (N : List String) (D : Docs) (g : String → Option Value)
    (flt : Filter) (hwt : wellTypedF N D flt = true)
    (hg : ∀ f v, g f = some v → v.isInt = N.contains f) (hnr : flt.isRange = false) :
    sat N g (notF flt) = (univ N g flt && !sat N g flt) :=
  sat_notF N D g flt hwt hg hnr

/-- **D9 as a proved fact about the code**: `Not` has no case for `range`, it returns the
    same range filter. -/
theorem meta_not_range_identity (f : String) (lo hi : Operand) :
    notF (.range f lo hi) = .range f lo hi := rfl

/-- consequently `Not(range)` is NOT the complement (witness: values 0 and 5,
    `Not(Range(0,1))` returns the document holding 0) -/
theorem meta_not_range_not_complement :
    ¬ (∀ (ops : List HOp) (f : String) (lo hi : Operand) (r : RB) (d : Nat),
        wfHist {} ops = true →
        evaluateFilter (run ops) (notF (.range f lo hi)) = .ok r →
        (d ∈ r ↔ (((Spec.run ops).docs.lookup d).isSome = true ∧
          sat (Spec.run ops).numSeen ((Spec.run ops).docs.get d) (.range f lo hi) = false))) := by
  intro h
  have e : evaluateFilter (run d9Ops) (notF (.range "n" (.int 0 "0") (.int 1 "1"))) = .ok [1] := by
    rfl
  have := (h d9Ops "n" (.int 0 "0") (.int 1 "1") [1] 1 (by decide) e).mp (by simp)
  revert this
  decide

/-- **Fields absent from the index** (never numeric, no live document carries them):
    `eq`, `in`, `exists` match nothing; `ne`, `not_in`, `not_exists` match every live
    document — whatever the operand types. -/
theorem meta_absent_field (ops : List HOp) (hwf : wfHist {} ops = true)
    (hc : conform (Spec.run ops) = true) (f : String) (hf : noColon f = true)
    (hnn : (Spec.run ops).numSeen.contains f = false)
    (habs : fieldAbsent (Spec.run ops).docs f = true) (o : Operand) (vs : List Operand) :
    (∃ r, evaluateFilter (run ops) (.cmp .eq f o) = .ok r ∧ ∀ d, d ∉ r) ∧
    (∃ r, evaluateFilter (run ops) (.isIn false f (some vs)) = .ok r ∧ ∀ d, d ∉ r) ∧
    (∃ r, evaluateFilter (run ops) (.ex false f) = .ok r ∧ ∀ d, d ∉ r) ∧
    (∃ r, evaluateFilter (run ops) (.cmp .ne f o) = .ok r ∧
      ∀ d, d ∈ r ↔ ((Spec.run ops).docs.lookup d).isSome = true) ∧
    (∃ r, evaluateFilter (run ops) (.isIn true f (some vs)) = .ok r ∧
      ∀ d, d ∈ r ↔ ((Spec.run ops).docs.lookup d).isSome = true) ∧
    (∃ r, evaluateFilter (run ops) (.ex true f) = .ok r ∧
      ∀ d, d ∈ r ↔ ((Spec.run ops).docs.lookup d).isSome = true) := by
  have inv := meta_inv ops hwf
  have hnm : f ∉ (Spec.run ops).numSeen := fun hm => by
    rw [List.contains_iff_mem.mpr hm] at hnn; cases hnn
  have hget : ∀ d, (Spec.run ops).docs.get d f = none := fieldAbsent_get habs
  have ex : ∀ flt : Filter, flt.field = f →
      wellTypedF (Spec.run ops).numSeen (Spec.run ops).docs flt = true →
      mixedSignF (Spec.run ops).numSeen (Spec.run ops).docs flt = false →
      ∃ r, evaluateFilter (run ops) flt = .ok r ∧ ∀ d, d ∈ r ↔
        (((Spec.run ops).docs.lookup d).isSome = true ∧
          sat (Spec.run ops).numSeen ((Spec.run ops).docs.get d) flt = true) :=
    fun flt hfld hwt hms => evaluateFilter_exact inv hc flt hwt (by rw [hfld]; exact hf) hms
  refine ⟨?_, ?_, ?_, ?_, ?_, ?_⟩
  · obtain ⟨r, hr, hm⟩ := ex (.cmp .eq f o) rfl (by simp [wellTypedF, hnm, habs]) (by simp [mixedSignF, hnm])
    exact ⟨r, hr, fun d hd => by have := ((hm d).mp hd).2; simp [sat, hget d] at this⟩
  · obtain ⟨r, hr, hm⟩ := ex (.isIn false f (some vs)) rfl (by simp [wellTypedF, hnm, habs]) (by simp [mixedSignF])
    exact ⟨r, hr, fun d hd => by have := ((hm d).mp hd).2; simp [sat, hget d] at this⟩
  · obtain ⟨r, hr, hm⟩ := ex (.ex false f) rfl (by simp [wellTypedF]) (by simp [mixedSignF])
    exact ⟨r, hr, fun d hd => by have := ((hm d).mp hd).2; simp [sat, hget d] at this⟩
  · obtain ⟨r, hr, hm⟩ := ex (.cmp .ne f o) rfl (by simp [wellTypedF, hnm, habs]) (by simp [mixedSignF, hnm])
    exact ⟨r, hr, fun d => by rw [hm d]; simp [sat, hnm, hget d]⟩
  · obtain ⟨r, hr, hm⟩ := ex (.isIn true f (some vs)) rfl (by simp [wellTypedF, hnm, habs]) (by simp [mixedSignF])
    exact ⟨r, hr, fun d => by rw [hm d]; simp [sat, hget d]⟩
  · obtain ⟨r, hr, hm⟩ := ex (.ex true f) rfl (by simp [wellTypedF]) (by simp [mixedSignF])
    exact ⟨r, hr, fun d => by rw [hm d]; simp [sat, hget d]⟩

/-- ordering operators and `range` on a field that is not numeric (absent or categorical)
    return the error "unsupported operator for categorical field"; `in` / `not_in` on a
    numeric field "unsupported operator for numeric field"; a string operand on a numeric
    field "cannot convert" -/
theorem meta_operator_errors (s : State) (f : String) (o lo hi : Operand) :
    (s.numeric.lookup f = none →
      evaluateFilter s (.cmp .gt f o) = .error .unsupportedCat ∧
      evaluateFilter s (.cmp .gte f o) = .error .unsupportedCat ∧
      evaluateFilter s (.cmp .lt f o) = .error .unsupportedCat ∧
      evaluateFilter s (.cmp .lte f o) = .error .unsupportedCat ∧
      evaluateFilter s (.range f lo hi) = .error .unsupportedCat) ∧
    (∀ b, s.numeric.lookup f = some b → ∀ n vs,
      evaluateFilter s (.isIn n f vs) = .error .unsupportedNum) ∧
    (∀ b, s.numeric.lookup f = some b → ∀ op sv,
      evaluateFilter s (.cmp op f (.str sv)) = .error .convert) := by
  refine ⟨fun hn => ?_, fun b hb n vs => ?_, fun b hb op sv => ?_⟩
  · simp [evaluateFilter_cmp, evaluateFilter_range, hn, queryCategorical]
  · simp [evaluateFilter_isIn, hb, queryNumeric]
  · simp [evaluateFilter_cmp, hb, queryNumeric, Operand.toInt64]

/-! ## group algebra (no side condition beyond "the filters evaluate") -/

/-- simple filters are ANDed: the answer is the intersection of the filters' sets —
    including the early exit on an empty intermediate result -/
theorem meta_group_algebra_simple (s : State) (fs : List Filter) (hne : fs ≠ [])
    (hok : AllOK s fs) :
    ∃ r, execute s fs [] = .ok r ∧ ∀ d, d ∈ r ↔ ∀ f, f ∈ fs → d ∈ evalSet s f := by
  obtain ⟨r, hr, hm⟩ := executeSimple_algebra s fs hne hok
  refine ⟨r, ?_, hm⟩
  cases fs with
  | nil => exact absurd rfl hne
  | cons f fs => simp [execute, hr]

/-- one group: every document when it has no filter; the intersection of its filters'
    sets under `AND` (early exit included); their union under any other logic -/
theorem meta_group_algebra_group (s : State) (g : Group) (hok : AllOK s g.filters) :
    ∃ r, executeGroup s g = .ok r ∧ ∀ d, d ∈ r ↔
      (if g.filters = [] then d ∈ s.allDocs
       else if g.logic = .and then ∀ f, f ∈ g.filters → d ∈ evalSet s f
       else ∃ f, f ∈ g.filters ∧ d ∈ evalSet s f) :=
  executeGroup_algebra s g hok

/-- groups are ORed: the answer is the union of the groups' sets; simple filters given
    alongside groups are ignored -/
theorem meta_group_algebra_across (s : State) (fs : List Filter) (gs : List Group) (hne : gs ≠ [])
    (hok : ∀ g, g ∈ gs → AllOK s g.filters) :
    ∃ r, execute s fs gs = .ok r ∧ ∀ d, d ∈ r ↔ ∃ g, g ∈ gs ∧ groupSem s g d := by
  obtain ⟨r, hr, hm⟩ := executeGroups_algebra s gs hne hok
  refine ⟨r, ?_, hm⟩
  cases gs with
  | nil => exact absurd rfl hne
  | cons g gs => simp [execute, hr]

/-- an error inside group `i` is reported with the group's index; the early exits can
    hide the error of a later filter (witness: `eq` on an absent field, then an ordering
    operator on a string field — no error, empty answer) -/
theorem meta_early_exit_hides_error :
    okIds (execute (run [.add 1 [("s", some (.str "a"))]])
      [.cmp .eq "zz" (.str "x"), .cmp .gt "s" (.int 1 "1")] []) = some [] ∧
    execute (run [.add 1 [("s", some (.str "a"))]])
      [] [⟨.and, [.cmp .eq "s" (.str "a")]⟩, ⟨.or, [.cmp .gt "s" (.int 1 "1")]⟩] =
        .error ⟨some 1, .unsupportedCat⟩ := ⟨by decide, rfl⟩

end Comet.Meta
