/-
  C06's visibility abstraction is not only validated by the correspondence run: for the
  flat index it is a THEOREM.  The detailed model of flat_index.go (Comet/Vector/Flat.lean,
  the one C01 is proved about) refines the visibility model `Hybrid.VecIdx` that C06's
  theorems use: every Add / Remove / Flush step commutes with the abstraction
  `absFlat` (what is stored under each id, which ids are tombstoned), with the same outcome.
-/
import Comet.Hybrid
import Comet.Vector.Flat
import CometProofs.Flat
namespace Comet.Hybrid

variable {V S : Type}

/-- the visibility content of a flat-index state -/
def absFlat (s : Flat.State V) : VecIdx V :=
  ⟨fun j => (s.vecs.filter (fun p => p.1 == j)).map (·.2), fun j => s.deleted.contains j⟩

/-- validation + preprocessing of `FlatIndex.Add`, as the `vpre` parameter of `VecIdx.add` -/
def flatVpre (m : Metric V S) (dim : Nat) (v : V) : Except Err V :=
  if m.dimOf v ≠ dim then .error .dim else
  match m.pre v with
  | none => .error .zero
  | some v' => .ok v'

theorem absFlat_flushed (s : Flat.State V) : absFlat (Flat.flushed s) = (absFlat s).purge := by
  unfold absFlat Flat.flushed VecIdx.purge
  simp only [VecIdx.mk.injEq]
  constructor
  · funext j
    by_cases hj : s.deleted.contains j = true
    · simp only [hj, if_true, List.map_eq_nil_iff, List.filter_eq_nil_iff, List.filter_filter]
      intro p _
      by_cases hp : p.1 = j
      · subst hp
        have : p.1 ∈ s.deleted := by simpa using hj
        simp [this]
      · have hb : (p.1 == j) = false := by simpa using hp
        simp [hb]
    · simp only [hj, Bool.false_eq_true, if_false, List.filter_filter]
      congr 1
      apply List.filter_congr
      intro p _
      by_cases hp : p.1 = j
      · subst hp
        have : p.1 ∉ s.deleted := by simpa using hj
        simp [this]
      · have hb : (p.1 == j) = false := by simpa using hp
        simp [hb]
  · funext j; simp

/-- Add commutes with the abstraction (same outcome, same visibility content) -/
theorem absFlat_add (m : Metric V S) (s : Flat.State V) (id : Id) (v : V) :
    absFlat (Flat.step m s (.add id v)).1 = ((absFlat s).add (flatVpre m s.dim) id v).1 ∧
    (Flat.step m s (.add id v)).2 = ((absFlat s).add (flatVpre m s.dim) id v).2 := by
  unfold Flat.step VecIdx.add flatVpre
  by_cases hd : m.dimOf v ≠ s.dim
  · simp [hd]
  · simp only [hd, if_false]
    cases hp : m.pre v with
    | none => simp
    | some v' =>
      simp only
      have happ : ∀ t : Flat.State V,
          absFlat { dim := t.dim, vecs := t.vecs ++ [(id, v')], deleted := t.deleted } =
            ⟨fun j => if j = id then (absFlat t).entries j ++ [v'] else (absFlat t).entries j,
             (absFlat t).deleted⟩ := by
        intro t
        unfold absFlat
        simp only [VecIdx.mk.injEq, and_true]
        funext j
        by_cases hj : j = id
        · subst hj; simp [List.filter_append]
        · have hb : (id == j) = false := by simpa using fun h => hj h.symm
          simp [List.filter_append, hj, hb]
      by_cases hdel : id ∈ s.deleted
      · have hc : (absFlat s).deleted id = true := by simp [absFlat, hdel]
        simp only [hdel, if_true, hc]
        refine ⟨?_, trivial⟩
        rw [happ (Flat.flushed s), absFlat_flushed]
      · have hc : (absFlat s).deleted id = false := by simp [absFlat, hdel]
        simp only [hdel, if_false, hc, Bool.false_eq_true]
        exact ⟨happ s, trivial⟩

/-- Remove commutes with the abstraction -/
theorem absFlat_remove (m : Metric V S) (s : Flat.State V) (id : Id) :
    absFlat (Flat.step m s (.remove id)).1 = ((absFlat s).remove id).1 ∧
    (Flat.step m s (.remove id)).2 = ((absFlat s).remove id).2 := by
  unfold Flat.step VecIdx.remove
  have hany : (s.vecs.any (·.1 == id)) = !((absFlat s).entries id).isEmpty := by
    unfold absFlat
    simp only
    cases hf : s.vecs.filter (fun p => p.1 == id) with
    | nil =>
      have : s.vecs.any (·.1 == id) = false := by
        rw [List.any_eq_false]
        intro p hp
        have := List.filter_eq_nil_iff.1 hf p hp
        simpa using this
      simp [this]
    | cons p t =>
      have hm : p ∈ s.vecs.filter (fun p => p.1 == id) := by rw [hf]; exact List.mem_cons_self
      have := List.mem_filter.1 hm
      have : s.vecs.any (·.1 == id) = true := List.any_eq_true.2 ⟨p, this.1, this.2⟩
      simp [this]
  by_cases h1 : s.vecs.any (·.1 == id) = true
  · have h1' : ((absFlat s).entries id).isEmpty = false := by
      rw [h1] at hany; simpa using hany.symm
    by_cases h2 : id ∈ s.deleted
    · have hc : (absFlat s).deleted id = true := by simp [absFlat, h2]
      simp [h1, h1', h2, hc]
    · have hc : (absFlat s).deleted id = false := by simp [absFlat, h2]
      simp only [h1, not_true_eq_false, if_false, h2, h1', Bool.false_eq_true, hc]
      refine ⟨?_, trivial⟩
      unfold absFlat
      simp only [VecIdx.mk.injEq, true_and]
      funext j
      by_cases hj : j = id
      · subst hj; simp
      · have : (id == j) = false := by simpa using fun h => hj h.symm
        simp [hj]
  · have h1f : s.vecs.any (·.1 == id) = false := by
      cases hb : s.vecs.any (·.1 == id) with
      | false => rfl
      | true => exact absurd hb h1
    have h1' : ((absFlat s).entries id).isEmpty = true := by
      rw [h1f] at hany
      cases hb : ((absFlat s).entries id).isEmpty with
      | true => rfl
      | false => simp [hb] at hany
    simp [h1f, h1']

/-- Flush commutes with the abstraction (up to extensional equality of the maps) -/
theorem absFlat_flush (m : Metric V S) (s : Flat.State V) :
    absFlat (Flat.step m s .flush).1 = (absFlat s).flush := by
  unfold Flat.step VecIdx.flush
  by_cases he : s.deleted.isEmpty = true
  · simp only [he, if_true]
    have hnil : s.deleted = [] := List.isEmpty_iff.1 he
    unfold absFlat VecIdx.purge
    simp [hnil]
  · simp only [he, Bool.false_eq_true, if_false]
    exact absFlat_flushed s

/-- what searches can reveal under an id, in the detailed flat model, is the visibility
    model's `visible` -/
theorem absFlat_visible (s : Flat.State V) (j : Id) :
    (absFlat s).visible j =
      ((s.vecs.filter (fun p => p.1 ∉ s.deleted)).filter (fun p => p.1 == j)).map (·.2) := by
  unfold absFlat VecIdx.visible
  simp only
  by_cases hj : s.deleted.contains j = true
  · have hm : j ∈ s.deleted := by simpa using hj
    simp only [hj, if_true, List.filter_filter]
    symm
    simp only [List.map_eq_nil_iff, List.filter_eq_nil_iff]
    intro p _
    by_cases hp : p.1 = j
    · subst hp; simp [hm]
    · have hb : (p.1 == j) = false := by simpa using hp
      simp [hb]
  · have hm : j ∉ s.deleted := by simpa using hj
    simp only [hj, Bool.false_eq_true, if_false, List.filter_filter]
    congr 1
    apply List.filter_congr
    intro p _
    by_cases hp : p.1 = j
    · subst hp; simp [hm]
    · have hb : (p.1 == j) = false := by simpa using hp
      simp [hb]

/-- one step of the visibility model on a flat-index operation -/
def vecStep (vpre : V → Except Err V) (x : VecIdx V) : Flat.Op V → VecIdx V
  | .add id v => (x.add vpre id v).1
  | .remove id => (x.remove id).1
  | .flush => x.flush

theorem absFlat_step (m : Metric V S) (s : Flat.State V) (op : Flat.Op V) :
    absFlat (Flat.step m s op).1 = vecStep (flatVpre m s.dim) (absFlat s) op := by
  cases op with
  | add id v => exact (absFlat_add m s id v).1
  | remove id => exact (absFlat_remove m s id).1
  | flush => exact absFlat_flush m s

/-- **refinement, every history**: the abstraction of the flat model after any history is the
    visibility model run on the same history -/
theorem absFlat_run (m : Metric V S) (s : Flat.State V) (ops : List (Flat.Op V)) :
    absFlat (Flat.run m s ops) = ops.foldl (vecStep (flatVpre m s.dim)) (absFlat s) := by
  induction ops generalizing s with
  | nil => rfl
  | cons op t ih =>
    simp only [Flat.run, List.foldl_cons] at ih ⊢
    rw [ih, Flat.step_dim, absFlat_step]

end Comet.Hybrid
