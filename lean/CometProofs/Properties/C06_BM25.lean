/-
  C06's text-side visibility abstraction `Hybrid.TxtIdx` is a THEOREM about the detailed
  model of bm25_index.go (Comet/BM25.lean, the one C03 is proved about): every Add /
  Remove / Flush step of the BM25 model commutes with the abstraction `absBM25` (the token
  list stored under each id, which ids are tombstoned).  Together with C03's
  `bm25_match_set` this says what C06's "findable by text" means on the real index: an id
  is returned by an unrestricted text search exactly when it is visible in the
  abstraction and shares a token with the query.
-/
import Comet.Hybrid
import Comet.BM25
import CometProofs.BM25
import CometProofs.Properties.C03
namespace Comet.Hybrid
open Comet.BM25

variable {Tok : Type} [DecidableEq Tok]

/-- the visibility content of a BM25 state -/
def absBM25 (s : BM25.State Tok) : TxtIdx (List Tok) :=
  ⟨fun j => aget s.docTokens j, fun j => decide (j ∈ s.deleted)⟩

omit [DecidableEq Tok] in
theorem absBM25_init : absBM25 (BM25.init : BM25.State Tok) = TxtIdx.empty := by
  unfold absBM25 BM25.init TxtIdx.empty
  simp only [TxtIdx.mk.injEq]
  exact ⟨by funext j; rfl, by funext j; simp⟩

/-- Add (fresh id or replacement) commutes with the abstraction -/
theorem absBM25_add (s : BM25.State Tok) (id : Id) (toks : List Tok) :
    absBM25 (BM25.add s id toks) = (absBM25 s).add id toks := by
  unfold absBM25 TxtIdx.add
  simp only [TxtIdx.mk.injEq]
  constructor
  · funext j
    rw [add_eq, an_docTokens, preAdd_docTokens, aget_aset]
    by_cases hj : j = id
    · subst hj; simp
    · simp only [hj, if_false]
      exact aget_aerase_ne _ hj
  · funext j
    rw [add_deleted]
    by_cases hj : j = id
    · subst hj; simp [mem_bmRemove]
    · simp [mem_bmRemove, hj]

omit [DecidableEq Tok] in
/-- Remove commutes with the abstraction -/
theorem absBM25_remove (s : BM25.State Tok) (id : Id) :
    absBM25 (BM25.remove s id) = (absBM25 s).remove id := by
  unfold BM25.remove TxtIdx.remove
  have e1 : ((absBM25 s).docs id).isNone = (aget s.docTokens id).isNone := rfl
  have e2 : (absBM25 s).deleted id = decide (id ∈ s.deleted) := rfl
  rw [e1, e2]
  by_cases h1 : (aget s.docTokens id).isNone = true
  · rw [if_pos h1, if_pos h1]
  · rw [if_neg h1, if_neg h1]
    by_cases h2 : id ∈ s.deleted
    · rw [if_pos h2, if_pos (by simpa using h2)]
    · rw [if_neg h2, if_neg (by simpa using h2)]
      unfold absBM25
      simp only [TxtIdx.mk.injEq, true_and]
      funext j
      by_cases hj : j = id
      · subst hj; simp
      · simp [hj]

/-- Flush commutes with the abstraction -/
theorem absBM25_flush (s : BM25.State Tok) :
    absBM25 (BM25.flush s) = (absBM25 s).flush := by
  unfold absBM25 TxtIdx.flush
  simp only [TxtIdx.mk.injEq]
  constructor
  · funext j
    rw [flush_docTokens, aget_filter_key s.docTokens (fun d => decide (d ∉ s.deleted)) j]
    by_cases hj : j ∈ s.deleted <;> simp [hj]
  · funext j
    rw [flush_deleted]; simp

/-- the abstraction of any reachable BM25 state is the visibility model run on the same ops -/
def txtStep (x : TxtIdx (List Tok)) : BM25.Op Tok → TxtIdx (List Tok)
  | .add id toks => x.add id toks
  | .remove id => x.remove id
  | .flush => x.flush

theorem absBM25_step (s : BM25.State Tok) (op : BM25.Op Tok) :
    absBM25 (BM25.step s op) = txtStep (absBM25 s) op := by
  cases op with
  | add id toks => exact absBM25_add s id toks
  | remove id => exact absBM25_remove s id
  | flush => exact absBM25_flush s

theorem absBM25_run (s : BM25.State Tok) (ops : List (BM25.Op Tok)) :
    absBM25 (BM25.run s ops) = ops.foldl txtStep (absBM25 s) := by
  induction ops generalizing s with
  | nil => rfl
  | cons op t ih =>
    simp only [BM25.run, List.foldl_cons] at ih ⊢
    rw [ih, absBM25_step]

/-- what the abstraction calls visible is exactly what C03's specification calls live -/
theorem absBM25_visible (h : List (BM25.Op Tok)) (d : Id) (toks : List Tok) :
    (absBM25 (BM25.run BM25.init h)).visible d = some toks ↔
      (d, toks) ∈ (BM25.spec h).corpus ∧ d ∉ (BM25.spec h).tomb := by
  have i := bm25_inv h
  simp only at i
  obtain ⟨hc, ht, hn, _⟩ := i
  unfold TxtIdx.visible absBM25
  simp only [hc, ht]
  by_cases hd : d ∈ (BM25.spec h).tomb
  · simp [hd]
  · simp only [hd, decide_false, Bool.false_eq_true, if_false, not_false_eq_true, and_true]
    exact aget_iff_mem hn d toks

/-- **text findability = visibility + a shared token**: on every reachable state of the BM25
    model, an unrestricted (k ≤ 0, no id restriction) search returns `d` iff `d` is visible
    in C06's abstraction with a token list sharing a token with the query. -/
theorem txt_findable_iff_visible {R S : Type} (sc : Scoring R S) (leS : S → S → Bool)
    (ord : sc.Ordered leS) (h : List (BM25.Op Tok)) (q : List Tok) (d : Id) :
    d ∈ (searchSingle sc (BM25.run BM25.init h) q 0 []).map (·.id) ↔
      ∃ toks, (absBM25 (BM25.run BM25.init h)).visible d = some toks ∧ shares q toks = true := by
  have m := (bm25_match_set sc leS ord h q 0 (Int.le_refl 0) []).2 d
  rw [m]
  constructor
  · rintro ⟨toks, hc, ht, hrest⟩
    exact ⟨toks, (absBM25_visible h d toks).2 ⟨hc, ht⟩, by simpa [eligible, shares] using hrest⟩
  · rintro ⟨toks, hv, hs⟩
    obtain ⟨hc, ht⟩ := (absBM25_visible h d toks).1 hv
    exact ⟨toks, hc, ht, by simpa [eligible, shares] using hs⟩

/-- non-vacuity: replace, remove, flush on a concrete corpus -/
example :
    let h : List (BM25.Op Nat) := [.add 1 [7, 8], .add 2 [8], .add 1 [9], .remove 2, .flush, .add 2 [5]]
    (absBM25 (BM25.run BM25.init h)).visible 1 = some [9] ∧
    (absBM25 (BM25.run BM25.init h)).visible 2 = some [5] ∧
    (absBM25 (BM25.run BM25.init h)).visible 3 = none := by decide

end Comet.Hybrid
