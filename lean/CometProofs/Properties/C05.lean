/-
  C05 — Hybrid search = metadata pre-filter, per-modality top-k, fusion, ranking.

  ONLY property theorems and non-vacuity examples.  Model: Comet/HybridSearch.lean
  (`execute` = hybridSearch.Execute, stage by stage, over oracles for the three
  sub-searches).  What the sub-searches return is decided by C01–C04 / C12–C14 and what
  `combine` computes by C19; here: how Execute composes them.

  Hypotheses about the oracles are stated explicitly where a clause needs them:
    `Respects f`   — a restricted sub-search only returns ids of the restriction
                     (C01/C02/C03: "a document-ID restriction only removes candidates");
    `KeysUnion`    — the fusion only returns ids of one of its inputs (C19: union /
                     intersection laws);
    distinctness   — sub-searches and fusion return each id once (C02/C03/C19).
-/
import Comet.HybridSearch
namespace Comet.HybridSearch

variable {F : Type}

def ids (m : ScoreMap F) : List Id := m.map (·.1)

/-- a sub-search respects its candidate restriction -/
def Respects (f : List Id → Except Err (ScoreMap F)) : Prop :=
  ∀ r m, r ≠ [] → f r = .ok m → ∀ i ∈ ids m, i ∈ r

/-- the fusion, applied to maps (each id once), returns only ids present in one of them -/
def KeysUnion (c : ScoreMap F → ScoreMap F → ScoreMap F) : Prop :=
  ∀ v t, (ids v).Nodup → (ids t).Nodup → ∀ i ∈ ids (c v t), i ∈ ids v ∨ i ∈ ids t

/-- a sub-search returns each id at most once (C02 / C03: "appears at most once") -/
def NodupOut (f : List Id → Except Err (ScoreMap F)) : Prop :=
  ∀ r m, f r = .ok m → (ids m).Nodup

/-! ### ranking stage -/

/-- for k ≥ 1 the ranking stage is the model's `selectK` … -/
theorem rank_eq_selectK (e : Env F) (k : Nat) (hk : 1 ≤ k) (c : ScoreMap F) :
    rank e k c = selectK e.ge (k : Int) (toHits c) := by
  simp only [rank, selectK, List.length_mergeSort]
  by_cases h : (toHits c).length > k
  · have : sanitizeK (k : Int) (toHits c).length = k := by
      unfold sanitizeK; split <;> omega
    simp [h, this]
  · have : sanitizeK (k : Int) (toHits c).length ≥ (toHits c).length := by
      unfold sanitizeK; split <;> omega
    simp only [h, if_false]
    rw [List.take_of_length_le]
    simp only [List.length_mergeSort]; omega

/-- … hence an exact descending top-k of the combined scores (any tie-break). -/
theorem rank_isTopK (e : Env F)
    (tot : ∀ a b : F, e.ge a b || e.ge b a) (tr : ∀ a b c : F, e.ge a b → e.ge b c → e.ge a c)
    (k : Nat) (hk : 1 ≤ k) (c : ScoreMap F) :
    IsTopK e.ge (k : Int) (toHits c) (rank e k c) := by
  rw [rank_eq_selectK e k hk c]
  exact selectK_isTopK e.ge tot tr _ _

/-- at most k results -/
theorem rank_length_le (e : Env F) (k : Nat) (c : ScoreMap F) : (rank e k c).length ≤ k := by
  simp only [rank]
  split
  · simp [List.length_take]; omega
  · simp only [List.length_mergeSort] at *; omega

/-- every result is an entry of the combined map, with that entry's score -/
theorem rank_mem (e : Env F) (k : Nat) (c : ScoreMap F) :
    ∀ h ∈ rank e k c, (h.id, h.score) ∈ c := by
  intro h hh
  have hm : h ∈ toHits c := by
    simp only [rank] at hh
    split at hh
    · exact List.mem_mergeSort.1 (List.mem_of_mem_take hh)
    · exact List.mem_mergeSort.1 hh
  simp only [toHits, List.mem_map] at hm
  obtain ⟨p, hp, rfl⟩ := hm
  exact hp

/-- distinct ids in, distinct ids out -/
theorem rank_nodup (e : Env F) (k : Nat) (c : ScoreMap F) (h : (ids c).Nodup) :
    ((rank e k c).map (·.id)).Nodup := by
  have h0 : ((toHits c).map (·.id)).Nodup := by
    simpa [toHits, ids, List.map_map, Function.comp_def] using h
  have h1 : (((toHits c).mergeSort (hitLe e.ge)).map (·.id)).Nodup :=
    ((List.mergeSort_perm (toHits c) (hitLe e.ge)).map (·.id)).nodup_iff.2 h0
  simp only [rank]
  split
  · exact h1.sublist ((List.take_sublist _ _).map _)
  · exact h1

/-! ### which scores are ranked (the "Each result's score is …" clause) -/

/-- metadata-only query: every candidate, score 1 -/
theorem combine_meta_only (e : Env F) (q : Query F) (r : List Id) (v t : ScoreMap F)
    (hv : q.hasVector = false) (ht : q.hasText = false) (hr : r ≠ []) :
    combineStage e q r v t = r.map fun id => (id, e.one) := by
  have : r.isEmpty = false := by cases r <;> simp_all
  simp [combineStage, hv, ht, this]

/-- both modalities returned something: the configured fusion of the two maps -/
theorem combine_both (e : Env F) (q : Query F) (r : List Id) (v t : ScoreMap F)
    (hq : q.hasVector = true ∨ q.hasText = true) (hv : v ≠ []) (ht : t ≠ []) :
    combineStage e q r v t = e.combine v t := by
  have h1 : v.isEmpty = false := by cases v <;> simp_all
  have h2 : t.isEmpty = false := by cases t <;> simp_all
  rcases hq with hq | hq <;> simp [combineStage, hq, h1, h2]

/-- only the vector side returned something: the vector distances themselves -/
theorem combine_vec_only (e : Env F) (q : Query F) (r : List Id) (v : ScoreMap F)
    (hq : q.hasVector = true ∨ q.hasText = true) (hv : v ≠ []) :
    combineStage e q r v [] = v := by
  have h1 : v.isEmpty = false := by cases v <;> simp_all
  rcases hq with hq | hq <;> simp [combineStage, hq, h1]

/-- only the text side returned something: the text scores themselves -/
theorem combine_txt_only (e : Env F) (q : Query F) (r : List Id) (t : ScoreMap F)
    (hq : q.hasVector = true ∨ q.hasText = true) (ht : t ≠ []) :
    combineStage e q r [] t = t := by
  have h2 : t.isEmpty = false := by cases t <;> simp_all
  rcases hq with hq | hq <;> simp [combineStage, hq, h2]

/-- a vector or text query that matches nothing yields nothing — also inside a
    non-empty filtered set (the clause the unrepaired code violated) -/
theorem combine_nothing (e : Env F) (q : Query F) (r : List Id)
    (hq : q.hasVector = true ∨ q.hasText = true) :
    combineStage e q r [] [] = [] := by
  rcases hq with hq | hq <;> simp [combineStage, hq]

/-- the unrepaired guard returned the whole filtered set in that case -/
theorem combine_old_fallback_misfire (e : Env F) (r : List Id) (hr : r ≠ []) :
    combineStageOld e r [] [] = r.map fun id => (id, e.one) := by
  have : r.isEmpty = false := by cases r <;> simp_all
  simp [combineStageOld, this]

/-- every ranked id comes from a modality's result (or, metadata-only, from the filter) -/
theorem combine_ids (e : Env F) (hc : KeysUnion e.combine) (q : Query F) (r : List Id)
    (v t : ScoreMap F) (hnv : (ids v).Nodup) (hnt : (ids t).Nodup) :
    ∀ i ∈ ids (combineStage e q r v t),
      (q.hasVector = false ∧ q.hasText = false ∧ i ∈ r) ∨ i ∈ ids v ∨ i ∈ ids t := by
  intro i hi
  unfold combineStage at hi
  split at hi
  · next h =>
    simp only [Bool.and_eq_true, Bool.not_eq_eq_eq_not, Bool.not_true] at h
    left
    refine ⟨h.1.1, h.1.2, ?_⟩
    simpa [ids, List.map_map, Function.comp_def] using hi
  · split at hi
    · right; exact hc v t hnv hnt i hi
    · split at hi
      · right; left; exact hi
      · split at hi
        · right; right; exact hi
        · simp [ids] at hi

/-! ### the whole search -/

/-- shape: at most k results, each id at most once (given distinct sub-results and a
    distinct-key fusion and filter result), every result an entry of the ranked map -/
theorem hybrid_shape (e : Env F) (q : Query F) (res : List (Hit F))
    (h : execute e q = .ok res) : res.length ≤ q.k := by
  unfold execute at h
  split at h
  · cases h
  · injection h with h; subst h; simp
  · dsimp only at h
    split at h
    · cases h
    · split at h
      · cases h
      · injection h with h; subst h; exact rank_length_le e q.k _

/-- descending order and exact top-k of the combined scores, for k ≥ 1 -/
theorem hybrid_ranked (e : Env F)
    (tot : ∀ a b : F, e.ge a b || e.ge b a) (tr : ∀ a b c : F, e.ge a b → e.ge b c → e.ge a c)
    (q : Query F) (hk : 1 ≤ q.k) (res : List (Hit F)) (h : execute e q = .ok res) :
    res = [] ∨ ∃ c : ScoreMap F, IsTopK e.ge (q.k : Int) (toHits c) res := by
  unfold execute at h
  split at h
  · cases h
  · injection h with h; left; exact h.symm
  · dsimp only at h
    split at h
    · cases h
    · split at h
      · cases h
      · injection h with h; subst h
        right
        exact ⟨_, rank_isTopK e tot tr q.k hk _⟩

/-- with a metadata filter, every result matches it (is one of the filter's ids) -/
theorem hybrid_filter_respected (e : Env F) (hc : KeysUnion e.combine) (q : Query F)
    (hf : q.hasFilters = true) (cand : List Id) (hm : e.metaSearch = some (.ok cand))
    (hv : ∀ f, e.vecSearch = some f → Respects f) (ht : ∀ f, e.txtSearch = some f → Respects f)
    (hdv : ∀ f, e.vecSearch = some f → NodupOut f) (hdt : ∀ f, e.txtSearch = some f → NodupOut f)
    (res : List (Hit F)) (h : execute e q = .ok res) :
    ∀ r ∈ res, r.id ∈ cand := by
  unfold execute at h
  have hcand : candsOf e q = .ok (some cand) := by simp [candsOf, hf, hm]
  rw [hcand] at h
  cases hcd : cand with
  | nil => simp [hcd] at h; subst h; simp
  | cons a tl =>
    have hne : cand ≠ [] := by simp [hcd]
    simp only [hcd] at h
    simp only [Option.getD_some] at h
    split at h
    · cases h
    · next vres hvres =>
      split at h
      · cases h
      · next tres htres =>
        injection h with h; subst h
        intro r hr
        have hmem := rank_mem e q.k _ r hr
        have hid : r.id ∈ ids (combineStage e q (a :: tl) vres tres) :=
          List.mem_map.2 ⟨(r.id, r.score), hmem, rfl⟩
        have hsub : ∀ (asked : Bool) (f : Option (List Id → Except Err (ScoreMap F)))
            (hR : ∀ g, f = some g → Respects g) (m : ScoreMap F),
            subSearch asked f (a :: tl) = .ok m → ∀ i ∈ ids m, i ∈ a :: tl := by
          intro asked f hR m hs i hi
          unfold subSearch at hs
          cases asked with
          | false => simp at hs; subst hs; simp [ids] at hi
          | true =>
            cases hf' : f with
            | none => simp [hf'] at hs
            | some g =>
              simp only [hf', if_true] at hs
              exact hR g hf' (a :: tl) m (by simp) hs i hi
        have hnd : ∀ (asked : Bool) (f : Option (List Id → Except Err (ScoreMap F)))
            (hD : ∀ g, f = some g → NodupOut g) (m : ScoreMap F),
            subSearch asked f (a :: tl) = .ok m → (ids m).Nodup := by
          intro asked f hD m hs
          unfold subSearch at hs
          cases asked with
          | false => simp at hs; subst hs; simp [ids]
          | true =>
            cases hf' : f with
            | none => simp [hf'] at hs
            | some g =>
              simp only [hf', if_true] at hs
              exact hD g hf' (a :: tl) m hs
        rcases combine_ids e hc q (a :: tl) vres tres (hnd _ _ hdv vres hvres)
            (hnd _ _ hdt tres htres) r.id hid with h1 | h1 | h1
        · exact h1.2.2
        · exact hsub _ _ hv vres hvres r.id h1
        · exact hsub _ _ ht tres htres r.id h1

/-- a filter that matches nothing yields an empty result -/
theorem hybrid_empty_filter_empty (e : Env F) (q : Query F) (hf : q.hasFilters = true)
    (hm : e.metaSearch = some (.ok [])) : execute e q = .ok [] := by
  simp [execute, candsOf, hf, hm]

/-- querying a modality that is not configured is an error (checked after the filter:
    a filter that already matched nothing returns the empty result first) -/
theorem hybrid_missing_metadata_err (e : Env F) (q : Query F) (hf : q.hasFilters = true)
    (hm : e.metaSearch = none) : execute e q = .error .other := by
  simp [execute, candsOf, hf, hm]

theorem hybrid_missing_vector_err (e : Env F) (q : Query F) (hf : q.hasFilters = false)
    (hv : q.hasVector = true) (hn : e.vecSearch = none) : execute e q = .error .other := by
  simp [execute, candsOf, hf, subSearch, hv, hn]

theorem hybrid_missing_text_err (e : Env F) (q : Query F) (hf : q.hasFilters = false)
    (hv : q.hasVector = false) (ht : q.hasText = true) (hn : e.txtSearch = none) :
    execute e q = .error .other := by
  simp [execute, candsOf, hf, subSearch, hv, ht, hn]

/-- every result comes from one of the per-modality answers computed inside the filtered
    set (or, for a metadata-only query, is a filtered document with score 1) -/
theorem hybrid_from_modalities (e : Env F) (hc : KeysUnion e.combine) (q : Query F)
    (hdv : ∀ f, e.vecSearch = some f → NodupOut f) (hdt : ∀ f, e.txtSearch = some f → NodupOut f)
    (res : List (Hit F)) (h : execute e q = .ok res) :
    res = [] ∨ ∃ restrict vres tres,
      subSearch q.hasVector e.vecSearch restrict = .ok vres ∧
      subSearch q.hasText e.txtSearch restrict = .ok tres ∧
      ∀ r ∈ res, (q.hasVector = false ∧ q.hasText = false ∧ r.id ∈ restrict) ∨
        r.id ∈ ids vres ∨ r.id ∈ ids tres := by
  unfold execute at h
  split at h
  · cases h
  · injection h with h; left; exact h.symm
  · dsimp only at h
    split at h
    · cases h
    · next vres hvres =>
      split at h
      · cases h
      · next tres htres =>
        injection h with h; subst h
        right
        refine ⟨_, vres, tres, hvres, htres, ?_⟩
        intro r hr
        have hmem := rank_mem e q.k _ r hr
        have hnd : ∀ (asked : Bool) (f : Option (List Id → Except Err (ScoreMap F)))
            (hD : ∀ g, f = some g → NodupOut g) (rr : List Id) (m : ScoreMap F),
            subSearch asked f rr = .ok m → (ids m).Nodup := by
          intro asked f hD rr m hs
          unfold subSearch at hs
          cases asked with
          | false => simp at hs; subst hs; simp [ids]
          | true =>
            cases hf' : f with
            | none => simp [hf'] at hs
            | some g =>
              simp only [hf', if_true] at hs
              exact hD g hf' rr m hs
        exact combine_ids e hc q _ vres tres (hnd _ _ hdv _ vres hvres) (hnd _ _ hdt _ tres htres)
          r.id (List.mem_map.2 ⟨(r.id, r.score), hmem, rfl⟩)

/-! ### non-vacuity -/
section Example
def exEnv : Env Nat :=
  { metaSearch := some (.ok [1, 2, 3]),
    vecSearch := some fun r => .ok ([(1, 5), (2, 9), (4, 1)].filter fun p => r.isEmpty || r.contains p.1),
    txtSearch := some fun r => .ok ([(2, 7), (3, 2)].filter fun p => r.isEmpty || r.contains p.1),
    combine := fun v t => v.map (fun p => (p.1, p.2 + ((t.lookup p.1).getD 0))) ++
                          t.filter (fun p => (v.lookup p.1).isNone),
    one := 1, ge := fun a b => decide (a ≥ b) }

def exQ : Query Nat := ⟨true, true, true, 2⟩
-- vector + text inside the filter {1,2,3}: id 4 is excluded by the filter, 2 has both scores
example : subSearch exQ.hasVector exEnv.vecSearch [1, 2, 3] = .ok [(1, 5), (2, 9)] := by rfl
example : subSearch exQ.hasText exEnv.txtSearch [1, 2, 3] = .ok [(2, 7), (3, 2)] := by rfl
example : combineStage exEnv exQ [1, 2, 3] [(1, 5), (2, 9)] [(2, 7), (3, 2)] =
    [(1, 5), (2, 16), (3, 2)] := by decide
example : IsTopK exEnv.ge 2 (toHits [(1, 5), (2, 16), (3, 2)]) [⟨2, 16⟩, ⟨1, 5⟩] :=
  checkTopK_sound _ _ _ _ (by decide)
-- the hypotheses of hybrid_filter_respected are met by this environment
example : KeysUnion exEnv.combine := by
  intro v t _ _ i hi
  simp only [exEnv, ids, List.map_append, List.mem_append, List.mem_map, List.map_map] at hi ⊢
  rcases hi with ⟨p, hp, rfl⟩ | ⟨p, hp, rfl⟩
  · exact Or.inl ⟨p, hp, rfl⟩
  · exact Or.inr ⟨p, (List.mem_filter.1 hp).1, rfl⟩
end Example

end Comet.HybridSearch
