/-
  C19 — result post-processing obeys its laws.   Part 2: fusion.go, storage_merge.go.

  ONLY property theorems and non-vacuity examples; helpers in CometProofs/Fusion.lean.

  Reading guide.  A Go `map[uint32]float64` is a list of (id, score) pairs with
  duplicate-free keys (`NodupKeys`); the order of the list is the order in which Go
  happens to iterate the map.  All statements are through `List.lookup` and are
  quantified over ALL such lists, i.e. they hold for every iteration order; the rank
  maps that reciprocal-rank fusion ranges over again are re-ordered by arbitrary
  permutations (`rv'`, `rt'`).  The operations `o : DOps S` (float64 `+ × ÷ <`) are
  arbitrary: the union / intersection / formula laws hold whatever they return (so
  also for ±Inf and NaN); only "best-first ranking" and "is the maximum" need an order
  (`StrictWeak`: true of floats without NaN).  Where a modality's scores contain a NaN
  "best-first" is not defined; there only a bijective 0-based ranking is claimed
  (`scoreMapToRanks_bijection`, `fusion_rrf_any_scores`) — and only that is demanded of
  the implementation by the correspondence run.  Purity ("none of them mutates its
  inputs") is trivial for the functional model; for the Go code it is checked by the
  correspondence run (inputs compared before/after every call).
-/
import CometProofs.Fusion
namespace Comet

variable {S : Type}

/-! ## weighted sum: over the union of ids -/

/-- **Weighted-sum fusion** = `v·w_v + t·w_t` over the union of the ids, a missing side
    omitted; for every iteration order of both maps and any float operations. -/
theorem fusion_weighted_sum (o : DOps S) (wv wt : S) (v t : List (Id × S))
    (hv : NodupKeys v) (ht : NodupKeys t) (id : Id) :
    (wsumFusion o wv wt v t).lookup id =
      match v.lookup id, t.lookup id with
      | some a, some b => some (o.add (o.mul a wv) (o.mul b wt))
      | some a, none => some (o.mul a wv)
      | none, some b => some (o.mul b wt)
      | none, none => none := by
  unfold wsumFusion
  rw [lookup_foldl_range _ (fun p old => some (match old with
        | some e => o.add e (o.mul p.2 wt) | none => o.mul p.2 wt)) ?_ t _ ht id]
  · rw [lookup_foldl_range _ (fun p _ => some (o.mul p.2 wv)) ?_ v [] hv id]
    · cases v.lookup id <;> cases t.lookup id <;> simp [List.lookup]
    · intro c p k; rw [lookup_aset]
  · intro c p k
    cases h : c.lookup p.1 <;> simp only <;> rw [lookup_aset]

/-! ## max over the union, min over the intersection -/

/-- **Max fusion**: over the union of the ids; with both sides present the text score
    wins iff it is strictly greater. -/
theorem fusion_max (o : DOps S) (v t : List (Id × S))
    (hv : NodupKeys v) (ht : NodupKeys t) (id : Id) :
    (maxFusion o v t).lookup id =
      match v.lookup id, t.lookup id with
      | some a, some b => some (if o.lt a b then b else a)
      | some a, none => some a
      | none, some b => some b
      | none, none => none := by
  unfold maxFusion
  rw [lookup_foldl_range _ (fun p old => some (match old with
        | some e => if o.lt e p.2 then p.2 else e | none => p.2)) ?_ t _ ht id]
  · rw [lookup_foldl_range _ (fun p _ => some p.2) ?_ v [] hv id]
    · cases v.lookup id <;> cases t.lookup id <;> simp [List.lookup]
    · intro c p k; rw [lookup_aset]
  · intro c p k
    cases h : c.lookup p.1 with
    | none => simp only; rw [lookup_aset]
    | some e =>
      simp only
      by_cases hl : o.lt e p.2 = true
      · simp only [hl, if_true]; rw [lookup_aset]
      · simp only [hl, Bool.false_eq_true, if_false]
        by_cases hk : k = p.1
        · simp [hk, h]
        · simp [hk]

/-- **Min fusion**: over the intersection of the ids only; the vector score wins iff
    it is strictly smaller. -/
theorem fusion_min (o : DOps S) (v t : List (Id × S)) (hv : NodupKeys v) (id : Id) :
    (minFusion o v t).lookup id =
      match v.lookup id, t.lookup id with
      | some a, some b => some (if o.lt a b then a else b)
      | _, _ => none := by
  unfold minFusion
  rw [lookup_foldl_range _ (fun p old => match t.lookup p.1 with
        | some ts => some (if o.lt p.2 ts then p.2 else ts) | none => old) ?_ v [] hv id]
  · dsimp only
    cases v.lookup id <;> cases t.lookup id <;> simp [List.lookup]
  · intro c p k
    cases h : t.lookup p.1 with
    | none =>
      simp only
      by_cases hk : k = p.1
      · simp [hk]
      · simp [hk]
    | some ts =>
      simp only
      by_cases hl : o.lt p.2 ts = true
      · simp only [hl, if_true]; rw [lookup_aset]
      · simp only [hl, Bool.false_eq_true, if_false]; rw [lookup_aset]

/-- the value chosen by max (min) fusion is one of the two scores and, for an ordered
    scalar, not below (above) either -/
theorem fusion_max_min_choice (o : DOps S) (sw : o.StrictWeak) (a b : S) :
    ((if o.lt a b then b else a) = a ∨ (if o.lt a b then b else a) = b) ∧
    o.lt (if o.lt a b then b else a) a = false ∧ o.lt (if o.lt a b then b else a) b = false ∧
    o.lt a (if o.lt a b then a else b) = false ∧ o.lt b (if o.lt a b then a else b) = false := by
  have irrefl : ∀ x, o.lt x x = false := by
    intro x
    cases h : o.lt x x with
    | false => rfl
    | true => have := sw.asymm x x h; rw [h] at this; cases this
  by_cases h : o.lt a b = true
  · simp [h, irrefl, sw.asymm a b h]
  · have h' : o.lt a b = false := by simpa using h
    simp [h', irrefl]

/-- results are maps again: every id at most once -/
theorem fusion_keys_nodup (o : DOps S) (wv wt K : S) (v t : List (Id × S))
    (rv rt : List (Id × Nat)) :
    NodupKeys (wsumFusion o wv wt v t) ∧ NodupKeys (maxFusion o v t) ∧
    NodupKeys (minFusion o v t) ∧ NodupKeys (rrfFrom o K rv rt) := by
  refine ⟨?_, ?_, ?_, ?_⟩
  · unfold wsumFusion
    apply nodupKeys_foldl
    · intro c p hc; cases c.lookup p.1 <;> exact nodupKeys_aset _ _ _ hc
    · apply nodupKeys_foldl
      · intro c p hc; exact nodupKeys_aset _ _ _ hc
      · exact nodupKeys_nil
  · unfold maxFusion
    apply nodupKeys_foldl
    · intro c p hc
      cases c.lookup p.1 with
      | none => exact nodupKeys_aset _ _ _ hc
      | some e => simp only; split; exact nodupKeys_aset _ _ _ hc; exact hc
    · apply nodupKeys_foldl
      · intro c p hc; exact nodupKeys_aset _ _ _ hc
      · exact nodupKeys_nil
  · unfold minFusion
    apply nodupKeys_foldl
    · intro c p hc
      cases t.lookup p.1 with
      | none => exact hc
      | some e => simp only; split <;> exact nodupKeys_aset _ _ _ hc
    · exact nodupKeys_nil
  · unfold rrfFrom
    apply nodupKeys_foldl
    · intro c p hc; cases c.lookup p.1 <;> exact nodupKeys_aset _ _ _ hc
    · apply nodupKeys_foldl
      · intro c p hc; exact nodupKeys_aset _ _ _ hc
      · exact nodupKeys_nil

/-- The three score-based fusions do not depend on the iteration order of the maps. -/
theorem fusion_order_independent (o : DOps S) (wv wt : S) {v v' t t' : List (Id × S)}
    (hv : NodupKeys v) (ht : NodupKeys t) (pv : v.Perm v') (pt : t.Perm t') (id : Id) :
    (wsumFusion o wv wt v t).lookup id = (wsumFusion o wv wt v' t').lookup id ∧
    (maxFusion o v t).lookup id = (maxFusion o v' t').lookup id ∧
    (minFusion o v t).lookup id = (minFusion o v' t').lookup id := by
  have hv' : NodupKeys v' := by
    unfold NodupKeys at *; exact ((pv.map (fun p : Id × S => p.1)).nodup_iff).1 hv
  have ht' : NodupKeys t' := by
    unfold NodupKeys at *; exact ((pt.map (fun p : Id × S => p.1)).nodup_iff).1 ht
  rw [fusion_weighted_sum o wv wt v t hv ht, fusion_weighted_sum o wv wt v' t' hv' ht',
    fusion_max o v t hv ht, fusion_max o v' t' hv' ht', fusion_min o v t hv,
    fusion_min o v' t' hv', lookup_perm hv pv id, lookup_perm ht pt id]
  exact ⟨rfl, rfl, rfl⟩

/-! ## reciprocal-rank fusion -/

/-- For ANY comparison — also one that is not an order (NaN among the scores) —
    `scoreMapToRanks` returns a bijection onto `0 … n−1`: the ranks are the positions in a
    list that contains every entry of the map exactly once.  (No panic, no duplicate
    rank, no missing id; nothing is claimed about where entries are placed.) -/
theorem scoreMapToRanks_bijection (o : DOps S) (m : List (Id × S)) (asc : Bool)
    (hm : NodupKeys m) :
    (rankOrder o m asc).Perm m ∧
    NodupKeys (scoreMapToRanks o m asc) ∧
    ∀ id, (scoreMapToRanks o m asc).lookup id = rankIn id (rankOrder o m asc) := by
  have hperm : (rankOrder o m asc).Perm m := exSort_perm _ _
  have hσ : NodupKeys (rankOrder o m asc) := by
    unfold NodupKeys at *
    exact ((hperm.map (fun p : Id × S => p.1)).nodup_iff).2 hm
  refine ⟨hperm, ?_, ?_⟩
  · unfold scoreMapToRanks
    split
    · exact nodupKeys_nil
    · exact nodupKeys_foldl _ (fun c p hc => nodupKeys_aset _ _ _ hc) _ _ nodupKeys_nil
  · intro id
    unfold scoreMapToRanks
    split
    · next h0 =>
      have : m = [] := List.eq_nil_of_length_eq_zero (by simpa using h0)
      subst this
      simp [rankOrder, exSort, exSortAux, rankIn, List.lookup]
    · have hk : NodupKeys (rankPairs (rankOrder o m asc)) := by
        unfold NodupKeys; rw [keys_rankPairs]; exact hσ
      rw [lookup_foldl_range _ (fun p _ => some p.2) (fun c p k => by rw [lookup_aset]) _ [] hk id,
        lookup_rankPairs]
      cases rankIn id (rankOrder o m asc) <;> simp [List.lookup]

/-- `scoreMapToRanks` ranks by position in a best-first ordering of the map that is
    consistent with the scores (ascending for distances, descending for relevance),
    whatever the iteration order; ranks are 0-based.  Needs the comparison to be a
    strict weak order (no NaN): otherwise "best-first" is not defined. -/
theorem scoreMapToRanks_spec (o : DOps S) (sw : o.StrictWeak) (m : List (Id × S))
    (asc : Bool) (hm : NodupKeys m) :
    IsRanking o asc m (rankOrder o m asc) ∧
    NodupKeys (scoreMapToRanks o m asc) ∧
    ∀ id, (scoreMapToRanks o m asc).lookup id = rankIn id (rankOrder o m asc) := by
  obtain ⟨hperm, h2, h3⟩ := scoreMapToRanks_bijection o m asc hm
  refine ⟨⟨hperm, ?_⟩, h2, h3⟩
  -- sorted: the exchange sort sorts under a strict weak order
  apply exSort_sorted
  · intro a b
    cases asc with
    | true =>
      simp only [shouldSwap, if_true]
      cases h : o.lt b.2 a.2 with
      | false => exact Or.inl rfl
      | true => exact Or.inr (sw.asymm _ _ h)
    | false =>
      simp only [shouldSwap, Bool.false_eq_true, if_false]
      cases h : o.lt a.2 b.2 with
      | false => exact Or.inl rfl
      | true => exact Or.inr (sw.asymm _ _ h)
  · intro a b c
    cases asc with
    | true => simp only [shouldSwap, if_true]; exact fun h1 h2 => sw.negTrans _ _ _ h1 h2
    | false =>
      simp only [shouldSwap, Bool.false_eq_true, if_false]
      exact fun h1 h2 => sw.negTrans _ _ _ h2 h1

/-- Reciprocal-rank fusion in its most general form: for every iteration order of the
    score maps and of the intermediate rank maps, and ANY comparison, the result is
    `Σ 1/(K + rank)` for rankings that list every entry of a modality exactly once
    (0-based); a modality's ranking is best-first whenever the model's exchange sort
    sorts it (`hV`, `hT` — discharged below for every strict weak order). -/
theorem fusion_rrf_general (o : DOps S) (K : S) (v t : List (Id × S))
    (hv : NodupKeys v) (ht : NodupKeys t) (rv' rt' : List (Id × Nat))
    (pv : rv'.Perm (scoreMapToRanks o v true)) (pt : rt'.Perm (scoreMapToRanks o t false))
    (strictV strictT : Bool)
    (hV : strictV = true → BestFirst o true (rankOrder o v true))
    (hT : strictT = true → BestFirst o false (rankOrder o t false)) :
    RRFSpecW o K v t (rrfFrom o K rv' rt') strictV strictT := by
  obtain ⟨rkv, nkv, lkv⟩ := scoreMapToRanks_bijection o v true hv
  obtain ⟨rkt, nkt, lkt⟩ := scoreMapToRanks_bijection o t false ht
  have nv' : NodupKeys rv' := by
    unfold NodupKeys at *; exact ((pv.map (fun p : Id × Nat => p.1)).nodup_iff).2 nkv
  have nt' : NodupKeys rt' := by
    unfold NodupKeys at *; exact ((pt.map (fun p : Id × Nat => p.1)).nodup_iff).2 nkt
  refine ⟨rankOrder o v true, rankOrder o t false, ⟨rkv, hV⟩, ⟨rkt, hT⟩, ?_⟩
  intro id
  rw [rrfFrom_lookup o K rv' rt' nv' nt' id, lookup_perm nv' pv id, lookup_perm nt' pt id,
    lkv id, lkt id]
  rfl

/-- With unordered scores (NaN) in a modality nothing is promised about the placement:
    reciprocal-rank fusion still is `Σ 1/(K + rank)` for SOME bijective 0-based ranking of
    each modality — any comparison whatsoever, no hypothesis. -/
theorem fusion_rrf_any_scores (o : DOps S) (K : S) (v t : List (Id × S))
    (hv : NodupKeys v) (ht : NodupKeys t) (rv' rt' : List (Id × Nat))
    (pv : rv'.Perm (scoreMapToRanks o v true)) (pt : rt'.Perm (scoreMapToRanks o t false)) :
    RRFSpecW o K v t (rrfFrom o K rv' rt') false false :=
  fusion_rrf_general o K v t hv ht rv' rt' pv pt false false
    (fun h => by cases h) (fun h => by cases h)

/-- **Reciprocal-rank fusion** assigns `Σ 1/(K + rank)` over the modalities in which the
    id occurs, with 0-based ranks taken best-first within each modality (vector
    ascending, text descending) in SOME ordering consistent with the scores — for every
    iteration order of the score maps (`v`, `t` arbitrary lists) and of the
    intermediate rank maps (`rv'`, `rt'` arbitrary permutations). -/
theorem fusion_rrf (o : DOps S) (sw : o.StrictWeak) (K : S) (v t : List (Id × S))
    (hv : NodupKeys v) (ht : NodupKeys t) (rv' rt' : List (Id × Nat))
    (pv : rv'.Perm (scoreMapToRanks o v true)) (pt : rt'.Perm (scoreMapToRanks o t false)) :
    RRFSpec o K v t (rrfFrom o K rv' rt') :=
  (rrfSpecW_true o K v t _).1 (fusion_rrf_general o K v t hv ht rv' rt' pv pt true true
    (fun _ => (scoreMapToRanks_spec o sw v true hv).1.2)
    (fun _ => (scoreMapToRanks_spec o sw t false ht).1.2))

/-- … in particular for the model of `Combine` itself. -/
theorem fusion_rrf_combine (o : DOps S) (sw : o.StrictWeak) (K : S) (v t : List (Id × S))
    (hv : NodupKeys v) (ht : NodupKeys t) : RRFSpec o K v t (rrfFusion o K v t) :=
  fusion_rrf o sw K v t hv ht _ _ (List.Perm.refl _) (List.Perm.refl _)

/-- Ranks are consistent with the scores: in a ranking, an entry that is strictly
    better than another (`shouldSwap worse better = true`) never has a larger rank. -/
theorem ranking_strict (o : DOps S) (asc : Bool) (m σ : List (Id × S)) (h : IsRanking o asc m σ)
    (i j : Nat) (hi : i < σ.length) (hj : j < σ.length)
    (hbetter : shouldSwap o asc σ[j] σ[i] = true) : i ≤ j := by
  rcases Nat.lt_or_ge j i with hlt | hge
  · have := (List.pairwise_iff_getElem.1 h.2) j i hj hi hlt
    rw [this] at hbetter; cases hbetter
  · exact hge

/-! ## merging store results -/

/-- **Merge**: each id once, with the running maximum (`maxScores`, i.e. `if s > best`)
    of its scores in arrival order; ids without results do not appear.  Any scalar. -/
theorem merge_spec (sc : Scalar S) (xs : List (Hit S)) :
    NodupKeys (mergeMap sc.lt xs) ∧
    ∀ id, (mergeMap sc.lt xs).lookup id =
      if scoresOf id xs = [] then none else some (maxScores sc (scoresOf id xs)) := by
  constructor
  · unfold mergeMap
    apply nodupKeys_foldl
    · intro c p hc
      unfold mergeStep
      cases c.lookup p.id with
      | none => exact nodupKeys_aset _ _ _ hc
      | some e => simp only; split; exact nodupKeys_aset _ _ _ hc; exact hc
    · exact nodupKeys_nil
  · intro id
    -- generalise the accumulator
    have key : ∀ (xs : List (Hit S)) (m : List (Id × S)),
        (xs.foldl (mergeStep sc.lt) m).lookup id =
        match m.lookup id, scoresOf id xs with
        | some e, ss => some (ss.foldl (maxStep sc) e)
        | none, [] => none
        | none, s :: ss => some (ss.foldl (maxStep sc) s) := by
      intro xs
      induction xs with
      | nil => intro m; simp only [List.foldl_nil]; cases h : m.lookup id <;> simp [scoresOf]
      | cons r xs ih =>
        intro m
        simp only [List.foldl_cons]
        rw [ih]
        by_cases hr : r.id = id
        · have hs : scoresOf id (r :: xs) = r.score :: scoresOf id xs := by
            simp [scoresOf, hr]
          rw [hs]
          subst hr
          unfold mergeStep
          cases hm : m.lookup r.id with
          | none => simp only; rw [lookup_aset]; simp
          | some e =>
            simp only
            by_cases hl : sc.lt e r.score = true
            · simp only [hl, if_true]; rw [lookup_aset]; simp [maxStep, hl]
            · simp only [hl, Bool.false_eq_true, if_false, hm]; simp [maxStep, hl]
        · have hs : scoresOf id (r :: xs) = scoresOf id xs := by
            simp [scoresOf, hr]
          rw [hs]
          have hne : ¬ id = r.id := fun e => hr e.symm
          have hsame : (mergeStep sc.lt m r).lookup id = m.lookup id := by
            unfold mergeStep
            cases m.lookup r.id with
            | none => simp only; rw [lookup_aset]; simp [hne]
            | some e => simp only; split; rw [lookup_aset]; simp [hne]; rfl
          rw [hsame]
    unfold mergeMap
    rw [key xs []]
    cases h : scoresOf id xs with
    | nil => simp [List.lookup]
    | cons s ss => simp [List.lookup, maxScores_cons]

/-- … and for an ordered scalar that running maximum is the highest score of the id. -/
theorem merge_keeps_highest (sc : Scalar S) (ord : sc.Ordered) (xs : List (Hit S)) (id : Id)
    (s : S) (h : (mergeMap sc.lt xs).lookup id = some s) :
    s ∈ scoresOf id xs ∧ ∀ x ∈ scoresOf id xs, sc.le x s = true := by
  rw [(merge_spec sc xs).2 id] at h
  split at h
  · cases h
  · next hne =>
    injection h with h
    subst h
    exact maxScores_spec sc ord _ hne

/-- the returned slice lists each id of the input exactly once (empty input ↦ nil) -/
theorem merge_results_ids (sc : Scalar S) (xs : List (Hit S)) :
    ((mergeResults sc.lt xs).map (·.id)).Nodup ∧
    ∀ i, i ∈ (mergeResults sc.lt xs).map (·.id) ↔ i ∈ xs.map (·.id) := by
  obtain ⟨hn, hl⟩ := merge_spec sc xs
  unfold mergeResults
  split
  · next h0 =>
    have : xs = [] := List.eq_nil_of_length_eq_zero (by simpa using h0)
    subst this; simp
  · simp only [List.map_map, Function.comp_def]
    refine ⟨hn, fun i => ?_⟩
    have := lookup_isSome_iff i (mergeMap sc.lt xs)
    rw [← this, hl i]
    constructor
    · intro h
      by_cases he : scoresOf i xs = []
      · simp [he] at h
      · cases hs : scoresOf i xs with
        | nil => exact absurd hs he
        | cons s ss =>
          have : s ∈ scoresOf i xs := by rw [hs]; simp
          simp only [scoresOf, List.mem_map, List.mem_filter] at this
          obtain ⟨x, ⟨hx, hid⟩, _⟩ := this
          exact List.mem_map.2 ⟨x, hx, by simpa using hid⟩
    · intro h
      simp [scoresOf_ne_nil xs i h]

/-- `sortResultsByScore` sorts descending and only permutes. -/
theorem sortResults_desc (sc : Scalar S) (ord : sc.Ordered) (xs : List (Hit S)) :
    (sortResultsByScore sc.le xs).Perm xs ∧
    (sortResultsByScore sc.le xs).Pairwise fun a b => sc.le b.score a.score = true :=
  ⟨List.mergeSort_perm _ _,
   List.pairwise_mergeSort (le := hitLe fun a b => sc.le b a)
    (fun a b c h1 h2 => ord.trans c.score b.score a.score h2 h1)
    (fun a b => by have := ord.total b.score a.score; simpa [hitLe, Bool.or_comm] using this) _⟩

/-! ## non-vacuity -/

section Examples

def vEx : List (Id × Nat) := [(1, 30), (2, 10), (3, 20)]      -- distances: 2 best
def tEx : List (Id × Nat) := [(3, 5), (4, 9), (2, 5)]         -- relevance: 4 best, 3 and 2 tie

example : NodupKeys vEx ∧ NodupKeys tEx := by decide
-- weighted sum over the union {1,2,3,4}
example : wsumFusion natOps 2 3 vEx tEx = [(1, 60), (2, 35), (3, 55), (4, 27)] := by decide
-- max over the union, min over the intersection {2,3}
example : maxFusion natOps vEx tEx = [(1, 30), (2, 10), (3, 20), (4, 9)] := by decide
example : minFusion natOps vEx tEx = [(2, 5), (3, 5)] := by decide
-- ranks: vector ascending, text descending (tie between 3 and 2 broken by map order)
example : rankOrder natOps vEx true = [(2, 10), (3, 20), (1, 30)] := by decide
example : rankOrder natOps tEx false = [(4, 9), (3, 5), (2, 5)] := by decide
example : scoreMapToRanks natOps tEx false = [(4, 0), (3, 1), (2, 2)] := by decide
-- another iteration order of the same map ranks the tie the other way round
example : scoreMapToRanks natOps [(2, 5), (4, 9), (3, 5)] false = [(4, 0), (2, 1), (3, 2)] := by
  decide
-- RRF with K = 1: 60/(1+rank) summed over the modalities
example : rrfFusion natOps 1 vEx tEx = [(2, 80), (3, 60), (1, 20), (4, 60)] := by decide
-- the hypotheses of `fusion_rrf` are satisfiable by this instance, for a permuted rank map
example : RRFSpec natOps 1 vEx tEx (rrfFrom natOps 1 [(1, 2), (2, 0), (3, 1)] [(2, 2), (3, 1), (4, 0)]) :=
  fusion_rrf natOps natOps_strictWeak 1 vEx tEx (by decide) (by decide) _ _
    (by decide) (by decide)
-- the verified checkers accept a correct answer and reject wrong ones
example : checkRanks natOps false tEx [(2, 1), (3, 2), (4, 0)] = true := by decide
example : checkRanks natOps false tEx [(2, 1), (3, 0), (4, 2)] = false := by decide   -- worst first
example : checkRanks natOps false tEx [(2, 2), (3, 2), (4, 1)] = false := by decide   -- 1-based
-- the non-strict checker (a NaN in the modality): any bijection onto 0 … n−1 is accepted,
-- a duplicate / missing / 1-based rank is still rejected; the strict one is `checkRanks`
example : checkRanksW natOps false false tEx [(2, 1), (3, 0), (4, 2)] = true := by decide
example : checkRanksW natOps false false tEx [(2, 2), (3, 2), (4, 1)] = false := by decide
example : checkRanksW natOps false false tEx [(2, 1), (3, 2), (4, 3)] = false := by decide
example : checkRanksW natOps false false tEx [(2, 1), (3, 0)] = false := by decide
example : checkRanksW natOps false true tEx [(2, 1), (3, 0), (4, 2)] = false := by decide
-- merge: duplicates keep the highest score; nothing for an empty input
example : mergeResults (fun a b : Nat => decide (a < b)) [⟨5, 2⟩, ⟨6, 9⟩, ⟨5, 7⟩, ⟨5, 3⟩, ⟨6, 1⟩] = [⟨5, 7⟩, ⟨6, 9⟩] := by
  decide
example : mergeResults (fun a b : Nat => decide (a < b)) ([] : List (Hit Nat)) = [] := by decide

end Examples

end Comet
