/-
  C08 — an acknowledged write to the persistent store stays visible; no search returns
  an id that was never added.

  ONLY property theorems and non-vacuity examples (model: Comet/Storage/*.lean, helpers:
  CometProofs/Storage/*.lean). `Reach cfg s` = every state producible by any sequence of
  client steps, worker steps (flush worker: wake / listFrozen / write+register / drop
  memtable; compaction worker: wake / list / load each source / write / swap+delete),
  close–reopen cycles and crashes; a search carries its own schedule of segment events
  (`load i` / `scan i` in any order), so "every interleaving" is "every step sequence
  and every schedule".

  Status.
  * `store_no_phantom`: FULL.
  * visibility: the full statement `StoreVisible` is FALSE for the code as it is (D13, D14);
    negations from concrete witnesses replayed on the real code on every run (corpus/C08):
    `store_lost_after_segment_load`, `store_compaction_loses`. Partial:
    `store_visible_partial` — for every history, interleaving and schedule in which no
    segment load replaced shared content that held a live document the loaded segment lacks
    (`Ghost.loadLost = false`, a decidable predicate of the trace).
  * third sentence (vector-only answers = id set of an in-memory index over the live
    documents): ⊇ is `store_visible_partial`; ⊆ splits into `store_no_phantom` (full) and
    "no removed document is returned", whose full statement `StoreNoRemovedReturned` is
    FALSE (`store_removed_revived`, D13); its partial form is checked by the correspondence
    run only (predicate `exact` of the driver), not proved.
-/
import CometProofs.Storage.Spec
namespace Comet.Storage

/-! ## no phantom ids (full) -/

/-- FULL. In every reachable state, under every schedule of the segment goroutines, every id
    a search returns was acknowledged by an earlier Add / AddWithID. -/
theorem store_no_phantom {cfg : Cfg} {s : Store} (h : Reach cfg s) (q : Q) (sched : List SegEv)
    (l : List Id) (hr : (exec s (.search q sched)).2 = .ids l) :
    ∀ i ∈ l, ∃ d ∈ s.gh.acked, d.id = i := by
  intro i hi
  have := search_result_sub (phInv_reach h) q sched l hr i hi
  obtain ⟨d, hd, rfl⟩ := List.mem_map.mp this
  exact ⟨d, hd, rfl⟩

/-! ## visibility -/

/-- FULL statement: in every reachable state of an open store, under every schedule, every
    document acknowledged by this store instance and not removed since is returned by a probe
    of every modality it carries. -/
def StoreVisible : Prop :=
  ∀ (cfg : Cfg) (s : Store), Reach cfg s → running s = true →
    ∀ (q : Q) (sched : List SegEv), ∀ d ∈ s.gh.sess, Doc.matches s.cfg.tpl d q = true → found s q sched d

/-- PARTIAL. For every history, interleaving with the background workers, and schedule of the
    segment goroutines in which no segment load has replaced shared content holding a live
    document that the loaded segment lacks (`loadLost = false`): every document acknowledged by
    this store instance and not removed is returned by every probe it matches. -/
theorem store_visible_partial {cfg : Cfg} {s : Store} (h : Reach cfg s) (hr : running s = true)
    (hl : s.gh.loadLost = false) (q : Q) (sched : List SegEv) (d : Doc) (hd : d ∈ s.gh.sess)
    (hm : Doc.matches s.cfg.tpl d q = true) : found s q sched d := by
  have inv := visInv_reach h
  have ho : s.opened = true := by
    unfold running at hr; cases hop : s.opened <;> simp [hop] at hr ⊢
  have hcov := inv.cov hl d hd
  have hmem := covered_matchIds hcov hm
  have hne := inv.mtsNe ho
  unfold found
  simp only [exec, execSearch]
  rw [if_neg (by simp [hr]), if_neg (by simp [matches_has hm])]
  refine ⟨_, rfl, ?_⟩
  apply List.mem_eraseDups.mpr
  apply acc_mono
  simp only
  cases hmts : s.mts with
  | nil => exact absurd hmts hne
  | cons m r => simp [hmem]

def cfgTiny : Cfg := ⟨⟨true, true, true⟩, 1, 209715200, 2⟩
def cfgBig : Cfg := ⟨⟨true, true, true⟩, 104857600, 209715200, 2⟩
def docA : Doc := ⟨1, 3, 6, 2⟩
def docB : Doc := ⟨2, 3, 6, 2⟩
def docC : Doc := ⟨3, 3, 6, 2⟩

/-- D13 witness (corpus/C08/store_d13_lost_after_segment_load.json): memtable limit 1; add a; add b;
    Flush; add c; search (loads segments 1 and 2 over the shared templates) -/
def traceLost : List Step :=
  [.add docA, .add docB, .flush, .add docC, .search .vec (serialSched [1, 2])]

/-- NEGATION (D13): three identical vector searches return {a,b,c}, {a,b}, {a,b}; `c`, acknowledged
    and never removed, is lost after the first one. -/
theorem store_lost_after_segment_load : ¬ StoreVisible := by
  intro h
  have := h cfgTiny (run (Store.init cfgTiny) traceLost) (reach_run _ _) (by decide)
    .vec (serialSched [1, 2]) docC (by decide) (by decide)
  obtain ⟨l, hl, hm⟩ := this
  have e : (exec (run (Store.init cfgTiny) traceLost) (.search .vec (serialSched [1, 2]))).2 = .ids [1, 2] := by
    decide
  rw [e] at hl
  injection hl with hl
  subst hl
  revert hm; decide

/-- the first of the three searches still sees `c` (memtables are searched before segments) -/
example : (exec (run (Store.init cfgTiny) [.add docA, .add docB, .flush, .add docC])
    (.search .vec (serialSched [1, 2]))).2 = .ids [1, 2, 3] := by decide

/-- D14 witness (corpus/C08/store_d14_compaction_loses.json): threshold 2; add a; rotate; Flush;
    add b; rotate; Flush; add c; TriggerCompaction; the worker wakes, lists, loads its two sources
    over the shared templates, writes what they hold now, swaps and deletes -/
def traceCompaction : List Step :=
  [.add docA, .rotate, .flush, .add docB, .rotate, .flush, .add docC, .trigger,
   .bg .cwake, .bg .clist, .bg .cload, .bg .cload, .bg .cwrite, .bg .cswap]

/-- NEGATION (D14): after the compaction `c` — acknowledged, never removed, no search ran before —
    is not returned; the merged segment 3 holds {a, b} and the sources are gone. -/
theorem store_compaction_loses : ¬ StoreVisible := by
  intro h
  have := h cfgBig (run (Store.init cfgBig) traceCompaction) (reach_run _ _) (by decide)
    .vec (serialSched [3]) docC (by decide) (by decide)
  obtain ⟨l, hl, hm⟩ := this
  have e : (exec (run (Store.init cfgBig) traceCompaction) (.search .vec (serialSched [3]))).2 = .ids [1, 2] := by
    decide
  rw [e] at hl
  injection hl with hl
  subst hl
  revert hm; decide

example : (run (Store.init cfgBig) traceCompaction).segs = [⟨3, false⟩] ∧
    FS.segIds (run (Store.init cfgBig) traceCompaction).fs = [3, 3, 3, 3] ∧
    (run (Store.init cfgBig) traceCompaction).gh.compacted = true := by decide

/-! ## vector-only answers contain no removed document -/

/-- FULL statement (⊆-half of the third sentence, beyond `store_no_phantom`): a vector-only
    probe never returns a document whose Remove returned nil (ids are not re-added). -/
def StoreNoRemovedReturned : Prop :=
  ∀ (cfg : Cfg) (s : Store), Reach cfg s → s.gh.readded = false →
    ∀ (sched : List SegEv) (l : List Id), (exec s (.search .vec sched)).2 = .ids l →
      ∀ i ∈ l, i ∉ s.gh.removed

/-- D13 witness (corpus/C08/store_d13_removed_revived.json): rotate (an empty frozen memtable);
    add a; Flush — the empty memtable's segment holds the whole shared content, a included;
    Remove a = nil -/
def traceRevived : List Step := [.rotate, .add docA, .flush, .remove 1]

/-- NEGATION (D13): the next vector search loads that segment over the templates and returns `a`. -/
theorem store_removed_revived : ¬ StoreNoRemovedReturned := by
  intro h
  have := h cfgBig (run (Store.init cfgBig) traceRevived) (reach_run _ _) (by decide)
    (serialSched [1]) [1] (by decide) 1 (by decide)
  revert this; decide

/-! ## non-vacuity of the partial theorem -/

/-- a history with a background flush taken step by step, a search while the memtable and its
    segment coexist, an eviction and a reload: `loadLost` stays false and everything is found -/
example :
    let cfg : Cfg := ⟨⟨true, true, true⟩, 300, 64, 5⟩
    let s := run (Store.init cfg)
      [.add docA, .bg .fwake, .add docB, .bg .flist, .bg .fwrite, .search .vec (serialSched [1]),
       .bg .fremove, .bg .fwake, .bg .flist, .evict, .search .txt (serialSched [1])]
    running s = true ∧ s.gh.loadLost = false ∧ s.gh.sess = [docB, docA] ∧ s.segs = [⟨1, true⟩] ∧
    (exec s (.search .md (serialSched [1]))).2 = .ids [1, 2] := by decide

end Comet.Storage
