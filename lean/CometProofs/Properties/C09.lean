/-
  C09 — data acknowledged by Flush or Close survives a restart; segment identifiers
  are never reused.

  ONLY property theorems and non-vacuity examples; the model is Comet/Storage/*.lean,
  helper lemmas are in CometProofs/Storage/*.lean.

  Reading guide. `Reach cfg s`: `s` is produced from the empty directory by ANY sequence
  of client steps, worker steps (at the granularity of their lock-delimited regions),
  Close / reopen-with-fresh-templates cycles and crashes (death `k` file operations into
  any step, un-synced files cut arbitrarily, LOCK removed by the operator). The ghost
  fields of `s.gh` record the history: `everNamed` (ids that ever named a file),
  `reused` / `overwrote` (set at the moment a nextSegmentID result is ≤ such an id /
  an os.Create hits an existing file), `promised` (documents acknowledged before a
  Flush()/Close() of their store instance returned nil).

  Status.
  * segment identifiers: FULL (`segment_ids_fresh` and corollaries).
  * durability: the full statement `DurableAfterFlushClose` is FALSE for the code as it
    is; negations are proved from concrete witnesses that are replayed on the real code
    on every run (corpus/C09): `flush_skips_mutable`, `close_skips_mutable` (D12) and
    `durable_frozen_lost_after_segment_load` (D13). Partial: `durable_partial` (client
    Flush), `durable_partial_worker` (the flush worker's write, which is also what Close's
    final flush does): what a flush writes while at least one memtable is frozen and no
    segment load has lost live content is found by the first search of EVERY later store
    instance — across any number of further sessions, flushes, worker steps and crashes —
    as long as no compaction swap deletes it; and (`durable_every_search_partial`,
    `…_worker`) by EVERY search of every later state in which `loadLost` is still false
    and the document was not removed.
-/
import CometProofs.Storage.DurableAll
namespace Comet.Storage

/-! ## segment identifiers are never reused (full) -/

/-- FULL. Across any sequence of sessions, flushes, compactions and crashes: no
    nextSegmentID result was ever ≤ an id that had named a file in the directory, and no
    os.Create ever hit an existing file (so no file of an earlier segment is overwritten). -/
theorem segment_ids_fresh {cfg : Cfg} {s : Store} (h : Reach cfg s) :
    s.gh.reused = false ∧ s.gh.overwrote = false :=
  ⟨(idInv_reach h).noReuse, (idInv_reach h).noOver⟩

/-- the next id an open store hands out exceeds every id that names a file now and every id
    that ever named one -/
theorem next_segment_id_exceeds_history {cfg : Cfg} {s : Store} (h : Reach cfg s) (ho : s.opened = true) :
    (∀ i ∈ FS.segIds s.fs, i < s.counter + 1) ∧ (∀ i ∈ s.gh.everNamed, i < s.counter + 1) := by
  have inv := idInv_reach h
  have hc : initCounter s.fs ≤ s.counter := initCounter_le _ _ (inv.fsLe ho)
  exact ⟨fun i hi => Nat.lt_succ_of_le (inv.fsLe ho i hi),
         fun i hi => Nat.lt_succ_of_le (Nat.le_trans (inv.ever i hi) hc)⟩

/-- a reopen (any later process; also after a crash) initialises the counter at or above every
    id that ever named a file — including ids whose files a compaction has deleted since -/
theorem reopen_counter_covers_history {cfg : Cfg} {s : Store} (h : Reach cfg s) (hc : s.opened = false) :
    ∀ i ∈ s.gh.everNamed, i ≤ (exec s .reopen).1.counter ∨ (exec s .reopen).2 = .errLocked := by
  intro i hi
  have inv := idInv_reach h
  have e : (exec s .reopen) = openOn s.cfg s.fs Shared.empty s.gh := by simp [exec, hc]
  rw [e]
  unfold openOn
  split
  · exact .inr rfl
  · left
    show i ≤ initCounter (FS.put s.fs .lock ⟨.lock, .full⟩)
    rw [initCounter_congr _ _ (segIds_put_lock s.fs _)]
    exact inv.ever i hi

/-- `initSegmentCounter` is at least every id naming any file of the directory, orphans of a
    half-written or half-deleted segment included (holds for EVERY directory) -/
theorem init_counter_covers_every_file (fs : FS) : ∀ i ∈ FS.segIds fs, i ≤ initCounter fs :=
  fun i hi => le_initCounter fs i hi

/-! ## durability: the full statement, and why the code does not satisfy it -/

/-- FULL statement (first sentence of the property): in every reachable state of an open
    store, every document acknowledged before a Flush()/Close() of its store instance
    returned nil, and not removed, is found by a probe of every modality it carries — by
    this and every later store instance opened on the directory with fresh templates. -/
def DurableAfterFlushClose : Prop :=
  ∀ (cfg : Cfg) (s : Store), Reach cfg s → running s = true →
    ∀ (q : Q) (sched : List SegEv), SerialFor s sched →
      ∀ d ∈ s.gh.promised, d.id ∉ s.gh.removed → Doc.matches s.cfg.tpl d q = true → found s q sched d

def cfgDefault : Cfg := ⟨⟨true, true, true⟩, 104857600, 209715200, 5⟩
def docA : Doc := ⟨1, 3, 6, 2⟩
def docB : Doc := ⟨2, 3, 6, 2⟩
def docC : Doc := ⟨3, 3, 6, 2⟩

/-- D12 witness (corpus/C09/restart_d12_flush_skips_mutable.json): default memtable size;
    add a; Flush; Close; reopen with fresh templates -/
def traceFlushSkips : List Step := [.add docA, .flush] ++ closeIdle ++ [.reopen]

/-- D12 witness (corpus/C09/restart_d12_close_skips_mutable.json): add a; Close; reopen -/
def traceCloseSkips : List Step := [.add docA] ++ closeIdle ++ [.reopen]

/-- NEGATION (D12). After `add a; Flush() = nil; Close() = nil; reopen`, `a` is promised, the
    store is open, and the vector probe returns nothing. -/
theorem flush_skips_mutable : ¬ DurableAfterFlushClose := by
  intro h
  have := h cfgDefault (run (Store.init cfgDefault) traceFlushSkips) (reach_run _ _) (by decide)
    .vec [] ⟨[], by decide, rfl⟩ docA (by decide) (by decide) (by decide)
  obtain ⟨l, hl, hm⟩ := this
  have e : (exec (run (Store.init cfgDefault) traceFlushSkips) (.search .vec [])).2 = .ids [] := by decide
  rw [e] at hl
  injection hl with hl
  subst hl
  cases hm

/-- NEGATION (D12), Close alone: `add a; Close() = nil; reopen` loses `a`. -/
theorem close_skips_mutable : ¬ DurableAfterFlushClose := by
  intro h
  have := h cfgDefault (run (Store.init cfgDefault) traceCloseSkips) (reach_run _ _) (by decide)
    .txt [] ⟨[], by decide, rfl⟩ docA (by decide) (by decide) (by decide)
  obtain ⟨l, hl, hm⟩ := this
  have e : (exec (run (Store.init cfgDefault) traceCloseSkips) (.search .txt [])).2 = .ids [] := by decide
  rw [e] at hl
  injection hl with hl
  subst hl
  cases hm

def cfgTiny : Cfg := ⟨⟨true, true, true⟩, 1, 209715200, 5⟩

/-- D13 witness in a restart history (corpus/C09/restart_d13_flush_after_load.json): memtable
    limit 1 (every add rotates first); add a; Flush; add b; a search loads segment 1 over the
    shared templates (b vanishes from them); add c; Flush — b sits in a FROZEN memtable and its
    segment is written, but from templates that no longer hold b; Close; reopen. -/
def traceFrozenLost : List Step :=
  [.add docA, .flush, .add docB, .search .vec (serialSched [1]), .add docC, .flush] ++ closeIdle ++ [.reopen]

/-- NEGATION (D13): even a document that was in a frozen memtable when Flush was called (so that
    its memtable WAS written) can be lost: after the restart every segment is loaded and scanned,
    `b` is promised and never removed, and the answer is {a, c}. -/
theorem durable_frozen_lost_after_segment_load :
    let s1 := run (Store.init cfgTiny) [.add docA, .flush, .add docB, .search .vec (serialSched [1]), .add docC]
    let s := run (Store.init cfgTiny) traceFrozenLost
    -- b is in a frozen memtable when the second Flush is called
    ((butLast s1.mts).any fun m => m.info.any fun i => i.id == docB.id) = true ∧
    docB ∈ s.gh.promised ∧ docB.id ∉ s.gh.removed ∧
    (exec s (.search .vec (serialSched [1, 2, 3]))).2 = .ids [1, 3] := by decide

/-! ## durability: what does hold -/

/-- PARTIAL (client Flush). Let Flush() be called in a reachable state in which at least one
    memtable is frozen (`m ∈ butLast s.mts`: every document of a memtable frozen before the call
    is covered, and — because every segment holds the whole shared content — so is every other
    live document of the session) and no segment load has lost live content so far. Then, after
    ANY continuation `xs` (client steps, worker steps, further sessions, crashes) that contains no
    compaction swap and ends with the directory closed, a store reopened with fresh templates finds
    `d` through every modality it carries, under every serialised schedule of the segment goroutines. -/
theorem durable_partial {cfg : Cfg} {s : Store} (hr : Reach cfg s) (hrun : running s = true)
    (hl : s.gh.loadLost = false) (d : Doc) (hd : d ∈ s.gh.sess)
    (m : Memtable) (hm : m ∈ butLast s.mts)
    (xs : List XStep) (hx : ∀ x ∈ xs, noSwap x = true)
    (hclosed : (xrun (exec s .flush).1 xs).opened = false)
    (q : Q) (hq : Doc.matches cfg.tpl d q = true) (sched : List SegEv)
    (hrun3 : running (exec (xrun (exec s .flush).1 xs) .reopen).1 = true)
    (hs : SerialFor (exec (xrun (exec s .flush).1 xs) .reopen).1 sched) :
    found (exec (xrun (exec s .flush).1 xs) .reopen).1 q sched d := by
  have hcov := (visInv_reach hr).cov hl d hd
  have h1 := segHolds_flush (idInv_reach hr) hrun hcov (by intro e; rw [e] at hm; cases hm)
  have hr1 : Reach cfg (exec s .flush).1 := reach_step hr .flush
  have h2 := segHolds_xrun xs hr1 h1 hx
  have hr2 : Reach cfg (xrun (exec s .flush).1 xs) := reach_xrun hr1 xs
  have hc2 := reach_cfg hr2
  generalize xrun (exec s .flush).1 xs = s2 at hclosed hrun3 hs h2 hc2 ⊢
  have e : exec s2 .reopen = openOn cfg s2.fs Shared.empty s2.gh := by
    simp [exec, hclosed, hc2]
  rw [e] at hrun3 hs ⊢
  rw [hc2] at h2
  exact found_after_open h2 hq hrun3 sched hs

/-- PARTIAL (flush worker; Close's final flush is this worker's last round). The same for the
    worker's step "flushMemtable(m)" — whatever memtable it is about to write. -/
theorem durable_partial_worker {cfg : Cfg} {s : Store} (hr : Reach cfg s)
    (hl : s.gh.loadLost = false) (d : Doc) (hd : d ∈ s.gh.sess)
    (f : Bool) (m : Memtable) (rest : List Memtable) (hfw : s.fw = .todo f (m :: rest))
    (xs : List XStep) (hx : ∀ x ∈ xs, noSwap x = true)
    (hclosed : (xrun (exec s (.bg .fwrite)).1 xs).opened = false)
    (q : Q) (hq : Doc.matches cfg.tpl d q = true) (sched : List SegEv)
    (hrun3 : running (exec (xrun (exec s (.bg .fwrite)).1 xs) .reopen).1 = true)
    (hs : SerialFor (exec (xrun (exec s (.bg .fwrite)).1 xs) .reopen).1 sched) :
    found (exec (xrun (exec s (.bg .fwrite)).1 xs) .reopen).1 q sched d := by
  have hcov := (visInv_reach hr).cov hl d hd
  have h1 := segHolds_fwrite hfw hcov
  have hr1 : Reach cfg (exec s (.bg .fwrite)).1 := reach_step hr _
  have h2 := segHolds_xrun xs hr1 h1 hx
  have hr2 : Reach cfg (xrun (exec s (.bg .fwrite)).1 xs) := reach_xrun hr1 xs
  have hc2 := reach_cfg hr2
  generalize xrun (exec s (.bg .fwrite)).1 xs = s2 at hclosed hrun3 hs h2 hc2 ⊢
  have e : exec s2 .reopen = openOn cfg s2.fs Shared.empty s2.gh := by
    simp [exec, hclosed, hc2]
  rw [e] at hrun3 hs ⊢
  rw [hc2] at h2
  exact found_after_open h2 hq hrun3 sched hs

/-- PARTIAL, every search. Under the hypotheses of `durable_partial` for the Flush, let `s2` be ANY
    later state — of the same store instance or of any later one, after any continuation without a
    compaction swap — in which the store is open, no segment load has lost live content so far
    (`loadLost = false`) and `d` was not removed: EVERY serialised search of `s2` finds `d`. -/
theorem durable_every_search_partial {cfg : Cfg} {s : Store} (hr : Reach cfg s) (hrun : running s = true)
    (hl : s.gh.loadLost = false) (d : Doc) (hd : d ∈ s.gh.sess)
    (m : Memtable) (hm : m ∈ butLast s.mts)
    (xs : List XStep) (hx : ∀ x ∈ xs, noSwap x = true)
    (hrun2 : running (xrun (exec s .flush).1 xs) = true)
    (hl2 : (xrun (exec s .flush).1 xs).gh.loadLost = false)
    (hrem : d.id ∉ (xrun (exec s .flush).1 xs).gh.removed)
    (q : Q) (hq : Doc.matches cfg.tpl d q = true) (sched : List SegEv)
    (hs : SerialFor (xrun (exec s .flush).1 xs) sched) :
    found (xrun (exec s .flush).1 xs) q sched d := by
  have hcov := (visInv_reach hr).cov hl d hd
  have h1 := kInv_after_flush (idInv_reach hr) hrun hcov (by intro e; rw [e] at hm; cases hm)
  have hr1 : Reach cfg (exec s .flush).1 := reach_step hr .flush
  have h2 := kInv_xrun xs hr1 h1 hx
  have hr2 : Reach cfg (xrun (exec s .flush).1 xs) := reach_xrun hr1 xs
  exact found_of_kInv (visInv_reach hr2) h2 hrun2 hl2 hrem q (by rw [reach_cfg hr2]; exact hq) sched hs

/-- PARTIAL, every search, for the flush worker's write (and hence Close's final flush). -/
theorem durable_every_search_partial_worker {cfg : Cfg} {s : Store} (hr : Reach cfg s)
    (hl : s.gh.loadLost = false) (d : Doc) (hd : d ∈ s.gh.sess)
    (f : Bool) (m : Memtable) (rest : List Memtable) (hfw : s.fw = .todo f (m :: rest))
    (xs : List XStep) (hx : ∀ x ∈ xs, noSwap x = true)
    (hrun2 : running (xrun (exec s (.bg .fwrite)).1 xs) = true)
    (hl2 : (xrun (exec s (.bg .fwrite)).1 xs).gh.loadLost = false)
    (hrem : d.id ∉ (xrun (exec s (.bg .fwrite)).1 xs).gh.removed)
    (q : Q) (hq : Doc.matches cfg.tpl d q = true) (sched : List SegEv)
    (hs : SerialFor (xrun (exec s (.bg .fwrite)).1 xs) sched) :
    found (xrun (exec s (.bg .fwrite)).1 xs) q sched d := by
  have hcov := (visInv_reach hr).cov hl d hd
  have h1 := kInv_after_fwrite (idInv_reach hr) hfw hcov
  have hr1 : Reach cfg (exec s (.bg .fwrite)).1 := reach_step hr _
  have h2 := kInv_xrun xs hr1 h1 hx
  have hr2 : Reach cfg (xrun (exec s (.bg .fwrite)).1 xs) := reach_xrun hr1 xs
  exact found_of_kInv (visInv_reach hr2) h2 hrun2 hl2 hrem q (by rw [reach_cfg hr2]; exact hq) sched hs

/-! ## non-vacuity -/

/-- the hypotheses of `durable_partial` are satisfiable: memtable limit 1, `add a; add b` (a's
    memtable is frozen, b's is mutable), no load so far; continuation = Close with its final flush,
    a whole further session with an add, a Flush and a crash in the middle of that Flush -/
example :
    let s := run (Store.init cfgTiny) [.add docA, .add docB]
    let xs : List XStep := (closeFlushing 1).map XStep.step ++
      [.step .reopen, .step (.add docC), .crash .flush 5 (fun _ => .data)]
    running s = true ∧ s.gh.loadLost = false ∧ docA ∈ s.gh.sess ∧ (butLast s.mts).length = 2 ∧
    (∀ x ∈ xs, noSwap x = true) ∧ (xrun (exec s .flush).1 xs).opened = false ∧
    running (exec (xrun (exec s .flush).1 xs) .reopen).1 = true ∧
    (exec (xrun (exec s .flush).1 xs) .reopen).1.segs.map (·.id) = [1, 2, 3] ∧
    (exec (exec (xrun (exec s .flush).1 xs) .reopen).1 (.search .vec (serialSched [3, 2, 1]))).2 = .ids [1, 2] := by
  decide

/-- … and those of `durable_every_search_partial`: the same Flush, then Close, a second session
    with two searches, an add and an eviction in between, `loadLost` still false -/
example :
    let s := run (Store.init cfgTiny) [.add docA, .add docB]
    let tail : List Step := [.reopen, .search .vec (serialSched [1, 2]), .evict,
      .search .txt (serialSched [2, 1]), .add docC]
    let xs : List XStep := ((closeFlushing 1) ++ tail).map XStep.step
    let s2 := xrun (exec s .flush).1 xs
    (∀ x ∈ xs, noSwap x = true) ∧ running s2 = true ∧ s2.gh.loadLost = false ∧ docA.id ∉ s2.gh.removed ∧
    (exec s2 (.search .md (serialSched [1, 2]))).2 = .ids [1, 2, 3] := by
  decide

/-! ## non-vacuity (identifiers) -/

/-- three sessions with a crash in the middle of the second one's flush: session 1 hands out id 1;
    session 2's Flush takes id 2, creates hybrid_2 and vector_2 and the process dies (the crashed
    step is not completed, so the ghost list `allocated` does not record it; its orphans are in the
    directory); session 3 re-initialises the counter from the orphans and hands out 3 -/
example :
    let s := xrun (Store.init cfgTiny)
      ([.step (.add docA), .step .flush] ++ (closeFlushing 1).map XStep.step ++
       [.step .reopen, .step (.add docB), .crash .flush 2 (fun _ => .data),
        .step .reopen, .step (.add docC), .step .flush])
    s.gh.allocated = [3, 1] ∧ (2 ∈ s.gh.everNamed) ∧ s.gh.reused = false ∧ s.gh.overwrote = false ∧
      FS.segIds s.fs = [1, 1, 1, 1, 2, 2, 3, 3, 3, 3] := by decide

/-- a positive durability instance: memtable limit 1, three adds (the first two end up frozen),
    Flush, Close, reopen: the two frozen documents are found by all three probes -/
example :
    let s := run (Store.init cfgTiny) ([.add docA, .add docB, .add docC, .flush] ++ closeFlushing 1 ++ [.reopen])
    (exec s (.search .vec (serialSched [1, 2, 3, 4]))).2 = .ids [1, 2, 3] ∧
    (exec s (.search .txt (serialSched [4, 3, 2, 1]))).2 = .ids [1, 2, 3] ∧
    (exec s (.search .md (serialSched [2, 1, 4, 3]))).2 = .ids [1, 2, 3] := by decide

end Comet.Storage
