/-
  C11 (D) — the store's rotation / flush protocol (model: Comet/Conc/Rotation.lean).
  Property theorems only.

  add_never_fails_or_lost  FULL, for the code as it is (22d1a03: memtableQueue.add writes while
                           it still holds the queue lock): in every interleaving of adds,
                           rotations and any number of concurrent flushers, no add fails and
                           every acknowledged document is in a memtable of the queue or in a
                           segment.                                                    — full
  Former shape (queue lock released after the pick; model variant, defect D15 found by reading,
  demonstrated by this check with directed schedules, repaired in /repo by 22d1a03):
    add_on_frozen_fails    3-region, two-thread witness: "memtable is frozen"          — negation
    add_after_flush_lost   7-region, two-thread witness: acknowledged and nowhere      — negation
    rotation_partial       holds when no rotation is concurrent with an add            — partial
-/
import CometProofs.Conc.Rotation
namespace Comet.Conc.Rot

/-- the statement, for a shape of `add` -/
def NoAddFailsOrIsLost (locked : Bool) : Prop :=
  ∀ acts, (rrun locked acts).failed = [] ∧
    ∀ d ∈ (rrun locked acts).acked, visibleDoc (rrun locked acts) d = true

/-- **Partial** (explicit decidable hypothesis `noRotationDuringAdd`; either shape): if no
    rotation — by `Rotate()` or inside another add's pick region — runs while an add is between
    its pick and its write region, then (with any number of flushers at any point) no add fails
    and every acknowledged document is in a memtable of the queue or in a segment. -/
theorem rotation_partial (locked : Bool) (acts : List RAct)
    (h : noRotationDuringAdd locked {} acts = true) :
    (rrun locked acts).failed = [] ∧
      ∀ d ∈ (rrun locked acts).acked, visibleDoc (rrun locked acts) d = true := by
  have g := rgood_run locked acts {} rgood_init h
  exact ⟨g.noFail, g.ackVis⟩

/-- **(D) headline, full strength for the code as it is**: with the queue-locked add, in EVERY
    interleaving of adds (with or without rotation inside), `Rotate()`s and the snapshot /
    segment-write / queue-removal regions of any number of flushers, no add fails and no
    acknowledged document is lost. -/
theorem add_never_fails_or_lost : NoAddFailsOrIsLost true := fun acts =>
  rotation_partial true acts (noRotationDuringAdd_locked acts {} rfl rfl)

/-- non-vacuity: the former shape's lost-write schedule, run with the locked add (where `pick`
    is the whole add and `check` / `write` are not steps of any thread): the document ends up
    in the segment; two flushers of the same memtable duplicate it, they do not lose it -/
example :
    let s := rrun true [.pick 1 7 false, .check 1, .rotate, .flushSnap 1, .flushSnap 2, .flushWrite 1,
      .flushDrop 1, .flushWrite 2, .flushDrop 2, .write 1]
    s.acked = [7] ∧ s.failed = [] ∧ s.segments = [7, 7] ∧ s.frozenQ = [] ∧ visibleDoc s 7 = true := by
  decide

/-! ### the former shape (model variant): why the unlocked window was a defect -/

/-- thread 1 picks the mutable memtable, thread 2 rotates, thread 1's frozen-check fails -/
theorem add_on_frozen_fails :
    (rrun false [.pick 1 7 false, .rotate, .check 1]).failed = [7] := by decide

/-- thread 1 picks and passes the frozen-check; thread 2 rotates, snapshots, writes the (empty)
    segment and drops the memtable; thread 1 then writes document 7 into the dropped memtable
    and returns nil: 7 is acknowledged and nowhere -/
theorem add_after_flush_lost :
    let s := rrun false [.pick 1 7 false, .check 1, .rotate, .flushSnap 2, .flushWrite 2, .flushDrop 2, .write 1]
    s.acked = [7] ∧ s.failed = [] ∧ visibleDoc s 7 = false := by decide

theorem former_shape_statement_false : ¬ NoAddFailsOrIsLost false := by
  intro h
  have := (h [.pick 1 7 false, .rotate, .check 1]).1
  revert this
  decide

/-- the hypothesis of `rotation_partial` is satisfiable by a non-trivial history of the former
    shape: two adds around a rotation and a complete flush -/
example : noRotationDuringAdd false {}
    [.pick 1 7 false, .check 1, .write 1, .pick 2 8 true, .check 2, .write 2, .flushSnap 1,
     .flushWrite 1, .flushDrop 1] = true ∧
    (rrun false [.pick 1 7 false, .check 1, .write 1, .pick 2 8 true, .check 2, .write 2, .flushSnap 1,
      .flushWrite 1, .flushDrop 1]).segments = [7] := by decide

end Comet.Conc.Rot
