/-
  C11 (D) — the store's rotation / flush protocol (model: Comet/Conc/Rotation.lean).
  Property theorems only.

  FULL statement (`NoAddFailsOrIsLost`): in every interleaving, no add fails and every
  acknowledged document stays visible (in a memtable of the queue or in a segment).
  It is FALSE for the code as it is (known finding D15-memtable-add-after-unlock):

    add_on_frozen_fails     3-region, two-thread witness: the add fails with
                            "memtable is frozen" merely because a rotation ran between its
                            pick and its check region                               — negation
    add_after_flush_lost    6-region, two-thread witness: rotation, segment write and
                            queue removal run between the add's frozen-check and its
                            write; the add returns nil, the document is in no queue
                            memtable and in no segment                              — negation
    rotation_partial        holds when no rotation is concurrent with an add        — partial
-/
import CometProofs.Conc.Rotation
namespace Comet.Conc.Rot

/-- FULL statement (false, see the two negations) -/
def NoAddFailsOrIsLost : Prop :=
  ∀ acts, (rrun acts).failed = [] ∧ ∀ d ∈ (rrun acts).acked, visibleDoc (rrun acts) d = true

/-- thread 1 picks the mutable memtable, thread 2 rotates, thread 1's frozen-check fails -/
theorem add_on_frozen_fails :
    (rrun [.pick 1 7 false, .rotate, .check 1]).failed = [7] := by decide

/-- thread 1 picks and passes the frozen-check; thread 2 rotates, writes the (empty) segment
    and drops the memtable; thread 1 then writes document 7 into the dropped memtable and
    returns nil: 7 is acknowledged and nowhere -/
theorem add_after_flush_lost :
    let s := rrun [.pick 1 7 false, .check 1, .rotate, .flushWrite 0, .flushDrop 0, .write 1]
    s.acked = [7] ∧ s.failed = [] ∧ visibleDoc s 7 = false := by decide

theorem full_statement_false : ¬ NoAddFailsOrIsLost := by
  intro h
  have := (h [.pick 1 7 false, .rotate, .check 1]).1
  revert this
  decide

/-- **Partial** (explicit decidable hypothesis `noRotationDuringAdd`): if no rotation — by
    `Rotate()` or inside another add's pick region — runs while an add is between its pick and
    its write region, then in every such interleaving (with any number of flushes at any
    point) no add fails and every acknowledged document is in a memtable of the queue or in a
    segment. -/
theorem rotation_partial (acts : List RAct) (h : noRotationDuringAdd {} acts = true) :
    (rrun acts).failed = [] ∧ ∀ d ∈ (rrun acts).acked, visibleDoc (rrun acts) d = true := by
  have g := rgood_run acts {} ⟨by simp, by simp, by simp, rfl, by simp, by simp⟩ h
  exact ⟨g.noFail, g.ackVis⟩

/-- the hypothesis is satisfiable by a non-trivial history: two adds around a rotation and a
    complete flush; both documents stay visible (one in a segment, one in the mutable memtable) -/
example : noRotationDuringAdd {}
    [.pick 1 7 false, .check 1, .write 1, .pick 2 8 true, .check 2, .write 2, .flushWrite 0, .flushDrop 0] = true ∧
    (rrun [.pick 1 7 false, .check 1, .write 1, .pick 2 8 true, .check 2, .write 2, .flushWrite 0,
      .flushDrop 0]).segments = [7] := by decide

end Comet.Conc.Rot
