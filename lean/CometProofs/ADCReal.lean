/-
  The model's ADC arithmetic instantiated at commutative rings and at ℝ
  (the only Mathlib-dependent helper file of C14).

    * `Ops.ofRing R`        — `0 + − ×` of a commutative ring as an `Ops R`;
    * `sqDist_real`         — over ℝ the model's `sqDist` is `Σ (aᵢ − cᵢ)²`;
    * `sqrt_sqDist_eq_dist` — its square root is the Euclidean distance of
                              `EuclideanSpace ℝ (Fin n)`, whence the triangle inequality.
-/
import Mathlib.Analysis.InnerProductSpace.PiL2
import CometProofs.ADC
namespace Comet.PQ

/-- the arithmetic of a commutative ring -/
def Ops.ofRing (R : Type) [CommRing R] : Ops R := ⟨0, (· + ·), (· - ·), (· * ·)⟩

theorem Ops.ofRing_laws (R : Type) [CommRing R] : (Ops.ofRing R).Laws :=
  ⟨add_assoc, zero_add, add_zero⟩

/-- a list of reals as a point of Euclidean `n`-space (only used for lists of length `n`) -/
noncomputable def toE (n : Nat) (l : List ℝ) : EuclideanSpace ℝ (Fin n) :=
  WithLp.toLp 2 (fun i => l.getD i 0)

theorem sqDist_cons (x y : ℝ) (a c : List ℝ) :
    sqDist (Ops.ofRing ℝ) (x :: a) (y :: c) = (x - y) ^ 2 + sqDist (Ops.ofRing ℝ) a c := by
  unfold sqDist
  simp only [List.zipWith_cons_cons, List.foldl_cons]
  rw [foldl_add_eq (Ops.ofRing_laws ℝ)]
  simp only [Ops.ofRing]
  ring

theorem sqDist_real : ∀ (a c : List ℝ) (n : Nat), a.length = n → c.length = n →
    sqDist (Ops.ofRing ℝ) a c = ∑ i : Fin n, (a.getD i 0 - c.getD i 0) ^ 2
  | [], [], n, ha, _ => by
    subst ha
    simp [sqDist, Ops.ofRing]
  | [], _ :: _, n, ha, hc => by simp at ha hc; omega
  | _ :: _, [], n, ha, hc => by simp at ha hc; omega
  | x :: a, y :: c, n, ha, hc => by
    cases n with
    | zero => simp at ha
    | succ n =>
      rw [sqDist_cons, sqDist_real a c n (by simpa using ha) (by simpa using hc),
        Fin.sum_univ_succ]
      simp

theorem sqrt_sqDist_eq_dist (a c : List ℝ) (n : Nat) (ha : a.length = n) (hc : c.length = n) :
    Real.sqrt (sqDist (Ops.ofRing ℝ) a c) = dist (toE n a) (toE n c) := by
  rw [sqDist_real a c n ha hc, EuclideanSpace.dist_eq]
  congr 1
  apply Finset.sum_congr rfl
  intro i _
  simp [toE, Real.dist_eq, sq_abs]

theorem sqDist_nonneg (a c : List ℝ) : 0 ≤ sqDist (Ops.ofRing ℝ) a c := by
  induction a generalizing c with
  | nil => simp [sqDist, Ops.ofRing]
  | cons x a ih =>
    cases c with
    | nil => simp [sqDist, Ops.ofRing]
    | cons y c => rw [sqDist_cons]; have := ih c; positivity

/-- translating query and vector by the same centroid does not change the distance -/
theorem sqDist_vsub_vsub : ∀ (q x c : List ℝ), q.length = c.length → x.length = c.length →
    sqDist (Ops.ofRing ℝ) (vsub (Ops.ofRing ℝ) q c) (vsub (Ops.ofRing ℝ) x c) =
      sqDist (Ops.ofRing ℝ) q x
  | [], [], [], _, _ => rfl
  | [], _ :: _, [], _, h => by simp at h
  | _ :: _, _, [], h, _ => by simp at h
  | [], _, _ :: _, h, _ => by simp at h
  | _ :: _, [], _ :: _, _, h => by simp at h
  | a :: q, b :: x, d :: c, hq, hx => by
    have ih := sqDist_vsub_vsub q x c (by simpa using hq) (by simpa using hx)
    simp only [vsub, List.zipWith_cons_cons] at ih ⊢
    rw [sqDist_cons, sqDist_cons, ih]
    simp only [Ops.ofRing]
    ring

end Comet.PQ
