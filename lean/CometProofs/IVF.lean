/-
  Helper lemmas for C13 (IVF index).

    * order-generic: exact top-k is monotone in the candidate multiset (`topK_mono`),
      `IsTopK` only depends on the candidate multiset (`IsTopK.of_perm`);
    * the arg-min loop of FindNearestCentroidIndex returns the least index among the
      minimisers (`argmin_spec`);
    * the centroid ranking is a sorted permutation, its prefixes are legitimate probe
      sets (`probe_isProbeSet`, `probe_prefix`, `mem_probe_full`);
    * a trained IVF state *is* the flat index's vector list split into buckets by
      `nearest` (`Sim`, preserved by every Add / Remove / Flush: `sim_step`);
    * what `searchSingleQuery` computes in such a state (`searchSingle_eq`).
-/
import Comet.Vector.IVF
import CometProofs.Flat

namespace Comet
variable {S : Type}

theorem IsTopK.of_perm {le : S → S → Bool} {k : Int} {c c' r : List (Hit S)}
    (h : IsTopK le k c r) (hp : c.Perm c') : IsTopK le k c' r := by
  obtain ⟨hs, ⟨rest, hperm, hle⟩, hl⟩ := h
  exact ⟨hs, ⟨rest, hperm.trans hp, hle⟩, by rw [hl, hp.length_eq]⟩

theorem sanitizeK_mono (k : Int) {n n' : Nat} (h : n ≤ n') : sanitizeK k n ≤ sanitizeK k n' := by
  unfold sanitizeK
  split <;> split <;> omega

/-- Order-generic monotonicity of exact top-k in the candidate multiset: if `c'`
    contains `c` (as multisets), an exact top-k of `c'` is at least as long as an
    exact top-k of `c` and is rank by rank at least as good. -/
theorem topK_mono (le : S → S → Bool)
    (tot : ∀ a b : S, le a b || le b a)
    (tr : ∀ a b c : S, le a b → le b c → le a c)
    (k : Int) (c extra c' r r' : List (Hit S))
    (hc : c'.Perm (c ++ extra))
    (h : IsTopK le k c r) (h' : IsTopK le k c' r') :
    r.length ≤ r'.length ∧
      ∀ (i : Nat) (a a' : Hit S), r[i]? = some a → r'[i]? = some a' → le a'.score a.score = true := by
  have hlen : r.length ≤ r'.length := by
    rw [h.len, h'.len]
    apply sanitizeK_mono
    rw [hc.length_eq, List.length_append]; omega
  refine ⟨hlen, ?_⟩
  intro i a a' hia hia'
  -- suppose not: then the i+1 hits r[0..i] are all strictly better than a' = r'[i]
  cases hcontra : le a'.score a.score with
  | true => rfl
  | false =>
    exfalso
    obtain ⟨hs, ⟨rest, hperm, _⟩, _⟩ := h
    obtain ⟨hs', ⟨rest', hperm', hle'⟩, _⟩ := h'
    have hi : i < r.length := by
      rcases Nat.lt_or_ge i r.length with h | h
      · exact h
      · rw [List.getElem?_eq_none h] at hia; cases hia
    have hi' : i < r'.length := by omega
    have ea : r[i] = a := by
      rw [List.getElem?_eq_getElem hi] at hia; injection hia
    have ea' : r'[i] = a' := by
      rw [List.getElem?_eq_getElem hi'] at hia'; injection hia'
    -- "strictly better than a'"
    let P : Hit S → Bool := fun x => !le a'.score x.score
    -- every element of r.take (i+1) satisfies P
    have hP1 : ∀ x ∈ r.take (i + 1), P x = true := by
      intro x hx
      have hxa : le x.score a.score = true := by
        obtain ⟨j, hj, rfl⟩ := List.getElem_of_mem hx
        simp only [List.length_take] at hj
        rw [List.getElem_take]
        rcases Nat.lt_or_ge j i with hji | hji
        · have := List.pairwise_iff_getElem.1 hs j i (by omega) hi hji
          rw [ea] at this; exact this
        · have : j = i := by omega
          subst this
          rw [ea]
          have := tot a.score a.score; simpa using this
      show (!le a'.score x.score) = true
      cases hc2 : le a'.score x.score with
      | false => rfl
      | true =>
        have := tr _ _ _ hc2 hxa
        rw [hcontra] at this; cases this
    have hcount1 : (r.take (i + 1)).countP P = i + 1 := by
      rw [List.countP_eq_length.2 hP1, List.length_take]; omega
    -- r.take (i+1) is part of c'
    have hperm2 : (r.take (i + 1) ++ (r.drop (i + 1) ++ rest ++ extra)).Perm (r' ++ rest') := by
      have e1 : r.take (i + 1) ++ (r.drop (i + 1) ++ rest ++ extra) = (r ++ rest) ++ extra := by
        rw [← List.append_assoc, ← List.append_assoc, List.take_append_drop]
      rw [e1]
      exact ((List.Perm.append_right extra hperm).trans hc.symm).trans hperm'.symm
    have hge : i + 1 ≤ (r' ++ rest').countP P := by
      rw [← hperm2.countP_eq, List.countP_append, hcount1]; omega
    -- but only the first i places of r' can hold such elements
    have hsplit : r' = r'.take i ++ r'.drop i := (List.take_append_drop i r').symm
    have hz1 : (r'.drop i).countP P = 0 := by
      rw [List.countP_eq_zero]
      intro x hx
      have hax : le a'.score x.score = true := by
        obtain ⟨j, hj, rfl⟩ := List.getElem_of_mem hx
        rw [List.getElem_drop]
        rcases Nat.eq_zero_or_pos j with hj0 | hj0
        · subst hj0
          simp only [Nat.add_zero]
          rw [ea']
          have := tot a'.score a'.score; simpa using this
        · simp only [List.length_drop] at hj
          have := List.pairwise_iff_getElem.1 hs' i (i + j) hi' (by omega) (by omega)
          rw [ea'] at this; exact this
      simp [P, hax]
    have hz2 : rest'.countP P = 0 := by
      rw [List.countP_eq_zero]
      intro x hx
      have := hle' a' (by rw [← ea']; exact List.getElem_mem _) x hx
      simp [P, this]
    have hle1 : (r'.take i).countP P ≤ i := by
      have := List.countP_le_length (p := P) (l := r'.take i)
      rw [List.length_take] at this; omega
    have : (r' ++ rest').countP P ≤ i := by
      rw [List.countP_append, hz2]
      rw [hsplit, List.countP_append, hz1]; omega
    omega

end Comet

namespace Comet.IVF
variable {V S : Type}

/-! ### the arg-min loop -/

section Order
variable (sc : Scalar S) (ord : sc.Ordered)
include ord

theorem le_refl' (a : S) : sc.le a a = true := by
  have := ord.total a a; simpa using this

theorem le_of_lt {a b : S} (h : sc.lt a b = true) : sc.le a b = true := by
  rw [ord.lt_iff] at h
  have := ord.total a b
  cases hba : sc.le b a <;> simp_all

theorem not_le_of_lt {a b : S} (h : sc.lt a b = true) : sc.le b a = false := by
  rw [ord.lt_iff] at h; simpa using h

theorem le_of_not_lt {a b : S} (h : sc.lt a b = false) : sc.le b a = true := by
  rw [ord.lt_iff] at h; simpa using h

/-- what the arg-min loop returns: either nothing was strictly below the start value,
    or the first position holding the strict minimum. -/
theorem argminLoop_spec (ds : List S) (i mi : Nat) (md : S) :
    (argminLoop sc ds i mi md = mi ∧ ∀ x ∈ ds, sc.le md x = true) ∨
    (∃ j, ∃ hj : j < ds.length, argminLoop sc ds i mi md = i + j ∧ sc.lt ds[j] md = true ∧
        (∀ x ∈ ds, sc.le ds[j] x = true) ∧
        ∀ j', ∀ hj' : j' < j, sc.le (ds[j']'(by omega)) ds[j] = false) := by
  induction ds generalizing i mi md with
  | nil => left; simp [argminLoop]
  | cons d ds ih =>
    simp only [argminLoop]
    by_cases hlt : sc.lt d md = true
    · simp only [hlt, if_true]
      right
      rcases ih (i + 1) i d with ⟨h1, h2⟩ | ⟨j, hj, h1, h2, h3, h4⟩
      · refine ⟨0, by simp, by simpa using h1, by simpa using hlt, ?_, ?_⟩
        · intro x hx
          simp only [List.mem_cons] at hx
          rcases hx with rfl | hx
          · simpa using le_refl' sc ord _
          · simpa using h2 x hx
        · intro j' hj'; omega
      · refine ⟨j + 1, by simp; omega, by rw [h1]; omega, ?_, ?_, ?_⟩
        · simp only [List.getElem_cons_succ]
          rw [ord.lt_iff]
          cases hc : sc.le md ds[j] with
          | false => rfl
          | true =>
            have := ord.trans _ _ _ hc (le_of_lt sc ord h2)
            rw [not_le_of_lt sc ord hlt] at this; cases this
        · intro x hx
          simp only [List.getElem_cons_succ, List.mem_cons] at hx ⊢
          rcases hx with rfl | hx
          · exact le_of_lt sc ord h2
          · exact h3 x hx
        · intro j' hj'
          cases j' with
          | zero => simpa using not_le_of_lt sc ord h2
          | succ j'' => simpa using h4 j'' (by omega)
    · have hlt' : sc.lt d md = false := by simpa using hlt
      simp only [hlt', Bool.false_eq_true, if_false]
      have hmd : sc.le md d = true := le_of_not_lt sc ord hlt'
      rcases ih (i + 1) mi md with ⟨h1, h2⟩ | ⟨j, hj, h1, h2, h3, h4⟩
      · left
        refine ⟨h1, ?_⟩
        intro x hx
        simp only [List.mem_cons] at hx
        rcases hx with rfl | hx
        · exact hmd
        · exact h2 x hx
      · right
        refine ⟨j + 1, by simp; omega, by rw [h1]; omega, by simpa using h2, ?_, ?_⟩
        · intro x hx
          simp only [List.getElem_cons_succ, List.mem_cons] at hx ⊢
          rcases hx with rfl | hx
          · exact ord.trans _ _ _ (le_of_lt sc ord h2) hmd
          · exact h3 x hx
        · intro j' hj'
          cases j' with
          | zero =>
            simp only [List.getElem_cons_zero, List.getElem_cons_succ]
            cases hc : sc.le d ds[j] with
            | false => rfl
            | true =>
              have := ord.trans _ _ _ hmd hc
              rw [not_le_of_lt sc ord h2] at this; cases this
          | succ j'' => simpa using h4 j'' (by omega)

/-- `argmin` on a non-empty list returns the least index among the minimisers. -/
theorem argmin_spec (inf : S) (top : ∀ x, sc.le x inf = true) (ds : List S) (hne : ds ≠ []) :
    ∃ d, ds[argmin sc inf ds]? = some d ∧
      (∀ x ∈ ds, sc.le d x = true) ∧
      ∀ j, j < argmin sc inf ds → ∀ x, ds[j]? = some x → sc.le x d = false := by
  unfold argmin
  rcases argminLoop_spec sc ord ds 0 0 inf with ⟨h1, h2⟩ | ⟨j, hj, h1, _, h3, h4⟩
  · have hpos : 0 < ds.length := List.length_pos_iff.2 hne
    rw [h1]
    refine ⟨ds[0], by simp, ?_, ?_⟩
    · intro x hx
      exact ord.trans _ _ _ (top _) (h2 x hx)
    · intro j hj; omega
  · have : argminLoop sc ds 0 0 inf = j := by omega
    rw [this]
    refine ⟨ds[j], by simp, h3, ?_⟩
    intro j' hj' x hx
    have hlt : j' < ds.length := by omega
    rw [List.getElem?_eq_getElem hlt] at hx
    injection hx with hx
    subst hx
    exact h4 j' hj'
end Order

/-! ### the centroid ranking -/

theorem insertBy_perm (le : α → α → Bool) (a : α) (l : List α) : (insertBy le a l).Perm (a :: l) := by
  induction l with
  | nil => simp [insertBy]
  | cons b bs ih =>
    simp only [insertBy]
    split
    · exact List.Perm.refl _
    · exact (List.Perm.cons b ih).trans (List.Perm.swap a b bs)

theorem insSort_perm (le : α → α → Bool) (l : List α) : (insSort le l).Perm l := by
  induction l with
  | nil => simp [insSort]
  | cons a as ih => exact (insertBy_perm le a _).trans (List.Perm.cons a ih)

theorem insertBy_sorted (le : α → α → Bool)
    (tot : ∀ a b, le a b || le b a) (tr : ∀ a b c, le a b → le b c → le a c)
    (a : α) (l : List α) (h : l.Pairwise fun x y => le x y = true) :
    (insertBy le a l).Pairwise fun x y => le x y = true := by
  induction l with
  | nil => simp [insertBy]
  | cons b bs ih =>
    simp only [insertBy]
    rw [List.pairwise_cons] at h
    split
    · next hab =>
      rw [List.pairwise_cons]
      refine ⟨?_, List.pairwise_cons.2 h⟩
      intro x hx
      simp only [List.mem_cons] at hx
      rcases hx with rfl | hx
      · exact hab
      · exact tr _ _ _ hab (h.1 x hx)
    · next hab =>
      have hba : le b a = true := by
        have := tot a b
        cases h1 : le a b <;> simp_all
      rw [List.pairwise_cons]
      refine ⟨?_, ih h.2⟩
      intro x hx
      have := (insertBy_perm le a bs).subset hx
      simp only [List.mem_cons] at this
      rcases this with rfl | hx
      · exact hba
      · exact h.1 x hx

theorem insSort_sorted (le : α → α → Bool)
    (tot : ∀ a b, le a b || le b a) (tr : ∀ a b c, le a b → le b c → le a c)
    (l : List α) : (insSort le l).Pairwise fun x y => le x y = true := by
  induction l with
  | nil => simp [insSort]
  | cons a as ih => exact insertBy_sorted le tot tr a _ ih

theorem idxDists_map_fst (m : Metric V S) (q' : V) (cs : List V) (i : Nat) :
    (idxDists m q' cs i).map (·.1) = List.range' i cs.length := by
  induction cs generalizing i with
  | nil => simp [idxDists]
  | cons c cs ih => simp [idxDists, ih, List.range'_succ]

theorem mem_idxDists (m : Metric V S) (q' : V) (cs : List V) (i : Nat) (a : Nat × S)
    (h : a ∈ idxDists m q' cs i) :
    i ≤ a.1 ∧ ∃ c, cs[a.1 - i]? = some c ∧ a.2 = m.dist q' c := by
  induction cs generalizing i with
  | nil => simp [idxDists] at h
  | cons c cs ih =>
    simp only [idxDists, List.mem_cons] at h
    rcases h with rfl | h
    · exact ⟨Nat.le_refl _, c, by simp, rfl⟩
    · obtain ⟨h1, c', h2, h3⟩ := ih (i + 1) h
      refine ⟨by omega, c', ?_, h3⟩
      have : a.1 - i = (a.1 - (i + 1)) + 1 := by omega
      rw [this]; simpa using h2

theorem rank_perm (m : Metric V S) (q' : V) (cs : List V) :
    (rank m q' cs).Perm (idxDists m q' cs 0) := insSort_perm _ _

theorem rank_length (m : Metric V S) (q' : V) (cs : List V) : (rank m q' cs).length = cs.length := by
  rw [(rank_perm m q' cs).length_eq]
  have := congrArg List.length (idxDists_map_fst m q' cs 0)
  simpa using this

theorem rank_map_fst_perm (m : Metric V S) (q' : V) (cs : List V) :
    ((rank m q' cs).map (·.1)).Perm (List.range cs.length) := by
  have := (rank_perm m q' cs).map (·.1)
  rw [idxDists_map_fst] at this
  simpa [List.range_eq_range'] using this

theorem mem_rank (m : Metric V S) (q' : V) (cs : List V) (a : Nat × S) (h : a ∈ rank m q' cs) :
    ∃ c, cs[a.1]? = some c ∧ a.2 = m.dist q' c := by
  have := mem_idxDists m q' cs 0 a ((rank_perm m q' cs).subset h)
  simpa using this.2

theorem rank_sorted (m : Metric V S) (ord : m.sc.Ordered) (q' : V) (cs : List V) :
    (rank m q' cs).Pairwise fun a b => m.sc.le a.2 b.2 = true :=
  insSort_sorted _ (fun a b => ord.total a.2 b.2) (fun a b c => ord.trans a.2 b.2 c.2) _

/-- the headline fact about the probe set -/
theorem probe_isProbeSet (m : Metric V S) (ord : m.sc.Ordered) (q' : V) (cs : List V) (np : Nat)
    (hnp : np ≤ cs.length) : IsProbeSet m q' cs np (probe m q' cs np) := by
  have hnd : ((rank m q' cs).map (·.1)).Nodup :=
    (rank_map_fst_perm m q' cs).nodup_iff.2 List.nodup_range
  have hsplit := List.take_append_drop np (rank m q' cs)
  refine ⟨?_, ?_, ?_, ?_⟩
  · unfold probe
    rw [List.map_take]
    exact hnd.sublist (List.take_sublist _ _)
  · simp [probe, rank_length, hnp]
  · intro i hi
    simp only [probe, List.mem_map] at hi
    obtain ⟨a, ha, rfl⟩ := hi
    have : a.1 ∈ (rank m q' cs).map (·.1) := List.mem_map.2 ⟨a, List.mem_of_mem_take ha, rfl⟩
    have := (rank_map_fst_perm m q' cs).subset this
    simpa using this
  · intro i hi j hj ci cj hci hcj
    simp only [probe, List.mem_map] at hi
    obtain ⟨a, ha, rfl⟩ := hi
    -- j occurs in the ranking, necessarily in the dropped part
    have hjlt : j < cs.length := by
      rcases Nat.lt_or_ge j cs.length with h | h
      · exact h
      · rw [List.getElem?_eq_none h] at hcj; cases hcj
    have hjmem : j ∈ (rank m q' cs).map (·.1) :=
      (rank_map_fst_perm m q' cs).symm.subset (by simpa using hjlt)
    obtain ⟨b, hb, rfl⟩ := List.mem_map.1 hjmem
    rw [← hsplit, List.mem_append] at hb
    have hb' : b ∈ (rank m q' cs).drop np := by
      rcases hb with hb | hb
      · exact absurd (List.mem_map.2 ⟨b, hb, rfl⟩) hj
      · exact hb
    have hs := rank_sorted m ord q' cs
    rw [← hsplit, List.pairwise_append] at hs
    have hle := hs.2.2 a ha b hb'
    obtain ⟨ca, hca, ea⟩ := mem_rank m q' cs a (List.mem_of_mem_take ha)
    obtain ⟨cb, hcb, eb⟩ := mem_rank m q' cs b (List.mem_of_mem_drop hb')
    rw [hci] at hca; rw [hcj] at hcb
    injection hca with hca; injection hcb with hcb
    subst hca; subst hcb
    rw [ea, eb] at hle
    exact hle

/-- more probes scan a longer prefix of the same ranking -/
theorem probe_prefix (m : Metric V S) (q' : V) (cs : List V) (np np' : Nat) (h : np ≤ np') :
    ∃ extra, probe m q' cs np' = probe m q' cs np ++ extra := by
  unfold probe
  have : (rank m q' cs).take np = ((rank m q' cs).take np').take np := by
    rw [List.take_take]; congr 1; omega
  refine ⟨(((rank m q' cs).take np').drop np).map (·.1), ?_⟩
  rw [this, ← List.map_append, List.take_append_drop]

/-- at full probe every cluster is scanned -/
theorem mem_probe_full (m : Metric V S) (q' : V) (cs : List V) (i : Nat) (hi : i < cs.length) :
    i ∈ probe m q' cs cs.length := by
  unfold probe
  rw [List.take_of_length_le (by rw [rank_length]; exact Nat.le_refl _)]
  exact (rank_map_fst_perm m q' cs).symm.subset (by simpa using hi)

/-! ### buckets -/

theorem appendAt_length (e : α) (ls : List (List α)) (j : Nat) :
    (appendAt e ls j).length = ls.length := by
  induction ls generalizing j with
  | nil => simp [appendAt]
  | cons l ls ih => cases j <;> simp [appendAt, ih]

theorem appendAt_getElem? (e : α) (ls : List (List α)) (j i : Nat) :
    (appendAt e ls j)[i]? = if i = j then ls[i]?.map (· ++ [e]) else ls[i]? := by
  induction ls generalizing j i with
  | nil => simp [appendAt]
  | cons l ls ih =>
    cases j with
    | zero =>
      cases i with
      | zero => simp [appendAt]
      | succ i => simp [appendAt]
    | succ j =>
      cases i with
      | zero => simp [appendAt]
      | succ i => simp [appendAt, ih]

theorem gather_eq_map (ls : List (List α)) (f : Nat → List α) (P : List Nat)
    (h : ∀ i ∈ P, ls[i]? = some (f i)) : gather ls P = some (P.map f) := by
  induction P with
  | nil => simp [gather]
  | cons i is ih =>
    have h1 := h i (by simp)
    have h2 := ih (fun j hj => h j (by simp [hj]))
    simp [gather, h1, h2]

theorem flatMap_congr' (f g : β → List α) (P : List β) (h : ∀ i ∈ P, f i = g i) :
    P.flatMap f = P.flatMap g := by
  induction P with
  | nil => rfl
  | cons i is ih =>
    simp only [List.flatMap_cons]
    rw [h i (by simp), ih (fun j hj => h j (by simp [hj]))]

/-- adding `e` to the bucket `j` of a family of buckets, seen through `flatMap` -/
theorem flatMap_cons_at (f : Nat → List α) (e : α) (j : Nat) (P : List Nat)
    (hj : j ∈ P) (hnd : P.Nodup) :
    (P.flatMap fun i => if j = i then e :: f i else f i).Perm (e :: P.flatMap f) := by
  induction P with
  | nil => cases hj
  | cons i is ih =>
    rw [List.nodup_cons] at hnd
    simp only [List.flatMap_cons]
    by_cases hji : j = i
    · subst hji
      simp only [if_true]
      have : (is.flatMap fun i => if j = i then e :: f i else f i) = is.flatMap f := by
        apply flatMap_congr'
        intro i hi
        have : j ≠ i := fun h => hnd.1 (h ▸ hi)
        simp [this]
      rw [this]
      exact List.Perm.refl _
    · simp only [hji, if_false]
      have hj' : j ∈ is := by
        simp only [List.mem_cons] at hj
        rcases hj with h | h
        · exact absurd h hji
        · exact h
      have := ih hj' hnd.2
      exact (List.Perm.append_left (f i) this).trans List.perm_middle

/-- scanning the buckets `P` of a list split by a key `g` sees exactly the elements
    whose key is in `P` -/
theorem buckets_perm (g : α → Nat) (l : List α) (P : List Nat) (hnd : P.Nodup) :
    (P.flatMap fun i => l.filter fun e => g e == i).Perm (l.filter fun e => P.contains (g e)) := by
  induction l with
  | nil => simp
  | cons e t ih =>
    by_cases hmem : g e ∈ P
    · have hc : P.contains (g e) = true := by simpa using hmem
      have hr : (List.filter (fun e => P.contains (g e)) (e :: t)) = e :: List.filter (fun e => P.contains (g e)) t := by
        simp [hmem]
      rw [hr]
      have : (P.flatMap fun i => (e :: t).filter fun e => g e == i) =
          P.flatMap fun i => if g e = i then e :: (t.filter fun e => g e == i)
            else (t.filter fun e => g e == i) := by
        apply flatMap_congr'
        intro i _
        by_cases h : g e = i <;> simp [h]
      rw [this]
      exact (flatMap_cons_at _ e (g e) P hmem hnd).trans (List.Perm.cons e ih)
    · have hc : ¬ P.contains (g e) = true := by simpa using hmem
      have hr : (List.filter (fun e => P.contains (g e)) (e :: t)) = List.filter (fun e => P.contains (g e)) t := by
        simp [hmem]
      rw [hr]
      have : (P.flatMap fun i => (e :: t).filter fun e => g e == i) =
          P.flatMap fun i => t.filter fun e => g e == i := by
        apply flatMap_congr'
        intro i hi
        have : g e ≠ i := fun h => hmem (h ▸ hi)
        simp [this]
      rw [this]
      exact ih

/-- a list split into `n` buckets by a key -/
def bucketsOf (g : α → Nat) (n : Nat) (l : List α) : List (List α) :=
  (List.range n).map fun i => l.filter fun e => g e == i

theorem bucketsOf_length (g : α → Nat) (n : Nat) (l : List α) : (bucketsOf g n l).length = n := by
  simp [bucketsOf]

theorem bucketsOf_getElem? (g : α → Nat) (n : Nat) (l : List α) (i : Nat) (hi : i < n) :
    (bucketsOf g n l)[i]? = some (l.filter fun e => g e == i) := by
  simp [bucketsOf, List.getElem?_map, List.getElem?_range hi]

theorem bucketsOf_getElem?_none (g : α → Nat) (n : Nat) (l : List α) (i : Nat) (hi : n ≤ i) :
    (bucketsOf g n l)[i]? = none := by
  apply List.getElem?_eq_none; rw [bucketsOf_length]; exact hi

theorem appendAt_bucketsOf (g : α → Nat) (n : Nat) (l : List α) (e : α) :
    appendAt e (bucketsOf g n l) (g e) = bucketsOf g n (l ++ [e]) := by
  apply List.ext_getElem?
  intro i
  rw [appendAt_getElem?]
  rcases Nat.lt_or_ge i n with hi | hi
  · rw [bucketsOf_getElem? g n _ i hi, bucketsOf_getElem? g n _ i hi]
    by_cases h : i = g e
    · subst h; simp [List.filter_append]
    · have : g e ≠ i := fun h' => h h'.symm
      simp [h, List.filter_append, this]
  · rw [bucketsOf_getElem?_none g n _ i hi, bucketsOf_getElem?_none g n _ i hi]
    simp

theorem map_filter_bucketsOf (g : α → Nat) (n : Nat) (l : List α) (p : α → Bool) :
    (bucketsOf g n l).map (fun b => b.filter p) = bucketsOf g n (l.filter p) := by
  simp only [bucketsOf, List.map_map]
  apply List.map_congr_left
  intro i _
  simp only [Function.comp, List.filter_filter]
  apply List.filter_congr
  intro e _
  exact Bool.and_comm _ _

theorem flatten_bucketsOf_perm (g : α → Nat) (n : Nat) (l : List α) (h : ∀ e ∈ l, g e < n) :
    (bucketsOf g n l).flatten.Perm l := by
  have := buckets_perm g l (List.range n) List.nodup_range
  have h2 : (l.filter fun e => (List.range n).contains (g e)) = l := by
    apply List.filter_eq_self.2
    intro e he
    simpa using h e he
  rw [h2] at this
  simpa [bucketsOf, List.flatMap] using this

theorem gather_bucketsOf (g : α → Nat) (n : Nat) (l : List α) (P : List Nat) (h : ∀ i ∈ P, i < n) :
    gather (bucketsOf g n l) P = some (P.map fun i => l.filter fun e => g e == i) :=
  gather_eq_map _ _ P (fun i hi => bucketsOf_getElem? g n l i (h i hi))

/-- `argminLoop` returns the start index or a visited one -/
theorem argminLoop_range (sc : Scalar S) (ds : List S) (i mi : Nat) (md : S) :
    argminLoop sc ds i mi md = mi ∨
      (i ≤ argminLoop sc ds i mi md ∧ argminLoop sc ds i mi md < i + ds.length) := by
  induction ds generalizing i mi md with
  | nil => left; rfl
  | cons d ds ih =>
    simp only [argminLoop]
    split
    · rcases ih (i + 1) i d with h | h
      · right; rw [h]; simp
      · right; simp only [List.length_cons]; omega
    · rcases ih (i + 1) mi md with h | h
      · left; exact h
      · right; simp only [List.length_cons]; omega

theorem nearest_lt (m : Metric V S) (inf : S) (v : V) (cs : List V) (hne : cs ≠ []) :
    nearest m inf v cs < cs.length := by
  unfold nearest argmin
  have hpos : 0 < cs.length := List.length_pos_iff.2 hne
  rcases argminLoop_range m.sc (cs.map (m.dist v)) 0 0 inf with h | h
  · rw [h]; exact hpos
  · simpa using h.2

/-- the cluster `Add` assigns an entry to -/
def keyOf (m : Metric V S) (inf : S) (cs : List V) (e : Id × V) : Nat := nearest m inf e.2 cs

/-- refinement relation between a trained IVF state and the flat index holding the same data -/
structure Sim (m : Metric V S) (inf : S) (cs : List V) (s : State V) (f : Flat.State V) : Prop where
  dim : s.dim = f.dim
  nlist : s.nlist = cs.length
  cent : s.centroids = cs
  trained : s.trained = true
  deleted : s.deleted = f.deleted
  lists : s.lists = bucketsOf (keyOf m inf cs) cs.length f.vecs

theorem Sim.flatten_perm {m : Metric V S} {inf : S} {cs : List V} {s : State V} {f : Flat.State V}
    (h : Sim m inf cs s f) (hne : cs ≠ []) : s.lists.flatten.Perm f.vecs := by
  rw [h.lists]
  exact flatten_bucketsOf_perm _ _ _ (fun e _ => nearest_lt m inf e.2 cs hne)

theorem any_any_eq_flatten_any (ls : List (List α)) (p : α → Bool) :
    ls.any (fun l => l.any p) = ls.flatten.any p := by
  induction ls with
  | nil => rfl
  | cons l ls ih => simp only [List.any_cons, List.flatten_cons, List.any_append, ih]

/-! ### simulation of the flat index (`Flat.step`, which has the same re-add purge) -/

theorem sim_flushed (m : Metric V S) (inf : S) (cs : List V)
    (s : State V) (f : Flat.State V) (h : Sim m inf cs s f) :
    Sim m inf cs (flushLocked s) (Flat.flushed f) := by
  unfold flushLocked Flat.flushed
  rw [h.deleted]
  by_cases he : f.deleted.isEmpty = true
  · simp only [he, if_true]
    have hnil : f.deleted = [] := by simpa using he
    refine ⟨h.dim, h.nlist, h.cent, h.trained, by rw [h.deleted, hnil], ?_⟩
    rw [h.lists]
    congr 1
    symm
    apply List.filter_eq_self.2
    intro p _
    simp [hnil]
  · simp only [he, Bool.false_eq_true, if_false]
    refine ⟨h.dim, h.nlist, h.cent, h.trained, rfl, ?_⟩
    show List.map _ s.lists = _
    rw [h.lists]
    exact map_filter_bucketsOf _ _ _ _

/-- one-step simulation: same outcome, related states — for every op -/
theorem sim_step (m : Metric V S) (inf : S) (cs : List V) (hne : cs ≠ [])
    (s : State V) (f : Flat.State V) (h : Sim m inf cs s f) (op : Flat.Op V) :
    Sim m inf cs (step m inf s (ofFlat op)).1 (Flat.step m f op).1 ∧
      (step m inf s (ofFlat op)).2 = (Flat.step m f op).2.map Fail.err := by
  cases op with
  | add id v =>
    have ht : (!s.trained) = false := by rw [h.trained]; rfl
    simp only [ofFlat]
    simp only [step]
    simp only [Flat.step]
    simp only [ht]
    simp only [Bool.false_eq_true, if_false]
    by_cases hd : m.dimOf v = f.dim
    · have hd' : ¬ m.dimOf v ≠ s.dim := by rw [h.dim]; simpa using hd
      have hd'' : ¬ m.dimOf v ≠ f.dim := by simpa using hd
      simp only [hd', hd'', if_false]
      cases hp : m.pre v with
      | none => exact ⟨h, rfl⟩
      | some v' =>
        simp only
        -- the state after the optional purge still refines the flat index
        have h1 : Sim m inf cs (if id ∈ s.deleted then flushLocked s else s)
            (if id ∈ f.deleted then Flat.flushed f else f) := by
          rw [h.deleted]
          by_cases hdel : id ∈ f.deleted
          · simp only [hdel, if_true]; exact sim_flushed m inf cs s f h
          · simp only [hdel, if_false]; exact h
        generalize (if id ∈ s.deleted then flushLocked s else s) = s1 at h1 ⊢
        generalize (if id ∈ f.deleted then Flat.flushed f else f) = f1 at h1 ⊢
        have hlt : nearest m inf v' s1.centroids < s1.lists.length := by
          rw [h1.cent, h1.lists, bucketsOf_length]; exact nearest_lt m inf v' cs hne
        simp only [hlt, if_true]
        refine ⟨⟨h1.dim, h1.nlist, h1.cent, h1.trained, h1.deleted, ?_⟩, rfl⟩
        show appendAt (id, v') s1.lists (nearest m inf v' s1.centroids) = _
        rw [h1.lists, h1.cent]
        exact appendAt_bucketsOf (keyOf m inf cs) cs.length f1.vecs (id, v')
    · have hd' : m.dimOf v ≠ s.dim := by rw [h.dim]; exact hd
      have hd'' : m.dimOf v ≠ f.dim := hd
      rw [if_pos hd', if_pos hd'']
      exact ⟨h, rfl⟩
  | remove id =>
    simp only [ofFlat, step, Flat.step]
    have hany : s.lists.any (fun l => l.any (·.1 == id)) = f.vecs.any (·.1 == id) := by
      rw [any_any_eq_flatten_any]
      exact (h.flatten_perm hne).any_eq
    rw [hany, h.deleted]
    by_cases hex : f.vecs.any (·.1 == id) = true
    · simp only [hex, not_true_eq_false, if_false]
      by_cases hdel : id ∈ f.deleted
      · simp only [hdel, if_true]; exact ⟨h, rfl⟩
      · simp only [hdel, if_false]
        exact ⟨⟨h.dim, h.nlist, h.cent, h.trained, by simp, h.lists⟩, rfl⟩
    · simp only [hex]; exact ⟨h, rfl⟩
  | flush =>
    simp only [ofFlat, step, Flat.step]
    by_cases he : f.deleted.isEmpty = true
    · simp only [he, if_true]
      have : flushLocked s = s := by
        unfold flushLocked; rw [h.deleted]; simp [he]
      rw [this]
      exact ⟨h, rfl⟩
    · simp only [he, Bool.false_eq_true, if_false]
      exact ⟨sim_flushed m inf cs s f h, rfl⟩

/-- post-training histories: the IVF index refines the flat index on the same ops -/
theorem sim_run (m : Metric V S) (inf : S) (cs : List V) (hne : cs ≠ [])
    (s : State V) (f : Flat.State V) (h : Sim m inf cs s f) (ops : List (Flat.Op V)) :
    Sim m inf cs (run m inf s (ops.map ofFlat)) (Flat.run m f ops) := by
  induction ops generalizing s f with
  | nil => exact h
  | cons op t ih =>
    simp only [run, Flat.run, List.map_cons, List.foldl_cons]
    exact ih _ _ (sim_step m inf cs hne s f h op).1

theorem sim_train (m : Metric V S) (inf : S) (dim nlist n : Nat) (cs : List V)
    (hn : nlist ≤ n) (hcs : cs.length = nlist) :
    Sim m inf cs (step m inf (init dim nlist) (.train n cs)).1 (Flat.init dim) := by
  have : ¬ n < nlist := by omega
  simp only [step, init, this, if_false]
  refine ⟨rfl, hcs.symm, rfl, rfl, rfl, ?_⟩
  simp only [Flat.init, bucketsOf, List.filter_nil, hcs]
  apply List.ext_getElem?
  intro i
  rcases Nat.lt_or_ge i nlist with hi | hi
  · simp [hi]
  · simp [hi]

/-! ### search -/

/-- `FindNearestCentroidIndex` returns the least index among the minimisers. -/
theorem nearest_spec (m : Metric V S) (ord : m.sc.Ordered) (inf : S)
    (top : ∀ x, m.sc.le x inf = true) (v : V) (cs : List V) (hne : cs ≠ []) :
    ∃ c, cs[nearest m inf v cs]? = some c ∧
      (∀ c' ∈ cs, m.sc.le (m.dist v c) (m.dist v c') = true) ∧
      ∀ j, j < nearest m inf v cs → ∀ cj, cs[j]? = some cj →
        m.sc.le (m.dist v cj) (m.dist v c) = false := by
  have hne' : cs.map (m.dist v) ≠ [] := by simpa using hne
  obtain ⟨d, h1, h2, h3⟩ := argmin_spec m.sc ord inf top (cs.map (m.dist v)) hne'
  unfold nearest
  rw [List.getElem?_map] at h1
  cases hc : cs[argmin m.sc inf (cs.map (m.dist v))]? with
  | none => rw [hc] at h1; cases h1
  | some c =>
    rw [hc] at h1
    simp only [Option.map_some, Option.some.injEq] at h1
    subst h1
    refine ⟨c, rfl, ?_, ?_⟩
    · intro c' hc'
      exact h2 _ (List.mem_map.2 ⟨c', hc', rfl⟩)
    · intro j hj cj hcj
      exact h3 j hj _ (by rw [List.getElem?_map, hcj]; rfl)

theorem clampProbes_le (p : Int) (n : Nat) : clampProbes p n ≤ n := by
  unfold clampProbes; split <;> omega

theorem clampProbes_full {p : Int} {n : Nat} (h : p ≤ 0 ∨ (n : Int) ≤ p) : clampProbes p n = n := by
  unfold clampProbes; split <;> omega

theorem clampProbes_of_pos_le {p : Int} {n : Nat} (h0 : 0 < p) (h : p ≤ n) :
    clampProbes p n = p.toNat := by
  unfold clampProbes; split <;> omega

/-- what `searchSingleQuery` computes in a trained state that refines `f` -/
theorem searchSingle_eq (m : Metric V S) (inf : S) (cs : List V)
    (s : State V) (f : Flat.State V) (h : Sim m inf cs s f)
    (q q' : V) (k : Int) (thr : S) (F : List Id) (p : Int)
    (hq : m.dimOf q = s.dim) (hpre : m.pre q = some q') :
    searchSingle m s q k thr F p = .ok (selectK m.sc.le k
      (Flat.scan m ⟨s.dim,
        (probe m q' cs (clampProbes p cs.length)).flatMap
          (fun i => f.vecs.filter fun e => keyOf m inf cs e == i), f.deleted⟩ q' thr F)) := by
  have ht : (!s.trained) = false := by rw [h.trained]; rfl
  have hq' : ¬ m.dimOf q ≠ s.dim := by simpa using hq
  unfold searchSingle
  simp only [ht, Bool.false_eq_true, if_false, hq', hpre, h.cent, h.nlist]
  have hlen : ¬ (rank m q' cs).length < clampProbes p cs.length := by
    rw [rank_length]; have := clampProbes_le p cs.length; omega
  simp only [hlen, if_false]
  have hg := gather_bucketsOf (keyOf m inf cs) cs.length f.vecs
    (probe m q' cs (clampProbes p cs.length))
    (fun i hi => by
      have := (List.mem_map.1 hi)
      obtain ⟨a, ha, rfl⟩ := this
      have hmem : a.1 ∈ (rank m q' cs).map (·.1) := List.mem_map.2 ⟨a, List.mem_of_mem_take ha, rfl⟩
      have := (rank_map_fst_perm m q' cs).subset hmem
      simpa using this)
  unfold probe at hg
  rw [h.lists, hg]
  simp only [h.deleted, List.flatMap, probe]

/-- the probed candidates of the model are, as a multiset, the specification's -/
theorem scan_probe_perm (m : Metric V S) (inf : S) (cs : List V) (f : Flat.State V)
    (dim : Nat) (q' : V) (thr : S) (F : List Id) (P : List Nat) (hnd : P.Nodup) :
    (Flat.scan m ⟨dim, P.flatMap (fun i => f.vecs.filter fun e => keyOf m inf cs e == i),
        f.deleted⟩ q' thr F).Perm
      (probeCands m inf cs P (Flat.eff f) q' thr F) := by
  rw [Flat.scan_eq_cands]
  unfold probeCands inClusters Flat.cands
  apply List.Perm.filterMap
  unfold Flat.eff
  simp only
  rw [List.filter_filter]
  have := (buckets_perm (keyOf m inf cs) f.vecs P hnd).filter (fun p => decide (p.1 ∉ f.deleted))
  rw [List.filter_filter] at this
  refine this.trans ?_
  apply List.Perm.of_eq
  apply List.filter_congr
  intro e _
  simp only [keyOf]
  exact Bool.and_comm _ _

/-! ### histories -/

theorem flat_step_ids_sub (m : Metric V S) (s : Flat.State V) (op : Flat.Op V) :
    ∀ i ∈ Flat.ids (Flat.step m s op).1, i ∈ Flat.ids s ∨ i ∈ Flat.addedIds [op] := by
  intro i hi
  have hfl : ∀ i ∈ Flat.ids (Flat.flushed s), i ∈ Flat.ids s := by
    intro i hi
    simp only [Flat.ids, Flat.flushed, List.mem_map, List.mem_filter] at hi ⊢
    obtain ⟨p, ⟨hp, _⟩, rfl⟩ := hi
    exact ⟨p, hp, rfl⟩
  cases op with
  | add id v =>
    simp only [Flat.step] at hi
    split at hi
    · exact Or.inl hi
    · split at hi
      · exact Or.inl hi
      · simp only [Flat.ids, List.map_append, List.mem_append, List.map_cons, List.map_nil,
          List.mem_singleton] at hi
        rcases hi with hi | hi
        · left
          split at hi
          · exact hfl i hi
          · exact hi
        · exact Or.inr (by simp [Flat.addedIds, hi])
  | remove id =>
    simp only [Flat.step] at hi
    split at hi
    · exact Or.inl hi
    · split at hi <;> exact Or.inl hi
  | flush =>
    simp only [Flat.step] at hi
    split at hi
    · exact Or.inl hi
    · exact Or.inl (hfl i hi)

/-- with distinct add ids the flat index never stores an id twice -/
theorem flat_ids_nodup_run (m : Metric V S) (s : Flat.State V) (ops : List (Flat.Op V))
    (hnd : (Flat.ids s).Nodup) (hfresh : Flat.FreshAdds ops)
    (hnew : ∀ i ∈ Flat.ids s, i ∉ Flat.addedIds ops) :
    (Flat.ids (Flat.run m s ops)).Nodup := by
  induction ops generalizing s with
  | nil => exact hnd
  | cons op t ih =>
    simp only [Flat.run, List.foldl_cons]
    have hfresh' : Flat.FreshAdds t := by
      cases op <;> simp_all [Flat.FreshAdds, Flat.addedIds]
    have hnew' : ∀ i ∈ Flat.ids (Flat.step m s op).1, i ∉ Flat.addedIds t := by
      intro i hi
      rcases flat_step_ids_sub m s op i hi with h | h
      · have := hnew i h
        cases op <;> simp_all [Flat.addedIds]
      · cases op <;> simp_all [Flat.FreshAdds, Flat.addedIds]
    have hflnd : (Flat.ids (Flat.flushed s)).Nodup := by
      simp only [Flat.ids, Flat.flushed]
      exact hnd.sublist (List.Sublist.map _ List.filter_sublist)
    have hflsub : ∀ i ∈ Flat.ids (Flat.flushed s), i ∈ Flat.ids s := by
      intro i hi
      simp only [Flat.ids, Flat.flushed, List.mem_map, List.mem_filter] at hi ⊢
      obtain ⟨p, ⟨hp, _⟩, rfl⟩ := hi
      exact ⟨p, hp, rfl⟩
    refine ih (Flat.step m s op).1 ?_ hfresh' hnew'
    cases op with
    | add id v =>
      simp only [Flat.step]
      split
      · exact hnd
      · split
        · exact hnd
        · simp only [Flat.ids, List.map_append, List.map_cons, List.map_nil]
          rw [List.nodup_append]
          refine ⟨?_, by simp, ?_⟩
          · split
            · exact hflnd
            · exact hnd
          · intro a ha b hb
            simp only [List.mem_singleton] at hb
            subst hb
            intro hab
            subst hab
            have ha' : a ∈ Flat.ids s := by
              split at ha
              · exact hflsub a ha
              · exact ha
            exact hnew a ha' (by simp [Flat.addedIds])
    | remove id =>
      simp only [Flat.step]
      split
      · exact hnd
      · split <;> exact hnd
    | flush =>
      simp only [Flat.step]
      split
      · exact hnd
      · exact hflnd

theorem flat_ids_nodup (m : Metric V S) (dim : Nat) (ops : List (Flat.Op V))
    (hfresh : Flat.FreshAdds ops) : (Flat.ids (Flat.run m (Flat.init dim) ops)).Nodup :=
  flat_ids_nodup_run m (Flat.init dim) ops (by simp [Flat.ids, Flat.init]) hfresh
    (by intro i hi; simp [Flat.ids, Flat.init] at hi)

/-- the state after `Train` followed by an Add / Remove / Flush history -/
def trainedRun (m : Metric V S) (inf : S) (dim nlist n : Nat) (cs : List V)
    (ops : List (Flat.Op V)) : State V :=
  run m inf (init dim nlist) (.train n cs :: ops.map ofFlat)

theorem sim_trainedRun (m : Metric V S) (inf : S) (dim nlist n : Nat) (cs : List V)
    (hpos : 0 < nlist) (hn : nlist ≤ n) (hcs : cs.length = nlist) (ops : List (Flat.Op V)) :
    Sim m inf cs (trainedRun m inf dim nlist n cs ops) (Flat.run m (Flat.init dim) ops) := by
  have hne : cs ≠ [] := by
    intro h; rw [h] at hcs; simp at hcs; omega
  unfold trainedRun
  simp only [run, List.foldl_cons]
  exact sim_run m inf cs hne _ _ (sim_train m inf dim nlist n cs hn hcs) ops

end Comet.IVF
