/-
  Helper lemmas for C17 (Comet/Storage/Lock.lean): the step function as a relation
  (`Step`), the inductive invariant `Inv` and its preservation.
-/
import Comet.Storage.Lock
set_option linter.unusedSimpArgs false
namespace Comet.Lock

/-! ### projections of the state updates -/

@[simp] theorem goto_dir (s : State) (t pc) : (s.goto t pc).dir = s.dir := rfl
@[simp] theorem goto_handles (s : State) (t pc) : (s.goto t pc).handles = s.handles := rfl
@[simp] theorem goto_threads (s : State) (t pc) :
    (s.goto t pc).threads = upd s.threads t { s.threads t with pc := pc } := rfl
@[simp] theorem ret_dir (s : State) (t o r) : (s.ret t o r).1.dir = s.dir := rfl
@[simp] theorem ret_handles (s : State) (t o r) : (s.ret t o r).1.handles = s.handles := rfl
@[simp] theorem ret_threads (s : State) (t o r) :
    (s.ret t o r).1.threads = upd s.threads t
      { s.threads t with pc := .idle, idx := (s.threads t).idx + 1, results := r :: (s.threads t).results } := rfl
@[simp] theorem ret_ev (s : State) (t o r) : (s.ret t o r).2 = [Ev.ret t (s.threads t).idx o r] := rfl
@[simp] theorem setHandle_dir (s : State) (h f) : (s.setHandle h f).dir = s.dir := rfl
@[simp] theorem setHandle_threads (s : State) (h f) : (s.setHandle h f).threads = s.threads := rfl
@[simp] theorem setHandle_handles (s : State) (h f) :
    (s.setHandle h f).handles = upd s.handles h (f (s.handles h)) := rfl

/-- The step function, case by case.  `th` is the moving thread before the step,
    `o = (t, th.idx)` the name of its current call. -/
inductive Step (s : State) : Actor → State → List Ev → Prop
  | invOpen (t f rest) (hpc : (s.threads t).pc = .idle) (htodo : (s.threads t).todo = .open f :: rest) :
      Step s (.thread t)
        { s with threads := upd s.threads t { s.threads t with todo := rest, pc := .oMkdir f } }
        [Ev.inv t (s.threads t).idx (.open f)]
  | invClose (t h rest) (hpc : (s.threads t).pc = .idle) (htodo : (s.threads t).todo = .close h :: rest)
      (hpub : (s.handles h).published = true) :
      Step s (.thread t)
        { s with threads := upd s.threads t { s.threads t with todo := rest, pc := .cTest h } }
        [Ev.inv t (s.threads t).idx (.close h)]
  | invOp (t h k rest) (hpc : (s.threads t).pc = .idle) (htodo : (s.threads t).todo = .op h k :: rest)
      (hpub : (s.handles h).published = true) :
      Step s (.thread t)
        { s with threads := upd s.threads t { s.threads t with todo := rest, pc := .pTest h k } }
        [Ev.inv t (s.threads t).idx (.op h k)]
  | mkdirFail (t f) (hpc : (s.threads t).pc = .oMkdir f) (hf : f = some .mkdir) :
      Step s (.thread t) (s.ret t (t, (s.threads t).idx) .errMkdir).1 [Ev.ret t (s.threads t).idx (t, (s.threads t).idx) .errMkdir]
  | mkdirOk (t f) (hpc : (s.threads t).pc = .oMkdir f) (hf : f ≠ some .mkdir) :
      Step s (.thread t)
        { s with dir := { s.dir with present := true },
                 threads := upd s.threads t { s.threads t with pc := .oCreate f } } []
  | createFail (t f) (hpc : (s.threads t).pc = .oCreate f) (hf : f = some .create) :
      Step s (.thread t) (s.ret t (t, (s.threads t).idx) .errCreate).1 [Ev.ret t (s.threads t).idx (t, (s.threads t).idx) .errCreate]
  | createLocked (t f o') (hpc : (s.threads t).pc = .oCreate f) (hf : f ≠ some .create)
      (hlock : s.dir.lock = some o') :
      Step s (.thread t) (s.ret t (t, (s.threads t).idx) .errLocked).1 [Ev.ret t (s.threads t).idx (t, (s.threads t).idx) .errLocked]
  | createOk (t f) (hpc : (s.threads t).pc = .oCreate f) (hf : f ≠ some .create)
      (hlock : s.dir.lock = none) :
      Step s (.thread t)
        { dir := { s.dir with lock := some (t, (s.threads t).idx) },
          handles := upd s.handles (t, (s.threads t).idx)
                   { s.handles (t, (s.threads t).idx) with fdOpen := true },
          threads := upd s.threads t { s.threads t with pc := .oWritePid f } }
        [Ev.createOk (t, (s.threads t).idx)]
  | writePidFail (t f) (hpc : (s.threads t).pc = .oWritePid f) (hf : f = some .writePid) :
      Step s (.thread t)
        { s with threads := upd s.threads t { s.threads t with pc := .oCleanup .errWritePid } } []
  | writePidOk (t f) (hpc : (s.threads t).pc = .oWritePid f) (hf : f ≠ some .writePid) :
      Step s (.thread t)
        { s with handles := upd s.handles (t, (s.threads t).idx)
                   { s.handles (t, (s.threads t).idx) with lockFile := true },
                 threads := upd s.threads t { s.threads t with pc := .oReadDir1 f } } []
  | readDir1Fail (t f) (hpc : (s.threads t).pc = .oReadDir1 f) (hf : f = some .readDir1) :
      Step s (.thread t)
        { s with threads := upd s.threads t { s.threads t with pc := .oCleanup .errReadDir1 } } []
  | readDir1Ok (t f) (hpc : (s.threads t).pc = .oReadDir1 f) (hf : f ≠ some .readDir1) :
      Step s (.thread t)
        { s with threads := upd s.threads t { s.threads t with pc := .oReadDir2 f } } []
  | readDir2Fail (t f) (hpc : (s.threads t).pc = .oReadDir2 f) (hf : f = some .readDir2) :
      Step s (.thread t)
        { s with threads := upd s.threads t { s.threads t with pc := .oCleanup .errReadDir2 } } []
  | readDir2Ok (t f) (hpc : (s.threads t).pc = .oReadDir2 f) (hf : f ≠ some .readDir2) :
      Step s (.thread t)
        { s with threads := upd s.threads t { s.threads t with pc := .oSpawn } } []
  | spawn (t) (hpc : (s.threads t).pc = .oSpawn) :
      Step s (.thread t)
        { s with handles := upd s.handles (t, (s.threads t).idx)
                   { s.handles (t, (s.threads t).idx) with published := true, running := 2 },
                 threads := upd s.threads t
                   { s.threads t with pc := .idle, idx := (s.threads t).idx + 1,
                                      results := .opened :: (s.threads t).results } }
        [Ev.ret t (s.threads t).idx (t, (s.threads t).idx) .opened]
  | cleanup (t r) (hpc : (s.threads t).pc = .oCleanup r) :
      Step s (.thread t)
        { dir := { s.dir with lock := none },
          handles := upd s.handles (t, (s.threads t).idx)
                   { s.handles (t, (s.threads t).idx) with fdOpen := false, lockFile := false },
          threads := upd s.threads t
                   { s.threads t with pc := .idle, idx := (s.threads t).idx + 1,
                                      results := r :: (s.threads t).results } }
        [Ev.removeLock (t, (s.threads t).idx), Ev.ret t (s.threads t).idx (t, (s.threads t).idx) r]
  | closeLose (t h) (hpc : (s.threads t).pc = .cTest h) (hc : (s.handles h).closed = true) :
      Step s (.thread t) (s.ret t h .errAlreadyClosed).1
        [Ev.testSet t (s.threads t).idx h false, Ev.ret t (s.threads t).idx h .errAlreadyClosed]
  | closeWin (t h) (hpc : (s.threads t).pc = .cTest h) (hc : (s.handles h).closed = false) :
      Step s (.thread t)
        { s with handles := upd s.handles h { s.handles h with closed := true },
                 threads := upd s.threads t { s.threads t with pc := .cSignal h } }
        [Ev.testSet t (s.threads t).idx h true]
  | closeSignal (t h) (hpc : (s.threads t).pc = .cSignal h) :
      Step s (.thread t)
        { s with handles := upd s.handles h { s.handles h with signalled := true },
                 threads := upd s.threads t { s.threads t with pc := .cWait h } } []
  | closeWait (t h) (hpc : (s.threads t).pc = .cWait h) (hrun : (s.handles h).running = 0) :
      Step s (.thread t)
        { s with threads := upd s.threads t { s.threads t with pc := .cRelease h } } []
  | closeFd (t h) (hpc : (s.threads t).pc = .cRelease h) (hlf : (s.handles h).lockFile = true) :
      Step s (.thread t)
        { s with handles := upd s.handles h { s.handles h with fdOpen := false },
                 threads := upd s.threads t { s.threads t with pc := .cRemove h } } []
  | closeRemove (t h) (hpc : (s.threads t).pc = .cRemove h) :
      Step s (.thread t)
        { s with dir := { s.dir with lock := none },
                 threads := upd s.threads t { s.threads t with pc := .cClear h } }
        [Ev.removeLock h]
  | closeSkip (t h) (hpc : (s.threads t).pc = .cRelease h) (hlf : (s.handles h).lockFile = false) :
      Step s (.thread t) (s.ret t h .closedOk).1 [Ev.ret t (s.threads t).idx h .closedOk]
  | closeClear (t h) (hpc : (s.threads t).pc = .cClear h) :
      Step s (.thread t)
        { s with handles := upd s.handles h { s.handles h with lockFile := false },
                 threads := upd s.threads t
                   { s.threads t with pc := .idle, idx := (s.threads t).idx + 1,
                                      results := .closedOk :: (s.threads t).results } }
        [Ev.ret t (s.threads t).idx h .closedOk]
  | opFail (t h k) (hpc : (s.threads t).pc = .pTest h k) (hc : (s.handles h).closed = true) :
      Step s (.thread t) (s.ret t h .errClosed).1
        [Ev.test t (s.threads t).idx h false, Ev.ret t (s.threads t).idx h .errClosed]
  | opPass (t h k) (hpc : (s.threads t).pc = .pTest h k) (hc : (s.handles h).closed = false) :
      Step s (.thread t)
        { s with threads := upd s.threads t { s.threads t with pc := .pBody h k k.bodyWrites } }
        [Ev.test t (s.threads t).idx h true]
  | opDone (t h k) (hpc : (s.threads t).pc = .pBody h k 0) :
      Step s (.thread t) (s.ret t h .opOk).1 [Ev.ret t (s.threads t).idx h .opOk]
  | opWrite (t h k n) (hpc : (s.threads t).pc = .pBody h k (n + 1)) :
      Step s (.thread t)
        { s with dir := { s.dir with writes := s.dir.writes + 1 },
                 threads := upd s.threads t { s.threads t with pc := .pBody h k n } } []
  | workerWrite (h) (hrun : (s.handles h).running ≠ 0) :
      Step s (.worker h .write) { s with dir := { s.dir with writes := s.dir.writes + 1 } } []
  | workerExit (h) (hrun : (s.handles h).running ≠ 0) (hsig : (s.handles h).signalled = true) :
      Step s (.worker h .exit)
        { s with handles := upd s.handles h { s.handles h with running := (s.handles h).running - 1 } } []

theorem step_shape {s : State} {a s' ev} (hs : step s a = some (s', ev)) : Step s a s' ev := by
  cases a with
  | thread t =>
    simp only [step, tstep] at hs
    split at hs
    next hpc =>
      split at hs
      · cases hs
      next c rest htodo =>
        split at hs
        next f =>
          cases hs; exact .invOpen t f rest hpc htodo
        next h =>
          split at hs
          next hp => cases hs; exact .invClose t h rest hpc htodo hp
          · cases hs
        next h k =>
          split at hs
          next hp => cases hs; exact .invOp t h k rest hpc htodo hp
          · cases hs
    next f hpc =>
      split at hs
      next hf => cases hs; exact .mkdirFail t f hpc hf
      next hf => cases hs; exact .mkdirOk t f hpc hf
    next f hpc =>
      split at hs
      next hf => cases hs; exact .createFail t f hpc hf
      next hf =>
        split at hs
        next o' hl => cases hs; exact .createLocked t f o' hpc hf hl
        next hl => cases hs; exact .createOk t f hpc hf hl
    next f hpc =>
      split at hs
      next hf => cases hs; exact .writePidFail t f hpc hf
      next hf => cases hs; exact .writePidOk t f hpc hf
    next f hpc =>
      split at hs
      next hf => cases hs; exact .readDir1Fail t f hpc hf
      next hf => cases hs; exact .readDir1Ok t f hpc hf
    next f hpc =>
      split at hs
      next hf => cases hs; exact .readDir2Fail t f hpc hf
      next hf => cases hs; exact .readDir2Ok t f hpc hf
    next hpc => cases hs; exact .spawn t hpc
    next r hpc => cases hs; exact .cleanup t r hpc
    next h hpc =>
      split at hs
      next hc => cases hs; exact .closeLose t h hpc hc
      next hc => cases hs; exact .closeWin t h hpc (by simpa using hc)
    next h hpc => cases hs; exact .closeSignal t h hpc
    next h hpc =>
      split at hs
      next hr => cases hs; exact .closeWait t h hpc hr
      · cases hs
    next h hpc =>
      split at hs
      next hl => cases hs; exact .closeFd t h hpc hl
      next hl => cases hs; exact .closeSkip t h hpc (by simpa using hl)
    next h hpc => cases hs; exact .closeRemove t h hpc
    next h hpc => cases hs; exact .closeClear t h hpc
    next h k hpc =>
      split at hs
      next hc => cases hs; exact .opFail t h k hpc hc
      next hc => cases hs; exact .opPass t h k hpc (by simpa using hc)
    next h k left hpc =>
      split at hs
      · cases hs; exact .opDone t h k hpc
      next n => cases hs; exact .opWrite t h k n hpc
  | worker h w =>
    cases w with
    | write =>
      simp only [step, wstep] at hs
      split at hs
      · cases hs
      next hr => cases hs; exact .workerWrite h hr
    | exit =>
      simp only [step, wstep] at hs
      split at hs
      · cases hs
      next hr =>
        cases hs
        have : (s.handles h).running ≠ 0 ∧ (s.handles h).signalled = true := by
          constructor
          · intro h0; exact hr (Or.inl h0)
          · cases hsig : (s.handles h).signalled with
            | true => rfl
            | false => exact absurd (Or.inr (by simp [hsig])) hr
        exact .workerExit h this.1 this.2

/-! ### the inductive invariant (program state) -/

/-- control points of `open` at which the LOCK entry created by this attempt exists -/
def Pc.inWindow : Pc → Bool
  | .oWritePid _ | .oReadDir1 _ | .oReadDir2 _ | .oSpawn | .oCleanup _ => true
  | _ => false

/-- control points of `open` at which `p.lockFile` has been assigned -/
def Pc.hasLockFile : Pc → Bool
  | .oReadDir1 _ | .oReadDir2 _ | .oSpawn => true
  | _ => false

/-- inside Close on `h`, past the test-and-set -/
def Pc.inCloseCS (h : Owner) : Pc → Bool
  | .cSignal h' | .cWait h' | .cRelease h' | .cRemove h' | .cClear h' => h' == h
  | _ => false

/-- inside releaseLock of Close on `h` -/
def Pc.inRelease (h : Owner) : Pc → Bool
  | .cRelease h' | .cRemove h' | .cClear h' => h' == h
  | _ => false

/-- inside Close on `h`, past the test-and-set, before `p.lockFile.Close()` -/
def Pc.beforeFd (h : Owner) : Pc → Bool
  | .cSignal h' | .cWait h' | .cRelease h' => h' == h
  | _ => false

/-- a call on handle `h` is in flight -/
def Pc.refs (h : Owner) : Pc → Bool
  | .cTest h' | .cSignal h' | .cWait h' | .cRelease h' | .cRemove h' | .cClear h' => h' == h
  | .pTest h' _ | .pBody h' _ _ => h' == h
  | _ => false

theorem Pc.refs_of_inRelease {h pc} (x : Pc.inRelease h pc = true) : Pc.refs h pc = true := by
  cases pc <;> simp_all [Pc.inRelease, Pc.refs]
theorem Pc.refs_of_inCloseCS {h pc} (x : Pc.inCloseCS h pc = true) : Pc.refs h pc = true := by
  cases pc <;> simp_all [Pc.inCloseCS, Pc.refs]
theorem Pc.refs_of_beforeFd {h pc} (x : Pc.beforeFd h pc = true) : Pc.refs h pc = true := by
  cases pc <;> simp_all [Pc.beforeFd, Pc.refs]
theorem Pc.inCloseCS_of_beforeFd {h pc} (x : Pc.beforeFd h pc = true) : Pc.inCloseCS h pc = true := by
  cases pc <;> simp_all [Pc.beforeFd, Pc.inCloseCS]
theorem Pc.inCloseCS_of_inRelease {h pc} (x : Pc.inRelease h pc = true) : Pc.inCloseCS h pc = true := by
  cases pc <;> simp_all [Pc.inRelease, Pc.inCloseCS]

structure Inv (s : State) (log : List Ev) : Prop where
  pub_lt : ∀ o : Owner, (s.handles o).published = true → o.2 < (s.threads o.1).idx
  refs_pub : ∀ t h, (s.threads t).pc.refs h = true → (s.handles h).published = true
  cs_closed : ∀ t h, (s.threads t).pc.inCloseCS h = true → (s.handles h).closed = true
  cs_unique : ∀ t t' h, (s.threads t).pc.inCloseCS h = true → (s.threads t').pc.inCloseCS h = true → t = t'
  window_fd : ∀ t, (s.threads t).pc.inWindow = true → (s.handles (t, (s.threads t).idx)).fdOpen = true
  lockfile_pc : ∀ t, (s.threads t).pc.hasLockFile = true → (s.handles (t, (s.threads t).idx)).lockFile = true
  live_fd : ∀ h, (s.handles h).published = true → (s.handles h).closed = false →
      (s.handles h).fdOpen = true ∧ (s.handles h).lockFile = true
  release_norun : ∀ t h, (s.threads t).pc.inRelease h = true → (s.handles h).running = 0
  running_fd : ∀ h, (s.handles h).running ≠ 0 → (s.handles h).published = true ∧ (s.handles h).fdOpen = true
  fd_lock : ∀ o, (s.handles o).fdOpen = true → s.dir.lock = some o
  remove_lock : ∀ t h, (s.threads t).pc = .cRemove h → s.dir.lock = some h ∧ (s.handles h).fdOpen = false
  cs_fd : ∀ t h, (s.threads t).pc.beforeFd h = true → (s.handles h).fdOpen = true ∧ (s.handles h).lockFile = true
  cleanup_res : ∀ t r, (s.threads t).pc = .oCleanup r → r = .errWritePid ∨ r = .errReadDir1 ∨ r = .errReadDir2
  create_present : ∀ t f, (s.threads t).pc = .oCreate f → s.dir.present = true
  lock_present : ∀ o, s.dir.lock = some o → s.dir.present = true
  closed_pub : ∀ h, (s.handles h).closed = true → (s.handles h).published = true
  live_running : ∀ h, (s.handles h).published = true → (s.handles h).closed = false →
      (s.handles h).running = 2 ∧ (s.handles h).signalled = false
  signal_closed : ∀ h, (s.handles h).signalled = true → (s.handles h).closed = true
  fresh_handle : ∀ o : Owner, (s.threads o.1).idx ≤ o.2 →
      ((s.threads o.1).idx = o.2 → (s.threads o.1).pc.inWindow = false) → s.handles o = {}

theorem step_pub_lt {s : State} {log a s' ev} (I : Inv s log) (hs : Step s a s' ev) :
    ∀ o : Owner, (s'.handles o).published = true → o.2 < (s'.threads o.1).idx := by
  cases hs <;> intro o <;> simp only [ret_handles, ret_threads, ret_dir] <;> have := I.pub_lt o <;>
    grind [upd]

theorem step_refs_pub {s : State} {log a s' ev} (I : Inv s log) (hs : Step s a s' ev) :
    ∀ t h, (s'.threads t).pc.refs h = true → (s'.handles h).published = true := by
  cases hs <;> intro t' h' <;> simp only [ret_handles, ret_threads, ret_dir] <;> have := I.refs_pub t' h' <;>
    grind [upd, Pc.refs]

theorem step_cs_closed {s : State} {log a s' ev} (I : Inv s log) (hs : Step s a s' ev) :
    ∀ t h, (s'.threads t).pc.inCloseCS h = true → (s'.handles h).closed = true := by
  cases hs <;> intro t' h' <;> simp only [ret_handles, ret_threads, ret_dir] <;> have := I.cs_closed t' h' <;>
    grind [upd, Pc.inCloseCS]

theorem step_cs_unique {s : State} {log a s' ev} (I : Inv s log) (hs : Step s a s' ev) :
    ∀ t t' h, (s'.threads t).pc.inCloseCS h = true → (s'.threads t').pc.inCloseCS h = true → t = t' := by
  cases hs <;> intro t1 t2 h' <;> simp only [ret_handles, ret_threads, ret_dir] <;> have := I.cs_unique t1 t2 h' <;> have := I.cs_closed t1 h' <;> have := I.cs_closed t2 h' <;>
    grind [upd, Pc.inCloseCS]

theorem step_window_fd {s : State} {log a s' ev} (I : Inv s log) (hs : Step s a s' ev) :
    ∀ t, (s'.threads t).pc.inWindow = true → (s'.handles (t, (s'.threads t).idx)).fdOpen = true := by
  have h_pub_lt := I.pub_lt
  have h_refs_pub := I.refs_pub
  cases hs <;> intro t' <;> simp only [ret_handles, ret_threads, ret_dir] <;> have := I.window_fd t' <;>
    grind [upd, Pc.inWindow, Pc.refs]

theorem step_lockfile_pc {s : State} {log a s' ev} (I : Inv s log) (hs : Step s a s' ev) :
    ∀ t, (s'.threads t).pc.hasLockFile = true → (s'.handles (t, (s'.threads t).idx)).lockFile = true := by
  have h_pub_lt := I.pub_lt
  have h_refs_pub := I.refs_pub
  cases hs <;> intro t' <;> simp only [ret_handles, ret_threads, ret_dir] <;> have := I.lockfile_pc t' <;>
    grind [upd, Pc.hasLockFile, Pc.refs]

theorem step_live_fd {s : State} {log a s' ev} (I : Inv s log) (hs : Step s a s' ev) :
    ∀ h, (s'.handles h).published = true → (s'.handles h).closed = false →
      (s'.handles h).fdOpen = true ∧ (s'.handles h).lockFile = true := by
  have h_pub_lt := I.pub_lt
  have h_cs_closed := I.cs_closed
  have h_window_fd := I.window_fd
  have h_lockfile_pc := I.lockfile_pc
  cases hs <;> intro h' <;> simp only [ret_handles, ret_threads, ret_dir] <;> have := I.live_fd h' <;>
    grind [upd, Pc.hasLockFile, Pc.inCloseCS, Pc.inWindow]

theorem step_release_norun {s : State} {log a s' ev} (I : Inv s log) (hs : Step s a s' ev) :
    ∀ t h, (s'.threads t).pc.inRelease h = true → (s'.handles h).running = 0 := by
  have h_pub_lt := I.pub_lt
  have h_refs_pub := I.refs_pub
  cases hs <;> intro t' h' <;> simp only [ret_handles, ret_threads, ret_dir] <;> have := I.release_norun t' h' <;> have := @Pc.refs_of_inRelease h' (s.threads t').pc <;>
    grind [upd, Pc.inRelease, Pc.refs]

theorem step_running_fd {s : State} {log a s' ev} (I : Inv s log) (hs : Step s a s' ev) :
    ∀ h, (s'.handles h).running ≠ 0 → (s'.handles h).published = true ∧ (s'.handles h).fdOpen = true := by
  have h_pub_lt := I.pub_lt
  have h_refs_pub := I.refs_pub
  have h_window_fd := I.window_fd
  have h_release_norun := I.release_norun
  cases hs <;> intro h' <;> simp only [ret_handles, ret_threads, ret_dir] <;> have := I.running_fd h' <;>
    grind [upd, Pc.inRelease, Pc.refs, Pc.inWindow]

theorem step_fd_lock {s : State} {log a s' ev} (I : Inv s log) (hs : Step s a s' ev) :
    ∀ o, (s'.handles o).fdOpen = true → s'.dir.lock = some o := by
  have h_pub_lt := I.pub_lt
  have h_refs_pub := I.refs_pub
  have h_window_fd := I.window_fd
  have h_remove_lock := I.remove_lock
  have h_fd_lock := I.fd_lock
  cases hs <;> intro o <;> simp only [ret_handles, ret_threads, ret_dir] <;> have := I.fd_lock o <;>
    grind [upd, Pc.refs, Pc.inWindow]

theorem step_remove_lock {s : State} {log a s' ev} (I : Inv s log) (hs : Step s a s' ev) :
    ∀ t h, (s'.threads t).pc = .cRemove h → s'.dir.lock = some h ∧ (s'.handles h).fdOpen = false := by
  have h_pub_lt := I.pub_lt
  have h_refs_pub := I.refs_pub
  have h_cs_closed := I.cs_closed
  have h_cs_unique := I.cs_unique
  have h_window_fd := I.window_fd
  have h_fd_lock := I.fd_lock
  have h_remove_lock := I.remove_lock
  have h_cs_fd := I.cs_fd
  cases hs <;> intro t' h' <;> simp only [ret_handles, ret_threads, ret_dir] <;> have := I.remove_lock t' h' <;>
    grind [upd, Pc.refs, Pc.inWindow, Pc.inCloseCS, Pc.beforeFd]

theorem step_cs_fd {s : State} {log a s' ev} (I : Inv s log) (hs : Step s a s' ev) :
    ∀ t h, (s'.threads t).pc.beforeFd h = true → (s'.handles h).fdOpen = true ∧ (s'.handles h).lockFile = true := by
  have h_pub_lt := I.pub_lt
  have h_refs_pub := I.refs_pub
  have h_cs_unique := I.cs_unique
  have h_live_fd := I.live_fd
  cases hs <;> intro t' h' <;> simp only [ret_handles, ret_threads, ret_dir] <;> have := I.cs_fd t' h' <;>
    have := @Pc.inCloseCS_of_beforeFd h' (s.threads t').pc <;>
    have := @Pc.refs_of_beforeFd h' (s.threads t').pc <;>
    grind [upd, Pc.refs, Pc.beforeFd, Pc.inCloseCS]

theorem step_cleanup_res {s : State} {log a s' ev} (I : Inv s log) (hs : Step s a s' ev) :
    ∀ t r, (s'.threads t).pc = .oCleanup r → r = .errWritePid ∨ r = .errReadDir1 ∨ r = .errReadDir2 := by
  cases hs <;> intro t' r' <;> simp only [ret_handles, ret_threads, ret_dir] <;> have := I.cleanup_res t' r' <;>
    grind [upd]

theorem step_create_present {s : State} {log a s' ev} (I : Inv s log) (hs : Step s a s' ev) :
    ∀ t f, (s'.threads t).pc = .oCreate f → s'.dir.present = true := by
  cases hs <;> intro t' f' <;> simp only [ret_handles, ret_threads, ret_dir] <;> have := I.create_present t' f' <;>
    grind [upd]

theorem step_lock_present {s : State} {log a s' ev} (I : Inv s log) (hs : Step s a s' ev) :
    ∀ o, s'.dir.lock = some o → s'.dir.present = true := by
  have h1 := I.create_present
  cases hs <;> intro o <;> simp only [ret_handles, ret_threads, ret_dir] <;> have := I.lock_present o <;>
    grind [upd]

theorem step_closed_pub {s : State} {log a s' ev} (I : Inv s log) (hs : Step s a s' ev) :
    ∀ h, (s'.handles h).closed = true → (s'.handles h).published = true := by
  have h1 := I.refs_pub
  cases hs <;> intro h' <;> simp only [ret_handles, ret_threads, ret_dir] <;> have := I.closed_pub h' <;>
    grind [upd, Pc.refs]

theorem step_signal_closed {s : State} {log a s' ev} (I : Inv s log) (hs : Step s a s' ev) :
    ∀ h, (s'.handles h).signalled = true → (s'.handles h).closed = true := by
  have h1 := I.cs_closed
  cases hs <;> intro h' <;> simp only [ret_handles, ret_threads, ret_dir] <;> have := I.signal_closed h' <;>
    grind [upd, Pc.inCloseCS]

theorem step_live_running {s : State} {log a s' ev} (I : Inv s log) (hs : Step s a s' ev) :
    ∀ h, (s'.handles h).published = true → (s'.handles h).closed = false →
      (s'.handles h).running = 2 ∧ (s'.handles h).signalled = false := by
  have h1 := I.cs_closed
  have h2 := I.signal_closed
  have h3 := I.closed_pub
  have h4 := I.pub_lt
  cases hs <;> intro h' <;> simp only [ret_handles, ret_threads, ret_dir] <;> have := I.live_running h' <;>
    grind [upd, Pc.inCloseCS]

theorem step_fresh_handle {s : State} {log a s' ev} (I : Inv s log) (hs : Step s a s' ev) :
    ∀ o : Owner, (s'.threads o.1).idx ≤ o.2 →
      ((s'.threads o.1).idx = o.2 → (s'.threads o.1).pc.inWindow = false) → s'.handles o = {} := by
  have h1 := I.refs_pub
  have h2 := I.pub_lt
  cases hs <;> intro o <;> simp only [ret_handles, ret_threads, ret_dir] <;> have := I.fresh_handle o <;>
    grind [upd, Pc.inWindow, Pc.refs]

theorem inv_step_state {s : State} {log a s' ev} (I : Inv s log) (hs : Step s a s' ev) :
    Inv s' (ev.reverse ++ log) :=
  ⟨step_pub_lt I hs, step_refs_pub I hs, step_cs_closed I hs, step_cs_unique I hs, step_window_fd I hs,
   step_lockfile_pc I hs, step_live_fd I hs, step_release_norun I hs, step_running_fd I hs,
   step_fd_lock I hs, step_remove_lock I hs, step_cs_fd I hs, step_cleanup_res I hs,
   step_create_present I hs, step_lock_present I hs, step_closed_pub I hs, step_live_running I hs,
   step_signal_closed I hs, step_fresh_handle I hs⟩

/-! ### the inductive invariant (trace) -/

structure LogInv (s : State) (log : List Ev) : Prop where
  lock_between : ∀ o, s.dir.lock = some o ↔ Between log o
  remove_lt : ∀ o : Owner, Ev.removeLock o ∈ log → o.2 < (s.threads o.1).idx
  closed_abs : ∀ h, (s.handles h).closed = absClosed h log
  lin : ∀ h, LinLegal h log
  ret_lt : ∀ t i h r, Ev.ret t i h r ∈ log → i < (s.threads t).idx
  pc_inv_op : ∀ t h k, (s.threads t).pc = .pTest h k → Ev.inv t (s.threads t).idx (.op h k) ∈ log
  pc_inv_close : ∀ t h, (s.threads t).pc = .cTest h → Ev.inv t (s.threads t).idx (.close h) ∈ log
  pc_pass : ∀ t h k n, (s.threads t).pc = .pBody h k n → Ev.test t (s.threads t).idx h true ∈ log
  pc_won : (∀ t h, (s.threads t).pc = .cSignal h → Ev.testSet t (s.threads t).idx h true ∈ log) ∧
    (∀ t h, (s.threads t).pc = .cWait h → Ev.testSet t (s.threads t).idx h true ∈ log) ∧
    (∀ t h, (s.threads t).pc = .cRelease h → Ev.testSet t (s.threads t).idx h true ∈ log) ∧
    (∀ t h, (s.threads t).pc = .cRemove h → Ev.testSet t (s.threads t).idx h true ∈ log) ∧
    (∀ t h, (s.threads t).pc = .cClear h → Ev.testSet t (s.threads t).idx h true ∈ log)
  test_idx : ∀ t i h b, Ev.test t i h b ∈ log →
      i < (s.threads t).idx ∨ (i = (s.threads t).idx ∧ (s.threads t).pc ≠ .idle)
  testset_idx : ∀ t i h b, Ev.testSet t i h b ∈ log →
      i < (s.threads t).idx ∨ (i = (s.threads t).idx ∧ (s.threads t).pc ≠ .idle)
  inside : TestsInsideCalls log
  inv_pc : ∀ t i c, Ev.inv t i c ∈ log →
      i < (s.threads t).idx ∨ (i = (s.threads t).idx ∧ (s.threads t).pc.runs c)
  ret_kind : ∀ t i c o r, Ev.inv t i c ∈ log → Ev.ret t i o r ∈ log → c.mayReturn (t, i) o r
  create_pc : ∀ o : Owner, Ev.createOk o ∈ log →
      o.2 < (s.threads o.1).idx ∨ (o.2 = (s.threads o.1).idx ∧ (s.threads o.1).pc.inWindow = true)
  failed_no_lock : ∀ t i r, Ev.ret t i (t, i) r ∈ log → r ≠ .opened → ¬ Between log (t, i)
  pc_clear : ∀ t h, (s.threads t).pc = .cClear h → Ev.removeLock h ∈ log
  closed_ok_released : ∀ t i h, Ev.ret t i h .closedOk ∈ log →
      Ev.removeLock h ∈ log ∧ (s.handles h).closed = true

macro "norm_log" : tactic =>
  `(tactic| simp only [List.reverse_cons, List.reverse_nil, List.nil_append, List.cons_append,
      List.append_nil, List.singleton_append, ret_handles, ret_threads, ret_dir])

theorem step_remove_lt {s : State} {log a s' ev} (I : Inv s log) (L : LogInv s log) (hs : Step s a s' ev) :
    ∀ o : Owner, Ev.removeLock o ∈ ev.reverse ++ log → o.2 < (s'.threads o.1).idx := by
  have h1 := I.refs_pub
  have h2 := I.pub_lt
  cases hs <;> intro o <;> norm_log <;> have := L.remove_lt o <;> grind [upd, Pc.refs]

theorem step_lock_between {s : State} {log a s' ev} (I : Inv s log) (L : LogInv s log) (hs : Step s a s' ev) :
    ∀ o, s'.dir.lock = some o ↔ Between (ev.reverse ++ log) o := by
  have h1 := I.window_fd
  have h2 := I.fd_lock
  have h3 := I.remove_lock
  have h4 := L.remove_lt
  have h5 := L.lock_between
  cases hs <;> intro o <;> norm_log <;> have := L.lock_between o <;> grind [upd, Pc.inWindow, Between]

theorem step_closed_abs {s : State} {log a s' ev} (L : LogInv s log) (hs : Step s a s' ev) :
    ∀ h, (s'.handles h).closed = absClosed h (ev.reverse ++ log) := by
  cases hs <;> intro h' <;> norm_log <;> have := L.closed_abs h' <;> grind [upd, absClosed]

theorem step_lin {s : State} {log a s' ev} (L : LogInv s log) (hs : Step s a s' ev) :
    ∀ h, LinLegal h (ev.reverse ++ log) := by
  have h1 := L.closed_abs
  cases hs <;> intro h' <;> norm_log <;> have := L.lin h' <;> grind [upd, absClosed, LinLegal]

theorem step_ret_lt {s : State} {log a s' ev} (L : LogInv s log) (hs : Step s a s' ev) :
    ∀ t i h r, Ev.ret t i h r ∈ ev.reverse ++ log → i < (s'.threads t).idx := by
  cases hs <;> intro t' i' h' r' <;> norm_log <;> have := L.ret_lt t' i' h' r' <;> grind [upd]

theorem step_pc_inv_op {s : State} {log a s' ev} (L : LogInv s log) (hs : Step s a s' ev) :
    ∀ t h k, (s'.threads t).pc = .pTest h k → Ev.inv t (s'.threads t).idx (.op h k) ∈ ev.reverse ++ log := by
  cases hs <;> intro t' h' k' <;> norm_log <;> have := L.pc_inv_op t' h' k' <;> grind [upd]

theorem step_pc_inv_close {s : State} {log a s' ev} (L : LogInv s log) (hs : Step s a s' ev) :
    ∀ t h, (s'.threads t).pc = .cTest h → Ev.inv t (s'.threads t).idx (.close h) ∈ ev.reverse ++ log := by
  cases hs <;> intro t' h' <;> norm_log <;> have := L.pc_inv_close t' h' <;> grind [upd]

theorem step_pc_pass {s : State} {log a s' ev} (L : LogInv s log) (hs : Step s a s' ev) :
    ∀ t h k n, (s'.threads t).pc = .pBody h k n → Ev.test t (s'.threads t).idx h true ∈ ev.reverse ++ log := by
  have h1 := L.pc_pass
  cases hs <;> intro t' h' k' n' <;> norm_log <;> have := L.pc_pass t' h' k' n' <;> grind [upd]

theorem step_pc_won {s : State} {log a s' ev} (L : LogInv s log) (hs : Step s a s' ev) :
    (∀ t h, (s'.threads t).pc = .cSignal h → Ev.testSet t (s'.threads t).idx h true ∈ ev.reverse ++ log) ∧
    (∀ t h, (s'.threads t).pc = .cWait h → Ev.testSet t (s'.threads t).idx h true ∈ ev.reverse ++ log) ∧
    (∀ t h, (s'.threads t).pc = .cRelease h → Ev.testSet t (s'.threads t).idx h true ∈ ev.reverse ++ log) ∧
    (∀ t h, (s'.threads t).pc = .cRemove h → Ev.testSet t (s'.threads t).idx h true ∈ ev.reverse ++ log) ∧
    (∀ t h, (s'.threads t).pc = .cClear h → Ev.testSet t (s'.threads t).idx h true ∈ ev.reverse ++ log) := by
  obtain ⟨w1, w2, w3, w4, w5⟩ := L.pc_won
  refine ⟨?_, ?_, ?_, ?_, ?_⟩
  · cases hs <;> intro t' h' <;> norm_log <;> have := w1 t' h' <;> grind [upd]
  · cases hs <;> intro t' h' <;> norm_log <;> have := w2 t' h' <;> grind [upd]
  · cases hs <;> intro t' h' <;> norm_log <;> have := w3 t' h' <;> grind [upd]
  · cases hs <;> intro t' h' <;> norm_log <;> have := w4 t' h' <;> grind [upd]
  · cases hs <;> intro t' h' <;> norm_log <;> have := w5 t' h' <;> grind [upd]

theorem step_test_idx {s : State} {log a s' ev} (L : LogInv s log) (hs : Step s a s' ev) :
    ∀ t i h b, Ev.test t i h b ∈ ev.reverse ++ log →
      i < (s'.threads t).idx ∨ (i = (s'.threads t).idx ∧ (s'.threads t).pc ≠ .idle) := by
  cases hs <;> intro t' i' h' b' <;> norm_log <;> have := L.test_idx t' i' h' b' <;> grind [upd]

theorem step_testset_idx {s : State} {log a s' ev} (L : LogInv s log) (hs : Step s a s' ev) :
    ∀ t i h b, Ev.testSet t i h b ∈ ev.reverse ++ log →
      i < (s'.threads t).idx ∨ (i = (s'.threads t).idx ∧ (s'.threads t).pc ≠ .idle) := by
  cases hs <;> intro t' i' h' b' <;> norm_log <;> have := L.testset_idx t' i' h' b' <;> grind [upd]

theorem step_inside {s : State} {log a s' ev} (I : Inv s log) (L : LogInv s log) (hs : Step s a s' ev) :
    TestsInsideCalls (ev.reverse ++ log) := by
  have h0 := L.inside
  have h1 := L.ret_lt
  have h2 := L.pc_inv_op
  have h3 := L.pc_inv_close
  have h4 := L.pc_pass
  have h5 := L.pc_won
  have h6 := I.cleanup_res
  have h7 := L.test_idx
  have h8 := L.testset_idx
  cases hs <;> norm_log <;> grind [TestsInsideCalls, evOk, retOk]

theorem step_inv_pc {s : State} {log a s' ev} (L : LogInv s log) (hs : Step s a s' ev) :
    ∀ t i c, Ev.inv t i c ∈ ev.reverse ++ log →
      i < (s'.threads t).idx ∨ (i = (s'.threads t).idx ∧ (s'.threads t).pc.runs c) := by
  cases hs <;> intro t' i' c' <;> norm_log <;> have := L.inv_pc t' i' c' <;> cases c' <;>
    grind [upd, Pc.runs, Pc.kind, Call.kind]

theorem step_ret_kind {s : State} {log a s' ev} (I : Inv s log) (L : LogInv s log) (hs : Step s a s' ev) :
    ∀ t i c o r, Ev.inv t i c ∈ ev.reverse ++ log → Ev.ret t i o r ∈ ev.reverse ++ log →
      c.mayReturn (t, i) o r := by
  have h1 := L.inv_pc
  have h2 := L.ret_lt
  have h3 := I.cleanup_res
  cases hs <;> intro t' i' c' o' r' <;> norm_log <;> have := L.ret_kind t' i' c' o' r' <;>
    have := L.inv_pc t' i' c' <;> cases c' <;>
    grind [upd, Pc.runs, Pc.kind, Call.kind, Call.mayReturn]

theorem step_create_pc {s : State} {log a s' ev} (L : LogInv s log) (hs : Step s a s' ev) :
    ∀ o : Owner, Ev.createOk o ∈ ev.reverse ++ log →
      o.2 < (s'.threads o.1).idx ∨ (o.2 = (s'.threads o.1).idx ∧ (s'.threads o.1).pc.inWindow = true) := by
  cases hs <;> intro o <;> norm_log <;> have := L.create_pc o <;> grind [upd, Pc.inWindow]

theorem step_failed_no_lock {s : State} {log a s' ev} (L : LogInv s log) (hs : Step s a s' ev) :
    ∀ t i r, Ev.ret t i (t, i) r ∈ ev.reverse ++ log → r ≠ .opened → ¬ Between (ev.reverse ++ log) (t, i) := by
  have h1 := L.create_pc
  have h2 := L.ret_lt
  cases hs <;> intro t' i' r' <;> norm_log <;> have := L.failed_no_lock t' i' r' <;>
    grind [upd, Pc.inWindow, Between]

theorem step_pc_clear {s : State} {log a s' ev} (L : LogInv s log) (hs : Step s a s' ev) :
    ∀ t h, (s'.threads t).pc = .cClear h → Ev.removeLock h ∈ ev.reverse ++ log := by
  cases hs <;> intro t' h' <;> norm_log <;> have := L.pc_clear t' h' <;> grind [upd]

theorem release_lockfile {s : State} {log} (I : Inv s log) :
    ∀ t h, (s.threads t).pc = .cRelease h → (s.handles h).lockFile = true := by
  intro t h hpc
  exact (I.cs_fd t h (by simp [hpc, Pc.beforeFd])).2

theorem in_cs_closed {s : State} {log} (I : Inv s log) :
    ∀ t h, ((s.threads t).pc = .cRelease h ∨ (s.threads t).pc = .cClear h) → (s.handles h).closed = true := by
  intro t h hpc
  rcases hpc with hpc | hpc <;> exact I.cs_closed t h (by simp [hpc, Pc.inCloseCS])

theorem step_closed_ok_released {s : State} {log a s' ev} (I : Inv s log) (L : LogInv s log)
    (hs : Step s a s' ev) :
    ∀ t i h, Ev.ret t i h .closedOk ∈ ev.reverse ++ log →
      Ev.removeLock h ∈ ev.reverse ++ log ∧ (s'.handles h).closed = true := by
  have h1 := L.pc_clear
  have h2 := release_lockfile I
  have h3 := in_cs_closed I
  have h4 := I.cleanup_res
  cases hs <;> intro t' i' h' <;> norm_log <;> have := L.closed_ok_released t' i' h' <;> grind [upd]

theorem loginv_step {s : State} {log a s' ev} (I : Inv s log) (L : LogInv s log) (hs : Step s a s' ev) :
    LogInv s' (ev.reverse ++ log) :=
  ⟨step_lock_between I L hs, step_remove_lt I L hs, step_closed_abs L hs, step_lin L hs, step_ret_lt L hs,
   step_pc_inv_op L hs, step_pc_inv_close L hs, step_pc_pass L hs, step_pc_won L hs,
   step_test_idx L hs, step_testset_idx L hs, step_inside I L hs, step_inv_pc L hs, step_ret_kind I L hs,
   step_create_pc L hs, step_failed_no_lock L hs, step_pc_clear L hs, step_closed_ok_released I L hs⟩

theorem inv_init (present progs) : Inv (init present progs) [] := by
  refine ⟨?_, ?_, ?_, ?_, ?_, ?_, ?_, ?_, ?_, ?_, ?_, ?_, ?_, ?_, ?_, ?_, ?_, ?_, ?_⟩ <;>
    simp [init, Pc.refs, Pc.inCloseCS, Pc.inWindow, Pc.hasLockFile, Pc.inRelease, Pc.beforeFd]

theorem loginv_init (present progs) : LogInv (init present progs) [] := by
  refine ⟨?_, ?_, ?_, ?_, ?_, ?_, ?_, ?_, ?_, ?_, ?_, ?_, ?_, ?_, ?_, ?_, ?_, ?_⟩ <;>
    simp [init, Between, absClosed, LinLegal, TestsInsideCalls]

/-- every reachable state satisfies both invariants -/
theorem reachable_inv {present progs s log} (h : Reachable present progs s log) : Inv s log ∧ LogInv s log := by
  induction h with
  | init => exact ⟨inv_init _ _, loginv_init _ _⟩
  | step _ hs ih => exact ⟨inv_step_state ih.1 (step_shape hs), loginv_step ih.1 ih.2 (step_shape hs)⟩

/-! ### lemmas about the trace predicates -/

theorem absClosed_of_mem {h : Owner} {t i : Nat} : ∀ {l : List Ev}, Ev.testSet t i h true ∈ l → absClosed h l = true
  | [], hm => by simp at hm
  | e :: rest, hm => by
    rcases List.mem_cons.1 hm with he | hr
    · subst he; simp [absClosed]
    · have ih := absClosed_of_mem hr
      cases e with
      | testSet t' i' h' won => cases won <;> simp [absClosed, ih]
      | _ => simpa [absClosed] using ih

theorem mem_of_absClosed {h : Owner} : ∀ {l : List Ev}, absClosed h l = true → ∃ t i, Ev.testSet t i h true ∈ l
  | [], hm => by simp [absClosed] at hm
  | e :: rest, hm => by
    cases e with
    | testSet t' i' h' won =>
      cases won with
      | true =>
        simp only [absClosed, Bool.or_eq_true, beq_iff_eq] at hm
        rcases hm with rfl | hr
        · exact ⟨t', i', by simp⟩
        · obtain ⟨t, i, hm⟩ := mem_of_absClosed hr; exact ⟨t, i, List.mem_cons_of_mem _ hm⟩
      | false =>
        simp only [absClosed] at hm
        obtain ⟨t, i, hm⟩ := mem_of_absClosed hm; exact ⟨t, i, List.mem_cons_of_mem _ hm⟩
    | _ =>
      simp only [absClosed] at hm
      obtain ⟨t, i, hm⟩ := mem_of_absClosed hm; exact ⟨t, i, List.mem_cons_of_mem _ hm⟩

theorem LinLegal.tail {h : Owner} {e : Ev} {rest : List Ev} (hl : LinLegal h (e :: rest)) : LinLegal h rest := by
  cases e <;> simp only [LinLegal] at hl <;> first | exact hl.2 | exact hl

theorem LinLegal.suffix {h : Owner} : ∀ {l₂ l₁ : List Ev}, LinLegal h (l₂ ++ l₁) → LinLegal h l₁
  | [], _, hl => hl
  | _ :: l₂, _, hl => LinLegal.suffix (l₂ := l₂) (LinLegal.tail hl)

theorem TestsInsideCalls.suffix : ∀ {l₂ l₁ : List Ev}, TestsInsideCalls (l₂ ++ l₁) → TestsInsideCalls l₁
  | [], _, hl => hl
  | _ :: l₂, _, hl => TestsInsideCalls.suffix (l₂ := l₂) hl.1

theorem TestsInsideCalls.at {l₂ l₁ : List Ev} {e : Ev} (hl : TestsInsideCalls (l₂ ++ e :: l₁)) : evOk l₁ e :=
  (TestsInsideCalls.suffix hl).2

theorem Before.cons {log e₁ e₂} (e : Ev) (hb : Before log e₁ e₂) : Before (e :: log) e₁ e₂ := by
  obtain ⟨l₁, l₂, l₃, rfl⟩ := hb
  exact ⟨l₁, l₂, e :: l₃, by simp⟩

theorem Before.head {rest : List Ev} {e₁ e₂ : Ev} (hm : e₁ ∈ rest) : Before (e₂ :: rest) e₁ e₂ := by
  obtain ⟨l₂, l₁, rfl⟩ := List.append_of_mem hm
  exact ⟨l₁, l₂, [], by simp⟩

/-- an operation's test fails only after a winning Close test-and-set on the same handle -/
theorem fail_after_close {h : Owner} {t i : Nat} :
    ∀ {log : List Ev}, LinLegal h log → Ev.test t i h false ∈ log →
      ∃ t' i', Before log (Ev.testSet t' i' h true) (Ev.test t i h false)
  | [], _, hm => by simp at hm
  | e :: rest, hl, hm => by
    rcases List.mem_cons.1 hm with he | hr
    · subst he
      simp only [LinLegal] at hl
      have : absClosed h rest = true := by simpa using hl.1
      obtain ⟨t', i', hm'⟩ := mem_of_absClosed this
      exact ⟨t', i', Before.head hm'⟩
    · obtain ⟨t', i', hb⟩ := fail_after_close (LinLegal.tail hl) hr
      exact ⟨t', i', hb.cons e⟩

/-- an operation's test passes only before every winning Close test-and-set on the same handle -/
theorem pass_before_close {h : Owner} {t i t' i' : Nat} :
    ∀ {log : List Ev}, LinLegal h log → Ev.test t i h true ∈ log → Ev.testSet t' i' h true ∈ log →
      Before log (Ev.test t i h true) (Ev.testSet t' i' h true)
  | [], _, hm, _ => by simp at hm
  | e :: rest, hl, hm, hs => by
    rcases List.mem_cons.1 hm with he | hr
    · subst he
      rcases List.mem_cons.1 hs with he' | hr'
      · cases he'
      · simp only [LinLegal] at hl
        have h1 : absClosed h rest = false := by simpa using hl.1
        rw [absClosed_of_mem hr'] at h1; cases h1
    · rcases List.mem_cons.1 hs with he' | hr'
      · subst he'; exact Before.head hr
      · exact (pass_before_close (LinLegal.tail hl) hr hr').cons e

theorem wins_le_one {h : Owner} : ∀ {log : List Ev}, LinLegal h log → wins h log ≤ 1 ∧ (absClosed h log = false → wins h log = 0)
  | [], _ => by simp [wins]
  | e :: rest, hl => by
    have ih := wins_le_one (LinLegal.tail hl)
    cases e with
    | testSet t' i' h' won =>
      cases won with
      | true =>
        simp only [LinLegal] at hl
        by_cases hh : h' = h
        · have h1 : absClosed h rest = false := by simpa using (hl.1 hh).symm
          simp [wins, hh, absClosed, ih.2 h1]
        · simp only [wins, hh, absClosed, if_false, Nat.zero_add]
          refine ⟨ih.1, fun hc => ih.2 ?_⟩
          simp only [Bool.or_eq_false_iff] at hc; exact hc.2
      | false => simpa [wins, absClosed] using ih
    | _ => simpa [wins, absClosed] using ih

/-! ### schedules, results and helpers used by the statements in Properties/C17.lean -/

section
variable {present : Bool} {progs : Nat → List Call} {s : State} {log : List Ev}

/-- what `open` reports on a locked directory, by injected failure position -/
def lockedOpenResult : Option OStep → Res
  | some .mkdir => .errMkdir
  | some .create => .errCreate
  | _ => .errLocked

/-- the atomic steps such a call consists of: invoke, mkdir, (create) -/
def lockedOpenSteps : Option OStep → Nat
  | some .mkdir => 2
  | _ => 3

theorem dir_present_eq (d : Dir) (h : d.present = true) : { d with present := true } = d := by
  cases d; simp_all

/-- what `open` reports when the failure is injected at `p` on an unlocked directory -/
def openFailResult : OStep → Res
  | .mkdir => .errMkdir | .create => .errCreate | .writePid => .errWritePid
  | .readDir1 => .errReadDir1 | .readDir2 => .errReadDir2

/-- number of atomic steps of that call (invoke … the failing step, + clean-up) -/
def openFailSteps : OStep → Nat
  | .mkdir => 2 | .create => 3 | .writePid => 5 | .readDir1 => 6 | .readDir2 => 7

/-- one uncontended Close by thread `t` on `h`: invoke, test-and-set, signal, both
    workers exit, wait, close the descriptor, remove LOCK, clear + return -/
def closeSched (t : Nat) (h : Owner) : List Actor :=
  [.thread t, .thread t, .thread t, .worker h .exit, .worker h .exit,
   .thread t, .thread t, .thread t, .thread t]

/-- one uninterrupted successful open by thread `t` -/
def openSched (t : Nat) : List Actor := List.replicate 7 (.thread t)

theorem run_append (s : State) (log : List Ev) (a b : List Actor) :
    run s log (a ++ b) = (run s log a).bind fun p => run p.1 p.2 b := by
  induction a generalizing s log with
  | nil => simp [run]
  | cons x xs ih =>
    simp only [List.cons_append, run]
    cases step s x with
    | none => simp
    | some p => obtain ⟨s', ev⟩ := p; simp [ih]

theorem Reachable.run (hr : Reachable present progs s log) :
    ∀ {sched : List Actor} {s' log'}, run s log sched = some (s', log') → Reachable present progs s' log' := by
  intro sched
  induction sched generalizing s log with
  | nil => intro s' log' h; simp only [Lock.run] at h; cases h; exact hr
  | cons a rest ih =>
    intro s' log' h
    simp only [Lock.run] at h
    cases hs : Lock.step s a with
    | none => simp [hs] at h
    | some p =>
      obtain ⟨s1, ev⟩ := p
      simp only [hs] at h
      exact ih (Reachable.step hr hs) h

theorem Reachable.runSkip (hr : Reachable present progs s log) (sched : List Actor) :
    Reachable present progs (Lock.runSkip s log sched).1 (Lock.runSkip s log sched).2 := by
  induction sched generalizing s log with
  | nil => exact hr
  | cons a rest ih =>
    simp only [Lock.runSkip]
    cases hs : Lock.step s a with
    | none => exact ih hr
    | some p => obtain ⟨s1, ev⟩ := p; exact ih (Reachable.step hr hs)

/-- the state reached by letting the scheduler offer the actors of `sched` in turn
    (an actor that is not enabled when offered is skipped) -/
def after (present : Bool) (progs : Nat → List Call) (sched : List Actor) : State × List Ev :=
  Lock.runSkip (init present progs) [] sched

theorem reachable_after (present progs sched) :
    Reachable present progs (after present progs sched).1 (after present progs sched).2 :=
  Reachable.init.runSkip sched

/-- `closed` is never reset. -/
theorem closed_stable {h : Owner} (hclosed : (s.handles h).closed = true) {a : Actor} {s' : State} {ev : List Ev}
    (hs : step s a = some (s', ev)) : (s'.handles h).closed = true := by
  have := step_shape hs
  cases this <;> simp only [ret_handles] <;> grind [upd]

end

/-- executable form of `Before` (for examples) -/
def beforeB (e₁ e₂ : Ev) : List Ev → Bool
  | [] => false
  | e :: rest => (e == e₂ && rest.contains e₁) || beforeB e₁ e₂ rest

theorem before_of_beforeB {e₁ e₂ : Ev} : ∀ {log : List Ev}, beforeB e₁ e₂ log = true → Before log e₁ e₂
  | [], h => by simp [beforeB] at h
  | e :: rest, h => by
    simp only [beforeB, Bool.or_eq_true, Bool.and_eq_true, beq_iff_eq, List.contains_iff_mem] at h
    rcases h with ⟨rfl, hm⟩ | h
    · exact Before.head hm
    · exact (before_of_beforeB h).cons e

end Comet.Lock
