/-
  The state invariant of the small regime and its preservation by Add / Remove / Flush
  (helper lemmas for C12).
-/
import CometProofs.HNSWInsert
namespace Comet.HNSW

variable {V S : Type}

/-- invariant of the small regime: well-formed graph whose bottom layer is the complete
    digraph on the live vertices -/
structure Inv (s : State V) : Prop where
  resolves : ∀ l j w, w ∈ nbrsAt s l j → s.nodes.contains w = true
  del_res : ∀ i, isDeleted s i = true → s.nodes.contains i = true
  entry_res : s.nodes.count ≠ 0 → s.nodes.contains s.entry = true
  ml : s.nodes.count ≠ 0 → 0 ≤ s.maxLevel
  empty_entry : s.nodes.count = 0 → s.entry = 0
  l0 : ∀ j, s.nodes.contains j = true → (nbrsAt s 0 j).Nodup ∧ j ∉ nbrsAt s 0 j
  comp : Complete0 s
  entry_comp : ∀ v, Live s v → v ≠ s.entry → v ∈ nbrsAt s 0 s.entry

theorem count_eq_zero_iff {α : Type} (mp : IdMap α) : mp.count = 0 ↔ ∀ j, mp.contains j = false := by
  simp only [IdMap.count, List.length_eq_zero_iff]
  constructor
  · intro h j
    cases hc : mp.contains j with
    | false => rfl
    | true =>
      have := IdMap.mem_keys.2 hc
      rw [h] at this; cases this
  · intro h
    apply List.eq_nil_iff_forall_not_mem.2
    intro j hj
    have := IdMap.mem_keys.1 hj
    rw [h j] at this; cases this

theorem contains_set {α : Type} (mp : IdMap α) (i j : Id) (a : α) :
    (mp.set i a).contains j = (decide (i = j) || mp.contains j) := by
  simp only [IdMap.contains, IdMap.get?_set]
  by_cases h : i = j <;> simp [h]

theorem count_set_new {α : Type} (mp : IdMap α) (i : Id) (a : α) (h : mp.contains i = false) :
    (mp.set i a).count = mp.count + 1 := by
  have hp : (mp.set i a).keys.Perm (i :: mp.keys) := by
    rw [List.perm_ext_iff_of_nodup (IdMap.keys_nodup _)
      (List.nodup_cons.2 ⟨fun hh => by simp [IdMap.mem_keys.1 hh] at h, IdMap.keys_nodup _⟩)]
    intro j
    simp only [IdMap.mem_keys, contains_set, Bool.or_eq_true, decide_eq_true_eq, List.mem_cons]
    constructor
    · rintro (h1 | h1)
      · exact Or.inl h1.symm
      · exact Or.inr h1
    · rintro (h1 | h1)
      · exact Or.inl h1.symm
      · exact Or.inr h1
  simpa [IdMap.count] using hp.length_eq

theorem nbrsAt_new (v : V) (level l : Nat) : ((Node.new v level).edges[l]?).getD [] = [] := by
  simp only [Node.new, List.getElem?_replicate]
  split <;> rfl

section
variable (m : Metric V S)

/-! ### registering a fresh vertex -/

theorem nbrsAt_register_self (s0 : State V) (x : Id) (v' : V) (level : Nat) (e : Id) (l : Nat) :
    nbrsAt ({ s0 with entry := e, nodes := s0.nodes.set x (Node.new v' level) } : State V) l x = [] := by
  simp only [nbrsAt, IdMap.get?_set, if_true]
  exact nbrsAt_new v' level l

theorem nbrsAt_register_ne (s0 : State V) (x : Id) (v' : V) (level : Nat) (e : Id) (l : Nat) (j : Id)
    (h : j ≠ x) :
    nbrsAt ({ s0 with entry := e, nodes := s0.nodes.set x (Node.new v' level) } : State V) l j =
      nbrsAt s0 l j := by
  simp only [nbrsAt, IdMap.get?_set, Ne.symm h, if_false]

theorem nbrsAt_congr_nodes (s s0 : State V) (h : s0.nodes = s.nodes) (l : Nat) (j : Id) :
    nbrsAt s0 l j = nbrsAt s l j := by
  simp [nbrsAt, h]

theorem layers_nodup (n : Nat) : ((List.range (n + 1)).reverse).Nodup :=
  (List.reverse_perm _).nodup_iff.2 List.nodup_range

theorem zero_mem_layers (n : Nat) : 0 ∈ (List.range (n + 1)).reverse := by
  simp

/-! ### Add -/

/-- what linking a fresh vertex does to the vertex set -/
structure LinkEffect (s s' : State V) (x : Id) (v' : V) : Prop where
  dim : s'.dim = s.dim
  M : s'.M = s.M
  efC : s'.efC = s.efC
  efS : s'.efS = s.efS
  deleted : s'.deleted = s.deleted
  contains : ∀ j, s'.nodes.contains j = (decide (x = j) || s.nodes.contains j)
  old : ∀ j n, s.nodes.get? j = some n → ∃ n', s'.nodes.get? j = some n' ∧ n'.vec = n.vec
  new : ∃ n', s'.nodes.get? x = some n' ∧ n'.vec = v'

theorem isDeleted_def (s : State V) (i : Id) : isDeleted s i = s.deleted.contains i := rfl

/-- linking a fresh vertex into an index whose entry point is not soft-deleted -/
theorem addLinked_inv (s s' : State V) (x : Id) (v' : V) (level : Nat)
    (hinv : Inv s) (hfresh : s.nodes.contains x = false)
    (hentry : isDeleted s s.entry = false)
    (hsmall : s'.nodes.count ≤ 2 * s.M + 1) (hef : s'.nodes.count ≤ s.efC)
    (h : addLinked m true s x v' level = .ok s') :
    Inv s' ∧ LinkEffect s s' x v' := by
  have hxdel : s.deleted.contains x = false := by
    cases hc : s.deleted.contains x with
    | false => rfl
    | true => have := hinv.del_res x hc; rw [hfresh] at this; cases this
  simp only [addLinked, if_true] at h
  -- the state after the maxLevel update
  generalize hs0 : (if (level : Int) > s.maxLevel then { s with maxLevel := (level : Int) } else s) = s0 at h
  have hs0n : s0.nodes = s.nodes := by rw [← hs0]; split <;> rfl
  have hs0d : s0.deleted = s.deleted := by rw [← hs0]; split <;> rfl
  have hs0e : s0.entry = s.entry := by rw [← hs0]; split <;> rfl
  have hs0M : s0.M = s.M := by rw [← hs0]; split <;> rfl
  have hs0C : s0.efC = s.efC := by rw [← hs0]; split <;> rfl
  have hs0S : s0.efS = s.efS := by rw [← hs0]; split <;> rfl
  have hs0dim : s0.dim = s.dim := by rw [← hs0]; split <;> rfl
  have hs0ml : (level : Int) ≤ s0.maxLevel ∧ s.maxLevel ≤ s0.maxLevel := by
    rw [← hs0]; split <;> simp <;> omega
  have hnbS : ∀ l j, nbrsAt s0 l j = nbrsAt s l j := nbrsAt_congr_nodes s s0 hs0n
  have hresS : ∀ j, s0.nodes.contains j = s.nodes.contains j := by intro j; rw [hs0n]
  have hdelS : ∀ j, isDeleted s0 j = isDeleted s j := by intro j; simp [isDeleted, hs0d]
  have hlvl : (0 : Int) ≤ s0.maxLevel := by have := hs0ml.1; omega
  split at h
  · -- the first vertex of an empty index
    next hcond =>
    simp only [Bool.and_eq_true, beq_iff_eq] at hcond
    have hempty : ∀ j, s.nodes.contains j = false := by
      rw [← count_eq_zero_iff, ← hs0n]; exact hcond.2
    simp only [Except.ok.injEq] at h
    subst h
    have hcont : ∀ j, ({ s0 with entry := x, nodes := s0.nodes.set x (Node.new v' level) } : State V).nodes.contains j
        = (decide (x = j) || s.nodes.contains j) := by
      intro j; simp only [contains_set, hresS]
    have hnil : ∀ l j, nbrsAt ({ s0 with entry := x, nodes := s0.nodes.set x (Node.new v' level) } : State V) l j = [] := by
      intro l j
      by_cases hj : j = x
      · subst hj; exact nbrsAt_register_self s0 j v' level j l
      · rw [nbrsAt_register_ne s0 x v' level x l j hj, hnbS]
        have := hempty j
        simp only [IdMap.contains, Option.isSome_eq_false_iff, Option.isNone_iff_eq_none] at this
        simp [nbrsAt, this]
    have hxin : ({ s0 with entry := x, nodes := s0.nodes.set x (Node.new v' level) } : State V).nodes.contains x = true := by
      rw [hcont]; simp
    refine ⟨⟨?_, ?_, fun _ => hxin, fun _ => hlvl, ?_, ?_, ?_, ?_⟩,
      ⟨hs0dim, hs0M, hs0C, hs0S, hs0d, hcont, ?_, ?_⟩⟩
    · intro l j w hw; rw [hnil] at hw; cases hw
    · intro i hi
      have : isDeleted s i = true := by rw [← hdelS]; exact hi
      have := hinv.del_res i this
      rw [hempty] at this; cases this
    · intro h0
      have := (count_eq_zero_iff _).1 h0 x
      rw [hxin] at this; cases this
    · intro j _; rw [hnil]; simp
    · intro u w hu hw hne
      exfalso
      have hu' := hu.1; have hw' := hw.1
      rw [hcont] at hu' hw'
      simp only [hempty, Bool.or_false, decide_eq_true_eq] at hu' hw'
      exact hne (hu'.symm.trans hw')
    · intro w hw hne
      exfalso
      have hw' := hw.1
      rw [hcont] at hw'
      simp only [hempty, Bool.or_false, decide_eq_true_eq] at hw'
      exact hne hw'.symm
    · intro j n hn
      have := hempty j
      simp [IdMap.contains, hn] at this
    · exact ⟨Node.new v' level, by simp [IdMap.get?_set], rfl⟩
  · -- linking into a non-empty index
    next hcond =>
    have hcnt : s.nodes.count ≠ 0 := by
      intro h0
      apply hcond
      simp only [Bool.and_eq_true, beq_iff_eq]
      exact ⟨by rw [hs0e]; exact hinv.empty_entry h0, by rw [hs0n]; exact h0⟩
    generalize ht0 : ({ s0 with nodes := s0.nodes.set x (Node.new v' level) } : State V) = t0 at h
    have ht0' : t0 = ({ s0 with entry := s0.entry, nodes := s0.nodes.set x (Node.new v' level) } : State V) := ht0.symm
    have hcont : ∀ j, t0.nodes.contains j = (decide (x = j) || s.nodes.contains j) := by
      intro j; rw [← ht0]; simp only [contains_set, hresS]
    have hnbx : ∀ l, nbrsAt t0 l x = [] := by
      intro l; rw [ht0']; exact nbrsAt_register_self s0 x v' level _ l
    have hnbj : ∀ l j, j ≠ x → nbrsAt t0 l j = nbrsAt s l j := by
      intro l j hj; rw [ht0', nbrsAt_register_ne s0 x v' level _ l j hj, hnbS]
    have hdelT : ∀ j, isDeleted t0 j = isDeleted s j := by
      intro j; rw [← ht0]; simp [isDeleted, hs0d]
    have hsyncT : t0.nodes.get? x = some (Node.new v' level) := by
      rw [← ht0]; simp [IdMap.get?_set]
    have hgetT : ∀ j, j ≠ x → t0.nodes.get? j = s.nodes.get? j := by
      intro j hj; rw [← ht0]; simp [IdMap.get?_set, Ne.symm hj, hs0n]
    have hxres : t0.nodes.contains x = true := by rw [hcont]; simp
    have holdne : ∀ j, s.nodes.contains j = true → j ≠ x := by
      intro j hj hh; rw [hh, hfresh] at hj; cases hj
    have hentryS : s.nodes.contains s.entry = true := hinv.entry_res hcnt
    have hentryT : Live t0 t0.entry ∧ t0.entry ≠ x := by
      have he : t0.entry = s.entry := by rw [← ht0]; exact hs0e
      rw [he]
      exact ⟨⟨by rw [hcont]; simp [hentryS], by rw [hdelT]; exact hentry⟩, holdne _ hentryS⟩
    split at h
    · cases h
    · next s2 nx2 hins =>
      simp only [Except.ok.injEq] at h
      subst h
      simp only [insertNode] at hins
      split at hins
      · cases hins
      · next en hen =>
        split at hins
        · cases hins
        · next curr cd hg =>
          -- the descent ends on an old live vertex
          have hcurr : Live t0 (curr, cd).1 ∧ (curr, cd).1 ≠ x := by
            refine greedyDescend_closed m t0 _ (fun i => Live t0 i ∧ i ≠ x) ?_ _ _ _ hentryT hg
            intro u hu l w hw hwd hwr
            refine ⟨⟨hwr, hwd⟩, ?_⟩
            rw [hnbj l u hu.2] at hw
            exact holdne w (hinv.resolves l u w hw)
          -- hypotheses of the layer loop
          have hcountT : t0.nodes.count = s.nodes.count + 1 := by
            rw [← ht0]; simp only; rw [hs0n]; exact count_set_new _ _ _ hfresh
          have hshape02 := (insertLayers_shape m x _ _ t0 s2 _ nx2 curr hsyncT hins).1
          have hcountS2 : t0.nodes.count = s2.nodes.count := by
            simp only [IdMap.count]; exact hshape02.count.length_eq.symm
          have hpreT : Pre t0 x := by
            refine ⟨hxres, by rw [hdelT, isDeleted_def]; exact hxdel, hnbx, ?_, ?_, ?_, ?_, ?_, ?_⟩
            · intro l j hh
              by_cases hj : j = x
              · subst hj; rw [hnbx] at hh; cases hh
              · rw [hnbj l j hj] at hh
                exact holdne x (hinv.resolves l j x hh) rfl
            · intro l j w hw
              by_cases hj : j = x
              · subst hj; rw [hnbx] at hw; cases hw
              · rw [hnbj l j hj] at hw
                rw [hcont]; simp [hinv.resolves l j w hw]
            · intro j hj
              by_cases hjx : j = x
              · subst hjx; rw [hnbx]; simp
              · rw [hnbj 0 j hjx]
                rw [hcont] at hj
                simp only [Bool.or_eq_true, decide_eq_true_eq] at hj
                rcases hj with hj | hj
                · exact absurd hj.symm hjx
                · exact hinv.l0 j hj
            · intro u w hu hux hw hwx hne
              rw [hnbj 0 u hux]
              have hu' : Live s u := by
                have := hu.1; rw [hcont] at this
                simp only [Bool.or_eq_true, decide_eq_true_eq] at this
                rcases this with h1 | h1
                · exact absurd h1.symm hux
                · exact ⟨h1, by rw [← hdelT]; exact hu.2⟩
              have hw' : Live s w := by
                have := hw.1; rw [hcont] at this
                simp only [Bool.or_eq_true, decide_eq_true_eq] at this
                rcases this with h1 | h1
                · exact absurd h1.symm hwx
                · exact ⟨h1, by rw [← hdelT]; exact hw.2⟩
              exact hinv.comp u w hu' hw' hne
            · rw [hcountS2, show t0.M = s.M by rw [← ht0]; exact hs0M]; exact hsmall
            · rw [hcountS2, show t0.efC = s.efC by rw [← ht0]; exact hs0C]; omega
          have hJ0 : J t0 t0 x (Node.new v' level) curr ((List.range (level + 1)).reverse) := by
            refine ⟨Shape.refl t0, hsyncT, hpreT.resolves, fun l _ j => hpreT.no_in l j,
              fun l _ => hnbx l, hcurr, fun _ _ => rfl, fun h0 => absurd (zero_mem_layers level) h0⟩
          obtain ⟨curr', hJ⟩ := insertLayers_inv m t0 x _ hpreT _ t0 s2 _ nx2 curr
            (layers_nodup level) hJ0 hins
          have hF := hJ.l0b (by simp)
          have hsh := hJ.shape
          have hliveT : ∀ j, Live s2 j ↔ Live t0 j := hsh.live
          have hx2 : s2.nodes.contains x = true := by rw [hsh.contains]; exact hxres
          have hcomp2 : Complete0 s2 := by
            intro u w hu hw hne
            have hu' := (hliveT u).1 hu
            have hw' := (hliveT w).1 hw
            by_cases hux : u = x
            · subst hux
              exact (hF.x_mem w).2 ⟨hw', fun hh => hne hh.symm⟩
            · rw [hF.back u hu' hux]
              by_cases hwx : w = x
              · subst hwx; simp
              · exact List.mem_append.2 (Or.inl (hpreT.comp u w hu' hux hw' hwx hne))
          refine ⟨⟨hJ.resolves, ?_, ?_, ?_, ?_, ?_, hcomp2, ?_⟩, ⟨?_, ?_, ?_, ?_, ?_, ?_, ?_, ?_⟩⟩
          · intro i hi
            rw [hsh.isDeleted, hdelT] at hi
            rw [hsh.contains, hcont]; simp [hinv.del_res i hi]
          · intro _
            rw [hsh.contains, hsh.entry]; exact hentryT.1.1
          · intro _
            rw [hsh.maxLevel, ← ht0]; exact hlvl
          · intro h0
            have := (count_eq_zero_iff _).1 h0 x
            rw [hx2] at this; cases this
          · intro j hj
            rw [hsh.contains] at hj
            by_cases hjx : j = x
            · subst hjx
              exact ⟨hF.x_nodup, fun hh => ((hF.x_mem j).1 hh).2 rfl⟩
            · by_cases hjl : Live t0 j
              · rw [hF.back j hjl hjx]
                have hw := hpreT.l0 j hj
                refine ⟨?_, ?_⟩
                · rw [List.nodup_append]
                  refine ⟨hw.1, by simp, ?_⟩
                  intro a ha b hb
                  simp only [List.mem_singleton] at hb
                  subst hb
                  intro hab; subst hab
                  exact hpreT.no_in 0 j ha
                · simp only [List.mem_append, List.mem_singleton, not_or]
                  exact ⟨hw.2, hjx⟩
              · rw [hF.rest j hjx hjl]; exact hpreT.l0 j hj
          · intro v hv hne
            rw [hsh.entry] at hne ⊢
            exact hcomp2 _ v ((hliveT _).2 hentryT.1) hv (Ne.symm hne)
          · rw [hsh.dim, ← ht0]; exact hs0dim
          · rw [hsh.M, ← ht0]; exact hs0M
          · rw [hsh.efC, ← ht0]; exact hs0C
          · rw [hsh.efS, ← ht0]; exact hs0S
          · rw [hsh.deleted, ← ht0]; exact hs0d
          · intro j; rw [hsh.contains, hcont]
          · intro j n hn
            have hjx : j ≠ x := holdne j (IdMap.contains_iff.2 ⟨n, hn⟩)
            rcases hsh.nodes j with ⟨ha, _⟩ | ⟨n0, n', ha, hb, hv, _⟩
            · rw [hgetT j hjx, hn] at ha; cases ha
            · rw [hgetT j hjx, hn] at ha; cases ha
              exact ⟨n', hb, hv⟩
          · rcases hsh.nodes x with ⟨ha, _⟩ | ⟨n0, n', ha, hb, hv, _⟩
            · rw [hsyncT] at ha; cases ha
            · rw [hsyncT] at ha; cases ha
              exact ⟨n', hb, hv⟩

/-! ### Remove -/

theorem remove_inv (s : State V) (id : Id) (hinv : Inv s) :
    Inv (remove s id).1 ∧ (remove s id).1.nodes = s.nodes ∧
    (remove s id).1.dim = s.dim ∧ (remove s id).1.M = s.M ∧ (remove s id).1.efC = s.efC ∧
    (remove s id).1.efS = s.efS ∧ (remove s id).1.entry = s.entry ∧
    (∀ j, isDeleted (remove s id).1 j =
      (isDeleted s j || (decide (id = j) && s.nodes.contains id))) := by
  simp only [remove]
  split
  · next hnot =>
    have : s.nodes.contains id = false := by simpa using hnot
    exact ⟨hinv, rfl, rfl, rfl, rfl, rfl, rfl, fun j => by simp [this]⟩
  · next hres =>
    have hres' : s.nodes.contains id = true := by simpa using hres
    split
    · next hdel =>
      refine ⟨hinv, rfl, rfl, rfl, rfl, rfl, rfl, fun j => ?_⟩
      by_cases hj : id = j
      · subst hj; simp [isDeleted, hdel]
      · simp [hj]
    · next hdel =>
      have hd : ∀ j, isDeleted ({ s with deleted := s.deleted.set id () } : State V) j =
          (isDeleted s j || (decide (id = j) && s.nodes.contains id)) := by
        intro j
        simp only [isDeleted, contains_set, hres', Bool.and_true]
        rw [Bool.or_comm]
      refine ⟨⟨hinv.resolves, ?_, hinv.entry_res, hinv.ml, hinv.empty_entry, hinv.l0, ?_, ?_⟩,
        rfl, rfl, rfl, rfl, rfl, rfl, hd⟩
      · intro i hi
        rw [hd] at hi
        simp only [Bool.or_eq_true, Bool.and_eq_true, decide_eq_true_eq] at hi
        rcases hi with hi | ⟨rfl, _⟩
        · exact hinv.del_res i hi
        · exact hres'
      · intro u w hu hw hne
        have hu' : Live s u := ⟨hu.1, by have := hu.2; rw [hd] at this; simp at this; exact this.1⟩
        have hw' : Live s w := ⟨hw.1, by have := hw.2; rw [hd] at this; simp at this; exact this.1⟩
        exact hinv.comp u w hu' hw' hne
      · intro w hw hne
        have hw' : Live s w := ⟨hw.1, by have := hw.2; rw [hd] at this; simp at this; exact this.1⟩
        exact hinv.entry_comp w hw' hne

/-! ### Flush -/

/-- what phase 1 + 3 of `Flush` do to one vertex -/
def flushNode (s : State V) (n : Node V) : Node V :=
  { n with edges := n.edges.map fun l => l.filter fun t => !isDeleted s t }

def flushFold (s : State V) (acc : IdMap (Node V)) (i : Id) : IdMap (Node V) :=
  if isDeleted s i then acc.erase i else
  match acc.get? i with
  | none => acc
  | some n => acc.set i (flushNode s n)

theorem flushFold_get? (s : State V) :
    ∀ (L : List Id) (acc : IdMap (Node V)) (j : Id), L.Nodup →
      (L.foldl (flushFold s) acc).get? j =
        if j ∈ L then (if isDeleted s j then none else (acc.get? j).map (flushNode s)) else acc.get? j := by
  intro L
  induction L with
  | nil => intro acc j _; simp
  | cons i rest ih =>
    intro acc j hnd
    have hnd' := List.nodup_cons.1 hnd
    rw [List.foldl_cons, ih _ j hnd'.2]
    by_cases hji : j = i
    · subst hji
      simp only [hnd'.1, if_false, List.mem_cons, true_or, if_true]
      simp only [flushFold]
      split
      · simp [IdMap.get?_erase]
      · cases hg : acc.get? j with
        | none => simp [hg]
        | some n => simp [IdMap.get?_set]
    · have hij : ¬ i = j := fun hh => hji hh.symm
      have hacc : (flushFold s acc i).get? j = acc.get? j := by
        simp only [flushFold]
        split
        · simp [IdMap.get?_erase, hij]
        · cases hg : acc.get? i with
          | none => rfl
          | some n => simp [IdMap.get?_set, hij]
      simp only [List.mem_cons, hji, false_or, hacc]

/-- `maxLevel` after `Flush` -/
def flushMaxLevel (s : State V) : Int :=
  if !isDeleted s s.entry then s.maxLevel else
  let live := liveIds s
  if live.any (fun i => (levelOf s i : Int) == s.maxLevel) then s.maxLevel
  else if live.isEmpty then -1 else (maxNat (live.map (levelOf s)) : Nat)

/-- the state after a `Flush` that had something to drop -/
def flushed (s : State V) (e : Id) : State V :=
  { s with nodes := s.nodes.keys.foldl (flushFold s) s.nodes, deleted := .empty, entry := e, maxLevel := flushMaxLevel s }

theorem flushTo_eq (s : State V) (e : Id) :
    flushTo s e = if s.deleted.count == 0 then s else flushed s e := rfl

/-- the vertices `Flush` may elect are live (when any vertex is), and the current entry
    point is kept when it is not soft-deleted -/
theorem flushChoices_spec (s : State V) (e : Id) (he : e ∈ flushChoices s) :
    (isDeleted s s.entry = false → e = s.entry) ∧
    (isDeleted s s.entry = true → (liveIds s ≠ [] → Live s e) ∧ (liveIds s = [] → e = 0)) := by
  simp only [flushChoices] at he
  split at he
  · next h =>
    have h' : isDeleted s s.entry = false := by simpa using h
    refine ⟨fun _ => by simpa using he, fun hh => ?_⟩
    rw [h'] at hh; cases hh
  · next h =>
    have h' : isDeleted s s.entry = true := by simpa using h
    refine ⟨fun hh => (by rw [h'] at hh; cases hh), fun _ => ?_⟩
    split at he
    · next htop =>
      have hl : Live s e := mem_liveIds.1 (List.mem_of_mem_filter he)
      refine ⟨fun _ => hl, fun hnil => ?_⟩
      rw [hnil] at he; cases he
    · split at he
      · next hemp =>
        have : liveIds s = [] := by simpa using hemp
        exact ⟨fun hh => absurd this hh, fun _ => by simpa using he⟩
      · next hemp =>
        have hl : Live s e := mem_liveIds.1 (List.mem_of_mem_filter he)
        refine ⟨fun _ => hl, fun hnil => ?_⟩
        rw [hnil] at he; cases he

theorem flush_inv (s : State V) (e : Id) (hinv : Inv s) (he : e ∈ flushChoices s) :
    Inv (flushTo s e) ∧ (flushTo s e).dim = s.dim ∧ (flushTo s e).M = s.M ∧
    (flushTo s e).efC = s.efC ∧ (flushTo s e).efS = s.efS ∧
    (∀ j, Live (flushTo s e) j ↔ Live s j) ∧
    (∀ j n, Live s j → s.nodes.get? j = some n →
      ∃ n', (flushTo s e).nodes.get? j = some n' ∧ n'.vec = n.vec) ∧
    (∀ j, (flushTo s e).nodes.contains j = true → s.nodes.contains j = true) ∧
    (isDeleted s s.entry = false → (flushTo s e).entry = s.entry) ∧
    (∀ j, isDeleted (flushTo s e) j = true → isDeleted s j = true) ∧
    (s.deleted.count ≠ 0 → ∀ j, isDeleted (flushTo s e) j = false) := by
  rw [flushTo_eq]
  split
  · next hzero =>
    have hnone : ∀ j, isDeleted s j = false := by
      intro j
      have := (count_eq_zero_iff s.deleted).1 (by simpa using hzero) j
      simpa [isDeleted] using this
    refine ⟨hinv, rfl, rfl, rfl, rfl, fun _ => Iff.rfl, fun j n _ hn => ⟨n, hn, rfl⟩,
      fun _ h => h, fun _ => rfl, fun _ h => h, fun hh => absurd (by simpa using hzero) hh⟩
  · generalize hs' : flushed s e = s'
    have hget : ∀ j, s'.nodes.get? j =
        if isDeleted s j then none else (s.nodes.get? j).map (flushNode s) := by
      intro j
      rw [← hs']
      simp only [flushed]
      rw [flushFold_get? s _ _ j (IdMap.keys_nodup _)]
      by_cases hj : j ∈ s.nodes.keys
      · simp [hj]
      · have : s.nodes.get? j = none := by
          cases hg : s.nodes.get? j with
          | none => rfl
          | some n => exact absurd (IdMap.mem_keys.2 (IdMap.contains_iff.2 ⟨n, hg⟩)) hj
        simp [hj, this]
    have hdel' : ∀ j, isDeleted s' j = false := by
      intro j; rw [← hs']; simp [flushed, isDeleted, IdMap.contains]
    have hcont : ∀ j, s'.nodes.contains j = (s.nodes.contains j && !isDeleted s j) := by
      intro j
      simp only [IdMap.contains, hget]
      cases isDeleted s j <;> simp
    have hlive : ∀ j, Live s' j ↔ Live s j := by
      intro j
      simp only [Live, hcont, hdel', Bool.and_eq_true, Bool.not_eq_true', and_true]
    have hnb : ∀ l j, nbrsAt s' l j =
        if isDeleted s j then [] else (nbrsAt s l j).filter fun t => !isDeleted s t := by
      intro l j
      simp only [nbrsAt, hget]
      cases hd : isDeleted s j with
      | true => simp
      | false =>
        cases hg : s.nodes.get? j with
        | none => simp
        | some n =>
          simp only [Bool.false_eq_true, if_false, Option.map_some, flushNode, List.getElem?_map]
          cases n.edges[l]? <;> simp
    have hcnt : s'.nodes.count ≠ 0 → liveIds s ≠ [] := by
      intro hc hnil
      apply hc
      rw [count_eq_zero_iff]
      intro j
      cases hcj : s'.nodes.contains j with
      | false => rfl
      | true =>
        have : j ∈ liveIds s := mem_liveIds.2 ((hlive j).1 ⟨hcj, hdel' j⟩)
        rw [hnil] at this; cases this
    have hentry' : s'.entry = e := by rw [← hs']; rfl
    have hml' : s'.maxLevel = flushMaxLevel s := by rw [← hs']; rfl
    have hspec := flushChoices_spec s e he
    have hcs : s'.nodes.count ≠ 0 → s.nodes.count ≠ 0 := by
      intro hc h0
      obtain ⟨j, hj⟩ := List.exists_mem_of_ne_nil _ (hcnt hc)
      have := (count_eq_zero_iff _).1 h0 j
      rw [(mem_liveIds.1 hj).1] at this; cases this
    refine ⟨⟨?_, ?_, ?_, ?_, ?_, ?_, ?_, ?_⟩, by rw [← hs']; rfl, by rw [← hs']; rfl, by rw [← hs']; rfl,
      by rw [← hs']; rfl, hlive, ?_, ?_, ?_, ?_, fun _ => hdel'⟩
    · intro l j w hw
      rw [hnb] at hw
      split at hw
      · cases hw
      · simp only [List.mem_filter, Bool.not_eq_true'] at hw
        rw [hcont]; simp [hinv.resolves l j w hw.1, hw.2]
    · intro i hi; rw [hdel'] at hi; cases hi
    · intro hc
      rw [hentry']
      cases hde : isDeleted s s.entry with
      | false =>
        rw [hspec.1 hde, hcont]
        simp [hinv.entry_res (hcs hc), hde]
      | true => exact ((hlive e).2 ((hspec.2 hde).1 (hcnt hc))).1
    · intro hc
      rw [hml']
      have h0 := hinv.ml (hcs hc)
      simp only [flushMaxLevel]
      split
      · exact h0
      · split
        · exact h0
        · split
          · next hemp => exact absurd (by simpa using hemp) (hcnt hc)
          · exact Int.natCast_nonneg _
    · intro h0
      rw [hentry']
      have hnil : liveIds s = [] := by
        apply List.eq_nil_iff_forall_not_mem.2
        intro j hj
        have := (count_eq_zero_iff _).1 h0 j
        rw [((hlive j).2 (mem_liveIds.1 hj)).1] at this; cases this
      cases hde : isDeleted s s.entry with
      | false =>
        rw [hspec.1 hde]
        by_cases hc : s.nodes.count = 0
        · exact hinv.empty_entry hc
        · exfalso
          have : s.entry ∈ liveIds s := mem_liveIds.2 ⟨hinv.entry_res hc, hde⟩
          rw [hnil] at this; cases this
      | true => exact (hspec.2 hde).2 hnil
    · intro j hj
      rw [hcont] at hj
      simp only [Bool.and_eq_true, Bool.not_eq_true'] at hj
      rw [hnb, hj.2]
      simp only [Bool.false_eq_true, if_false]
      have := hinv.l0 j hj.1
      exact ⟨this.1.sublist List.filter_sublist, fun hh => this.2 (List.mem_of_mem_filter hh)⟩
    · intro u w hu hw hne
      have hu' := (hlive u).1 hu
      have hw' := (hlive w).1 hw
      rw [hnb, hu'.2]
      simp only [Bool.false_eq_true, if_false, List.mem_filter, Bool.not_eq_true']
      exact ⟨hinv.comp u w hu' hw' hne, hw'.2⟩
    · intro w hw hne
      rw [hentry'] at hne ⊢
      have hw' := (hlive w).1 hw
      rw [hnb]
      cases hde : isDeleted s s.entry with
      | false =>
        have hee := hspec.1 hde
        rw [hee] at hne ⊢
        rw [hde]
        simp only [Bool.false_eq_true, if_false, List.mem_filter, Bool.not_eq_true']
        exact ⟨hinv.entry_comp w hw' hne, hw'.2⟩
      | true =>
        have hle : Live s e := (hspec.2 hde).1 (by
          intro hnil
          have := mem_liveIds.2 hw'
          rw [hnil] at this; cases this)
        rw [hle.2]
        simp only [Bool.false_eq_true, if_false, List.mem_filter, Bool.not_eq_true']
        exact ⟨hinv.comp e w hle hw' (Ne.symm hne), hw'.2⟩
    · intro j n hl hn
      refine ⟨flushNode s n, ?_, rfl⟩
      rw [hget, hl.2, hn]; simp
    · intro j hj
      rw [hcont] at hj
      simp only [Bool.and_eq_true] at hj
      exact hj.1
    · intro hde
      rw [hentry', hspec.1 hde]
    · intro j hj; rw [hdel'] at hj; cases hj

/-! ### Add = (purge tombstones when the entry point is soft-deleted) + link -/

/-- what a (successful or rejected) `Add` of a fresh id does to the live vertices -/
structure AddEffect (s s' : State V) (x : Id) (v : V) (e : Option Err) : Prop where
  dim : s'.dim = s.dim
  M : s'.M = s.M
  efC : s'.efC = s.efC
  efS : s'.efS = s.efS
  rejected : e ≠ none → s' = s ∧ (m.dimOf v ≠ s.dim ∨ m.pre v = none)
  accepted : e = none → ∃ v', m.dimOf v = s.dim ∧ m.pre v = some v' ∧
    (∀ j, Live s' j ↔ (j = x ∨ Live s j)) ∧
    (∀ j n, Live s j → s.nodes.get? j = some n → ∃ n', s'.nodes.get? j = some n' ∧ n'.vec = n.vec) ∧
    (∃ n', s'.nodes.get? x = some n' ∧ n'.vec = v') ∧
    (∀ j, s'.nodes.contains j = true → j = x ∨ s.nodes.contains j = true)

theorem add_inv (s s' : State V) (x : Id) (v : V) (level : Nat) (pick : Id) (e : Option Err)
    (hinv : Inv s) (hfresh : s.nodes.contains x = false) (hkey : x = 0 → s.nextID = 0)
    (hpick : s.deleted.contains s.entry = true → pick ∈ flushChoices s)
    (hsmall : s'.nodes.count ≤ 2 * s.M + 1) (hef : s'.nodes.count ≤ s.efC)
    (h : add m s x v level pick = .ok (s', e)) :
    Inv s' ∧ AddEffect m s s' x v e ∧ (x ≠ 0 → s'.nextID = s.nextID) := by
  have hxdel : s.deleted.contains x = false := by
    cases hc : s.deleted.contains x with
    | false => rfl
    | true => have := hinv.del_res x hc; rw [hfresh] at this; cases this
  simp only [add, addWith, registerFirst, hxdel, Bool.and_false, Bool.false_eq_true, if_false] at h
  split at h
  · next hdim =>
    simp only [Except.ok.injEq, Prod.mk.injEq] at h
    obtain ⟨rfl, rfl⟩ := h
    exact ⟨hinv, ⟨rfl, rfl, rfl, rfl, fun _ => ⟨rfl, Or.inl hdim⟩, fun hh => by cases hh⟩, fun _ => rfl⟩
  · next hdim =>
    have hdim' : m.dimOf v = s.dim := by simpa using hdim
    split at h
    · next hpre =>
      simp only [Except.ok.injEq, Prod.mk.injEq] at h
      obtain ⟨rfl, rfl⟩ := h
      exact ⟨hinv, ⟨rfl, rfl, rfl, rfl, fun _ => ⟨rfl, Or.inr hpre⟩, fun hh => by cases hh⟩, fun _ => rfl⟩
    · next v' hpre =>
      -- the state after the purge (if any)
      have hnid : (if s.deleted.contains s.entry = true then flushTo s pick else s).nextID = s.nextID := by
        split
        · rw [flushTo_eq]; split <;> rfl
        · rfl
      generalize hsf : (if s.deleted.contains s.entry = true then flushTo s pick else s) = sf at h
      have hF : Inv sf ∧ sf.dim = s.dim ∧ sf.M = s.M ∧ sf.efC = s.efC ∧ sf.efS = s.efS ∧
          (∀ j, Live sf j ↔ Live s j) ∧
          (∀ j n, Live s j → s.nodes.get? j = some n → ∃ n', sf.nodes.get? j = some n' ∧ n'.vec = n.vec) ∧
          (∀ j, sf.nodes.contains j = true → s.nodes.contains j = true) ∧
          isDeleted sf sf.entry = false := by
        rw [← hsf]
        split
        · next hd =>
          obtain ⟨a, b, c, d, e', f, g, i, _, _, k⟩ := flush_inv s pick hinv (hpick hd)
          refine ⟨a, b, c, d, e', f, g, i, ?_⟩
          refine k ?_ _
          intro h0
          have := (count_eq_zero_iff s.deleted).1 h0 s.entry
          rw [hd] at this; cases this
        · next hd =>
          exact ⟨hinv, rfl, rfl, rfl, rfl, fun _ => Iff.rfl, fun j n _ hn => ⟨n, hn, rfl⟩,
            fun _ hh => hh, by simpa [isDeleted] using hd⟩
      obtain ⟨hinvF, hFd, hFM, hFC, hFS, hFlive, hFvec, hFsub, hFent⟩ := hF
      have hfreshF : sf.nodes.contains x = false := by
        cases hc : sf.nodes.contains x with
        | false => rfl
        | true => have := hFsub x hc; rw [hfresh] at this; cases this
      rw [hsf] at hnid
      have hk : (if (x == 0) = true then sf.nextID else x) = x := by
        by_cases hx : x = 0
        · simp [hx, hnid, hkey hx]
        · simp [hx]
      simp only [hk, bne_self_eq_false, Bool.false_eq_true, if_false] at h
      split at h
      · cases h
      · next s2 hlink =>
        simp only [Except.ok.injEq, Prod.mk.injEq] at h
        obtain ⟨rfl, rfl⟩ := h
        obtain ⟨hinv2, heff⟩ := addLinked_inv m sf s2 x v' level hinvF hfreshF hFent
          (by rw [hFM]; exact hsmall) (by rw [hFC]; exact hef) hlink
        have hinv2 : Inv ({ s2 with nextID := if (x == 0) = true then sf.nextID + 1 else sf.nextID } : State V) :=
          ⟨hinv2.resolves, hinv2.del_res, hinv2.entry_res, hinv2.ml, hinv2.empty_entry, hinv2.l0,
            hinv2.comp, hinv2.entry_comp⟩
        have hxdelF : isDeleted sf x = false := by
          cases hd : isDeleted sf x with
          | false => rfl
          | true => have := hinvF.del_res x hd; rw [hfreshF] at this; cases this
        have hdel2 : ∀ j, isDeleted s2 j = isDeleted sf j := by intro j; simp [isDeleted, heff.deleted]
        refine ⟨hinv2, ⟨heff.dim.trans hFd, heff.M.trans hFM, heff.efC.trans hFC, heff.efS.trans hFS,
          fun hh => absurd rfl hh, fun _ => ⟨v', hdim', hpre, ?_, ?_, heff.new, ?_⟩⟩, ?_⟩
        · intro j
          show Live s2 j ↔ (j = x ∨ Live s j)
          simp only [Live, heff.contains, hdel2, Bool.or_eq_true, decide_eq_true_eq]
          constructor
          · rintro ⟨hc | hc, hd⟩
            · exact Or.inl hc.symm
            · exact Or.inr ((hFlive j).1 ⟨hc, hd⟩)
          · rintro (rfl | hl)
            · exact ⟨Or.inl rfl, hxdelF⟩
            · have := (hFlive j).2 hl
              exact ⟨Or.inr this.1, this.2⟩
        · intro j n hl hn
          obtain ⟨n1, hn1, hv1⟩ := hFvec j n hl hn
          obtain ⟨n2, hn2, hv2⟩ := heff.old j n1 hn1
          exact ⟨n2, hn2, hv2.trans hv1⟩
        · intro j hj
          rw [heff.contains] at hj
          simp only [Bool.or_eq_true, decide_eq_true_eq] at hj
          rcases hj with hj | hj
          · exact Or.inl hj.symm
          · exact Or.inr (hFsub j hj)
        · intro hx
          have : (x == 0) = false := by simpa using hx
          simp [this, hnid]

end
end Comet.HNSW
