/-
  CometProofs.XR — an IEEE-754-like scalar with signed zeros, infinities, NaN and an
  ARBITRARY rounding function, used for one purpose: to make "Autocut never panics"
  a theorem that covers equal, infinite and NaN scores (C19).

  `XR.fin q` is a finite value (`fin 0` is +0), `nzero` is −0.  The special-value
  tables of `+ − × ÷ >` are those of IEEE-754 (round-to-nearest): NaN propagates,
  ∞−∞ = 0×∞ = 0/0 = ∞/∞ = NaN, x/0 = ±∞, an exact zero sum of finite numbers is +0
  unless both operands are −0, signs of zero products/quotients multiply.  Results of
  operations on non-zero finite operands are `rnd (exact result)` where
  `rnd : ℚ → XR` is constrained ONLY by `rnd 0 = +0`, `rnd 1 = 1`, `rnd 2 = 2`:
  it may overflow to ±∞, underflow to ±0, even return NaN.  Every IEEE binary format
  under round-to-nearest is an instance, so a statement proved for all `rnd` covers
  float32.
-/
import Mathlib.Tactic.NormNum
import Mathlib.Algebra.Order.Field.Rat
import Comet.Limiter
namespace Comet

inductive XR
  | fin (q : ℚ)
  | nzero
  | pinf
  | ninf
  | nan
deriving DecidableEq

namespace XR

/-- sign bit of a non-NaN value -/
def neg? : XR → Bool
  | fin q => decide (q < 0)
  | nzero => true
  | pinf => false
  | ninf => true
  | nan => false

def isZero : XR → Bool
  | fin q => decide (q = 0)
  | nzero => true
  | _ => false

def isInf : XR → Bool
  | pinf => true | ninf => true | _ => false

def zeroS (s : Bool) : XR := if s then nzero else fin 0
def infS (s : Bool) : XR := if s then ninf else pinf

def negate : XR → XR
  | fin q => if q = 0 then nzero else fin (-q)
  | nzero => fin 0
  | pinf => ninf
  | ninf => pinf
  | nan => nan

/-- the rounding assumptions -/
structure Rounding where
  rnd : ℚ → XR
  rnd0 : rnd 0 = fin 0
  rnd1 : rnd 1 = fin 1
  rnd2 : rnd 2 = fin 2

def add (r : Rounding) : XR → XR → XR
  | nan, _ => nan
  | _, nan => nan
  | pinf, ninf => nan
  | ninf, pinf => nan
  | pinf, _ => pinf
  | _, pinf => pinf
  | ninf, _ => ninf
  | _, ninf => ninf
  | nzero, nzero => nzero
  | nzero, fin q => fin q
  | fin q, nzero => fin q
  | fin a, fin b => r.rnd (a + b)

def sub (r : Rounding) (a b : XR) : XR := add r a (negate b)

def mul (r : Rounding) (a b : XR) : XR :=
  match a, b with
  | nan, _ => nan
  | _, nan => nan
  | a, b =>
    if (isInf a && isZero b) || (isZero a && isInf b) then nan
    else if isInf a || isInf b then infS (neg? a != neg? b)
    else if isZero a || isZero b then zeroS (neg? a != neg? b)
    else match a, b with
      | fin x, fin y => r.rnd (x * y)
      | _, _ => nan   -- unreachable

def div (r : Rounding) (a b : XR) : XR :=
  match a, b with
  | nan, _ => nan
  | _, nan => nan
  | a, b =>
    if (isInf a && isInf b) || (isZero a && isZero b) then nan
    else if isInf a then infS (neg? a != neg? b)
    else if isInf b then zeroS (neg? a != neg? b)
    else if isZero b then infS (neg? a != neg? b)
    else if isZero a then zeroS (neg? a != neg? b)
    else match a, b with
      | fin x, fin y => r.rnd (x / y)
      | _, _ => nan   -- unreachable

/-- `a > b`: false when either side is NaN; −0 = +0 -/
def gt : XR → XR → Bool
  | nan, _ => false
  | _, nan => false
  | pinf, pinf => false
  | pinf, _ => true
  | _, pinf => false
  | ninf, _ => false
  | _, ninf => true
  | nzero, nzero => false
  | nzero, fin q => decide (q < 0)
  | fin q, nzero => decide (0 < q)
  | fin a, fin b => decide (b < a)

/-- the float operations of `Autocut` over `XR` -/
def ops (r : Rounding) : FOps XR where
  zero := fin 0
  one := fin 1
  ofNat n := r.rnd n
  add := add r
  sub := sub r
  mul := mul r
  div := div r
  gt := gt

/-! ### the length-2 case of `Autocut` -/

/-- `x − x` is +0 or NaN -/
theorem sub_self_cases (r : Rounding) (x : XR) : sub r x x = fin 0 ∨ sub r x x = nan := by
  cases x with
  | fin q =>
    by_cases h : q = 0
    · subst h; left; simp [sub, negate, add]
    · left; simp [sub, negate, add, h, r.rnd0]
  | nzero => left; simp [sub, negate, add]
  | pinf => right; simp [sub, negate, add]
  | ninf => right; simp [sub, negate, add]
  | nan => right; simp [sub, add]

/-- `(±0 or NaN) / z` is ±0 or NaN -/
theorem zero_div_cases (r : Rounding) (z : XR) :
    div r (fin 0) z = fin 0 ∨ div r (fin 0) z = nzero ∨ div r (fin 0) z = nan := by
  cases z with
  | fin q =>
    by_cases h : q = 0
    · subst h; right; right; simp [div, isInf, isZero]
    · by_cases hn : q < 0
      · right; left; simp [div, isInf, isZero, h, neg?, hn, zeroS]
      · left; simp [div, isInf, isZero, h, neg?, hn, zeroS]
  | nzero => right; right; simp [div, isInf, isZero]
  | pinf => left; simp [div, isInf, isZero, neg?, zeroS]
  | ninf => right; left; simp [div, isInf, isZero, neg?, zeroS]
  | nan => right; right; simp [div]

theorem nan_div (r : Rounding) (z : XR) : div r nan z = nan := by
  cases z <;> simp [div]

/-- `z / z` is 1 or NaN -/
theorem div_self_cases (r : Rounding) (z : XR) : div r z z = fin 1 ∨ div r z z = nan := by
  cases z with
  | fin q =>
    by_cases h : q = 0
    · subst h; right; simp [div, isInf, isZero]
    · left; simp [div, isInf, isZero, h, r.rnd1]
  | nzero => right; simp [div, isInf, isZero]
  | pinf => right; simp [div, isInf, isZero]
  | ninf => right; simp [div, isInf, isZero]
  | nan => right; simp [div]

/-- for two values `step = 1/(2−1) = 1` -/
theorem step_two (r : Rounding) : autocutStep (ops r) 2 = fin 1 := by
  have h21 : (2 : ℚ) + -1 = 1 := by norm_num
  have h1 : (1 : ℚ) ≠ 0 := by norm_num
  simp [autocutStep, ops, r.rnd2, sub, negate, add, h1, h21, r.rnd1, div, isInf, isZero]

/-- `xValue` for `i = 0` is +0, for `i = 1` it is 1 -/
theorem xvalue_zero (r : Rounding) :
    (ops r).add (ops r).zero ((ops r).mul ((ops r).ofNat 0) (autocutStep (ops r) 2)) = fin 0 := by
  rw [step_two]
  have h10 : ¬ ((1 : ℚ) < 0) := by norm_num
  simp [ops, r.rnd0, mul, isInf, isZero, neg?, zeroS, add, h10]

theorem xvalue_one (r : Rounding) :
    (ops r).add (ops r).zero ((ops r).mul ((ops r).ofNat 1) (autocutStep (ops r) 2)) = fin 1 := by
  rw [step_two]
  have h1 : (1 : ℚ) ≠ 0 := by norm_num
  simp [ops, r.rnd1, mul, isInf, isZero, h1, add]

/-- The guard in front of the `diff[-1]` read is false for every pair of scores:
    `diff[0] ∈ {+0, −0, NaN}`, `diff[1] ∈ {+0, NaN}`. -/
theorem len2Safe (r : Rounding) : Len2Safe (ops r) := by
  intro y0 y1
  have hx0 := xvalue_zero r
  have hx1 := xvalue_one r
  simp only [diffAt]
  rw [hx0, hx1]
  -- diff[0]
  have hd0 : ∀ a, (a = fin 0 ∨ a = nzero ∨ a = nan) →
      (sub r a (fin 0) = fin 0 ∨ sub r a (fin 0) = nzero ∨ sub r a (fin 0) = nan) := by
    intro a ha
    rcases ha with rfl | rfl | rfl
    · left; simp [sub, negate, add]
    · right; left; simp [sub, negate, add]
    · right; right; simp [sub, add]
  have hn0 : ∀ z, (div r (sub r y0 y0) z = fin 0 ∨ div r (sub r y0 y0) z = nzero ∨
      div r (sub r y0 y0) z = nan) := by
    intro z
    rcases sub_self_cases r y0 with h | h
    · rw [h]; exact zero_div_cases r z
    · rw [h]; right; right; exact nan_div r z
  have h0 := hd0 _ (hn0 (sub r y1 y0))
  -- diff[1]
  have h1 : sub r (div r (sub r y1 y0) (sub r y1 y0)) (fin 1) = fin 0 ∨
      sub r (div r (sub r y1 y0) (sub r y1 y0)) (fin 1) = nan := by
    have h11 : (1 : ℚ) + -1 = 0 := by norm_num
    have h1 : (1 : ℚ) ≠ 0 := by norm_num
    rcases div_self_cases r (sub r y1 y0) with h | h
    · rw [h]; left; simp [sub, negate, add, h1, h11, r.rnd0]
    · rw [h]; right; simp [sub, add]
  show gt (sub r (div r (sub r y1 y0) (sub r y1 y0)) (fin 1))
      (sub r (div r (sub r y0 y0) (sub r y1 y0)) (fin 0)) = false
  rcases h1 with h1 | h1 <;> rcases h0 with h0 | h0 | h0 <;> rw [h1, h0] <;> simp [gt]

end XR
end Comet
