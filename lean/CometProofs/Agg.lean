/-
  Helper lemmas for C19 (aggregation.go): grouping by id, the three reductions,
  invariance under permutation of the input.
-/
import Comet.Agg
namespace Comet

variable {S : Type}

theorem mem_firstIds : ∀ (l : List Id) (i : Id), i ∈ firstIds l ↔ i ∈ l
  | [], i => by simp [firstIds]
  | a :: t, i => by
    simp only [firstIds, List.mem_cons, List.mem_filter, mem_firstIds t i]
    by_cases h : i = a
    · simp [h]
    · simp [h]

theorem firstIds_nodup : ∀ (l : List Id), (firstIds l).Nodup
  | [] => by simp [firstIds]
  | a :: t => by
    simp only [firstIds, List.nodup_cons, List.mem_filter]
    refine ⟨fun h => by simp at h, (firstIds_nodup t).sublist List.filter_sublist⟩

/-- the aggregated hits before sorting -/
def aggList (sc : Scalar S) (kind : AggKind) (xs : List (Hit S)) : List (Hit S) :=
  (groupScores xs).map fun p => (⟨p.1, reduceVec sc kind p.2⟩ : Hit S)

theorem aggList_eq (sc : Scalar S) (kind : AggKind) (xs : List (Hit S)) :
    aggList sc kind xs =
      (firstIds (xs.map (·.id))).map fun i => (⟨i, reduceVec sc kind (scoresOf i xs)⟩ : Hit S) := by
  simp [aggList, groupScores, List.map_map, Function.comp_def]

theorem aggList_ids (sc : Scalar S) (kind : AggKind) (xs : List (Hit S)) :
    (aggList sc kind xs).map (·.id) = firstIds (xs.map (·.id)) := by
  rw [aggList_eq]; simp [List.map_map, Function.comp_def]

theorem mem_aggList (sc : Scalar S) (kind : AggKind) (xs : List (Hit S)) (h : Hit S) :
    h ∈ aggList sc kind xs ↔
      h.id ∈ xs.map (·.id) ∧ h.score = reduceVec sc kind (scoresOf h.id xs) := by
  rw [aggList_eq, List.mem_map]
  constructor
  · rintro ⟨i, hi, rfl⟩
    exact ⟨(mem_firstIds _ _).1 hi, rfl⟩
  · rintro ⟨h1, h2⟩
    refine ⟨h.id, (mem_firstIds _ _).2 h1, ?_⟩
    cases h; simp_all

theorem vecAggregate_perm (sc : Scalar S) (kind : AggKind) (xs : List (Hit S)) :
    (vecAggregate sc kind xs).Perm (aggList sc kind xs) := List.mergeSort_perm _ _

theorem textAggregate_perm (sc : Scalar S) (kind : AggKind) (xs : List (Hit S)) :
    (textAggregate sc kind xs).Perm (aggList sc kind xs) := List.mergeSort_perm _ _

theorem scoresOf_ne_nil (xs : List (Hit S)) (i : Id) (h : i ∈ xs.map (·.id)) :
    scoresOf i xs ≠ [] := by
  obtain ⟨x, hx, rfl⟩ := List.mem_map.1 h
  intro he
  have : x.score ∈ scoresOf x.id xs := by
    simp only [scoresOf, List.mem_map, List.mem_filter]
    exact ⟨x, ⟨hx, by simp⟩, rfl⟩
  rw [he] at this; cases this

theorem scoresOf_perm {xs ys : List (Hit S)} (h : xs.Perm ys) (i : Id) :
    (scoresOf i xs).Perm (scoresOf i ys) := (h.filter _).map _

/-! ### the reductions -/

/-- the running-maximum step of both the vector and the text max aggregation -/
def maxStep (sc : Scalar S) (m x : S) : S := if sc.lt m x then x else m

theorem maxScores_cons (sc : Scalar S) (s : S) (ss : List S) :
    maxScores sc (s :: ss) = ss.foldl (maxStep sc) s := rfl

theorem le_refl_of (sc : Scalar S) (ord : sc.Ordered) (a : S) : sc.le a a = true := by
  have := ord.total a a; simpa using this

theorem foldl_max_spec (sc : Scalar S) (ord : sc.Ordered) :
    ∀ (l : List S) (s : S),
      (l.foldl (maxStep sc) s = s ∨ l.foldl (maxStep sc) s ∈ l) ∧
      sc.le s (l.foldl (maxStep sc) s) = true ∧
      ∀ x ∈ l, sc.le x (l.foldl (maxStep sc) s) = true
  | [], s => ⟨Or.inl rfl, le_refl_of sc ord s, by simp⟩
  | y :: l, s => by
    obtain ⟨h1, h2, h3⟩ := foldl_max_spec sc ord l (maxStep sc s y)
    simp only [List.foldl_cons]
    have hs : sc.le s (maxStep sc s y) = true ∧ sc.le y (maxStep sc s y) = true ∧
        (maxStep sc s y = s ∨ maxStep sc s y = y) := by
      unfold maxStep
      by_cases hlt : sc.lt s y = true
      · simp only [hlt, if_true]
        rw [ord.lt_iff] at hlt
        have hn : sc.le y s = false := by simpa using hlt
        have := ord.total s y
        simp only [hn, Bool.or_false] at this
        exact ⟨this, le_refl_of sc ord y, Or.inr trivial⟩
      · simp only [hlt, Bool.false_eq_true, if_false]
        rw [ord.lt_iff] at hlt
        have hn : sc.le y s = true := by simpa using hlt
        exact ⟨le_refl_of sc ord s, hn, Or.inl trivial⟩
    refine ⟨?_, ord.trans _ _ _ hs.1 h2, ?_⟩
    · rcases h1 with h1 | h1
      · rcases hs.2.2 with e | e
        · left; rw [h1, e]
        · right; rw [h1, e]; simp
      · right; simp [h1]
    · intro x hx
      simp only [List.mem_cons] at hx
      rcases hx with rfl | hx
      · exact ord.trans _ _ _ hs.2.1 h2
      · exact h3 x hx

/-- the max reduction returns a member that is at least every member -/
theorem maxScores_spec (sc : Scalar S) (ord : sc.Ordered) (ss : List S) (hne : ss ≠ []) :
    maxScores sc ss ∈ ss ∧ ∀ x ∈ ss, sc.le x (maxScores sc ss) = true := by
  cases ss with
  | nil => exact absurd rfl hne
  | cons s ss =>
    obtain ⟨h1, h2, h3⟩ := foldl_max_spec sc ord ss s
    rw [maxScores_cons]
    refine ⟨?_, ?_⟩
    · rcases h1 with h1 | h1
      · rw [h1]; simp
      · simp [h1]
    · intro x hx
      simp only [List.mem_cons] at hx
      rcases hx with rfl | hx
      · exact h2
      · exact h3 x hx

theorem maxScores_perm (sc : Scalar S) (ord : sc.Ordered)
    (antisymm : ∀ a b : S, sc.le a b → sc.le b a → a = b)
    {l₁ l₂ : List S} (h : l₁.Perm l₂) : maxScores sc l₁ = maxScores sc l₂ := by
  by_cases hn : l₁ = []
  · subst hn; rw [List.nil_perm.1 h]
  · have hn2 : l₂ ≠ [] := fun e => hn (by subst e; exact List.perm_nil.1 h)
    obtain ⟨m1, u1⟩ := maxScores_spec sc ord l₁ hn
    obtain ⟨m2, u2⟩ := maxScores_spec sc ord l₂ hn2
    exact antisymm _ _ (u2 _ (h.subset m1)) (u1 _ (h.symm.subset m2))

theorem foldl_perm_of_rcomm {β α : Type} (f : β → α → β)
    (rc : ∀ b x y, f (f b x) y = f (f b y) x) {l₁ l₂ : List α} (h : l₁.Perm l₂) :
    ∀ b, l₁.foldl f b = l₂.foldl f b := by
  induction h with
  | nil => intro b; rfl
  | cons x _ ih => intro b; simp only [List.foldl_cons]; exact ih _
  | swap x y l => intro b; simp only [List.foldl_cons]; rw [rc]
  | trans _ _ ih1 ih2 => intro b; rw [ih1, ih2]

theorem sumScores_perm (sc : Scalar S)
    (add_comm : ∀ a b : S, sc.add a b = sc.add b a)
    (add_assoc : ∀ a b c : S, sc.add (sc.add a b) c = sc.add a (sc.add b c))
    {l₁ l₂ : List S} (h : l₁.Perm l₂) : sumScores sc l₁ = sumScores sc l₂ := by
  unfold sumScores
  apply foldl_perm_of_rcomm _ _ h
  intro b x y
  rw [add_assoc, add_comm x y, ← add_assoc]

theorem reduceVec_perm (sc : Scalar S) (ord : sc.Ordered)
    (antisymm : ∀ a b : S, sc.le a b → sc.le b a → a = b)
    (add_comm : ∀ a b : S, sc.add a b = sc.add b a)
    (add_assoc : ∀ a b c : S, sc.add (sc.add a b) c = sc.add a (sc.add b c))
    (kind : AggKind) {l₁ l₂ : List S} (h : l₁.Perm l₂) :
    reduceVec sc kind l₁ = reduceVec sc kind l₂ := by
  cases kind with
  | sum => exact sumScores_perm sc add_comm add_assoc h
  | max => exact maxScores_perm sc ord antisymm h
  | mean =>
    simp only [reduceVec]
    rw [sumScores_perm sc add_comm add_assoc h, h.length_eq]

theorem aggList_perm (sc : Scalar S) (ord : sc.Ordered)
    (antisymm : ∀ a b : S, sc.le a b → sc.le b a → a = b)
    (add_comm : ∀ a b : S, sc.add a b = sc.add b a)
    (add_assoc : ∀ a b c : S, sc.add (sc.add a b) c = sc.add a (sc.add b c))
    (kind : AggKind) {xs ys : List (Hit S)} (h : xs.Perm ys) :
    (aggList sc kind xs).Perm (aggList sc kind ys) := by
  rw [aggList_eq, aggList_eq]
  have hf : (fun i => (⟨i, reduceVec sc kind (scoresOf i xs)⟩ : Hit S)) =
      fun i => (⟨i, reduceVec sc kind (scoresOf i ys)⟩ : Hit S) := by
    funext i
    rw [reduceVec_perm sc ord antisymm add_comm add_assoc kind (scoresOf_perm h i)]
  rw [hf]
  apply List.Perm.map
  rw [List.perm_ext_iff_of_nodup (firstIds_nodup _) (firstIds_nodup _)]
  intro i
  rw [mem_firstIds, mem_firstIds]
  exact (h.map _).mem_iff

end Comet
