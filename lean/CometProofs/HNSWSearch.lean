/-
  searchLayer: soundness and completeness invariants (helper lemmas for C12).
-/
import CometProofs.HNSW
namespace Comet.HNSW

variable {V S : Type}

/-! ### sorted-list heaps -/

theorem insAsc_perm (lt : S → S → Bool) (c : Hit S) : ∀ l, (insAsc lt c l).Perm (c :: l)
  | [] => by simp [insAsc]
  | a :: as => by
    simp only [insAsc]
    split
    · exact List.Perm.refl _
    · exact (List.Perm.cons a (insAsc_perm lt c as)).trans (List.Perm.swap c a as)

theorem insDesc_perm (lt : S → S → Bool) (c : Hit S) : ∀ l, (insDesc lt c l).Perm (c :: l)
  | [] => by simp [insDesc]
  | a :: as => by
    simp only [insDesc]
    split
    · exact List.Perm.refl _
    · exact (List.Perm.cons a (insDesc_perm lt c as)).trans (List.Perm.swap c a as)

theorem insStable_perm (lt : S → S → Bool) (c : Hit S) : ∀ l, (insStable lt c l).Perm (c :: l)
  | [] => by simp [insStable]
  | a :: as => by
    simp only [insStable]
    split
    · exact (List.Perm.cons a (insStable_perm lt c as)).trans (List.Perm.swap c a as)
    · exact List.Perm.refl _

theorem sortAsc_perm (lt : S → S → Bool) : ∀ l : List (Hit S), (sortAsc lt l).Perm l
  | [] => by simp [sortAsc]
  | a :: as => by
    have ih := sortAsc_perm lt as
    simp only [sortAsc, List.foldr_cons] at ih ⊢
    exact (insStable_perm lt a _).trans (List.Perm.cons a ih)

theorem mem_insAsc {lt : S → S → Bool} {c x : Hit S} {l : List (Hit S)} :
    x ∈ insAsc lt c l ↔ x = c ∨ x ∈ l := by
  rw [(insAsc_perm lt c l).mem_iff]; simp

theorem mem_insDesc {lt : S → S → Bool} {c x : Hit S} {l : List (Hit S)} :
    x ∈ insDesc lt c l ↔ x = c ∨ x ∈ l := by
  rw [(insDesc_perm lt c l).mem_iff]; simp

theorem length_insDesc (lt : S → S → Bool) (c : Hit S) (l : List (Hit S)) :
    (insDesc lt c l).length = l.length + 1 := by
  rw [(insDesc_perm lt c l).length_eq]; simp

/-! ### the loop invariants (searchLayer since fix f6a780e: soft-deleted vertices are
    walked through — candidate heap — but never reported — result heap) -/

section Loop
variable (m : Metric V S) (s : State V) (q : V) (ef layer : Nat) (ep : Id)

/-- a hit names a resident vertex and carries its distance to the query -/
def Good (h : Hit S) : Prop := ∃ n, s.nodes.get? h.id = some n ∧ h.score = m.dist q n.vec

/-- reachable from `ep` along the edges of `layer` (through ANY stored vertex, soft-deleted
    ones included) -/
abbrev RL (v : Id) : Prop := Reach (nbrsAt s layer) ep v

/-- soundness invariant of `searchLayer`'s two heaps -/
structure SInv (cs rs : List (Hit S)) (vis : IdMap Unit) : Prop where
  cs_ok : ∀ c ∈ cs, RL s layer ep c.id ∧ vis.contains c.id = true ∧ Good m s q c
  rs_ok : ∀ r ∈ rs, RL s layer ep r.id ∧ isDeleted s r.id = false ∧ vis.contains r.id = true ∧ Good m s q r
  rs_nodup : (rs.map (·.id)).Nodup

theorem vis_mono (vis : IdMap Unit) (i j : Id) (h : vis.contains j = true) :
    (vis.set i ()).contains j = true := by
  simp only [IdMap.contains, IdMap.get?_set] at h ⊢
  split <;> simp_all

theorem vis_set_self (vis : IdMap Unit) (i : Id) : (vis.set i ()).contains i = true := by
  simp [IdMap.contains, IdMap.get?_set]

theorem node!_eq {s : State V} {i : Id} {n : Node V} (h : node! s i = .ok n) :
    s.nodes.get? i = some n := by
  simp only [node!] at h
  split at h
  · next n' hn' => cases h; exact hn'
  · cases h

theorem SInv.mark {cs rs : List (Hit S)} {vis : IdMap Unit} (h : SInv m s q layer ep cs rs vis) (nb : Id) :
    SInv m s q layer ep cs rs (vis.set nb ()) :=
  ⟨fun c hc => let ⟨a, c', d⟩ := h.cs_ok c hc; ⟨a, vis_mono vis nb _ c', d⟩,
   fun c hc => let ⟨a, b, c', d⟩ := h.rs_ok c hc; ⟨a, b, vis_mono vis nb _ c', d⟩,
   h.rs_nodup⟩

/-- pushing an admitted vertex on the candidate heap -/
theorem SInv.pushC {cs rs : List (Hit S)} {vis : IdMap Unit} (h : SInv m s q layer ep cs rs vis)
    (c : Hit S) (hc : RL s layer ep c.id ∧ vis.contains c.id = true ∧ Good m s q c) :
    SInv m s q layer ep (insAsc m.sc.lt c cs) rs vis :=
  ⟨fun x hx => by
      rcases mem_insAsc.1 hx with rfl | hx
      · exact hc
      · exact h.cs_ok x hx,
   h.rs_ok, h.rs_nodup⟩

/-- pushing a live, not yet reported vertex on the result heap (with the eviction) -/
theorem SInv.pushR {cs rs : List (Hit S)} {vis : IdMap Unit} (h : SInv m s q layer ep cs rs vis)
    (c : Hit S) (hc : RL s layer ep c.id ∧ isDeleted s c.id = false ∧ vis.contains c.id = true ∧ Good m s q c)
    (hnew : c.id ∉ rs.map (·.id)) :
    SInv m s q layer ep cs
      (if (insDesc m.sc.lt c rs).length > ef then (insDesc m.sc.lt c rs).tail else insDesc m.sc.lt c rs) vis := by
  have h2 : SInv m s q layer ep cs (insDesc m.sc.lt c rs) vis := by
    refine ⟨h.cs_ok, ?_, ?_⟩
    · intro x hx
      rcases mem_insDesc.1 hx with rfl | hx
      · exact hc
      · exact h.rs_ok x hx
    · have := ((insDesc_perm m.sc.lt c rs).map (·.id))
      rw [this.nodup_iff]
      simp only [List.map_cons, List.nodup_cons]
      exact ⟨hnew, h.rs_nodup⟩
  split
  · exact ⟨h2.cs_ok, fun r hr => h2.rs_ok r (List.mem_of_mem_tail hr),
      h2.rs_nodup.sublist ((List.tail_sublist _).map _)⟩
  · exact h2

/-- soundness of the neighbour scan -/
theorem scanNbrs_sound :
    ∀ (nbs : List Id) (cs rs : List (Hit S)) (vis : IdMap Unit) (cs' rs' : List (Hit S)) (vis' : IdMap Unit),
      (∀ nb ∈ nbs, RL s layer ep nb) →
      SInv m s q layer ep cs rs vis →
      scanNbrs m s q ef nbs (cs, rs, vis) = .ok (cs', rs', vis') →
      SInv m s q layer ep cs' rs' vis' ∧ (∀ j, vis.contains j = true → vis'.contains j = true) := by
  intro nbs
  induction nbs with
  | nil =>
    intro cs rs vis cs' rs' vis' _ hinv h
    simp only [scanNbrs, Except.ok.injEq, Prod.mk.injEq] at h
    obtain ⟨rfl, rfl, rfl⟩ := h
    exact ⟨hinv, fun _ h => h⟩
  | cons nb rest ih =>
    intro cs rs vis cs' rs' vis' hnb hinv h
    have hrest : ∀ nb ∈ rest, RL s layer ep nb := fun x hx => hnb x (List.mem_cons_of_mem _ hx)
    have hR : RL s layer ep nb := hnb nb (by simp)
    simp only [scanNbrs] at h
    split at h
    · exact ih cs rs vis cs' rs' vis' hrest hinv h
    · next hvis =>
      have hinv1 := hinv.mark m s q layer ep nb
      split at h
      · cases h
      · next n hn =>
        have hgood : Good m s q (⟨nb, m.dist q n.vec⟩ : Hit S) := ⟨n, node!_eq hn, rfl⟩
        split at h
        · cases h
        · obtain ⟨hi, hm⟩ := ih cs rs (vis.set nb ()) cs' rs' vis' hrest hinv1 h
          exact ⟨hi, fun j hj => hm j (vis_mono vis nb j hj)⟩
        · have hinv2 := hinv1.pushC m s q layer ep ⟨nb, m.dist q n.vec⟩ ⟨hR, vis_set_self vis nb, hgood⟩
          split at h
          · obtain ⟨hi, hm⟩ := ih _ rs (vis.set nb ()) cs' rs' vis' hrest hinv2 h
            exact ⟨hi, fun j hj => hm j (vis_mono vis nb j hj)⟩
          · next hdel =>
            have hdel' : isDeleted s nb = false := by simpa using hdel
            have hnotin : nb ∉ rs.map (·.id) := by
              intro hmem
              obtain ⟨r, hr, hrid⟩ := List.mem_map.1 hmem
              have := (hinv.rs_ok r hr).2.2.1
              rw [hrid] at this
              exact hvis (by simpa using this)
            have hinv3 := hinv2.pushR m s q ef layer ep ⟨nb, m.dist q n.vec⟩
              ⟨hR, hdel', vis_set_self vis nb, hgood⟩ hnotin
            obtain ⟨hi, hm⟩ := ih _ _ (vis.set nb ()) cs' rs' vis' hrest hinv3 h
            exact ⟨hi, fun j hj => hm j (vis_mono vis nb j hj)⟩

/-- the neighbours that the scan of a popped, reachable vertex sees are reachable -/
theorem nbrs_reach {c : Id} {n : Node V} {nbs : List Id}
    (hc : RL s layer ep c) (hn : s.nodes.get? c = some n) (he : n.edges[layer]? = some nbs) :
    ∀ nb ∈ nbs, RL s layer ep nb := by
  intro nb hnb
  refine Reach.step hc ?_
  simp only [nbrsAt, hn, he, Option.getD_some]
  exact hnb

/-- soundness of the main loop -/
theorem searchLoop_sound :
    ∀ (fuel : Nat) (cs rs : List (Hit S)) (vis : IdMap Unit) (res : List (Hit S)),
      SInv m s q layer ep cs rs vis →
      searchLoop m s q ef layer fuel cs rs vis = .ok res →
      (∀ r ∈ res, RL s layer ep r.id ∧ isDeleted s r.id = false ∧ Good m s q r) ∧
      (res.map (·.id)).Nodup := by
  intro fuel
  induction fuel with
  | zero =>
    intro cs rs vis res hinv h
    cases cs with
    | nil =>
      simp only [searchLoop, Except.ok.injEq] at h; subst h
      exact ⟨fun r hr => let ⟨a, b, _, d⟩ := hinv.rs_ok r hr; ⟨a, b, d⟩, hinv.rs_nodup⟩
    | cons c cs => simp [searchLoop] at h
  | succ fuel ih =>
    intro cs rs vis res hinv h
    cases cs with
    | nil =>
      simp only [searchLoop, Except.ok.injEq] at h; subst h
      exact ⟨fun r hr => let ⟨a, b, _, d⟩ := hinv.rs_ok r hr; ⟨a, b, d⟩, hinv.rs_nodup⟩
    | cons c cs =>
      simp only [searchLoop] at h
      have hinv' : SInv m s q layer ep cs rs vis :=
        ⟨fun x hx => hinv.cs_ok x (List.mem_cons_of_mem _ hx), hinv.rs_ok, hinv.rs_nodup⟩
      obtain ⟨hcR, _, _⟩ := hinv.cs_ok c (by simp)
      split at h
      · cases h
      · simp only [Except.ok.injEq] at h; subst h
        exact ⟨fun r hr => let ⟨a, b, _, d⟩ := hinv.rs_ok r hr; ⟨a, b, d⟩, hinv.rs_nodup⟩
      · split at h
        · cases h
        · next n hn =>
          split at h
          · exact ih cs rs vis res hinv' h
          · next nbs he =>
            split at h
            · cases h
            · next cs' rs' vis' hscan =>
              have := scanNbrs_sound m s q ef layer ep nbs cs rs vis cs' rs' vis'
                (nbrs_reach s layer ep hcR (node!_eq hn) he) hinv' hscan
              exact ih cs' rs' vis' res this.1 h

/-- the state `searchLayer` starts its loop in -/
theorem seed_inv (n : Node V) (hn : s.nodes.get? ep = some n) :
    SInv m s q layer ep [⟨ep, m.dist q n.vec⟩]
      (if isDeleted s ep then [] else [⟨ep, m.dist q n.vec⟩]) ((IdMap.empty : IdMap Unit).set ep ()) := by
  have hg : Good m s q (⟨ep, m.dist q n.vec⟩ : Hit S) := ⟨n, hn, rfl⟩
  refine ⟨by intro c hc; rcases List.mem_singleton.1 hc with rfl; exact ⟨Reach.refl, vis_set_self _ ep, hg⟩,
    ?_, ?_⟩
  · intro r hr
    split at hr
    · cases hr
    · next hdel =>
      rcases List.mem_singleton.1 hr with rfl
      exact ⟨Reach.refl, by simpa using hdel, vis_set_self _ ep, hg⟩
  · split <;> simp

/-- **searchLayer, soundness**: every returned hit is a resident, NON-deleted vertex that
    is reachable from the given start vertex along the edges of that layer (through any
    stored vertices), carries its distance to the query, and no vertex is returned twice. -/
theorem searchLayer_sound (res : List (Hit S))
    (h : searchLayer m s q ep ef layer = .ok res) :
    (∀ r ∈ res, RL s layer ep r.id ∧ isDeleted s r.id = false ∧ Good m s q r) ∧
    (res.map (·.id)).Nodup := by
  simp only [searchLayer] at h
  split at h
  · cases h
  · next n hn =>
    split at h
    · cases h
    · next rs hloop =>
      simp only [Except.ok.injEq] at h; subst h
      obtain ⟨h1, h2⟩ := searchLoop_sound m s q (Nat.max ef 1) layer ep _ _ _ _ rs
        (seed_inv m s q layer ep n (node!_eq hn)) hloop
      refine ⟨fun r hr => h1 r (List.mem_reverse.1 hr), ?_⟩
      rw [List.map_reverse]
      exact (List.reverse_perm _).nodup_iff.2 h2

/-! ### completeness: either the result heap is full (`≥ ef` hits) or it holds EVERY live
    vertex reachable from the start -/

/-- completeness invariant while the result heap is not full; `exc` is the vertex being
    expanded right now -/
structure CInv (exc : Option Id) (cs rs : List (Hit S)) (vis : IdMap Unit) : Prop where
  ep_vis : vis.contains ep = true
  vis_rs : ∀ v, RL s layer ep v → isDeleted s v = false → vis.contains v = true → v ∈ rs.map (·.id)
  pending : ∀ v, RL s layer ep v → vis.contains v = true →
    v ∈ cs.map (·.id) ∨ some v = exc ∨ ∀ w ∈ nbrsAt s layer v, vis.contains w = true

theorem contains_set_iff (vis : IdMap Unit) (i j : Id) :
    (vis.set i ()).contains j = true ↔ i = j ∨ vis.contains j = true := by
  simp only [IdMap.contains, IdMap.get?_set]
  split <;> simp_all

/-- a full result heap stays full -/
theorem scanNbrs_full :
    ∀ (nbs : List Id) (cs rs : List (Hit S)) (vis : IdMap Unit) (cs' rs' : List (Hit S)) (vis' : IdMap Unit),
      ef ≤ rs.length → scanNbrs m s q ef nbs (cs, rs, vis) = .ok (cs', rs', vis') → ef ≤ rs'.length := by
  intro nbs
  induction nbs with
  | nil =>
    intro cs rs vis cs' rs' vis' hf h
    simp only [scanNbrs, Except.ok.injEq, Prod.mk.injEq] at h
    obtain ⟨_, rfl, _⟩ := h; exact hf
  | cons nb rest ih =>
    intro cs rs vis cs' rs' vis' hf h
    simp only [scanNbrs] at h
    split at h
    · exact ih _ _ _ _ _ _ hf h
    · split at h
      · cases h
      · next n hn =>
        split at h
        · cases h
        · exact ih _ _ _ _ _ _ hf h
        · split at h
          · exact ih _ _ _ _ _ _ hf h
          · refine ih _ _ _ _ _ _ ?_ h
            have hl := length_insDesc m.sc.lt ⟨nb, m.dist q n.vec⟩ rs
            split
            · simp only [List.length_tail]; omega
            · omega

theorem scanNbrs_complete (c : Id) :
    ∀ (nbs : List Id) (cs rs : List (Hit S)) (vis : IdMap Unit) (cs' rs' : List (Hit S)) (vis' : IdMap Unit),
      (∀ nb ∈ nbs, RL s layer ep nb) →
      SInv m s q layer ep cs rs vis → (ef ≤ rs.length ∨ CInv s layer ep (some c) cs rs vis) →
      scanNbrs m s q ef nbs (cs, rs, vis) = .ok (cs', rs', vis') →
      ef ≤ rs'.length ∨ (CInv s layer ep (some c) cs' rs' vis' ∧ ∀ w ∈ nbs, vis'.contains w = true) := by
  intro nbs
  induction nbs with
  | nil =>
    intro cs rs vis cs' rs' vis' _ _ hc h
    simp only [scanNbrs, Except.ok.injEq, Prod.mk.injEq] at h
    obtain ⟨rfl, rfl, rfl⟩ := h
    rcases hc with hc | hc
    · exact Or.inl hc
    · exact Or.inr ⟨hc, by simp⟩
  | cons nb rest ih =>
    intro cs rs vis cs' rs' vis' hnb hinv hc h
    rcases hc with hfull | hc
    · exact Or.inl (scanNbrs_full m s q ef _ _ _ _ _ _ _ hfull h)
    have hrest : ∀ nb ∈ rest, RL s layer ep nb := fun x hx => hnb x (List.mem_cons_of_mem _ hx)
    have hR : RL s layer ep nb := hnb nb (by simp)
    have hmono := fun cs rs vis (hi : SInv m s q layer ep cs rs vis) (hh : scanNbrs m s q ef rest (cs, rs, vis) = .ok (cs', rs', vis')) =>
      (scanNbrs_sound m s q ef layer ep rest cs rs vis cs' rs' vis' hrest hi hh).2
    simp only [scanNbrs] at h
    split at h
    · next hvis =>
      rcases ih cs rs vis cs' rs' vis' hrest hinv (Or.inr hc) h with h1 | ⟨h1, h2⟩
      · exact Or.inl h1
      · refine Or.inr ⟨h1, ?_⟩
        intro w hw
        rcases List.mem_cons.1 hw with rfl | hw
        · exact hmono cs rs vis hinv h _ hvis
        · exact h2 w hw
    · next hvis =>
      have hinv1 := hinv.mark m s q layer ep nb
      split at h
      · cases h
      · next n hn =>
        have hgood : Good m s q (⟨nb, m.dist q n.vec⟩ : Hit S) := ⟨n, node!_eq hn, rfl⟩
        by_cases hlt : rs.length < ef
        · -- the heap is not full: the vertex is admitted
          have hadm : admits m.sc.lt ef rs (m.dist q n.vec) = .ok true := by simp [admits, hlt]
          simp only [hadm] at h
          have hinv2 := hinv1.pushC m s q layer ep ⟨nb, m.dist q n.vec⟩ ⟨hR, vis_set_self vis nb, hgood⟩
          have hpend : ∀ v, RL s layer ep v → (vis.set nb ()).contains v = true →
              v ∈ (insAsc m.sc.lt ⟨nb, m.dist q n.vec⟩ cs).map (·.id) ∨ some v = some c ∨
                ∀ w ∈ nbrsAt s layer v, (vis.set nb ()).contains w = true := by
            intro v hv hvv
            rcases (contains_set_iff vis nb v).1 hvv with rfl | hvv
            · left
              rw [((insAsc_perm m.sc.lt ⟨nb, m.dist q n.vec⟩ cs).map (·.id)).mem_iff]
              simp
            · rcases hc.pending v hv hvv with h1 | h1 | h1
              · left
                rw [((insAsc_perm m.sc.lt ⟨nb, m.dist q n.vec⟩ cs).map (·.id)).mem_iff]
                exact List.mem_cons_of_mem _ h1
              · exact Or.inr (Or.inl h1)
              · exact Or.inr (Or.inr fun w hw => vis_mono vis nb w (h1 w hw))
          split at h
          · next hdel =>
            -- soft-deleted: walked through, not reported
            have hc2 : CInv s layer ep (some c) (insAsc m.sc.lt ⟨nb, m.dist q n.vec⟩ cs) rs (vis.set nb ()) := by
              refine ⟨vis_mono vis nb ep hc.ep_vis, ?_, hpend⟩
              intro v hv hvd hvv
              rcases (contains_set_iff vis nb v).1 hvv with rfl | hvv
              · rw [hdel] at hvd; cases hvd
              · exact hc.vis_rs v hv hvd hvv
            rcases ih _ rs (vis.set nb ()) cs' rs' vis' hrest hinv2 (Or.inr hc2) h with h1 | ⟨h1, h2⟩
            · exact Or.inl h1
            · refine Or.inr ⟨h1, ?_⟩
              intro w hw
              rcases List.mem_cons.1 hw with rfl | hw
              · exact hmono _ _ _ hinv2 h _ (vis_set_self vis _)
              · exact h2 w hw
          · next hdel =>
            have hdel' : isDeleted s nb = false := by simpa using hdel
            have hnotin : nb ∉ rs.map (·.id) := by
              intro hmem
              obtain ⟨r, hr, hrid⟩ := List.mem_map.1 hmem
              have := (hinv.rs_ok r hr).2.2.1
              rw [hrid] at this
              exact hvis (by simpa using this)
            have hnoevict : ¬ (insDesc m.sc.lt ⟨nb, m.dist q n.vec⟩ rs).length > ef := by
              rw [length_insDesc]; omega
            have hinv3 := hinv2.pushR m s q ef layer ep ⟨nb, m.dist q n.vec⟩
              ⟨hR, hdel', vis_set_self vis nb, hgood⟩ hnotin
            simp only [hnoevict, if_false] at h hinv3
            have hc2 : CInv s layer ep (some c) (insAsc m.sc.lt ⟨nb, m.dist q n.vec⟩ cs)
                (insDesc m.sc.lt ⟨nb, m.dist q n.vec⟩ rs) (vis.set nb ()) := by
              refine ⟨vis_mono vis nb ep hc.ep_vis, ?_, hpend⟩
              intro v hv hvd hvv
              rw [((insDesc_perm m.sc.lt ⟨nb, m.dist q n.vec⟩ rs).map (·.id)).mem_iff]
              rcases (contains_set_iff vis nb v).1 hvv with rfl | hvv
              · simp
              · exact List.mem_cons_of_mem _ (hc.vis_rs v hv hvd hvv)
            rcases ih _ _ (vis.set nb ()) cs' rs' vis' hrest hinv3 (Or.inr hc2) h with h1 | ⟨h1, h2⟩
            · exact Or.inl h1
            · refine Or.inr ⟨h1, ?_⟩
              intro w hw
              rcases List.mem_cons.1 hw with rfl | hw
              · exact hmono _ _ _ hinv3 h _ (vis_set_self vis _)
              · exact h2 w hw
        · -- the heap is full already, and stays full
          have hfull : ef ≤ rs.length := by omega
          have hsc : scanNbrs m s q ef (nb :: rest) (cs, rs, vis) = .ok (cs', rs', vis') := by
            simp only [scanNbrs, hvis, hn]
            exact h
          exact Or.inl (scanNbrs_full m s q ef _ _ _ _ _ _ _ hfull hsc)

/-- when the loop ends the result heap is full or holds every live reachable vertex -/
theorem searchLoop_complete :
    ∀ (fuel : Nat) (cs rs : List (Hit S)) (vis : IdMap Unit) (res : List (Hit S)),
      SInv m s q layer ep cs rs vis → (ef ≤ rs.length ∨ CInv s layer ep none cs rs vis) →
      searchLoop m s q ef layer fuel cs rs vis = .ok res →
      ef ≤ res.length ∨ ∀ v, RL s layer ep v → isDeleted s v = false → v ∈ res.map (·.id) := by
  -- exit through the empty candidate heap
  have hdone : ∀ (rs : List (Hit S)) (vis : IdMap Unit),
      (ef ≤ rs.length ∨ CInv s layer ep none [] rs vis) →
      ef ≤ rs.length ∨ ∀ v, RL s layer ep v → isDeleted s v = false → v ∈ rs.map (·.id) := by
    intro rs vis hc
    rcases hc with hc | hc
    · exact Or.inl hc
    · right
      intro v hv hvd
      have hall : ∀ v, RL s layer ep v → vis.contains v = true := by
        intro v hv
        induction hv with
        | refl => exact hc.ep_vis
        | step hu hw ih =>
          rcases hc.pending _ hu ih with h | h | h
          · simp at h
          · cases h
          · exact h _ hw
      exact hc.vis_rs v hv hvd (hall v hv)
  intro fuel
  induction fuel with
  | zero =>
    intro cs rs vis res hinv hc h
    cases cs with
    | nil =>
      simp only [searchLoop, Except.ok.injEq] at h; subst h
      exact hdone _ vis hc
    | cons c cs => simp [searchLoop] at h
  | succ fuel ih =>
    intro cs rs vis res hinv hc h
    cases cs with
    | nil =>
      simp only [searchLoop, Except.ok.injEq] at h; subst h
      exact hdone _ vis hc
    | cons c cs =>
      simp only [searchLoop] at h
      have hinv' : SInv m s q layer ep cs rs vis :=
        ⟨fun x hx => hinv.cs_ok x (List.mem_cons_of_mem _ hx), hinv.rs_ok, hinv.rs_nodup⟩
      obtain ⟨hcR, hcvis, _⟩ := hinv.cs_ok c (by simp)
      split at h
      · cases h
      · next hstop =>
        simp only [Except.ok.injEq] at h; subst h
        left
        simp only [stops] at hstop
        split at hstop
        · assumption
        · cases hstop
      · split at h
        · cases h
        · next n hn =>
          have hn' := node!_eq hn
          split at h
          · next he =>
            -- no such layer: nothing to expand
            refine ih cs rs vis res hinv' ?_ h
            rcases hc with hc | hc
            · exact Or.inl hc
            · right
              have hexp : ∀ w ∈ nbrsAt s layer c.id, vis.contains w = true := by
                simp [nbrsAt, hn', he]
              refine ⟨hc.ep_vis, hc.vis_rs, ?_⟩
              intro v hv hvv
              rcases hc.pending v hv hvv with h1 | h1 | h1
              · rcases List.mem_cons.1 h1 with rfl | h1
                · exact Or.inr (Or.inr hexp)
                · exact Or.inl h1
              · cases h1
              · exact Or.inr (Or.inr h1)
          · next nbs he =>
            split at h
            · cases h
            · next cs' rs' vis' hscan =>
              have hreach := nbrs_reach s layer ep hcR hn' he
              have hc1 : ef ≤ rs.length ∨ CInv s layer ep (some c.id) cs rs vis := by
                rcases hc with hc | hc
                · exact Or.inl hc
                · right
                  refine ⟨hc.ep_vis, hc.vis_rs, ?_⟩
                  intro v hv hvv
                  rcases hc.pending v hv hvv with h1 | h1 | h1
                  · rcases List.mem_cons.1 h1 with rfl | h1
                    · exact Or.inr (Or.inl rfl)
                    · exact Or.inl h1
                  · cases h1
                  · exact Or.inr (Or.inr h1)
              have hs := scanNbrs_sound m s q ef layer ep nbs cs rs vis cs' rs' vis' hreach hinv' hscan
              refine ih cs' rs' vis' res hs.1 ?_ h
              rcases scanNbrs_complete m s q ef layer ep c.id nbs cs rs vis cs' rs' vis'
                hreach hinv' hc1 hscan with h1 | ⟨hc2, hall⟩
              · exact Or.inl h1
              · right
                have hexp : ∀ w ∈ nbrsAt s layer c.id, vis'.contains w = true := by
                  intro w hw
                  simp only [nbrsAt, hn', he, Option.getD_some] at hw
                  exact hall w hw
                refine ⟨hc2.ep_vis, hc2.vis_rs, ?_⟩
                intro v hv hvv
                rcases hc2.pending v hv hvv with h1 | h1 | h1
                · exact Or.inl h1
                · cases h1; exact Or.inr (Or.inr hexp)
                · exact Or.inr (Or.inr h1)

/-- **searchLayer, the dichotomy**: the answer has at least `max ef 1` hits, or it contains
    EVERY non-deleted vertex reachable from the start vertex along the layer's edges. -/
theorem searchLayer_full_or_all (res : List (Hit S))
    (h : searchLayer m s q ep ef layer = .ok res) :
    Nat.max ef 1 ≤ res.length ∨
    ∀ v, RL s layer ep v → isDeleted s v = false → v ∈ res.map (·.id) := by
  simp only [searchLayer] at h
  split at h
  · cases h
  · next n hn =>
    split at h
    · cases h
    · next rs hloop =>
      simp only [Except.ok.injEq] at h; subst h
      have hn' := node!_eq hn
      have honly : ∀ v, ((IdMap.empty : IdMap Unit).set ep ()).contains v = true → v = ep := by
        intro v hv
        rcases (contains_set_iff _ ep v).1 hv with h | h
        · exact h.symm
        · simp [IdMap.contains] at h
      have hc : CInv s layer ep none [⟨ep, m.dist q n.vec⟩]
          (if isDeleted s ep then [] else [⟨ep, m.dist q n.vec⟩]) ((IdMap.empty : IdMap Unit).set ep ()) := by
        refine ⟨vis_set_self _ ep, ?_, fun v _ hv => by simp [honly v hv]⟩
        intro v _ hvd hv
        rw [honly v hv] at hvd ⊢
        simp [hvd]
      rcases searchLoop_complete m s q (Nat.max ef 1) layer ep _ _ _ _ rs
        (seed_inv m s q layer ep n hn') (Or.inr hc) hloop with h1 | h1
      · exact Or.inl (by simpa using h1)
      · exact Or.inr (by simpa using h1)

/-- **searchLayer, completeness**: if `ef` is at least the number of NON-deleted vertices
    reachable from the start vertex (`U`: any list that covers them), ALL of them are
    returned: the early exit, the admission test and the eviction never lose one. -/
theorem searchLayer_complete (U : List Id)
    (hU : ∀ v, RL s layer ep v → isDeleted s v = false → v ∈ U) (hlen : U.length ≤ ef)
    (res : List (Hit S)) (h : searchLayer m s q ep ef layer = .ok res) :
    ∀ v, RL s layer ep v → isDeleted s v = false → v ∈ res.map (·.id) := by
  rcases searchLayer_full_or_all m s q ef layer ep res h with hfull | hall
  · obtain ⟨hs1, hs2⟩ := searchLayer_sound m s q ef layer ep res h
    have hsub : (res.map (·.id)).Subperm U :=
      List.subperm_of_subset hs2 (fun v hv => by
        obtain ⟨r, hr, rfl⟩ := List.mem_map.1 hv
        exact hU _ (hs1 r hr).1 (hs1 r hr).2.1)
    have hge : Nat.max ef 1 ≥ ef := Nat.le_max_left _ _
    have hperm := hsub.perm_of_length_le (by simp; omega)
    intro v hv hvd
    exact hperm.mem_iff.2 (hU v hv hvd)
  · exact hall

/-- **searchLayer, non-emptiness**: if some non-deleted vertex is reachable from the start
    vertex along the layer's edges, the answer is not empty — for every `ef`. -/
theorem searchLayer_ne (res : List (Hit S)) (h : searchLayer m s q ep ef layer = .ok res)
    (v : Id) (hv : RL s layer ep v) (hvd : isDeleted s v = false) : res ≠ [] := by
  rcases searchLayer_full_or_all m s q ef layer ep res h with hfull | hall
  · intro hnil
    rw [hnil] at hfull
    have : 1 ≤ Nat.max ef 1 := Nat.le_max_right _ _
    simp only [List.length_nil] at hfull; omega
  · intro hnil
    have := hall v hv hvd
    rw [hnil] at this; cases this

end Loop
end Comet.HNSW
