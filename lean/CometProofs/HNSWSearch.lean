/-
  searchLayer: soundness and completeness invariants (helper lemmas for C12).
-/
import CometProofs.HNSW
namespace Comet.HNSW

variable {V S : Type}

theorem liveSucc_eq (s : State V) : liveSucc s = liveSuccAt s 0 := by
  funext i
  simp only [liveSucc, liveSuccAt, nbrsAt]
  split
  · rfl
  · cases s.nodes.get? i with
    | none => rfl
    | some n =>
      rcases n with ⟨_, _, es⟩
      cases es <;> simp

/-! ### sorted-list heaps -/

theorem insAsc_perm (lt : S → S → Bool) (c : Hit S) : ∀ l, (insAsc lt c l).Perm (c :: l)
  | [] => by simp [insAsc]
  | a :: as => by
    simp only [insAsc]
    split
    · exact List.Perm.refl _
    · exact (List.Perm.cons a (insAsc_perm lt c as)).trans (List.Perm.swap c a as)

theorem insDesc_perm (lt : S → S → Bool) (c : Hit S) : ∀ l, (insDesc lt c l).Perm (c :: l)
  | [] => by simp [insDesc]
  | a :: as => by
    simp only [insDesc]
    split
    · exact List.Perm.refl _
    · exact (List.Perm.cons a (insDesc_perm lt c as)).trans (List.Perm.swap c a as)

theorem insStable_perm (lt : S → S → Bool) (c : Hit S) : ∀ l, (insStable lt c l).Perm (c :: l)
  | [] => by simp [insStable]
  | a :: as => by
    simp only [insStable]
    split
    · exact (List.Perm.cons a (insStable_perm lt c as)).trans (List.Perm.swap c a as)
    · exact List.Perm.refl _

theorem sortAsc_perm (lt : S → S → Bool) : ∀ l : List (Hit S), (sortAsc lt l).Perm l
  | [] => by simp [sortAsc]
  | a :: as => by
    have ih := sortAsc_perm lt as
    simp only [sortAsc, List.foldr_cons] at ih ⊢
    exact (insStable_perm lt a _).trans (List.Perm.cons a ih)

theorem mem_insAsc {lt : S → S → Bool} {c x : Hit S} {l : List (Hit S)} :
    x ∈ insAsc lt c l ↔ x = c ∨ x ∈ l := by
  rw [(insAsc_perm lt c l).mem_iff]; simp

theorem mem_insDesc {lt : S → S → Bool} {c x : Hit S} {l : List (Hit S)} :
    x ∈ insDesc lt c l ↔ x = c ∨ x ∈ l := by
  rw [(insDesc_perm lt c l).mem_iff]; simp

theorem length_insDesc (lt : S → S → Bool) (c : Hit S) (l : List (Hit S)) :
    (insDesc lt c l).length = l.length + 1 := by
  rw [(insDesc_perm lt c l).length_eq]; simp

/-! ### the loop invariants -/

section Loop
variable (m : Metric V S) (s : State V) (q : V) (ef layer : Nat) (ep : Id)

/-- a hit names a resident vertex and carries its distance to the query -/
def Good (h : Hit S) : Prop := ∃ n, s.nodes.get? h.id = some n ∧ h.score = m.dist q n.vec

/-- reachable from `ep` through non-deleted vertices of `layer` -/
abbrev RL (v : Id) : Prop := Reach (liveSuccAt s layer) ep v

/-- soundness invariant of `searchLayer`'s two heaps -/
structure SInv (cs rs : List (Hit S)) (vis : IdMap Unit) : Prop where
  cs_ok : ∀ c ∈ cs, RL s layer ep c.id ∧ isDeleted s c.id = false ∧ vis.contains c.id = true ∧ Good m s q c
  rs_ok : ∀ r ∈ rs, RL s layer ep r.id ∧ isDeleted s r.id = false ∧ vis.contains r.id = true ∧ Good m s q r
  rs_nodup : (rs.map (·.id)).Nodup

theorem vis_mono (vis : IdMap Unit) (i j : Id) (h : vis.contains j = true) :
    (vis.set i ()).contains j = true := by
  simp only [IdMap.contains, IdMap.get?_set] at h ⊢
  split <;> simp_all

theorem vis_set_self (vis : IdMap Unit) (i : Id) : (vis.set i ()).contains i = true := by
  simp [IdMap.contains, IdMap.get?_set]

/-- soundness of the neighbour scan -/
theorem scanNbrs_sound :
    ∀ (nbs : List Id) (cs rs : List (Hit S)) (vis : IdMap Unit) (cs' rs' : List (Hit S)) (vis' : IdMap Unit),
      (∀ nb ∈ nbs, isDeleted s nb = false → RL s layer ep nb) →
      SInv m s q layer ep cs rs vis →
      scanNbrs m s q ef nbs (cs, rs, vis) = .ok (cs', rs', vis') →
      SInv m s q layer ep cs' rs' vis' ∧ (∀ j, vis.contains j = true → vis'.contains j = true) := by
  intro nbs
  induction nbs with
  | nil =>
    intro cs rs vis cs' rs' vis' _ hinv h
    simp only [scanNbrs, Except.ok.injEq, Prod.mk.injEq] at h
    obtain ⟨rfl, rfl, rfl⟩ := h
    exact ⟨hinv, fun _ h => h⟩
  | cons nb rest ih =>
    intro cs rs vis cs' rs' vis' hnb hinv h
    have hrest : ∀ nb ∈ rest, isDeleted s nb = false → RL s layer ep nb :=
      fun x hx => hnb x (List.mem_cons_of_mem _ hx)
    simp only [scanNbrs] at h
    split at h
    · exact ih cs rs vis cs' rs' vis' hrest hinv h
    · next hdel =>
      split at h
      · exact ih cs rs vis cs' rs' vis' hrest hinv h
      · next hvis =>
        have hdel' : isDeleted s nb = false := by simpa using hdel
        have hR : RL s layer ep nb := hnb nb (by simp) hdel'
        -- the three invariants survive marking `nb` visited
        have hinv1 : SInv m s q layer ep cs rs (vis.set nb ()) :=
          ⟨fun c hc => let ⟨a, b, c', d⟩ := hinv.cs_ok c hc; ⟨a, b, vis_mono vis nb _ c', d⟩,
           fun c hc => let ⟨a, b, c', d⟩ := hinv.rs_ok c hc; ⟨a, b, vis_mono vis nb _ c', d⟩,
           hinv.rs_nodup⟩
        split at h
        · cases h
        · next n hn =>
          split at h
          · cases h
          · obtain ⟨hi, hm⟩ := ih cs rs (vis.set nb ()) cs' rs' vis' hrest hinv1 h
            exact ⟨hi, fun j hj => hm j (vis_mono vis nb j hj)⟩
          · -- admitted
            have hn' : s.nodes.get? nb = some n := by
              simp only [node!] at hn
              split at hn
              · next n' hn' => cases hn; exact hn'
              · cases hn
            have hgood : Good m s q (⟨nb, m.dist q n.vec⟩ : Hit S) := ⟨n, hn', rfl⟩
            have hnotin : nb ∉ rs.map (·.id) := by
              intro hmem
              obtain ⟨r, hr, hrid⟩ := List.mem_map.1 hmem
              have := (hinv.rs_ok r hr).2.2.1
              rw [hrid] at this
              exact hvis (by simpa using this)
            have hnew : RL s layer ep nb ∧ isDeleted s nb = false ∧
                (vis.set nb ()).contains nb = true ∧ Good m s q (⟨nb, m.dist q n.vec⟩ : Hit S) :=
              ⟨hR, hdel', vis_set_self vis nb, hgood⟩
            have hrs2 : SInv m s q layer ep (insAsc m.sc.lt ⟨nb, m.dist q n.vec⟩ cs)
                (insDesc m.sc.lt ⟨nb, m.dist q n.vec⟩ rs) (vis.set nb ()) := by
              refine ⟨?_, ?_, ?_⟩
              · intro c hc
                rcases mem_insAsc.1 hc with rfl | hc
                · exact hnew
                · exact hinv1.cs_ok c hc
              · intro c hc
                rcases mem_insDesc.1 hc with rfl | hc
                · exact hnew
                · exact hinv1.rs_ok c hc
              · have := ((insDesc_perm m.sc.lt ⟨nb, m.dist q n.vec⟩ rs).map (·.id))
                rw [this.nodup_iff]
                simp only [List.map_cons, List.nodup_cons]
                exact ⟨hnotin, hinv.rs_nodup⟩
            have hrs3 : SInv m s q layer ep (insAsc m.sc.lt ⟨nb, m.dist q n.vec⟩ cs)
                (if (insDesc m.sc.lt ⟨nb, m.dist q n.vec⟩ rs).length > ef
                  then (insDesc m.sc.lt ⟨nb, m.dist q n.vec⟩ rs).tail
                  else insDesc m.sc.lt ⟨nb, m.dist q n.vec⟩ rs) (vis.set nb ()) := by
              split
              · refine ⟨hrs2.cs_ok, fun r hr => hrs2.rs_ok r (List.mem_of_mem_tail hr), ?_⟩
                exact hrs2.rs_nodup.sublist ((List.tail_sublist _).map _)
              · exact hrs2
            obtain ⟨hi, hm⟩ := ih _ _ (vis.set nb ()) cs' rs' vis' hrest hrs3 h
            exact ⟨hi, fun j hj => hm j (vis_mono vis nb j hj)⟩

theorem node!_eq {s : State V} {i : Id} {n : Node V} (h : node! s i = .ok n) :
    s.nodes.get? i = some n := by
  simp only [node!] at h
  split at h
  · next n' hn' => cases h; exact hn'
  · cases h

/-- the neighbours that the scan of a popped, live, reachable vertex sees are reachable -/
theorem nbrs_reach {c : Id} {n : Node V} {nbs : List Id}
    (hc : RL s layer ep c) (hdel : isDeleted s c = false)
    (hn : s.nodes.get? c = some n) (he : n.edges[layer]? = some nbs) :
    ∀ nb ∈ nbs, isDeleted s nb = false → RL s layer ep nb := by
  intro nb hnb hd
  refine Reach.step hc ?_
  simp only [liveSuccAt, hdel, nbrsAt, hn, he, Option.getD_some]
  simp only [Bool.false_eq_true, if_false, List.mem_filter]
  exact ⟨hnb, by simp [hd]⟩

/-- soundness of the main loop -/
theorem searchLoop_sound :
    ∀ (fuel : Nat) (cs rs : List (Hit S)) (vis : IdMap Unit) (res : List (Hit S)),
      SInv m s q layer ep cs rs vis →
      searchLoop m s q ef layer fuel cs rs vis = .ok res →
      (∀ r ∈ res, RL s layer ep r.id ∧ isDeleted s r.id = false ∧ Good m s q r) ∧
      (res.map (·.id)).Nodup := by
  intro fuel
  induction fuel with
  | zero =>
    intro cs rs vis res hinv h
    cases cs with
    | nil =>
      simp only [searchLoop, Except.ok.injEq] at h; subst h
      exact ⟨fun r hr => let ⟨a, b, _, d⟩ := hinv.rs_ok r hr; ⟨a, b, d⟩, hinv.rs_nodup⟩
    | cons c cs => simp [searchLoop] at h
  | succ fuel ih =>
    intro cs rs vis res hinv h
    cases cs with
    | nil =>
      simp only [searchLoop, Except.ok.injEq] at h; subst h
      exact ⟨fun r hr => let ⟨a, b, _, d⟩ := hinv.rs_ok r hr; ⟨a, b, d⟩, hinv.rs_nodup⟩
    | cons c cs =>
      simp only [searchLoop] at h
      have hinv' : SInv m s q layer ep cs rs vis :=
        ⟨fun x hx => hinv.cs_ok x (List.mem_cons_of_mem _ hx), hinv.rs_ok, hinv.rs_nodup⟩
      obtain ⟨hcR, hcdel, _, _⟩ := hinv.cs_ok c (by simp)
      split at h
      · cases h
      · simp only [Except.ok.injEq] at h; subst h
        exact ⟨fun r hr => let ⟨a, b, _, d⟩ := hinv.rs_ok r hr; ⟨a, b, d⟩, hinv.rs_nodup⟩
      · split at h
        · cases h
        · next n hn =>
          split at h
          · exact ih cs rs vis res hinv' h
          · next nbs he =>
            split at h
            · cases h
            · next cs' rs' vis' hscan =>
              have := scanNbrs_sound m s q ef layer ep nbs cs rs vis cs' rs' vis'
                (nbrs_reach s layer ep hcR hcdel (node!_eq hn) he) hinv' hscan
              exact ih cs' rs' vis' res this.1 h

/-- **searchLayer, soundness**: every returned hit is a resident, non-deleted vertex that
    is reachable from the given entry point through non-deleted vertices of that layer,
    carries its distance to the query, and no vertex is returned twice. -/
theorem searchLayer_sound (res : List (Hit S))
    (h : searchLayer m s q ep ef layer = .ok res) :
    (∀ r ∈ res, RL s layer ep r.id ∧ isDeleted s r.id = false ∧ Good m s q r) ∧
    (res.map (·.id)).Nodup := by
  simp only [searchLayer] at h
  split at h
  · simp only [Except.ok.injEq] at h; subst h; simp
  · next hdel =>
    split at h
    · cases h
    · next n hn =>
      split at h
      · cases h
      · next rs hloop =>
        simp only [Except.ok.injEq] at h; subst h
        have hdel' : isDeleted s ep = false := by simpa using hdel
        have hseed : RL s layer ep ep ∧ isDeleted s ep = false ∧
            ((IdMap.empty : IdMap Unit).set ep ()).contains ep = true ∧
            Good m s q (⟨ep, m.dist q n.vec⟩ : Hit S) :=
          ⟨Reach.refl, hdel', vis_set_self _ ep, n, node!_eq hn, rfl⟩
        have hinv : SInv m s q layer ep [⟨ep, m.dist q n.vec⟩] [⟨ep, m.dist q n.vec⟩]
            ((IdMap.empty : IdMap Unit).set ep ()) :=
          ⟨by intro c hc; rcases List.mem_singleton.1 hc with rfl; exact hseed,
           by intro c hc; rcases List.mem_singleton.1 hc with rfl; exact hseed,
           by simp⟩
        obtain ⟨h1, h2⟩ := searchLoop_sound m s q ef layer ep _ _ _ _ rs hinv hloop
        refine ⟨fun r hr => h1 r (List.mem_reverse.1 hr), ?_⟩
        rw [List.map_reverse]
        exact (List.reverse_perm _).nodup_iff.2 h2

/-! ### completeness: with `ef ≥` the number of reachable live vertices nothing is
    rejected, nothing is evicted and the early exit is harmless -/

/-- completeness invariant; `exc` is the vertex being expanded right now -/
structure CInv (exc : Option Id) (cs rs : List (Hit S)) (vis : IdMap Unit) : Prop where
  ep_vis : vis.contains ep = true
  vis_rs : ∀ v, RL s layer ep v → vis.contains v = true → v ∈ rs.map (·.id)
  pending : ∀ v, RL s layer ep v → vis.contains v = true →
    v ∈ cs.map (·.id) ∨ some v = exc ∨ ∀ w ∈ liveSuccAt s layer v, vis.contains w = true

theorem contains_set_iff (vis : IdMap Unit) (i j : Id) :
    (vis.set i ()).contains j = true ↔ i = j ∨ vis.contains j = true := by
  simp only [IdMap.contains, IdMap.get?_set]
  split <;> simp_all

variable (U : List Id)

/-- the result heap never holds more than the cover -/
theorem rs_length_le (hU : ∀ v, RL s layer ep v → v ∈ U) {cs rs : List (Hit S)} {vis : IdMap Unit}
    (hinv : SInv m s q layer ep cs rs vis) : rs.length ≤ U.length := by
  have : (rs.map (·.id)).Subperm U :=
    List.subperm_of_subset hinv.rs_nodup (fun v hv => by
      obtain ⟨r, hr, rfl⟩ := List.mem_map.1 hv
      exact hU _ (hinv.rs_ok r hr).1)
  simpa using this.length_le

theorem scanNbrs_complete (hU : ∀ v, RL s layer ep v → v ∈ U) (hlen : U.length ≤ ef) (c : Id) :
    ∀ (nbs : List Id) (cs rs : List (Hit S)) (vis : IdMap Unit) (cs' rs' : List (Hit S)) (vis' : IdMap Unit),
      (∀ nb ∈ nbs, isDeleted s nb = false → RL s layer ep nb) →
      SInv m s q layer ep cs rs vis → CInv s layer ep (some c) cs rs vis →
      scanNbrs m s q ef nbs (cs, rs, vis) = .ok (cs', rs', vis') →
      CInv s layer ep (some c) cs' rs' vis' ∧
      (∀ w ∈ nbs, isDeleted s w = false → vis'.contains w = true) := by
  intro nbs
  induction nbs with
  | nil =>
    intro cs rs vis cs' rs' vis' _ _ hc h
    simp only [scanNbrs, Except.ok.injEq, Prod.mk.injEq] at h
    obtain ⟨rfl, rfl, rfl⟩ := h
    exact ⟨hc, by simp⟩
  | cons nb rest ih =>
    intro cs rs vis cs' rs' vis' hnb hinv hc h
    have hrest : ∀ nb ∈ rest, isDeleted s nb = false → RL s layer ep nb :=
      fun x hx => hnb x (List.mem_cons_of_mem _ hx)
    have hmono := fun cs rs vis (hi : SInv m s q layer ep cs rs vis) (hh : scanNbrs m s q ef rest (cs, rs, vis) = .ok (cs', rs', vis')) =>
      (scanNbrs_sound m s q ef layer ep rest cs rs vis cs' rs' vis' hrest hi hh).2
    simp only [scanNbrs] at h
    split at h
    · next hdel =>
      obtain ⟨h1, h2⟩ := ih cs rs vis cs' rs' vis' hrest hinv hc h
      refine ⟨h1, ?_⟩
      intro w hw hwd
      rcases List.mem_cons.1 hw with rfl | hw
      · rw [hdel] at hwd; cases hwd
      · exact h2 w hw hwd
    · next hdel =>
      split at h
      · next hvis =>
        obtain ⟨h1, h2⟩ := ih cs rs vis cs' rs' vis' hrest hinv hc h
        refine ⟨h1, ?_⟩
        intro w hw hwd
        rcases List.mem_cons.1 hw with rfl | hw
        · exact hmono cs rs vis hinv h _ hvis
        · exact h2 w hw hwd
      · next hvis =>
        have hdel' : isDeleted s nb = false := by simpa using hdel
        have hR : RL s layer ep nb := hnb nb (by simp) hdel'
        have hinv1 : SInv m s q layer ep cs rs (vis.set nb ()) :=
          ⟨fun c hc => let ⟨a, b, c', d⟩ := hinv.cs_ok c hc; ⟨a, b, vis_mono vis nb _ c', d⟩,
           fun c hc => let ⟨a, b, c', d⟩ := hinv.rs_ok c hc; ⟨a, b, vis_mono vis nb _ c', d⟩,
           hinv.rs_nodup⟩
        split at h
        · cases h
        · next n hn =>
          have hn' := node!_eq hn
          have hnotin : nb ∉ rs.map (·.id) := by
            intro hmem
            obtain ⟨r, hr, hrid⟩ := List.mem_map.1 hmem
            have := (hinv.rs_ok r hr).2.2.1
            rw [hrid] at this
            exact hvis (by simpa using this)
          -- the new vertex fits: |rs| + 1 ≤ |U| ≤ ef
          have hfit : rs.length + 1 ≤ U.length := by
            have : (nb :: rs.map (·.id)).Subperm U :=
              List.subperm_of_subset (List.nodup_cons.2 ⟨hnotin, hinv.rs_nodup⟩) (fun v hv => by
                rcases List.mem_cons.1 hv with rfl | hv
                · exact hU _ hR
                · obtain ⟨r, hr, rfl⟩ := List.mem_map.1 hv
                  exact hU _ (hinv.rs_ok r hr).1)
            simpa using this.length_le
          have hadm : admits m.sc.lt ef rs (m.dist q n.vec) = .ok true := by
            have : rs.length < ef := by omega
            simp [admits, this]
          simp only [hadm] at h
          have hnoevict : ¬ (insDesc m.sc.lt ⟨nb, m.dist q n.vec⟩ rs).length > ef := by
            rw [length_insDesc]; omega
          simp only [hnoevict, if_false] at h
          have hgood : Good m s q (⟨nb, m.dist q n.vec⟩ : Hit S) := ⟨n, hn', rfl⟩
          have hnew : RL s layer ep nb ∧ isDeleted s nb = false ∧
              (vis.set nb ()).contains nb = true ∧ Good m s q (⟨nb, m.dist q n.vec⟩ : Hit S) :=
            ⟨hR, hdel', vis_set_self vis nb, hgood⟩
          have hinv2 : SInv m s q layer ep (insAsc m.sc.lt ⟨nb, m.dist q n.vec⟩ cs)
              (insDesc m.sc.lt ⟨nb, m.dist q n.vec⟩ rs) (vis.set nb ()) := by
            refine ⟨?_, ?_, ?_⟩
            · intro c hc
              rcases mem_insAsc.1 hc with rfl | hc
              · exact hnew
              · exact hinv1.cs_ok c hc
            · intro c hc
              rcases mem_insDesc.1 hc with rfl | hc
              · exact hnew
              · exact hinv1.rs_ok c hc
            · have := ((insDesc_perm m.sc.lt ⟨nb, m.dist q n.vec⟩ rs).map (·.id))
              rw [this.nodup_iff]
              simp only [List.map_cons, List.nodup_cons]
              exact ⟨hnotin, hinv.rs_nodup⟩
          have hc2 : CInv s layer ep (some c) (insAsc m.sc.lt ⟨nb, m.dist q n.vec⟩ cs)
              (insDesc m.sc.lt ⟨nb, m.dist q n.vec⟩ rs) (vis.set nb ()) := by
            refine ⟨vis_mono vis nb ep hc.ep_vis, ?_, ?_⟩
            · intro v hv hvv
              rw [((insDesc_perm m.sc.lt ⟨nb, m.dist q n.vec⟩ rs).map (·.id)).mem_iff]
              rcases (contains_set_iff vis nb v).1 hvv with rfl | hvv
              · simp
              · exact List.mem_cons_of_mem _ (hc.vis_rs v hv hvv)
            · intro v hv hvv
              rcases (contains_set_iff vis nb v).1 hvv with rfl | hvv
              · left
                rw [((insAsc_perm m.sc.lt ⟨nb, m.dist q n.vec⟩ cs).map (·.id)).mem_iff]
                simp
              · rcases hc.pending v hv hvv with h1 | h1 | h1
                · left
                  rw [((insAsc_perm m.sc.lt ⟨nb, m.dist q n.vec⟩ cs).map (·.id)).mem_iff]
                  exact List.mem_cons_of_mem _ h1
                · exact Or.inr (Or.inl h1)
                · exact Or.inr (Or.inr fun w hw => vis_mono vis nb w (h1 w hw))
          obtain ⟨h1, h2⟩ := ih _ _ (vis.set nb ()) cs' rs' vis' hrest hinv2 hc2 h
          refine ⟨h1, ?_⟩
          intro w hw hwd
          rcases List.mem_cons.1 hw with rfl | hw
          · exact hmono _ _ _ hinv2 h _ (vis_set_self vis _)
          · exact h2 w hw hwd

/-- when the loop ends every reachable live vertex is in the result heap -/
theorem searchLoop_complete (hU : ∀ v, RL s layer ep v → v ∈ U) (hlen : U.length ≤ ef) :
    ∀ (fuel : Nat) (cs rs : List (Hit S)) (vis : IdMap Unit) (res : List (Hit S)),
      SInv m s q layer ep cs rs vis → CInv s layer ep none cs rs vis →
      searchLoop m s q ef layer fuel cs rs vis = .ok res →
      ∀ v, RL s layer ep v → v ∈ res.map (·.id) := by
  -- exit through the empty candidate heap
  have hdone : ∀ (rs : List (Hit S)) (vis : IdMap Unit),
      CInv s layer ep none [] rs vis → ∀ v, RL s layer ep v → v ∈ rs.map (·.id) := by
    intro rs vis hc v hv
    have hall : ∀ v, RL s layer ep v → vis.contains v = true := by
      intro v hv
      induction hv with
      | refl => exact hc.ep_vis
      | step hu hw ih =>
        rcases hc.pending _ hu ih with h | h | h
        · simp at h
        · cases h
        · exact h _ hw
    exact hc.vis_rs v hv (hall v hv)
  -- exit through the early-termination test: the heap is already full, hence complete
  have hfull : ∀ (cs rs : List (Hit S)) (vis : IdMap Unit), SInv m s q layer ep cs rs vis →
      rs.length ≥ ef → ∀ v, RL s layer ep v → v ∈ rs.map (·.id) := by
    intro cs rs vis hinv hge v hv
    have hsub : (rs.map (·.id)).Subperm U :=
      List.subperm_of_subset hinv.rs_nodup (fun v hv => by
        obtain ⟨r, hr, rfl⟩ := List.mem_map.1 hv
        exact hU _ (hinv.rs_ok r hr).1)
    have hperm := hsub.perm_of_length_le (by simp; omega)
    exact hperm.mem_iff.2 (hU v hv)
  intro fuel
  induction fuel with
  | zero =>
    intro cs rs vis res hinv hc h
    cases cs with
    | nil =>
      simp only [searchLoop, Except.ok.injEq] at h; subst h
      exact hdone _ vis hc
    | cons c cs => simp [searchLoop] at h
  | succ fuel ih =>
    intro cs rs vis res hinv hc h
    cases cs with
    | nil =>
      simp only [searchLoop, Except.ok.injEq] at h; subst h
      exact hdone _ vis hc
    | cons c cs =>
      simp only [searchLoop] at h
      have hinv' : SInv m s q layer ep cs rs vis :=
        ⟨fun x hx => hinv.cs_ok x (List.mem_cons_of_mem _ hx), hinv.rs_ok, hinv.rs_nodup⟩
      obtain ⟨hcR, hcdel, hcvis, _⟩ := hinv.cs_ok c (by simp)
      split at h
      · cases h
      · next hstop =>
        simp only [Except.ok.injEq] at h; subst h
        have hge : rs.length ≥ ef := by
          simp only [stops] at hstop
          split at hstop
          · assumption
          · cases hstop
        exact hfull _ _ vis hinv hge
      · split at h
        · cases h
        · next n hn =>
          have hn' := node!_eq hn
          split at h
          · next he =>
            -- no such layer: nothing to expand
            have hexp : ∀ w ∈ liveSuccAt s layer c.id, vis.contains w = true := by
              simp [liveSuccAt, nbrsAt, hn', he]
            refine ih cs rs vis res hinv' ⟨hc.ep_vis, hc.vis_rs, ?_⟩ h
            intro v hv hvv
            rcases hc.pending v hv hvv with h1 | h1 | h1
            · rcases List.mem_cons.1 h1 with rfl | h1
              · exact Or.inr (Or.inr hexp)
              · exact Or.inl h1
            · cases h1
            · exact Or.inr (Or.inr h1)
          · next nbs he =>
            split at h
            · cases h
            · next cs' rs' vis' hscan =>
              have hreach := nbrs_reach s layer ep hcR hcdel hn' he
              have hc1 : CInv s layer ep (some c.id) cs rs vis := by
                refine ⟨hc.ep_vis, hc.vis_rs, ?_⟩
                intro v hv hvv
                rcases hc.pending v hv hvv with h1 | h1 | h1
                · rcases List.mem_cons.1 h1 with rfl | h1
                  · exact Or.inr (Or.inl rfl)
                  · exact Or.inl h1
                · cases h1
                · exact Or.inr (Or.inr h1)
              have hs := scanNbrs_sound m s q ef layer ep nbs cs rs vis cs' rs' vis' hreach hinv' hscan
              obtain ⟨hc2, hall⟩ := scanNbrs_complete m s q ef layer ep U hU hlen c.id nbs cs rs vis cs' rs' vis'
                hreach hinv' hc1 hscan
              have hexp : ∀ w ∈ liveSuccAt s layer c.id, vis'.contains w = true := by
                intro w hw
                simp only [liveSuccAt, hcdel, nbrsAt, hn', he, Option.getD_some] at hw
                simp only [Bool.false_eq_true, if_false, List.mem_filter] at hw
                exact hall w hw.1 (by simpa using hw.2)
              refine ih cs' rs' vis' res hs.1 ⟨hc2.ep_vis, hc2.vis_rs, ?_⟩ h
              intro v hv hvv
              rcases hc2.pending v hv hvv with h1 | h1 | h1
              · exact Or.inl h1
              · cases h1; exact Or.inr (Or.inr hexp)
              · exact Or.inr (Or.inr h1)

/-- **searchLayer, completeness**: if the candidate list size `ef` is at least the number
    of vertices reachable from a non-deleted entry point through non-deleted vertices of
    the layer (`U` is any list covering them), ALL of them are returned: the early exit,
    the admission test and the eviction never lose one. -/
theorem searchLayer_complete (hU : ∀ v, RL s layer ep v → v ∈ U) (hlen : U.length ≤ ef)
    (hep : isDeleted s ep = false) (res : List (Hit S))
    (h : searchLayer m s q ep ef layer = .ok res) :
    ∀ v, RL s layer ep v → v ∈ res.map (·.id) := by
  simp only [searchLayer, hep] at h
  simp only [Bool.false_eq_true, if_false] at h
  split at h
  · cases h
  · next n hn =>
    split at h
    · cases h
    · next rs hloop =>
      simp only [Except.ok.injEq] at h; subst h
      have hseed : RL s layer ep ep ∧ isDeleted s ep = false ∧
          ((IdMap.empty : IdMap Unit).set ep ()).contains ep = true ∧
          Good m s q (⟨ep, m.dist q n.vec⟩ : Hit S) :=
        ⟨Reach.refl, hep, vis_set_self _ ep, n, node!_eq hn, rfl⟩
      have hinv : SInv m s q layer ep [⟨ep, m.dist q n.vec⟩] [⟨ep, m.dist q n.vec⟩]
          ((IdMap.empty : IdMap Unit).set ep ()) :=
        ⟨by intro c hc; rcases List.mem_singleton.1 hc with rfl; exact hseed,
         by intro c hc; rcases List.mem_singleton.1 hc with rfl; exact hseed,
         by simp⟩
      have honly : ∀ v, ((IdMap.empty : IdMap Unit).set ep ()).contains v = true → v = ep := by
        intro v hv
        rcases (contains_set_iff _ ep v).1 hv with h | h
        · exact h.symm
        · simp [IdMap.contains] at h
      have hc : CInv s layer ep none [⟨ep, m.dist q n.vec⟩] [⟨ep, m.dist q n.vec⟩]
          ((IdMap.empty : IdMap Unit).set ep ()) :=
        ⟨vis_set_self _ ep, fun v _ hv => by simp [honly v hv], fun v _ hv => by simp [honly v hv]⟩
      intro v hv
      have := searchLoop_complete m s q ef layer ep U hU hlen _ _ _ _ rs hinv hc hloop v hv
      simpa using this

end Loop
end Comet.HNSW
