/-
  Helper lemmas for C19 (fusion.go, storage_merge.go): association lists as Go maps,
  the generic "range over a map and assign" fold, the exchange sort of
  `scoreMapToRanks`.
-/
import Comet.Fusion
import Comet.Merge
import CometProofs.Agg
namespace Comet

variable {α β S : Type}

/-! ### association lists -/

theorem lookup_aset (k k' : Id) (v : α) :
    ∀ (m : List (Id × α)), (aset k' v m).lookup k = if k = k' then some v else m.lookup k
  | [] => by
    by_cases h : k = k'
    · simp [aset, h]
    · have : (k == k') = false := by simpa using h
      simp [aset, List.lookup, h, this]
  | (a, b) :: t => by
    simp only [aset]
    by_cases h1 : a = k'
    · subst h1
      by_cases h : k = a
      · subst h; simp
      · have : (k == a) = false := by simpa using h
        simp [List.lookup, h, this]
    · have hb : (a == k') = false := by simpa using h1
      simp only [hb, Bool.false_eq_true, if_false, List.lookup]
      by_cases h : k = a
      · subst h
        have : ¬ k = k' := h1
        simp [this]
      · have : (k == a) = false := by simpa using h
        simp only [this]
        exact lookup_aset k k' v t

theorem keys_aset (k : Id) (v : α) :
    ∀ (m : List (Id × α)), (aset k v m).map (·.1) =
      if k ∈ m.map (·.1) then m.map (·.1) else m.map (·.1) ++ [k]
  | [] => by simp [aset]
  | (a, b) :: t => by
    simp only [aset]
    by_cases h1 : a = k
    · subst h1; simp
    · have hb : (a == k) = false := by simpa using h1
      have hne : ¬ k = a := fun e => h1 e.symm
      simp only [hb, Bool.false_eq_true, if_false, List.map_cons, keys_aset k v t, List.mem_cons,
        hne, false_or]
      split <;> simp

theorem nodupKeys_aset (k : Id) (v : α) (m : List (Id × α)) (h : NodupKeys m) :
    NodupKeys (aset k v m) := by
  unfold NodupKeys at *
  rw [keys_aset]
  split
  · exact h
  · next hk =>
    rw [List.nodup_append]
    refine ⟨h, by simp, ?_⟩
    intro a ha b hb
    simp only [List.mem_singleton] at hb
    subst hb
    exact fun e => hk (e ▸ ha)

theorem lookup_eq_none_of_not_mem (k : Id) :
    ∀ (m : List (Id × α)), k ∉ m.map (·.1) → m.lookup k = none
  | [], _ => rfl
  | (a, b) :: t, h => by
    simp only [List.map_cons, List.mem_cons, not_or] at h
    have : (k == a) = false := by simpa using h.1
    simp only [List.lookup, this]
    exact lookup_eq_none_of_not_mem k t h.2

theorem lookup_isSome_iff (k : Id) :
    ∀ (m : List (Id × α)), (m.lookup k).isSome ↔ k ∈ m.map (·.1)
  | [] => by simp [List.lookup]
  | (a, b) :: t => by
    by_cases h : k = a
    · subst h; simp [List.lookup]
    · have : (k == a) = false := by simpa using h
      simp only [List.lookup, this, List.map_cons, List.mem_cons, h, false_or]
      exact lookup_isSome_iff k t

theorem lookup_eq_some_iff (k : Id) (v : α) :
    ∀ (m : List (Id × α)), NodupKeys m → (m.lookup k = some v ↔ (k, v) ∈ m)
  | [], _ => by simp [List.lookup]
  | (a, b) :: t, h => by
    have hn : a ∉ t.map (·.1) ∧ NodupKeys t := by
      simpa [NodupKeys, List.nodup_cons] using h
    by_cases hk : k = a
    · subst hk
      simp only [List.lookup, beq_self_eq_true, Option.some.injEq, List.mem_cons, Prod.mk.injEq,
        true_and]
      constructor
      · intro e; exact Or.inl e.symm
      · rintro (e | e)
        · exact e.symm
        · exact absurd (List.mem_map.2 ⟨(k, v), e, rfl⟩) hn.1
    · have : (k == a) = false := by simpa using hk
      simp only [List.lookup, this, List.mem_cons, Prod.mk.injEq, hk, false_and, false_or]
      exact lookup_eq_some_iff k v t hn.2

/-- a map's contents do not depend on the iteration order -/
theorem lookup_perm {m m' : List (Id × α)} (hn : NodupKeys m) (hp : m.Perm m') (k : Id) :
    m.lookup k = m'.lookup k := by
  have hn' : NodupKeys m' := by
    unfold NodupKeys at *
    exact ((hp.map (fun p : Id × α => p.1)).nodup_iff).1 hn
  apply Option.ext
  intro v
  rw [lookup_eq_some_iff k v m hn, lookup_eq_some_iff k v m' hn']
  exact hp.mem_iff

/-! ### `for k, x := range l { c[k] = … }` -/

/-- If one loop iteration changes only the entry of the visited key (to `upd …`),
    then after ranging over a map `l` (any order) the entry of `k` is `upd` of the old
    entry when `k` is in `l`, and untouched otherwise. -/
theorem lookup_foldl_range (step : List (Id × α) → (Id × β) → List (Id × α))
    (upd : (Id × β) → Option α → Option α)
    (hstep : ∀ c p k, (step c p).lookup k = if k = p.1 then upd p (c.lookup p.1) else c.lookup k) :
    ∀ (l : List (Id × β)) (c : List (Id × α)), NodupKeys l → ∀ k,
      (l.foldl step c).lookup k =
        match l.lookup k with
        | some b => upd (k, b) (c.lookup k)
        | none => c.lookup k
  | [], c, _, k => by simp [List.lookup]
  | (a, b) :: l, c, hn, k => by
    have hn' : a ∉ l.map (·.1) ∧ NodupKeys l := by
      simpa [NodupKeys, List.nodup_cons] using hn
    simp only [List.foldl_cons]
    rw [lookup_foldl_range step upd hstep l (step c (a, b)) hn'.2 k]
    by_cases hk : k = a
    · subst hk
      rw [lookup_eq_none_of_not_mem k l hn'.1]
      simp [List.lookup, hstep]
    · have hb : (k == a) = false := by simpa using hk
      simp only [List.lookup, hb, hstep, hk, if_false]

theorem nodupKeys_foldl (step : List (Id × α) → β → List (Id × α))
    (hstep : ∀ c p, NodupKeys c → NodupKeys (step c p)) :
    ∀ (l : List β) (c : List (Id × α)), NodupKeys c → NodupKeys (l.foldl step c)
  | [], _, h => h
  | p :: l, c, h => nodupKeys_foldl step hstep l (step c p) (hstep c p h)

theorem nodupKeys_nil : NodupKeys ([] : List (Id × α)) := by simp [NodupKeys]

/-! ### exchange sort -/

theorem exPass_perm (swap : α → α → Bool) :
    ∀ (l : List α) (cur : α), ((exPass swap cur l).1 :: (exPass swap cur l).2).Perm (cur :: l)
  | [], cur => by simp [exPass]
  | y :: ys, cur => by
    simp only [exPass]
    split
    · have ih := exPass_perm swap ys y
      exact (List.Perm.swap _ _ _).trans (ih.cons cur)
    · have ih := exPass_perm swap ys cur
      exact ((List.Perm.swap _ _ _).trans (ih.cons y)).trans (List.Perm.swap _ _ _)

theorem exPass_length (swap : α → α → Bool) (l : List α) (cur : α) :
    (exPass swap cur l).2.length = l.length := by
  have := (exPass_perm swap l cur).length_eq
  simpa using this

theorem exSortAux_perm (swap : α → α → Bool) :
    ∀ (f : Nat) (l : List α), (exSortAux swap f l).Perm l
  | 0, l => by simp [exSortAux]
  | _ + 1, [] => by simp [exSortAux]
  | f + 1, x :: xs => by
    simp only [exSortAux]
    exact ((exSortAux_perm swap f _).cons _).trans (exPass_perm swap xs x)

theorem exSort_perm (swap : α → α → Bool) (l : List α) : (exSort swap l).Perm l :=
  exSortAux_perm swap _ l

/-- after one pass the element left at position `i` may precede everything after it -/
theorem exPass_min (swap : α → α → Bool)
    (total : ∀ a b, swap a b = false ∨ swap b a = false)
    (trans : ∀ a b c, swap a b = false → swap b c = false → swap a c = false) :
    ∀ (l : List α) (cur : α),
      swap (exPass swap cur l).1 cur = false ∧ ∀ z ∈ (exPass swap cur l).2, swap (exPass swap cur l).1 z = false
  | [], cur => by
    simp only [exPass, List.not_mem_nil, false_implies, implies_true, and_true]
    rcases total cur cur with h | h <;> exact h
  | y :: ys, cur => by
    simp only [exPass]
    split
    · next hs =>
      obtain ⟨h1, h2⟩ := exPass_min swap total trans ys y
      have hyc : swap y cur = false := by
        rcases total cur y with h | h
        · rw [hs] at h; cases h
        · exact h
      have hc := trans _ _ _ h1 hyc
      refine ⟨hc, ?_⟩
      intro z hz
      simp only [List.mem_cons] at hz
      rcases hz with rfl | hz
      · exact hc
      · exact h2 z hz
    · next hs =>
      have hs' : swap cur y = false := by simpa using hs
      obtain ⟨h1, h2⟩ := exPass_min swap total trans ys cur
      refine ⟨h1, ?_⟩
      intro z hz
      simp only [List.mem_cons] at hz
      rcases hz with rfl | hz
      · exact trans _ _ _ h1 hs'
      · exact h2 z hz

theorem exSortAux_sorted (swap : α → α → Bool)
    (total : ∀ a b, swap a b = false ∨ swap b a = false)
    (trans : ∀ a b c, swap a b = false → swap b c = false → swap a c = false) :
    ∀ (f : Nat) (l : List α), l.length ≤ f →
      (exSortAux swap f l).Pairwise fun a b => swap a b = false
  | 0, l, h => by
    have : l = [] := List.eq_nil_of_length_eq_zero (by omega)
    subst this; simp [exSortAux]
  | _ + 1, [], _ => by simp [exSortAux]
  | f + 1, x :: xs, h => by
    simp only [exSortAux, List.pairwise_cons]
    refine ⟨?_, exSortAux_sorted swap total trans f _ (by rw [exPass_length]; simpa using h)⟩
    intro z hz
    have hz' : z ∈ (exPass swap x xs).2 := (exSortAux_perm swap f _).subset hz
    exact (exPass_min swap total trans xs x).2 z hz'

theorem exSort_sorted (swap : α → α → Bool)
    (total : ∀ a b, swap a b = false ∨ swap b a = false)
    (trans : ∀ a b c, swap a b = false → swap b c = false → swap a c = false) (l : List α) :
    (exSort swap l).Pairwise fun a b => swap a b = false :=
  exSortAux_sorted swap total trans _ l (Nat.le_refl _)

/-! ### ranks -/

theorem lookup_rankPairs_aux (k : Id) :
    ∀ (σ : List (Id × S)) (n : Nat),
      ((σ.zipIdx n).map fun p => (p.1.1, p.2)).lookup k = (rankIn k σ).map (· + n)
  | [], n => by simp [rankIn]
  | (a, s) :: σ, n => by
    simp only [List.zipIdx_cons, List.map_cons, rankIn]
    by_cases h : k = a
    · subst h; simp [List.lookup]
    · have h1 : (k == a) = false := by simpa using h
      have h2 : (a == k) = false := by simpa using fun e : a = k => h e.symm
      simp only [List.lookup, h1, h2, Bool.false_eq_true, if_false]
      rw [lookup_rankPairs_aux k σ (n + 1)]
      cases rankIn k σ with
      | none => rfl
      | some r => simp; omega

theorem lookup_rankPairs (k : Id) (σ : List (Id × S)) :
    (rankPairs σ).lookup k = rankIn k σ := by
  have := lookup_rankPairs_aux k σ 0
  simp only [Nat.add_zero] at this
  unfold rankPairs
  rw [this]
  cases rankIn k σ <;> simp

theorem keys_rankPairs_aux :
    ∀ (σ : List (Id × S)) (n : Nat),
      ((σ.zipIdx n).map fun p => (p.1.1, p.2)).map (·.1) = σ.map (·.1)
  | [], _ => rfl
  | _ :: σ, n => by simp [List.zipIdx_cons, keys_rankPairs_aux σ (n + 1)]

theorem keys_rankPairs (σ : List (Id × S)) : (rankPairs σ).map (·.1) = σ.map (·.1) :=
  keys_rankPairs_aux σ 0

/-- `<` is a strict weak order (floats without NaN; any linear order) -/
structure DOps.StrictWeak (o : DOps S) : Prop where
  asymm : ∀ a b, o.lt a b = true → o.lt b a = false
  negTrans : ∀ a b c, o.lt b a = false → o.lt c b = false → o.lt c a = false

/-- the accumulation part of RRF, for rank maps iterated in any order -/
theorem rrfFrom_lookup (o : DOps S) (K : S) (rv rt : List (Id × Nat))
    (hv : NodupKeys rv) (ht : NodupKeys rt) (id : Id) :
    (rrfFrom o K rv rt).lookup id =
      match rv.lookup id, rt.lookup id with
      | some a, some b => some (o.add (rrfTerm o K a) (rrfTerm o K b))
      | some a, none => some (rrfTerm o K a)
      | none, some b => some (rrfTerm o K b)
      | none, none => none := by
  unfold rrfFrom
  rw [lookup_foldl_range _ (fun p old => some (match old with
        | some e => o.add e (rrfTerm o K p.2) | none => rrfTerm o K p.2)) ?_ rt _ ht id]
  · rw [lookup_foldl_range _ (fun p _ => some (rrfTerm o K p.2)) ?_ rv [] hv id]
    · cases rv.lookup id <;> cases rt.lookup id <;> simp [List.lookup]
    · intro c p k; rw [lookup_aset]
  · intro c p k
    cases h : c.lookup p.1 <;> simp only <;> rw [lookup_aset]

/-- toy float64 operations on ℕ (`1/(K+r)` scaled by 60 so that it stays integral) -/
def natOps : DOps Nat :=
  { one := 60, ofNat := id, add := (· + ·), mul := (· * ·), div := (· / ·),
    lt := fun a b => decide (a < b) }

theorem natOps_strictWeak : natOps.StrictWeak where
  asymm a b := by simp only [natOps, decide_eq_true_eq, decide_eq_false_iff_not]; omega
  negTrans a b c := by simp only [natOps, decide_eq_false_iff_not]; omega


end Comet
