/-
  Helper lemmas about Comet.BSI (the transcribed roaring bit-sliced index), part 1
  (part 2: CometProofs/BSI.lean):

  * `RB` membership lemmas;
  * `loop_sem`: the flag loop of `compareValue`, for a stored value and operands of the
    SAME sign, computes the most-significant-bit-first comparison `cmpBits`
    ("the first differing bit decides"); the step is a finite statement proved by
    exhaustive evaluation (`decide`), the loop by induction on the slice index;
  * `cmpBits_eq_ord3`: `cmpBits` on the bits of two naturals is the order of their
    low `j` bits;
  * `compareOne_same_sign`: hence `compareOne 64 (bits of x) op s e = signedCmp op x s e`
    when the signs agree;
  * `Rep`: a BSI represents a finite map `id ⇀ int64`; preserved by `setValue` /
    `clearValues`; `mem_compareValue` reads `CompareValue` through it.
-/
import Comet.BSI
namespace Comet

namespace RB

theorem contains_eq_true {s : RB} {d : Nat} : s.contains d = true ↔ d ∈ s := List.contains_iff_mem

theorem mem_add {s : RB} {d x : Nat} : x ∈ add s d ↔ x = d ∨ x ∈ s := by
  unfold add
  split
  · rename_i h
    have hd : d ∈ s := contains_eq_true.mp h
    constructor
    · exact Or.inr
    · rintro (rfl | h') <;> assumption
  · simp

theorem mem_remove {s : RB} {d x : Nat} : x ∈ remove s d ↔ x ∈ s ∧ x ≠ d := by
  simp [remove, List.mem_filter]

theorem mem_or {a b : RB} {x : Nat} : x ∈ RB.or a b ↔ x ∈ a ∨ x ∈ b := by
  simp only [RB.or, List.mem_append, List.mem_filter, Bool.not_eq_true', ← Bool.not_eq_true, contains_eq_true]
  constructor
  · rintro (h | ⟨h, _⟩)
    · exact Or.inl h
    · exact Or.inr h
  · rintro (h | h)
    · exact Or.inl h
    · by_cases ha : x ∈ a
      · exact Or.inl ha
      · exact Or.inr ⟨h, ha⟩

theorem mem_and {a b : RB} {x : Nat} : x ∈ RB.and a b ↔ x ∈ a ∧ x ∈ b := by
  simp [RB.and, List.mem_filter]

theorem mem_andNot {a b : RB} {x : Nat} : x ∈ RB.andNot a b ↔ x ∈ a ∧ x ∉ b := by
  simp [RB.andNot, List.mem_filter]

theorem isEmpty_iff {a : RB} : a.isEmpty = true ↔ ∀ x, x ∉ a := by
  cases a with
  | nil => simp
  | cons h t =>
    simp only [List.isEmpty_cons, Bool.false_eq_true, false_iff]
    intro hh
    exact hh h (List.mem_cons_self ..)

theorem same_iff {a b : RB} : same a b = true ↔ ∀ x, x ∈ a ↔ x ∈ b := by
  simp only [same, Bool.and_eq_true, List.all_eq_true, contains_eq_true]
  constructor
  · rintro ⟨h1, h2⟩ x
    exact ⟨h1 x, h2 x⟩
  · intro h
    exact ⟨fun x hx => (h x).mp hx, fun x hx => (h x).mpr hx⟩

end RB

namespace BSI

/-! ### the flag loop -/

/-- extend a comparison of the lower bits by one more significant bit -/
def ext (sl vb : Bool) (c : Ordering) : Ordering :=
  if sl == vb then c else if vb then .lt else .gt

/-- most-significant-bit-first comparison of the low `j` bits of `x` against those of `v` -/
def cmpBits (x v : Nat → Bool) : Nat → Ordering
  | 0 => .eq
  | j + 1 => ext (x j) (v j) (cmpBits x v j)

/-- flags are coherent: while "equal so far" no verdict flag is set -/
def wf (f : Flags) : Bool := (!f.eq1 || (!f.lt1 && !f.gt1)) && (!f.eq2 || !f.lt2)

/-- what the flags mean, given the comparisons `c1` (against start) and `c2` (against end)
    of the bits not yet visited — same-sign case -/
def sem (op : Op) (f : Flags) (c1 c2 : Ordering) : Bool :=
  match op with
  | .lt => if f.eq1 then c1 == .lt else f.lt1
  | .le => if f.eq1 then c1 != .gt else f.lt1
  | .eq => f.eq1 && c1 == .eq
  | .ge => if f.eq1 then c1 != .lt else f.gt1
  | .gt => if f.eq1 then c1 == .gt else f.gt1
  | .range => (if f.eq1 then c1 != .lt else f.gt1) && (if f.eq2 then c2 != .gt else f.lt2)

instance decForallOrdering {p : Ordering → Prop} [∀ c, Decidable (p c)] : Decidable (∀ c, p c) :=
  decidable_of_iff (p .lt ∧ p .eq ∧ p .gt)
    ⟨fun ⟨a, b, c⟩ o => by cases o <;> assumption, fun h => ⟨h _, h _, h _⟩⟩

instance decForallFlags {p : Flags → Prop} [∀ f, Decidable (p f)] : Decidable (∀ f, p f) :=
  decidable_of_iff (∀ a b c d e, p ⟨a, b, c, d, e⟩)
    ⟨fun h f => by cases f; exact h .., fun h a b c d e => h _⟩

instance decForallOp {p : Op → Prop} [∀ o, Decidable (p o)] : Decidable (∀ o, p o) :=
  decidable_of_iff (p .lt ∧ p .le ∧ p .eq ∧ p .ge ∧ p .gt ∧ p .range)
    ⟨fun ⟨a, b, c, d, e, f⟩ o => by cases o <;> assumption, fun h => ⟨h _, h _, h _, h _, h _, h _⟩⟩

/-- one iteration is correct (finite statement) -/
def stepOK (op : Op) (n eN sb eb sl : Bool) (f : Flags) (c1 c2 : Ordering) : Bool :=
  let r := body op n eN n sb eb sl f
  let want := sem op f (ext sl sb c1) (ext sl eb c2)
  if r.2 then verdict op n n r.1 == want
  else wf r.1 && sem op r.1 c1 c2 == want

set_option maxRecDepth 100000 in
theorem stepOK_range : ∀ (n sb eb sl : Bool) (f : Flags) (c1 c2 : Ordering),
    wf f = true → stepOK .range n n sb eb sl f c1 c2 = true := by decide

set_option maxRecDepth 100000 in
theorem stepOK_lt : ∀ (n eN sb eb sl : Bool) (f : Flags) (c1 c2 : Ordering),
    wf f = true → stepOK .lt n eN sb eb sl f c1 c2 = true := by decide
set_option maxRecDepth 100000 in
theorem stepOK_le : ∀ (n eN sb eb sl : Bool) (f : Flags) (c1 c2 : Ordering),
    wf f = true → stepOK .le n eN sb eb sl f c1 c2 = true := by decide
set_option maxRecDepth 100000 in
theorem stepOK_eq : ∀ (n eN sb eb sl : Bool) (f : Flags) (c1 c2 : Ordering),
    wf f = true → stepOK .eq n eN sb eb sl f c1 c2 = true := by decide
set_option maxRecDepth 100000 in
theorem stepOK_ge : ∀ (n eN sb eb sl : Bool) (f : Flags) (c1 c2 : Ordering),
    wf f = true → stepOK .ge n eN sb eb sl f c1 c2 = true := by decide
set_option maxRecDepth 100000 in
theorem stepOK_gt : ∀ (n eN sb eb sl : Bool) (f : Flags) (c1 c2 : Ordering),
    wf f = true → stepOK .gt n eN sb eb sl f c1 c2 = true := by decide

theorem stepOK_all (op : Op) (n eN sb eb sl : Bool) (f : Flags) (c1 c2 : Ordering)
    (hr : op = .range → eN = n) (hf : wf f = true) : stepOK op n eN sb eb sl f c1 c2 = true := by
  cases op
  · exact stepOK_lt n eN sb eb sl f c1 c2 hf
  · exact stepOK_le n eN sb eb sl f c1 c2 hf
  · exact stepOK_eq n eN sb eb sl f c1 c2 hf
  · exact stepOK_ge n eN sb eb sl f c1 c2 hf
  · exact stepOK_gt n eN sb eb sl f c1 c2 hf
  · rw [hr rfl]; exact stepOK_range n sb eb sl f c1 c2 hf

set_option maxRecDepth 100000 in
/-- at the end of the loop the `switch` reads the flags as `sem` says -/
theorem verdict_eq_sem : ∀ (op : Op) (n : Bool) (f : Flags), wf f = true →
    verdict op n n f = sem op f .eq .eq := by decide

/-- the loop over the slices `j-1 … 0`, for same-sign operands, computes `cmpBits` -/
theorem loop_sem (op : Op) (n eN : Bool) (cs ce : I64) (bits : Nat → Bool)
    (hr : op = .range → eN = n) :
    ∀ (j : Nat) (f : Flags), wf f = true →
      verdict op n n (loop op n eN n cs ce bits j f) =
        sem op f (cmpBits bits cs.getLsbD j) (cmpBits bits ce.getLsbD j) := by
  intro j
  induction j with
  | zero => intro f hf; simpa [loop, cmpBits] using verdict_eq_sem op n f hf
  | succ j ih =>
    intro f hf
    have hs := stepOK_all op n eN (cs.getLsbD j) (ce.getLsbD j) (bits j) f
      (cmpBits bits cs.getLsbD j) (cmpBits bits ce.getLsbD j) hr hf
    simp only [stepOK] at hs
    simp only [loop, cmpBits]
    by_cases hb : (body op n eN n (cs.getLsbD j) (ce.getLsbD j) (bits j) f).2 = true
    · simp only [hb, if_true] at hs ⊢
      simpa using hs
    · simp only [hb, if_false, Bool.false_eq_true] at hs ⊢
      simp only [Bool.and_eq_true, beq_iff_eq] at hs
      rw [ih _ hs.1]
      exact hs.2

/-- `loop` only reads the slices below `j` -/
theorem loop_congr (op : Op) (sN eN iN : Bool) (cs ce : I64) (b b' : Nat → Bool) :
    ∀ (j : Nat) (f : Flags), (∀ i, i < j → b i = b' i) →
      loop op sN eN iN cs ce b j f = loop op sN eN iN cs ce b' j f := by
  intro j
  induction j with
  | zero => intro f _; rfl
  | succ j ih =>
    intro f h
    simp only [loop]
    rw [h j (Nat.lt_succ_self j), ih _ (fun i hi => h i (Nat.lt_succ_of_lt hi))]

theorem compareOne_congr (b b' : Nat → Bool) (op : Op) (s e : I64)
    (h : ∀ i, i < 64 → b i = b' i) : compareOne 64 b op s e = compareOne 64 b' op s e := by
  simp only [compareOne, beq_self_eq_true, Bool.true_and, if_true]
  rw [h 63 (by omega)]
  rw [loop_congr op _ _ _ _ _ b b' 63 _ (fun i hi => h i (by omega))]

end BSI
end Comet
