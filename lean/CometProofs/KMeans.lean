/-
  Helper lemmas for C20 (k-means part): structural facts about the model of
  clustering.go that hold for EVERY scalar instance (also `Float32`), and the facts
  that need an exact ordered field (first minimiser, coordinate-wise hull).
-/
import Mathlib.Algebra.Order.Field.Basic
import Mathlib.Tactic.Linarith
import Mathlib.Tactic.Ring
import Mathlib.Tactic.Positivity
import Mathlib.Tactic.FieldSimp
import Comet.KMeans
namespace Comet.KMeans
open Comet.Dist

section Structural
variable {S : Type} (o : Ops S) (dist : List S → List S → S)

theorem nearestLoop_range (v : List S) (cs : List (List S)) (i : Nat) (best : Option S) (bi : Nat) :
    nearestLoop o dist v cs i best bi = bi ∨
      (i ≤ nearestLoop o dist v cs i best bi ∧ nearestLoop o dist v cs i best bi < i + cs.length) := by
  induction cs generalizing i best bi with
  | nil => left; rfl
  | cons c t ih =>
    simp only [nearestLoop]
    by_cases hb : isBetter o (dist v c) best = true
    · rw [if_pos hb]
      rcases ih (i + 1) (some (dist v c)) i with h | ⟨h1, h2⟩
      · right; rw [h]; simp
      · right; simp only [List.length_cons]; omega
    · rw [if_neg hb]
      rcases ih (i + 1) best bi with h | ⟨h1, h2⟩
      · left; exact h
      · right; simp only [List.length_cons]; omega

theorem nearest_lt (v : List S) (cs : List (List S)) (h : cs ≠ []) : nearest o dist v cs < cs.length := by
  have hl : 0 < cs.length := List.length_pos_iff.2 h
  rcases nearestLoop_range o dist v cs 0 none 0 with h | ⟨_, h2⟩
  · unfold nearest; rw [h]; exact hl
  · unfold nearest; omega

theorem assign_length (vs cs : List (List S)) : (assign o dist vs cs).length = vs.length := by
  simp [assign]

theorem assign_valid (vs cs : List (List S)) (h : cs ≠ []) :
    ∀ m ∈ assign o dist vs cs, 0 ≤ m ∧ m < (cs.length : Int) := by
  intro m hm
  simp only [assign, List.mem_map] at hm
  obtain ⟨v, _, rfl⟩ := hm
  exact ⟨Int.natCast_nonneg _, by exact_mod_cast nearest_lt o dist v cs h⟩

theorem updateFrom_length (dim : Nat) (vs : List (List S)) (mp : List Int) (j : Nat) (cs : List (List S)) :
    (updateFrom o dim vs mp j cs).length = cs.length := by
  induction cs generalizing j with
  | nil => rfl
  | cons c t ih => simp [updateFrom, ih]

theorem update_length (dim : Nat) (vs cs : List (List S)) (mp : List Int) :
    (update o dim vs cs mp).length = cs.length := updateFrom_length o dim vs mp 0 cs

theorem iterate_centroids_length (dim : Nat) (vs : List (List S)) (fuel it : Nat) (cs : List (List S))
    (mp : List Int) : (iterate o dist dim vs fuel it cs mp).centroids.length = cs.length := by
  induction fuel generalizing it cs mp with
  | zero => rfl
  | succ n ih =>
    simp only [iterate]
    split
    · rfl
    · rw [ih, update_length]

/-- after at least one iteration the mapping is the assignment w.r.t. SOME centroid list
    of the same length (the returned one when the run converged) -/
theorem iterate_mapping (dim : Nat) (vs : List (List S)) (fuel it : Nat) (cs : List (List S))
    (mp : List Int) (hf : 0 < fuel) :
    ∃ cs', cs'.length = cs.length ∧ (iterate o dist dim vs fuel it cs mp).mapping = assign o dist vs cs' := by
  induction fuel generalizing it cs mp with
  | zero => omega
  | succ n ih =>
    simp only [iterate]
    split
    · exact ⟨cs, rfl, rfl⟩
    · cases n with
      | zero => exact ⟨cs, rfl, rfl⟩
      | succ m =>
        obtain ⟨cs', h1, h2⟩ := ih (it + 1) (update o dim vs cs (assign o dist vs cs)) (assign o dist vs cs) (by omega)
        exact ⟨cs', by rw [h1, update_length], h2⟩

theorem iterate_converged (dim : Nat) (vs : List (List S)) (fuel it : Nat) (cs : List (List S))
    (mp : List Int) (h : (iterate o dist dim vs fuel it cs mp).converged = true) :
    (iterate o dist dim vs fuel it cs mp).mapping =
      assign o dist vs (iterate o dist dim vs fuel it cs mp).centroids := by
  induction fuel generalizing it cs mp with
  | zero => simp [iterate] at h
  | succ n ih =>
    simp only [iterate] at h ⊢
    split
    · rfl
    · next hne =>
      rw [if_neg hne] at h
      exact ih _ _ _ h

theorem initCentroids_length (v0 : List S) (rest : List (List S)) (k : Nat) :
    (initCentroids v0 rest k).length = k := by
  simp [initCentroids]

theorem initCentroids_mem (v0 : List S) (rest : List (List S)) (k : Nat) :
    ∀ c ∈ initCentroids v0 rest k, c ∈ v0 :: rest := by
  intro c hc
  simp only [initCentroids, List.mem_map] at hc
  obtain ⟨i, _, rfl⟩ := hc
  exact List.getElem_mem _

theorem effK_eq (k : Int) (n : Nat) : effK k n = min k.toNat n := by
  unfold effK
  split <;> omega

theorem effK_pos (k : Int) (n : Nat) (hk : 0 < k) (hn : 0 < n) : 0 < effK k n := by
  rw [effK_eq k n]; omega

theorem effIter_pos (m : Int) : 0 < effIter m := by
  unfold effIter
  split <;> omega

theorem clusterSum_length (dim : Nat) (vs : List (List S)) (mp : List Int) (j : Nat)
    (hrect : ∀ v ∈ vs, v.length = dim) : (clusterSum o dim vs mp j).1.length = dim := by
  unfold clusterSum
  have hzip : ∀ p ∈ List.zip vs mp, p.1.length = dim := by
    intro p hp
    exact hrect p.1 (List.of_mem_zip hp).1
  generalize List.zip vs mp = l at hzip
  have hinit : ((List.replicate dim o.zero, 0) : List S × Nat).1.length = dim := by simp
  generalize ((List.replicate dim o.zero, 0) : List S × Nat) = acc at hinit
  induction l generalizing acc with
  | nil => simpa using hinit
  | cons p t ih =>
    simp only [List.foldl_cons]
    apply ih (fun q hq => hzip q (List.mem_cons_of_mem _ hq))
    by_cases hp : p.2 = (j : Int)
    · rw [if_pos hp]
      simp [addVec, hinit, hzip p (List.mem_cons_self ..)]
    · rw [if_neg hp]; exact hinit

theorem updateFrom_dim (dim : Nat) (vs : List (List S)) (mp : List Int)
    (hrect : ∀ v ∈ vs, v.length = dim) (j : Nat) (cs : List (List S)) (hcs : ∀ c ∈ cs, c.length = dim) :
    ∀ c ∈ updateFrom o dim vs mp j cs, c.length = dim := by
  induction cs generalizing j with
  | nil => intro c hc; simp [updateFrom] at hc
  | cons c0 t ih =>
    intro c hc
    simp only [updateFrom, List.mem_cons] at hc
    rcases hc with rfl | hc
    · unfold updateCentroid
      split
      · simp [clusterSum_length o dim vs mp j hrect]
      · exact hcs c0 (List.mem_cons_self ..)
    · exact ih (j + 1) (fun c hc => hcs c (List.mem_cons_of_mem _ hc)) c hc

theorem iterate_dim (dim : Nat) (vs : List (List S)) (hrect : ∀ v ∈ vs, v.length = dim)
    (fuel it : Nat) (cs : List (List S)) (mp : List Int) (hcs : ∀ c ∈ cs, c.length = dim) :
    ∀ c ∈ (iterate o dist dim vs fuel it cs mp).centroids, c.length = dim := by
  induction fuel generalizing it cs mp with
  | zero => exact hcs
  | succ n ih =>
    simp only [iterate]
    split
    · exact hcs
    · exact ih _ _ _ (updateFrom_dim o dim vs _ hrect 0 cs hcs)

end Structural

/-! ## exact ordered fields -/

section Field
variable {K : Type} [Field K] [LinearOrder K] [IsStrictOrderedRing K]

/-- the scalar operations of an exact ordered field (ℚ, ℝ, …); the square root is not
    used by k-means (the distance is a parameter) -/
def fieldOps (K : Type) [Field K] [LinearOrder K] : Ops K where
  zero := 0
  one := 1
  add := (· + ·)
  sub := (· - ·)
  mul := (· * ·)
  div := (· / ·)
  neg := fun x => -x
  sqrt := id
  lt := fun a b => decide (a < b)
  isZero := fun x => decide (x = 0)
  ofNat := fun n => (n : K)
  ltInf := fun _ => true

variable (dist : List K → List K → K)

/-- the arg-min loop on the list of distances -/
def argLoop : List K → Nat → K → Nat → Nat
  | [], _, _, bi => bi
  | d :: t, i, b, bi => if d < b then argLoop t (i + 1) d i else argLoop t (i + 1) b bi

omit [IsStrictOrderedRing K] in
theorem nearestLoop_eq_argLoop (v : List K) (cs : List (List K)) (i : Nat) (b : K) (bi : Nat) :
    nearestLoop (fieldOps K) dist v cs i (some b) bi = argLoop (cs.map (dist v)) i b bi := by
  induction cs generalizing i b bi with
  | nil => rfl
  | cons c t ih =>
    simp only [nearestLoop, isBetter, fieldOps, List.map_cons, argLoop, decide_eq_true_eq]
    split
    · exact ih _ _ _
    · exact ih _ _ _

omit [Field K] [IsStrictOrderedRing K] in
theorem argLoop_spec (ds : List K) (i : Nat) (b : K) (bi : Nat) :
    (argLoop ds i b bi = bi ∧ ∀ x ∈ ds, b ≤ x) ∨
    (∃ j, ∃ h : j < ds.length, argLoop ds i b bi = i + j ∧ ds[j] < b ∧
      (∀ j' (h' : j' < ds.length), j' < j → ds[j] < ds[j']) ∧ (∀ x ∈ ds, ds[j] ≤ x)) := by
  induction ds generalizing i b bi with
  | nil => left; exact ⟨rfl, by simp⟩
  | cons d t ih =>
    simp only [argLoop]
    by_cases hd : d < b
    · rw [if_pos hd]
      right
      rcases ih (i + 1) d i with ⟨h1, h2⟩ | ⟨j, hj, h1, h2, h3, h4⟩
      · refine ⟨0, by simp, by simpa using h1, by simpa using hd, ?_, ?_⟩
        · intro j' _ hj'; omega
        · intro x hx
          rcases List.mem_cons.1 hx with rfl | hx
          · simp
          · simpa using h2 x hx
      · refine ⟨j + 1, by simpa using hj, by rw [h1]; omega, ?_, ?_, ?_⟩
        · simpa using lt_trans h2 hd
        · intro j' hj' hlt
          cases j' with
          | zero => simpa using h2
          | succ m =>
            simp only [List.getElem_cons_succ]
            exact h3 m (by simpa using hj') (by omega)
        · intro x hx
          rcases List.mem_cons.1 hx with rfl | hx
          · simpa using h2.le
          · simpa using h4 x hx
    · rw [if_neg hd]
      have hbd : b ≤ d := not_lt.1 hd
      rcases ih (i + 1) b bi with ⟨h1, h2⟩ | ⟨j, hj, h1, h2, h3, h4⟩
      · left
        refine ⟨h1, ?_⟩
        intro x hx
        rcases List.mem_cons.1 hx with rfl | hx
        · exact hbd
        · exact h2 x hx
      · right
        refine ⟨j + 1, by simpa using hj, by rw [h1]; omega, by simpa using h2, ?_, ?_⟩
        · intro j' hj' hlt
          cases j' with
          | zero => simpa using lt_of_lt_of_le h2 hbd
          | succ m =>
            simp only [List.getElem_cons_succ]
            exact h3 m (by simpa using hj') (by omega)
        · intro x hx
          rcases List.mem_cons.1 hx with rfl | hx
          · simpa using (lt_of_lt_of_le h2 hbd).le
          · simpa using h4 x hx

omit [IsStrictOrderedRing K] in
/-- over an exact ordered field `nearest` returns the FIRST index whose distance is minimal -/
theorem nearest_first_min (v : List K) (cs : List (List K)) (hne : cs ≠ []) :
    ∃ h : nearest (fieldOps K) dist v cs < (cs.map (dist v)).length,
      (∀ x ∈ cs.map (dist v), (cs.map (dist v))[nearest (fieldOps K) dist v cs] ≤ x) ∧
      (∀ j (hj : j < (cs.map (dist v)).length), j < nearest (fieldOps K) dist v cs →
        (cs.map (dist v))[nearest (fieldOps K) dist v cs] < (cs.map (dist v))[j]) := by
  cases cs with
  | nil => exact absurd rfl hne
  | cons c t =>
    have h0 : nearest (fieldOps K) dist v (c :: t) = argLoop (t.map (dist v)) 1 (dist v c) 0 := by
      simp only [nearest, nearestLoop, isBetter, fieldOps, if_true]
      exact nearestLoop_eq_argLoop dist v t 1 (dist v c) 0
    rw [h0]
    rcases argLoop_spec (t.map (dist v)) 1 (dist v c) 0 with ⟨h1, h2⟩ | ⟨j, hj, h1, h2, h3, h4⟩
    · rw [h1]
      refine ⟨by simp, ?_, ?_⟩
      · intro x hx
        rw [List.map_cons] at hx
        rcases List.mem_cons.1 hx with rfl | hx'
        · simp
        · simpa using h2 x hx'
      · intro j _ hj0; omega
    · rw [h1]
      have hidx : 1 + j < ((c :: t).map (dist v)).length := by
        simp only [List.map_cons, List.length_cons]; omega
      have hget : ((c :: t).map (dist v))[1 + j] = (t.map (dist v))[j] := by
        simp [Nat.add_comm 1 j]
      refine ⟨hidx, ?_, ?_⟩
      · intro x hx
        rw [hget]
        rw [List.map_cons] at hx
        rcases List.mem_cons.1 hx with rfl | hx'
        · exact h2.le
        · exact h4 x hx'
      · intro j' hj' hlt
        rw [hget]
        cases j' with
        | zero => simpa using h2
        | succ m =>
          have hm : m < (t.map (dist v)).length := by
            simp only [List.map_cons, List.length_cons] at hj'; omega
          have := h3 m hm (by omega)
          simpa using this

/-! ### coordinate-wise hull -/

/-- coordinate `d` of `c` exists and lies in `[lo, hi]` -/
def InBox (d : Nat) (lo hi : K) (c : List K) : Prop := ∃ x, c[d]? = some x ∧ lo ≤ x ∧ x ≤ hi

theorem clusterSum_box (d : Nat) (lo hi : K) (dim : Nat) (hd : d < dim) (vs : List (List K)) (mp : List Int)
    (j : Nat) (hvs : ∀ v ∈ vs, InBox d lo hi v) :
    ∃ s, (clusterSum (fieldOps K) dim vs mp j).1[d]? = some s ∧
      ((clusterSum (fieldOps K) dim vs mp j).2 : K) * lo ≤ s ∧
      s ≤ ((clusterSum (fieldOps K) dim vs mp j).2 : K) * hi := by
  unfold clusterSum
  have hzip : ∀ p ∈ List.zip vs mp, InBox d lo hi p.1 := by
    intro p hp
    exact hvs p.1 (List.of_mem_zip hp).1
  generalize List.zip vs mp = l at hzip
  have hinit : ∃ s, ((List.replicate dim (fieldOps K).zero, 0) : List K × Nat).1[d]? = some s ∧
      (((List.replicate dim (fieldOps K).zero, 0) : List K × Nat).2 : K) * lo ≤ s ∧
      s ≤ (((List.replicate dim (fieldOps K).zero, 0) : List K × Nat).2 : K) * hi :=
    ⟨0, by simp [fieldOps, hd], by simp, by simp⟩
  generalize ((List.replicate dim (fieldOps K).zero, 0) : List K × Nat) = acc at hinit
  induction l generalizing acc with
  | nil => simpa using hinit
  | cons p t ih =>
    simp only [List.foldl_cons]
    apply ih (fun q hq => hzip q (List.mem_cons_of_mem _ hq))
    by_cases hp : p.2 = (j : Int)
    · rw [if_pos hp]
      obtain ⟨s, hs, h1, h2⟩ := hinit
      obtain ⟨x, hx, hx1, hx2⟩ := hzip p (List.mem_cons_self ..)
      refine ⟨s + x, ?_, ?_, ?_⟩
      · simp [addVec, fieldOps, List.getElem?_zipWith, hs, hx]
      · push_cast; linarith
      · push_cast; linarith
    · rw [if_neg hp]; exact hinit

theorem updateCentroid_box (d : Nat) (lo hi : K) (c sum : List K) (size : Nat) (hc : InBox d lo hi c)
    (hs : ∃ s, sum[d]? = some s ∧ (size : K) * lo ≤ s ∧ s ≤ (size : K) * hi) :
    InBox d lo hi (updateCentroid (fieldOps K) c sum size) := by
  unfold updateCentroid
  by_cases h : size > 0
  · rw [if_pos h]
    obtain ⟨s, hs0, hs1, hs2⟩ := hs
    have hpos : (0 : K) < (size : K) := by exact_mod_cast h
    refine ⟨s / (size : K), by simp [fieldOps, hs0], ?_, ?_⟩
    · rw [le_div_iff₀ hpos]; linarith
    · rw [div_le_iff₀ hpos]; linarith
  · rw [if_neg h]; exact hc

theorem updateFrom_box (d : Nat) (lo hi : K) (dim : Nat) (hd : d < dim) (vs : List (List K)) (mp : List Int)
    (hvs : ∀ v ∈ vs, InBox d lo hi v) (j : Nat) (cs : List (List K)) (hcs : ∀ c ∈ cs, InBox d lo hi c) :
    ∀ c ∈ updateFrom (fieldOps K) dim vs mp j cs, InBox d lo hi c := by
  induction cs generalizing j with
  | nil => intro c hc; simp [updateFrom] at hc
  | cons c0 t ih =>
    intro c hc
    simp only [updateFrom, List.mem_cons] at hc
    rcases hc with rfl | hc
    · exact updateCentroid_box d lo hi c0 _ _ (hcs c0 (List.mem_cons_self ..))
        (clusterSum_box d lo hi dim hd vs mp j hvs)
    · exact ih (j + 1) (fun c hc => hcs c (List.mem_cons_of_mem _ hc)) c hc

theorem iterate_box (d : Nat) (lo hi : K) (dim : Nat) (hd : d < dim) (vs : List (List K))
    (hvs : ∀ v ∈ vs, InBox d lo hi v) (fuel it : Nat) (cs : List (List K)) (mp : List Int)
    (hcs : ∀ c ∈ cs, InBox d lo hi c) :
    ∀ c ∈ (iterate (fieldOps K) dist dim vs fuel it cs mp).centroids, InBox d lo hi c := by
  induction fuel generalizing it cs mp with
  | zero => exact hcs
  | succ n ih =>
    simp only [iterate]
    split
    · exact hcs
    · exact ih _ _ _ (updateFrom_box d lo hi dim hd vs _ hvs 0 cs hcs)

omit [Field K] [IsStrictOrderedRing K] in
theorem exists_coord_min (d dim : Nat) (hd : d < dim) (vs : List (List K)) (hne : vs ≠ [])
    (hrect : ∀ v ∈ vs, v.length = dim) :
    ∃ v ∈ vs, ∃ a, v[d]? = some a ∧ ∀ u ∈ vs, ∀ x, u[d]? = some x → a ≤ x := by
  induction vs with
  | nil => exact absurd rfl hne
  | cons v t ih =>
    have hv : d < v.length := by rw [hrect v (List.mem_cons_self ..)]; exact hd
    by_cases ht : t = []
    · subst ht
      refine ⟨v, List.mem_cons_self .., v[d], List.getElem?_eq_getElem hv, ?_⟩
      intro u hu x hx
      rw [List.mem_singleton] at hu
      subst hu
      rw [List.getElem?_eq_getElem hv] at hx
      exact le_of_eq (Option.some.inj hx)
    · obtain ⟨w, hw, a, ha, hmin⟩ := ih ht (fun u hu => hrect u (List.mem_cons_of_mem _ hu))
      by_cases hcmp : v[d] ≤ a
      · refine ⟨v, List.mem_cons_self .., v[d], List.getElem?_eq_getElem hv, ?_⟩
        intro u hu x hx
        rcases List.mem_cons.1 hu with rfl | hu
        · rw [List.getElem?_eq_getElem hv] at hx
          exact le_of_eq (Option.some.inj hx)
        · exact le_trans hcmp (hmin u hu x hx)
      · refine ⟨w, List.mem_cons_of_mem _ hw, a, ha, ?_⟩
        intro u hu x hx
        rcases List.mem_cons.1 hu with rfl | hu
        · rw [List.getElem?_eq_getElem hv] at hx
          rw [← Option.some.inj hx]
          exact (not_le.1 hcmp).le
        · exact hmin u hu x hx

omit [Field K] [IsStrictOrderedRing K] in
theorem exists_coord_max (d dim : Nat) (hd : d < dim) (vs : List (List K)) (hne : vs ≠ [])
    (hrect : ∀ v ∈ vs, v.length = dim) :
    ∃ v ∈ vs, ∃ a, v[d]? = some a ∧ ∀ u ∈ vs, ∀ x, u[d]? = some x → x ≤ a := by
  induction vs with
  | nil => exact absurd rfl hne
  | cons v t ih =>
    have hv : d < v.length := by rw [hrect v (List.mem_cons_self ..)]; exact hd
    by_cases ht : t = []
    · subst ht
      refine ⟨v, List.mem_cons_self .., v[d], List.getElem?_eq_getElem hv, ?_⟩
      intro u hu x hx
      rw [List.mem_singleton] at hu
      subst hu
      rw [List.getElem?_eq_getElem hv] at hx
      exact le_of_eq (Option.some.inj hx).symm
    · obtain ⟨w, hw, a, ha, hmax⟩ := ih ht (fun u hu => hrect u (List.mem_cons_of_mem _ hu))
      by_cases hcmp : a ≤ v[d]
      · refine ⟨v, List.mem_cons_self .., v[d], List.getElem?_eq_getElem hv, ?_⟩
        intro u hu x hx
        rcases List.mem_cons.1 hu with rfl | hu
        · rw [List.getElem?_eq_getElem hv] at hx
          exact le_of_eq (Option.some.inj hx).symm
        · exact le_trans (hmax u hu x hx) hcmp
      · refine ⟨w, List.mem_cons_of_mem _ hw, a, ha, ?_⟩
        intro u hu x hx
        rcases List.mem_cons.1 hu with rfl | hu
        · rw [List.getElem?_eq_getElem hv] at hx
          rw [← Option.some.inj hx]
          exact (not_le.1 hcmp).le
        · exact hmax u hu x hx

end Field
end Comet.KMeans
