/-
  Helper lemmas for C14 (PQ / IVFPQ): the arg-min loop, shapes of tables and codes,
  the scan loop, and the refinement of the PQ model to the flat "live list" spec of C01.
  Core Lean only.
-/
import Comet.Vector.PQ
import CometProofs.Flat
namespace Comet.PQ

variable {S : Type}

/-! ### order facts derived from `Scalar.Ordered` -/

section Order
variable {sc : Scalar S} (ord : sc.Ordered)
include ord

theorem lt_false_iff (a b : S) : sc.lt a b = false ↔ sc.le b a = true := by
  rw [ord.lt_iff]; cases sc.le b a <;> simp

theorem lt_true_iff (a b : S) : sc.lt a b = true ↔ sc.le b a = false := by
  rw [ord.lt_iff]; cases sc.le b a <;> simp

theorem le_refl' (a : S) : sc.le a a = true := by
  have := ord.total a a; simpa using this

theorem lt_irrefl' (a : S) : sc.lt a a = false := (lt_false_iff ord a a).2 (le_refl' ord a)

theorem le_of_lt' {a b : S} (h : sc.lt a b = true) : sc.le a b = true := by
  have h1 := (lt_true_iff ord a b).1 h
  have := ord.total a b
  simp [h1] at this; exact this

theorem lt_asymm' {a b : S} (h : sc.lt a b = true) : sc.lt b a = false :=
  (lt_false_iff ord b a).2 (le_of_lt' ord h)

theorem lt_of_lt_of_le' {a b c : S} (h1 : sc.lt a b = true) (h2 : sc.le b c = true) :
    sc.lt a c = true := by
  rw [lt_true_iff ord] at h1 ⊢
  cases h : sc.le c a with
  | false => rfl
  | true => rw [ord.trans b c a h2 h] at h1; cases h1

theorem lt_trans' {a b c : S} (h1 : sc.lt a b = true) (h2 : sc.lt b c = true) :
    sc.lt a c = true := lt_of_lt_of_le' ord h1 (le_of_lt' ord h2)

end Order

/-! ### the arg-min loop -/

/-- Without any order assumption: the loop returns its start index or a position it visited. -/
theorem argminLoop_range (lt : S → S → Bool) (ds : List S) (k : Nat) (best : S) (bi : Nat) :
    argminLoop lt ds k best bi = bi ∨
      (k ≤ argminLoop lt ds k best bi ∧ argminLoop lt ds k best bi < k + ds.length) := by
  induction ds generalizing k best bi with
  | nil => left; rfl
  | cons d ds ih =>
    simp only [argminLoop]
    split
    · rcases ih (k + 1) d k with h | ⟨h1, h2⟩
      · right; rw [h]; simp
      · right; simp only [List.length_cons]; omega
    · rcases ih (k + 1) best bi with h | ⟨h1, h2⟩
      · left; exact h
      · right; simp only [List.length_cons]; omega

theorem argmin_lt (lt : S → S → Bool) (inf : S) (ds : List S) (h : ds ≠ []) :
    argmin lt inf ds < ds.length := by
  have hpos : 0 < ds.length := List.length_pos_iff.2 h
  rcases argminLoop_range lt ds 0 inf 0 with h | ⟨_, h2⟩
  · unfold argmin; rw [h]; exact hpos
  · unfold argmin; omega

/-- Full characterisation of the loop for a total preorder: either nothing beat the start
    value, or the result is the position of the FIRST strict minimiser. -/
theorem argminLoop_spec {sc : Scalar S} (ord : sc.Ordered) (ds : List S) (k : Nat) (best : S)
    (bi : Nat) :
    (argminLoop sc.lt ds k best bi = bi ∧ ∀ d ∈ ds, sc.lt d best = false) ∨
    (∃ j, ∃ hj : j < ds.length, argminLoop sc.lt ds k best bi = k + j ∧
        sc.lt ds[j] best = true ∧
        (∀ i (hi : i < ds.length), sc.lt ds[i] ds[j] = false) ∧
        (∀ i (hi : i < j), sc.lt ds[j] (ds[i]'(by omega)) = true)) := by
  induction ds generalizing k best bi with
  | nil => left; exact ⟨rfl, by simp⟩
  | cons d ds ih =>
    simp only [argminLoop]
    by_cases hd : sc.lt d best = true
    · simp only [hd, if_true]
      rcases ih (k + 1) d k with ⟨h1, h2⟩ | ⟨j, hj, h1, h2, h3, h4⟩
      · right
        refine ⟨0, by simp, by simpa using h1, by simpa using hd, ?_, ?_⟩
        · intro i hi
          cases i with
          | zero => simpa using lt_irrefl' ord d
          | succ i =>
            simp only [List.getElem_cons_succ, List.getElem_cons_zero]
            exact h2 _ (List.getElem_mem _)
        · intro i hi; omega
      · right
        refine ⟨j + 1, by simp; omega, by rw [h1]; omega, ?_, ?_, ?_⟩
        · simp only [List.getElem_cons_succ]
          exact lt_trans' ord h2 hd
        · intro i hi
          cases i with
          | zero =>
            simp only [List.getElem_cons_zero, List.getElem_cons_succ]
            exact lt_asymm' ord h2
          | succ i =>
            simp only [List.getElem_cons_succ]
            exact h3 i (by simpa using hi)
        · intro i hi
          cases i with
          | zero => simpa using h2
          | succ i =>
            simp only [List.getElem_cons_succ]
            exact h4 i (by omega)
    · have hd' : sc.lt d best = false := by simpa using hd
      simp only [hd', Bool.false_eq_true, if_false]
      rcases ih (k + 1) best bi with ⟨h1, h2⟩ | ⟨j, hj, h1, h2, h3, h4⟩
      · left
        refine ⟨h1, ?_⟩
        intro x hx
        rcases List.mem_cons.1 hx with rfl | hx
        · exact hd'
        · exact h2 x hx
      · right
        have hbd : sc.le best d = true := (lt_false_iff ord d best).1 hd'
        have hjd : sc.lt ds[j] d = true := lt_of_lt_of_le' ord h2 hbd
        refine ⟨j + 1, by simp; omega, by rw [h1]; omega, ?_, ?_, ?_⟩
        · simpa using h2
        · intro i hi
          cases i with
          | zero =>
            simp only [List.getElem_cons_zero, List.getElem_cons_succ]
            exact lt_asymm' ord hjd
          | succ i =>
            simp only [List.getElem_cons_succ]
            exact h3 i (by simpa using hi)
        · intro i hi
          cases i with
          | zero => simpa using hjd
          | succ i =>
            simp only [List.getElem_cons_succ]
            exact h4 i (by omega)

/-- `argmin` over finite distances (`d < +Inf` for at least one `d`): the least index
    among the minimisers. -/
theorem argmin_spec {sc : Scalar S} (ord : sc.Ordered) (inf : S) (ds : List S)
    (hfin : ∃ d ∈ ds, sc.lt d inf = true) :
    ∃ hc : argmin sc.lt inf ds < ds.length,
      (∀ i (hi : i < ds.length), sc.lt ds[i] (ds[argmin sc.lt inf ds]) = false) ∧
      (∀ i (hi : i < argmin sc.lt inf ds), sc.lt (ds[argmin sc.lt inf ds]) (ds[i]'(by omega)) = true) := by
  rcases argminLoop_spec ord ds 0 inf 0 with ⟨_, h2⟩ | ⟨j, hj, h1, _, h3, h4⟩
  · obtain ⟨d, hd, hlt⟩ := hfin
    rw [h2 d hd] at hlt; cases hlt
  · have hj' : argmin sc.lt inf ds = j := by unfold argmin; rw [h1]; omega
    refine ⟨by rw [hj']; exact hj, ?_, ?_⟩
    · intro i hi; simp only [hj']; exact h3 i hi
    · intro i hi; simp only [hj']; exact h4 i (by omega)

/-! ### shapes: tables, codes, `adcSum` never fails on encoded vectors -/

theorem tablesFrom_length (o : Ops S) (dsub : Nat) (q : List S) (i : Nat)
    (cbs : List (List (List S))) : (tablesFrom o dsub q i cbs).length = cbs.length := by
  induction cbs generalizing i with
  | nil => rfl
  | cons cb rest ih => simp [tablesFrom, ih]

theorem tablesFrom_getElem (o : Ops S) (dsub : Nat) (q : List S) (i : Nat)
    (cbs : List (List (List S))) (m : Nat) (hm : m < cbs.length) :
    (tablesFrom o dsub q i cbs)[m]'(by rw [tablesFrom_length]; exact hm) =
      cbs[m].map (sqDist o (subvec dsub (i + m) q)) := by
  induction cbs generalizing i m with
  | nil => cases hm
  | cons cb rest ih =>
    cases m with
    | zero => simp [tablesFrom]
    | succ m =>
      simp only [tablesFrom, List.getElem_cons_succ]
      rw [ih (i + 1) m (by simpa using hm)]
      congr 3; omega

/-- every code entry is a valid row index of the corresponding table -/
def Fits : List (List S) → List Nat → Prop
  | [], _ => True
  | _ :: _, [] => False
  | t :: ts, c :: cs => c < t.length ∧ Fits ts cs

theorem adcSumFrom_isSome (o : Ops S) (acc : S) (ts : List (List S)) (code : List Nat)
    (h : Fits ts code) : ∃ s, adcSumFrom o acc ts code = some s := by
  induction ts generalizing acc code with
  | nil => exact ⟨acc, rfl⟩
  | cons t ts ih =>
    cases code with
    | nil => cases h
    | cons c cs =>
      obtain ⟨hc, hrest⟩ := h
      simp only [adcSumFrom, List.getElem?_eq_getElem hc]
      exact ih _ cs hrest

theorem fits_map_le (tr : Nat → Nat) (htr : ∀ c, tr c ≤ c) (ts : List (List S)) (code : List Nat)
    (h : Fits ts code) : Fits ts (code.map tr) := by
  induction ts generalizing code with
  | nil => trivial
  | cons t ts ih =>
    cases code with
    | nil => cases h
    | cons c cs =>
      obtain ⟨hc, hrest⟩ := h
      exact ⟨Nat.lt_of_le_of_lt (htr c) hc, ih cs hrest⟩

/-- tables of one vector index the arg-min codes of another (same codebooks) -/
theorem fits_tables_argmin (o : Ops S) (lt : S → S → Bool) (inf : S) (dsub : Nat) (q v : List S)
    (i : Nat) (cbs : List (List (List S))) (hne : ∀ cb ∈ cbs, cb ≠ []) :
    Fits (tablesFrom o dsub q i cbs) ((tablesFrom o dsub v i cbs).map (argmin lt inf)) := by
  induction cbs generalizing i with
  | nil => trivial
  | cons cb rest ih =>
    simp only [tablesFrom, List.map_cons]
    refine ⟨?_, ih (i + 1) (fun c hc => hne c (List.mem_cons_of_mem _ hc))⟩
    have := argmin_lt lt inf (cb.map (sqDist o (subvec dsub i v)))
      (by simpa using hne cb List.mem_cons_self)
    simpa using this

theorem trunc8_le (c : Nat) : trunc8 c ≤ c := Nat.mod_le c 256

theorem adcSum_encoded_isSome (o : Ops S) (lt : S → S → Bool) (inf : S) (dsub : Nat)
    (cbs : List (List (List S))) (hne : ∀ cb ∈ cbs, cb ≠ []) (tr : Nat → Nat)
    (htr : ∀ c, tr c ≤ c) (q v : List S) :
    ∃ s, adcSum o (tables o dsub cbs q) ((encodeRaw o lt inf dsub cbs v).map tr) = some s :=
  adcSumFrom_isSome o o.zero _ _
    (fits_map_le tr htr _ _ (fits_tables_argmin o lt inf dsub q v 0 cbs hne))

/-- `cbWF` unpacked -/
theorem cbWF_iff (M ksub dsub : Nat) (cbs : List (List (List S))) :
    cbWF M ksub dsub cbs = true ↔
      cbs.length = M ∧ ∀ cb ∈ cbs, cb.length = ksub ∧ ∀ w ∈ cb, w.length = dsub := by
  simp [cbWF, List.all_eq_true]

theorem cbWF_ne_nil {M ksub dsub : Nat} {cbs : List (List (List S))}
    (h : cbWF M ksub dsub cbs = true) (hk : 0 < ksub) : ∀ cb ∈ cbs, cb ≠ [] := by
  intro cb hcb hnil
  have := ((cbWF_iff M ksub dsub cbs).1 h).2 cb hcb
  rw [hnil] at this
  simp at this
  omega

theorem tablesFrom_rows (o : Ops S) (dsub : Nat) (q : List S) (i : Nat)
    (cbs : List (List (List S))) :
    ∀ t ∈ tablesFrom o dsub q i cbs, ∃ cb ∈ cbs, t.length = cb.length := by
  induction cbs generalizing i with
  | nil => intro t ht; cases ht
  | cons cb rest ih =>
    intro t ht
    simp only [tablesFrom, List.mem_cons] at ht
    rcases ht with rfl | ht
    · exact ⟨cb, List.mem_cons_self, by simp⟩
    · obtain ⟨cb', h1, h2⟩ := ih (i + 1) t ht
      exact ⟨cb', List.mem_cons_of_mem _ h1, h2⟩

/-- every arg-min index is a codeword index -/
theorem encodeRaw_lt {M ksub dsub : Nat} {cbs : List (List (List S))}
    (hwf : cbWF M ksub dsub cbs = true) (hk : 0 < ksub) (o : Ops S) (lt : S → S → Bool) (inf : S)
    (v : List S) : ∀ c ∈ encodeRaw o lt inf dsub cbs v, c < ksub := by
  intro c hc
  simp only [encodeRaw, tables, List.mem_map] at hc
  obtain ⟨t, ht, rfl⟩ := hc
  obtain ⟨cb, hcb, hlen⟩ := tablesFrom_rows o dsub v 0 cbs t ht
  have hcl := (((cbWF_iff M ksub dsub cbs).1 hwf).2 cb hcb).1
  have hne : t ≠ [] := by
    intro h0; rw [h0] at hlen; simp at hlen; omega
  have := argmin_lt lt inf t hne
  omega

theorem encodeRaw_length (o : Ops S) (lt : S → S → Bool) (inf : S) (dsub : Nat)
    (cbs : List (List (List S))) (v : List S) :
    (encodeRaw o lt inf dsub cbs v).length = cbs.length := by
  simp [encodeRaw, tables, tablesFrom_length]

theorem recon_length (dsub : Nat) (cbs : List (List (List S)))
    (hw : ∀ cb ∈ cbs, ∀ w ∈ cb, w.length = dsub) (code : List Nat) (r : List S)
    (h : recon cbs code = some r) : r.length = cbs.length * dsub := by
  induction cbs generalizing code r with
  | nil => simp [recon] at h; subst h; simp
  | cons cb rest ih =>
    cases code with
    | nil => simp [recon] at h
    | cons c cs =>
      simp only [recon] at h
      cases hc : cb[c]? with
      | none => simp [hc] at h
      | some w =>
        cases hr : recon rest cs with
        | none => simp [hc, hr] at h
        | some r' =>
          simp only [hc, hr, Option.some.injEq] at h
          subst h
          have h1 := hw cb List.mem_cons_self w (List.mem_of_getElem? hc)
          have h2 := ih (fun cb' h' => hw cb' (List.mem_cons_of_mem _ h')) cs r' hr
          simp only [List.length_append, List.length_cons, h1, h2, Nat.add_mul, Nat.one_mul]
          omega

/-! ### the scan loop -/

/-- what the scan loop yields for one entry that is neither deleted nor a lookup failure -/
def scanHit (sc : Scalar S) (A : Arith S) (tabs : List (List S)) (thr : S) (filter : List Id)
    (p : Id × Stored S) : Option (Hit S) :=
  if !Flat.eligible filter p.1 then none
  else
    let d := adcScore sc A tabs p.2.code
    if Flat.thrSkip sc thr d then none else some ⟨p.1, d⟩

theorem scan_eq (sc : Scalar S) (A : Arith S) (tabs : List (List S)) (deleted : List Id)
    (thr : S) (filter : List Id) (entries : List (Id × Stored S))
    (hok : ∀ p ∈ entries, p.1 ∉ deleted → ∃ s, adcSum (A.ops sc) tabs p.2.code = some s) :
    scan sc A tabs deleted thr filter entries =
      some ((entries.filter (fun p => p.1 ∉ deleted)).filterMap (scanHit sc A tabs thr filter)) := by
  induction entries with
  | nil => rfl
  | cons p ps ih =>
    have ih' := ih (fun p hp => hok p (List.mem_cons_of_mem _ hp))
    simp only [scan]
    by_cases hdel : p.1 ∈ deleted
    · simp [hdel, ih']
    · simp only [hdel, if_false]
      by_cases hel : Flat.eligible filter p.1 = true
      · obtain ⟨s, hs⟩ := hok p List.mem_cons_self hdel
        simp only [hel, Bool.not_true, Bool.false_eq_true, if_false, hs]
        by_cases hth : Flat.thrSkip sc thr (A.sqrt s) = true
        · simp [hth, ih', hdel, scanHit, hel, adcScore, hs]
        · simp [hth, ih', hdel, scanHit, hel, adcScore, hs]
      · simp [hel, ih', hdel, scanHit]

/-! ### refinement of the PQ model to the flat specification -/

variable (m : Metric (List S) S) (A : Arith S)

def toFlat (s : State S) : Flat.State (Stored S) := ⟨s.dim, s.entries, s.deleted⟩

/-- the lifted metric the code implements (`uint8` conversion included) -/
def mm (s : State S) : Metric (Stored S) S := lift m A trunc8 s.dsub s.cbs

/-- what does not change along a history -/
structure Same (s t : State S) : Prop where
  dim : t.dim = s.dim
  M : t.M = s.M
  nbits : t.nbits = s.nbits
  cbs : t.cbs = s.cbs
  trained : t.trained = s.trained

theorem Same.mm_eq {s t : State S} (h : Same s t) : mm m A t = mm m A s := by
  unfold mm State.dsub; rw [h.dim, h.M, h.cbs]

theorem flushLocked_of_mem (s : State S) (id : Id) (h : id ∈ s.deleted) :
    flushLocked s =
      { s with entries := s.entries.filter (fun p => p.1 ∉ s.deleted), deleted := [] } := by
  have : s.deleted.isEmpty = false := by
    cases hd : s.deleted with
    | nil => rw [hd] at h; cases h
    | cons a t => rfl
  simp [flushLocked, this]

theorem flushLocked_toFlat (s : State S) :
    toFlat (flushLocked s) = (Flat.step (mm m A s) (toFlat s) .flush).1 := by
  by_cases h : s.deleted.isEmpty = true
  · simp [flushLocked, Flat.step, toFlat, h]
  · simp only [flushLocked, Flat.step, toFlat, h, Bool.false_eq_true, if_false]
    rfl

theorem step_same (s : State S) (op : Flat.Op (List S)) : Same s (step m A s op).1 := by
  cases op with
  | add id v =>
    simp only [step]
    split
    · exact ⟨rfl, rfl, rfl, rfl, rfl⟩
    · split
      · exact ⟨rfl, rfl, rfl, rfl, rfl⟩
      · split
        · exact ⟨rfl, rfl, rfl, rfl, rfl⟩
        · split <;> simp only [flushLocked] <;> (try split) <;> exact ⟨rfl, rfl, rfl, rfl, rfl⟩
  | remove id =>
    simp only [step]
    split
    · exact ⟨rfl, rfl, rfl, rfl, rfl⟩
    · split <;> exact ⟨rfl, rfl, rfl, rfl, rfl⟩
  | flush =>
    simp only [step, flushLocked]
    split <;> exact ⟨rfl, rfl, rfl, rfl, rfl⟩

/-- one step of the PQ model is one step of the flat model over the stored form, for EVERY op
    (re-adding a soft-deleted id purges the tombstones first in both) -/
theorem step_toFlat (s : State S) (op : Flat.Op (List S)) (htr : s.trained = true) :
    toFlat (step m A s op).1 = (Flat.step (mm m A s) (toFlat s) (liftOp op)).1 := by
  cases op with
  | add id v =>
    simp only [step, htr, Bool.not_true, Bool.false_eq_true, if_false, liftOp, Flat.step, mm, lift,
      inject, toFlat]
    by_cases hdim : v.length = s.dim
    · simp only [hdim, ne_eq, not_true_eq_false, if_false]
      cases hp : m.pre v with
      | none => simp
      | some v' =>
        by_cases hd : id ∈ s.deleted
        · simp [hd, flushLocked_of_mem s id hd, Flat.flushed, encode, State.dsub]
        · simp [hd, encode]
    · simp [hdim]
  | remove id =>
    by_cases h1 : (s.entries.any fun x => x.fst == id) = true <;>
      by_cases h2 : id ∈ s.deleted <;> simp [step, liftOp, Flat.step, toFlat, h1, h2]
  | flush =>
    simp only [step, liftOp]
    exact flushLocked_toFlat m A s

theorem run_toFlat (s : State S) (ops : List (Flat.Op (List S))) (htr : s.trained = true) :
    toFlat (run m A s ops) = Flat.run (mm m A s) (toFlat s) (ops.map liftOp) ∧
      Same s (run m A s ops) := by
  induction ops generalizing s with
  | nil => exact ⟨rfl, ⟨rfl, rfl, rfl, rfl, rfl⟩⟩
  | cons op t ih =>
    have hstep := step_toFlat m A s op htr
    have hsame := step_same m A s op
    have htr' : (step m A s op).1.trained = true := by rw [hsame.trained]; exact htr
    obtain ⟨h1, h2⟩ := ih (step m A s op).1 htr'
    simp only [run, List.foldl_cons, List.map_cons, Flat.run] at h1 h2 ⊢
    refine ⟨?_, ?_⟩
    · rw [h1, hsame.mm_eq, hstep]
    · exact ⟨h2.dim.trans hsame.dim, h2.M.trans hsame.M, h2.nbits.trans hsame.nbits,
        h2.cbs.trans hsame.cbs, h2.trained.trans hsame.trained⟩

/-- every live entry of a (lifted) specification stems from an `add` of the history whose
    vector the (lifted) `pre` maps to the stored form -/
theorem live_mem_add {V : Type} (mmm : Metric V S) (dim : Nat) (ops : List (Flat.Op V)) :
    ∀ p ∈ Flat.live mmm dim ops, ∃ x, Flat.Op.add p.1 x ∈ ops ∧ mmm.pre x = some p.2 := by
  unfold Flat.live
  suffices h : ∀ (pre post : List (Flat.Op V)) (l : List (Id × V)),
      (∀ p ∈ l, ∃ x, Flat.Op.add p.1 x ∈ pre ∧ mmm.pre x = some p.2) →
      ∀ p ∈ post.foldl (Flat.specStep mmm dim) l,
        ∃ x, Flat.Op.add p.1 x ∈ pre ++ post ∧ mmm.pre x = some p.2 by
    simpa using h [] ops [] (by intro p hp; cases hp)
  intro pre post
  induction post generalizing pre with
  | nil => intro l hl; simpa using hl
  | cons op t ih =>
    intro l hl
    simp only [List.foldl_cons]
    have hcat : pre ++ op :: t = (pre ++ [op]) ++ t := by simp
    rw [hcat]
    apply ih (pre ++ [op])
    have hl' : ∀ p ∈ l, ∃ x, Flat.Op.add p.1 x ∈ pre ++ [op] ∧ mmm.pre x = some p.2 := by
      intro p hp
      obtain ⟨x, hx1, hx2⟩ := hl p hp
      exact ⟨x, List.mem_append_left _ hx1, hx2⟩
    cases op with
    | add id v =>
      simp only [Flat.specStep]
      split
      · exact hl'
      · split
        · exact hl'
        · next v' hv =>
          intro p hp
          rcases List.mem_append.1 hp with hp | hp
          · exact hl' p hp
          · simp only [List.mem_singleton] at hp
            subst hp
            exact ⟨v, by simp, hv⟩
    | remove id =>
      intro p hp
      exact hl' p (List.mem_filter.1 hp).1
    | flush => exact hl'

theorem live_mem_pre {V : Type} (mmm : Metric V S) (dim : Nat) (ops : List (Flat.Op V)) :
    ∀ p ∈ Flat.live mmm dim ops, ∃ x, mmm.pre x = some p.2 := by
  intro p hp
  obtain ⟨x, _, hx⟩ := live_mem_add mmm dim ops p hp
  exact ⟨x, hx⟩

/-- what `lift.pre` produces -/
theorem lift_pre_some (tr : Nat → Nat) (dsub : Nat) (cbs : List (List (List S)))
    (x e : Stored S) (h : (lift m A tr dsub cbs).pre x = some e) :
    ∃ v', m.pre x.vec = some v' ∧
      e = ⟨v', 0, (encodeRaw (A.ops m.sc) m.sc.lt A.inf dsub cbs v').map tr⟩ := by
  simp only [lift] at h
  cases hp : m.pre x.vec with
  | none => simp [hp] at h
  | some v' =>
    simp only [hp, Option.some.injEq] at h
    exact ⟨v', rfl, h.symm⟩

/-- for code sizes of at most 8 bits the `uint8` conversion is invisible in the lifted metric -/
theorem map_trunc8_encodeRaw {M ksub dsub : Nat} {cbs : List (List (List S))}
    (hwf : cbWF M ksub dsub cbs = true) (hk : 0 < ksub) (hk8 : ksub ≤ 256) (o : Ops S)
    (lt : S → S → Bool) (inf : S) (v : List S) :
    (encodeRaw o lt inf dsub cbs v).map trunc8 = (encodeRaw o lt inf dsub cbs v).map id := by
  apply List.map_congr_left
  intro c hc
  have := encodeRaw_lt hwf hk o lt inf v c hc
  simp only [trunc8, id]
  exact Nat.mod_eq_of_lt (by omega)

theorem lift_trunc8_eq {M ksub dsub : Nat} {cbs : List (List (List S))}
    (hwf : cbWF M ksub dsub cbs = true) (hk : 0 < ksub) (hk8 : ksub ≤ 256) :
    lift m A trunc8 dsub cbs = lift m A id dsub cbs := by
  simp only [lift, map_trunc8_encodeRaw hwf hk hk8]

theorem isTopK_nil (le : S → S → Bool) (k : Int) : IsTopK le k [] [] :=
  ⟨List.Pairwise.nil, ⟨[], by simp, by intro a ha; cases ha⟩, by
    simp only [List.length_nil]; exact (Nat.le_zero.1 (sanitizeK_le k 0)).symm⟩

/-- The search of the PQ model returns an exact top-k of the specification's candidates,
    given that the effective entries are the specification's live list. -/
theorem searchSingle_topk (ord : m.sc.Ordered) (s : State S)
    (hne : ∀ cb ∈ s.cbs, cb ≠ []) (htr : s.trained = true)
    (l : List (Id × Stored S)) (heff : Flat.eff (toFlat s) = l)
    (hl : ∀ p ∈ l, ∃ x, (mm m A s).pre x = some p.2)
    (q q' : List S) (hq : q.length = s.dim) (hpre : m.pre q = some q')
    (k : Int) (thr : S) (F : List Id) :
    ∃ res, searchSingle m A s q k thr F = .ok res ∧
      IsTopK m.sc.le k (Flat.cands (mm m A s) l (inject q') thr F) res := by
  simp only [searchSingle, htr, hq, Bool.not_true, Bool.false_eq_true, if_false, ne_eq,
    not_true_eq_false]
  by_cases hem : s.entries.isEmpty = true
  · have hnil : s.entries = [] := by simpa using hem
    have : l = [] := by rw [← heff]; simp [Flat.eff, toFlat, hnil]
    subst this
    refine ⟨[], by simp [hem], ?_⟩
    simpa [Flat.cands] using isTopK_nil m.sc.le k
  · simp only [hem, Bool.false_eq_true, if_false, hpre]
    have hok : ∀ p ∈ s.entries, p.1 ∉ s.deleted →
        ∃ x, adcSum (A.ops m.sc) (tables (A.ops m.sc) s.dsub s.cbs q') p.2.code = some x := by
      intro p hp hnd
      have hpl : p ∈ l := by
        rw [← heff]; simp only [Flat.eff, toFlat, List.mem_filter]; exact ⟨hp, decide_eq_true hnd⟩
      obtain ⟨x, hx⟩ := hl p hpl
      obtain ⟨v', _, he⟩ := lift_pre_some m A trunc8 s.dsub s.cbs x p.2 hx
      rw [he]
      exact adcSum_encoded_isSome _ _ _ _ _ hne trunc8 trunc8_le q' v'
    rw [scan_eq m.sc A _ s.deleted thr F s.entries hok]
    have hc : (s.entries.filter (fun p => p.1 ∉ s.deleted)).filterMap
        (scanHit m.sc A (tables (A.ops m.sc) s.dsub s.cbs q') thr F) =
        Flat.cands (mm m A s) l (inject q') thr F := by
      rw [← heff]; rfl
    rw [hc]
    refine ⟨_, rfl, ?_⟩
    have := selectK_isTopK m.sc.le ord.total ord.trans k (Flat.cands (mm m A s) l (inject q') thr F)
    simpa [selectK, List.length_mergeSort] using this

end Comet.PQ
