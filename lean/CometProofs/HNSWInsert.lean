/-
  The effect of insertNode on the graph (helper lemmas for C12): frame lemmas for
  pruneConnections / the linking loop, and the exact effect on layer 0 while no list
  overflows.
-/
import CometProofs.HNSWState
namespace Comet.HNSW

variable {V S : Type}

/-! ### replacing one neighbour list -/

/-- `node.Edges[lc] = l` for the resident vertex `i` -/
def setList (s : State V) (i : Id) (lc : Nat) (l : List Id) : State V :=
  match s.nodes.get? i with
  | some n => { s with nodes := s.nodes.set i (n.setEdges lc l) }
  | none => s

/-- same vertices with the same vectors, levels and numbers of layers; same scalars -/
structure Shape (s s' : State V) : Prop where
  dim : s'.dim = s.dim
  M : s'.M = s.M
  efC : s'.efC = s.efC
  efS : s'.efS = s.efS
  maxLevel : s'.maxLevel = s.maxLevel
  entry : s'.entry = s.entry
  deleted : s'.deleted = s.deleted
  nodes : ∀ j, (s.nodes.get? j = none ∧ s'.nodes.get? j = none) ∨
    ∃ n n', s.nodes.get? j = some n ∧ s'.nodes.get? j = some n' ∧ n'.vec = n.vec ∧
      n'.level = n.level ∧ n'.edges.length = n.edges.length

theorem Shape.refl (s : State V) : Shape s s :=
  ⟨rfl, rfl, rfl, rfl, rfl, rfl, rfl, fun j => by
    cases h : s.nodes.get? j with
    | none => exact Or.inl ⟨rfl, rfl⟩
    | some n => exact Or.inr ⟨n, n, rfl, rfl, rfl, rfl, rfl⟩⟩

theorem Shape.trans {a b c : State V} (h1 : Shape a b) (h2 : Shape b c) : Shape a c := by
  refine ⟨h2.dim.trans h1.dim, h2.M.trans h1.M, h2.efC.trans h1.efC, h2.efS.trans h1.efS,
    h2.maxLevel.trans h1.maxLevel, h2.entry.trans h1.entry, h2.deleted.trans h1.deleted, ?_⟩
  intro j
  rcases h1.nodes j with ⟨ha, hb⟩ | ⟨n, n', ha, hb, hv, hl, he⟩
  · rcases h2.nodes j with ⟨_, hc⟩ | ⟨m1, _, hb', _⟩
    · exact Or.inl ⟨ha, hc⟩
    · rw [hb] at hb'; cases hb'
  · rcases h2.nodes j with ⟨hb', _⟩ | ⟨m1, m2, hb', hc, hv', hl', he'⟩
    · rw [hb] at hb'; cases hb'
    · rw [hb] at hb'; cases hb'
      exact Or.inr ⟨n, m2, ha, hc, hv'.trans hv, hl'.trans hl, he'.trans he⟩

theorem Shape.contains {s s' : State V} (h : Shape s s') (j : Id) :
    s'.nodes.contains j = s.nodes.contains j := by
  rcases h.nodes j with ⟨ha, hb⟩ | ⟨n, n', ha, hb, _⟩
  · simp [IdMap.contains, ha, hb]
  · simp [IdMap.contains, ha, hb]

theorem Shape.isDeleted {s s' : State V} (h : Shape s s') (j : Id) :
    isDeleted s' j = isDeleted s j := by
  simp [HNSW.isDeleted, h.deleted]

theorem Shape.live {s s' : State V} (h : Shape s s') (j : Id) : Live s' j ↔ Live s j := by
  simp [Live, h.contains, h.isDeleted]

theorem Shape.count {s s' : State V} (h : Shape s s') : s'.nodes.keys.Perm s.nodes.keys := by
  rw [List.perm_ext_iff_of_nodup (IdMap.keys_nodup _) (IdMap.keys_nodup _)]
  intro j
  simp [IdMap.mem_keys, h.contains]

theorem setList_shape (s : State V) (i : Id) (lc : Nat) (l : List Id) : Shape s (setList s i lc l) := by
  unfold setList
  cases h : s.nodes.get? i with
  | none => exact Shape.refl s
  | some n =>
    refine ⟨rfl, rfl, rfl, rfl, rfl, rfl, rfl, ?_⟩
    intro j
    simp only [IdMap.get?_set]
    by_cases hij : i = j
    · subst hij
      exact Or.inr ⟨n, n.setEdges lc l, h, by simp, rfl, rfl, by simp [Node.setEdges]⟩
    · simp only [hij, if_false]
      cases h' : s.nodes.get? j with
      | none => exact Or.inl ⟨rfl, rfl⟩
      | some n' => exact Or.inr ⟨n', n', rfl, rfl, rfl, rfl, rfl⟩

/-- the other lists are untouched -/
theorem nbrsAt_setList_ne (s : State V) (i : Id) (lc : Nat) (l : List Id) (l' : Nat) (j : Id)
    (h : ¬ (j = i ∧ l' = lc)) : nbrsAt (setList s i lc l) l' j = nbrsAt s l' j := by
  unfold setList
  cases hn : s.nodes.get? i with
  | none => rfl
  | some n =>
    simp only [nbrsAt, IdMap.get?_set]
    by_cases hij : i = j
    · subst hij
      have hl : l' ≠ lc := fun hh => h ⟨rfl, hh⟩
      simp only [if_true, hn, Node.setEdges]
      rw [List.getElem?_set_ne (Ne.symm hl)]
    · simp [hij]

/-- the replaced list -/
theorem nbrsAt_setList_eq (s : State V) (i : Id) (lc : Nat) (l : List Id) (n : Node V)
    (hn : s.nodes.get? i = some n) (hlc : lc < n.edges.length) :
    nbrsAt (setList s i lc l) lc i = l := by
  simp only [setList, hn, nbrsAt, IdMap.get?_set, if_true, Node.setEdges]
  rw [List.getElem?_set_self hlc]
  rfl

theorem setList_get?_ne (s : State V) (i : Id) (lc : Nat) (l : List Id) (j : Id) (h : i ≠ j) :
    (setList s i lc l).nodes.get? j = s.nodes.get? j := by
  unfold setList
  cases hn : s.nodes.get? i with
  | none => rfl
  | some n => simp [IdMap.get?_set, h]

theorem setList_eq (s : State V) (i : Id) (lc : Nat) (l : List Id) (n : Node V)
    (hn : s.nodes.get? i = some n) :
    setList s i lc l = { s with nodes := s.nodes.set i (n.setEdges lc l) } := by
  simp [setList, hn]

theorem setList_get?_self (s : State V) (i : Id) (lc : Nat) (l : List Id) (n : Node V)
    (hn : s.nodes.get? i = some n) : (setList s i lc l).nodes.get? i = some (n.setEdges lc l) := by
  simp [setList, hn, IdMap.get?_set]

theorem mem_take_of {α : Type} {n : Nat} {l : List α} {a : α} (h : a ∈ l.take n) : a ∈ l :=
  List.mem_of_mem_take h

section
variable (m : Metric V S)

/-- `pruneConnections` replaces one list by a sub-selection of it -/
theorem prune_spec (s s' : State V) (i : Id) (lc M' : Nat) (h : prune m s i lc M' = .ok s') :
    ∃ n el keep, s.nodes.get? i = some n ∧ n.edges[lc]? = some el ∧ (∀ t ∈ keep, t ∈ el) ∧
      s' = setList s i lc keep := by
  simp only [prune] at h
  split at h
  · cases h
  · next n hn =>
    have hn' := node!_eq hn
    split at h
    · cases h
    · next el he =>
      simp only [Except.ok.injEq] at h
      refine ⟨n, el, ((sortAsc m.sc.lt (el.filterMap fun nid =>
        match s.nodes.get? nid with
        | none => none
        | some o => some (⟨nid, m.dist n.vec o.vec⟩ : Hit S))).take M').map (·.id), hn', he, ?_, ?_⟩
      · intro t ht
        obtain ⟨hit, hh, rfl⟩ := List.mem_map.1 ht
        have hh' := (sortAsc_perm m.sc.lt _).mem_iff.1 (mem_take_of hh)
        obtain ⟨nid, hnid, hsome⟩ := List.mem_filterMap.1 hh'
        split at hsome
        · cases hsome
        · simp only [Option.some.injEq] at hsome
          rw [← hsome]; exact hnid
      · rw [← h, setList_eq _ _ _ _ _ hn']; rfl

/-- the effect of one iteration of the linking loop (current statement order: the new
    vertex `x` is registered, `nx` is its node) -/
theorem linkOne_spec (s s' : State V) (x nb : Id) (nx nx' : Node V) (lc M' : Nat)
    (hsync : s.nodes.get? x = some nx)
    (h : linkOne m true s x nx lc M' nb = .ok (s', nx')) :
    Shape s s' ∧ s'.nodes.get? x = some nx' ∧ s.nodes.contains nb = true ∧
    (∀ l j, ¬ ((j = x ∨ j = nb) ∧ l = lc) → nbrsAt s' l j = nbrsAt s l j) ∧
    (x ≠ nb → nbrsAt s' lc x = nbrsAt s lc x ++ [nb]) ∧
    (∀ t ∈ nbrsAt s' lc nb, t ∈ nbrsAt s lc nb ∨ t = x ∨ t = nb) ∧
    (x ≠ nb → (nbrsAt s lc nb).length + 1 ≤ M' → lc ≤ levelOf s nb →
      nbrsAt s' lc nb = nbrsAt s lc nb ++ [x]) := by
  simp only [linkOne] at h
  split at h
  · cases h
  · next ex hex =>
    have hlx : lc < nx.edges.length := by
      rcases List.getElem?_eq_some_iff.1 hex with ⟨hl, _⟩; exact hl
    simp only [if_true] at h
    -- s1: x's list extended
    have hs1 : ({ s with nodes := s.nodes.set x (nx.setEdges lc (ex ++ [nb])) } : State V) =
        setList s x lc (ex ++ [nb]) := by simp [setList, hsync]
    rw [hs1] at h
    have hex' : nbrsAt s lc x = ex := by simp [nbrsAt, hsync, hex]
    have sh1 := setList_shape s x lc (ex ++ [nb])
    have hx1 : (setList s x lc (ex ++ [nb])).nodes.get? x = some (nx.setEdges lc (ex ++ [nb])) :=
      setList_get?_self s x lc _ nx hsync
    have hxl1 : nbrsAt (setList s x lc (ex ++ [nb])) lc x = ex ++ [nb] :=
      nbrsAt_setList_eq s x lc _ nx hsync hlx
    split at h
    · cases h
    · next nbNode hnb =>
      have hnb' := node!_eq hnb
      have hres : s.nodes.contains nb = true := by
        rw [← sh1.contains]; exact IdMap.contains_iff.2 ⟨nbNode, hnb'⟩
      split at h
      · next hlev =>
        split at h
        · cases h
        · next enb henb =>
          have hlnb : lc < nbNode.edges.length := by
            rcases List.getElem?_eq_some_iff.1 henb with ⟨hl, _⟩; exact hl
          have hs2 : ({ s with nodes := ((s.nodes.set x (nx.setEdges lc (ex ++ [nb]))).set nb (nbNode.setEdges lc (enb ++ [x]))) } : State V) =
              setList (setList s x lc (ex ++ [nb])) nb lc (enb ++ [x]) := by
            rw [setList_eq _ _ _ _ _ hnb', setList_eq _ _ _ _ _ hsync]
          rw [hs2] at h
          have sh2 := setList_shape (setList s x lc (ex ++ [nb])) nb lc (enb ++ [x])
          have henb1 : nbrsAt (setList s x lc (ex ++ [nb])) lc nb = enb := by
            simp only [nbrsAt, hnb', henb]; rfl
          have hnl2 : nbrsAt (setList (setList s x lc (ex ++ [nb])) nb lc (enb ++ [x])) lc nb = enb ++ [x] :=
            nbrsAt_setList_eq _ nb lc _ nbNode hnb' hlnb
          -- what s1's list of nb is in terms of s
          have henb_s : x ≠ nb → nbrsAt s lc nb = enb := by
            intro hne
            rw [← henb1]
            exact (nbrsAt_setList_ne s x lc _ lc nb (by intro hh; exact hne hh.1.symm)).symm
          have hsub_s : ∀ t ∈ enb, t ∈ nbrsAt s lc nb ∨ t = nb := by
            intro t ht
            by_cases hne : x = nb
            · subst hne
              rw [hxl1] at henb1
              rw [← henb1] at ht
              rcases List.mem_append.1 ht with h1 | h1
              · left; rw [hex']; exact h1
              · right; simpa using h1
            · left; rw [henb_s hne]; exact ht
          split at h
          · next hover =>
            split at h
            · cases h
            · next s3 hpr =>
              simp only [Except.ok.injEq, Prod.mk.injEq] at h
              obtain ⟨hs', hnx'⟩ := h
              obtain ⟨n2, el, keep, hn2, hel, hkeep, hs3⟩ := prune_spec m _ s3 nb lc M' hpr
              have hel' : el = enb ++ [x] := by
                have : nbrsAt (setList (setList s x lc (ex ++ [nb])) nb lc (enb ++ [x])) lc nb = el := by
                  simp [nbrsAt, hn2, hel]
                rw [← this, hnl2]
              have hl2 : lc < n2.edges.length := by
                rcases List.getElem?_eq_some_iff.1 hel with ⟨hl, _⟩; exact hl
              have sh3 : Shape (setList (setList s x lc (ex ++ [nb])) nb lc (enb ++ [x])) s3 := by
                rw [hs3]; exact setList_shape _ nb lc keep
              have hshape : Shape s s3 := (sh1.trans sh2).trans sh3
              have hkeepl : nbrsAt s3 lc nb = keep := by
                rw [hs3]; exact nbrsAt_setList_eq _ nb lc _ n2 hn2 hl2
              subst hs'
              refine ⟨hshape, ?_, hres, ?_, ?_, ?_, ?_⟩
              · -- sync
                rcases hshape.nodes x with ⟨ha, _⟩ | ⟨n, n', ha, hb, _⟩
                · rw [hsync] at ha; cases ha
                · rw [hb] at hnx'; simp only at hnx'; rw [hb, hnx']
              · intro l j hj
                rw [hs3, nbrsAt_setList_ne _ nb lc keep l j (fun hh => hj ⟨Or.inr hh.1, hh.2⟩),
                  nbrsAt_setList_ne _ nb lc _ l j (fun hh => hj ⟨Or.inr hh.1, hh.2⟩),
                  nbrsAt_setList_ne _ x lc _ l j (fun hh => hj ⟨Or.inl hh.1, hh.2⟩)]
              · intro hne
                rw [hs3, nbrsAt_setList_ne _ nb lc keep lc x (fun hh => hne hh.1),
                  nbrsAt_setList_ne _ nb lc _ lc x (fun hh => hne hh.1), hxl1, hex']
              · intro t ht
                rw [hkeepl] at ht
                have := hkeep t ht
                rw [hel'] at this
                rcases List.mem_append.1 this with h1 | h1
                · rcases hsub_s t h1 with h2 | h2
                  · exact Or.inl h2
                  · exact Or.inr (Or.inr h2)
                · exact Or.inr (Or.inl (by simpa using h1))
              · intro hne hfit _
                exfalso
                rw [henb_s hne] at hfit
                simp only [List.length_append, List.length_cons, List.length_nil] at hover
                omega
          · next hover =>
            simp only [Except.ok.injEq, Prod.mk.injEq] at h
            obtain ⟨hs', hnx'⟩ := h
            have hnodes : ((s.nodes.set x (nx.setEdges lc (ex ++ [nb]))).set nb (nbNode.setEdges lc (enb ++ [x]))) =
                (setList (setList s x lc (ex ++ [nb])) nb lc (enb ++ [x])).nodes := congrArg State.nodes hs2
            rw [hnodes] at hnx'
            have hshape : Shape s _ := sh1.trans sh2
            subst hs'
            refine ⟨hshape, ?_, hres, ?_, ?_, ?_, ?_⟩
            · rcases hshape.nodes x with ⟨ha, _⟩ | ⟨n, n', ha, hb, _⟩
              · rw [hsync] at ha; cases ha
              · rw [hb] at hnx'; simp only at hnx'; rw [hb, hnx']
            · intro l j hj
              rw [nbrsAt_setList_ne _ nb lc _ l j (fun hh => hj ⟨Or.inr hh.1, hh.2⟩),
                nbrsAt_setList_ne _ x lc _ l j (fun hh => hj ⟨Or.inl hh.1, hh.2⟩)]
            · intro hne
              rw [nbrsAt_setList_ne _ nb lc _ lc x (fun hh => hne hh.1), hxl1, hex']
            · intro t ht
              rw [hnl2] at ht
              rcases List.mem_append.1 ht with h1 | h1
              · rcases hsub_s t h1 with h2 | h2
                · exact Or.inl h2
                · exact Or.inr (Or.inr h2)
              · exact Or.inr (Or.inl (by simpa using h1))
            · intro hne _ _
              rw [hnl2, henb_s hne]
      · next hlev =>
        simp only [Except.ok.injEq, Prod.mk.injEq] at h
        obtain ⟨hs', hnx'⟩ := h
        subst hs'
        have hlevS : ¬ lc ≤ levelOf s nb := by
          intro hh
          apply hlev
          rcases sh1.nodes nb with ⟨_, hb⟩ | ⟨n, n', ha, hb, _, hl, _⟩
          · rw [hnb'] at hb; cases hb
          · rw [hnb'] at hb; cases hb
            simp only [levelOf, ha] at hh
            omega
        refine ⟨sh1, ?_, hres, ?_, ?_, ?_, ?_⟩
        · rw [hx1, hnx']
        · intro l j hj
          rw [nbrsAt_setList_ne _ x lc _ l j (fun hh => hj ⟨Or.inl hh.1, hh.2⟩)]
        · intro _; rw [hxl1, hex']
        · intro t ht
          by_cases hne : x = nb
          · subst hne
            rw [hxl1] at ht
            rcases List.mem_append.1 ht with h1 | h1
            · left; rw [hex']; exact h1
            · right; left; simpa using h1
          · rw [nbrsAt_setList_ne _ x lc _ lc nb (fun hh => hne hh.1.symm)] at ht
            exact Or.inl ht
        · intro _ _ hh; exact absurd hh hlevS

theorem Shape.levelOf {s s' : State V} (h : Shape s s') (j : Id) : levelOf s' j = levelOf s j := by
  rcases h.nodes j with ⟨ha, hb⟩ | ⟨n, n', ha, hb, _, hl, _⟩
  · simp [HNSW.levelOf, ha, hb]
  · simp [HNSW.levelOf, ha, hb, hl]

/-- frame of the whole linking loop on layer `lc` -/
theorem linkAll_frame (x : Id) (lc M' : Nat) :
    ∀ (nbs : List Id) (s s' : State V) (nx nx' : Node V),
      s.nodes.get? x = some nx →
      linkAll m true x lc M' nbs (s, nx) = .ok (s', nx') →
      Shape s s' ∧ s'.nodes.get? x = some nx' ∧ (∀ nb ∈ nbs, s.nodes.contains nb = true) ∧
      (∀ l j, l ≠ lc → nbrsAt s' l j = nbrsAt s l j) ∧
      (∀ j t, t ∈ nbrsAt s' lc j → t ∈ nbrsAt s lc j ∨ t = x ∨ t ∈ nbs) := by
  intro nbs
  induction nbs with
  | nil =>
    intro s s' nx nx' hsync h
    simp only [linkAll, Except.ok.injEq, Prod.mk.injEq] at h
    obtain ⟨rfl, rfl⟩ := h
    exact ⟨Shape.refl s, hsync, by simp, fun _ _ _ => rfl, fun _ _ ht => Or.inl ht⟩
  | cons nb rest ih =>
    intro s s' nx nx' hsync h
    simp only [linkAll] at h
    split at h
    · cases h
    · next acc hone =>
      obtain ⟨s1, nx1⟩ := acc
      obtain ⟨sh1, hsync1, hres1, hfr1, _, hsub1, _⟩ := linkOne_spec m s s1 x nb nx nx1 lc M' hsync hone
      obtain ⟨sh2, hsync2, hres2, hfr2, hsub2⟩ := ih s1 s' nx1 nx' hsync1 h
      refine ⟨sh1.trans sh2, hsync2, ?_, ?_, ?_⟩
      · intro nb' hnb'
        rcases List.mem_cons.1 hnb' with rfl | hnb'
        · exact hres1
        · rw [← sh1.contains]; exact hres2 nb' hnb'
      · intro l j hl
        rw [hfr2 l j hl, hfr1 l j (fun hh => hl hh.2)]
      · intro j t ht
        rcases hsub2 j t ht with h1 | h1 | h1
        · by_cases hj : j = x ∨ j = nb
          · rcases hj with rfl | rfl
            · by_cases hxn : j = nb
              · subst hxn
                rcases hsub1 t h1 with h2 | h2 | h2
                · exact Or.inl h2
                · exact Or.inr (Or.inl h2)
                · exact Or.inr (Or.inr (by simp [h2]))
              · have := (linkOne_spec m s s1 j nb nx nx1 lc M' hsync hone).2.2.2.2.1 hxn
                rw [this] at h1
                rcases List.mem_append.1 h1 with h2 | h2
                · exact Or.inl h2
                · exact Or.inr (Or.inr (by simp at h2; simp [h2]))
            · rcases hsub1 t h1 with h2 | h2 | h2
              · exact Or.inl h2
              · exact Or.inr (Or.inl h2)
              · exact Or.inr (Or.inr (by simp [h2]))
          · rw [hfr1 lc j (fun hh => hj hh.1)] at h1
            exact Or.inl h1
        · exact Or.inr (Or.inl h1)
        · exact Or.inr (Or.inr (List.mem_cons_of_mem _ h1))

/-- exact effect of the linking loop while no neighbour list overflows -/
theorem linkAll_exact (x : Id) (lc M' : Nat) :
    ∀ (nbs : List Id) (s s' : State V) (nx nx' : Node V),
      s.nodes.get? x = some nx → nbs.Nodup → x ∉ nbs →
      (∀ nb ∈ nbs, lc ≤ levelOf s nb ∧ (nbrsAt s lc nb).length + 1 ≤ M') →
      linkAll m true x lc M' nbs (s, nx) = .ok (s', nx') →
      nbrsAt s' lc x = nbrsAt s lc x ++ nbs ∧
      (∀ nb ∈ nbs, nbrsAt s' lc nb = nbrsAt s lc nb ++ [x]) ∧
      (∀ j, j ≠ x → j ∉ nbs → nbrsAt s' lc j = nbrsAt s lc j) := by
  intro nbs
  induction nbs with
  | nil =>
    intro s s' nx nx' _ _ _ _ h
    simp only [linkAll, Except.ok.injEq, Prod.mk.injEq] at h
    obtain ⟨rfl, rfl⟩ := h
    simp
  | cons nb rest ih =>
    intro s s' nx nx' hsync hnd hx hfit h
    simp only [linkAll] at h
    split at h
    · cases h
    · next acc hone =>
      obtain ⟨s1, nx1⟩ := acc
      have hxnb : x ≠ nb := fun hh => hx (by simp [hh])
      obtain ⟨sh1, hsync1, _, hfr1, hx1, _, hnb1⟩ := linkOne_spec m s s1 x nb nx nx1 lc M' hsync hone
      have hnd' := (List.nodup_cons.1 hnd)
      have hfit' : ∀ nb' ∈ rest, lc ≤ levelOf s1 nb' ∧ (nbrsAt s1 lc nb').length + 1 ≤ M' := by
        intro nb' hnb'
        have hne : nb' ≠ nb := fun hh => hnd'.1 (hh ▸ hnb')
        have hne' : nb' ≠ x := fun hh => hx (by simp [← hh, hnb'])
        rw [sh1.levelOf, hfr1 lc nb' (fun hh => by rcases hh.1 with h1 | h1 <;> contradiction)]
        exact hfit nb' (List.mem_cons_of_mem _ hnb')
      obtain ⟨h1, h2, h3⟩ := ih s1 s' nx1 nx' hsync1 hnd'.2 (fun hh => hx (List.mem_cons_of_mem _ hh)) hfit' h
      have hfitnb := hfit nb (by simp)
      refine ⟨?_, ?_, ?_⟩
      · rw [h1, hx1 hxnb]; simp
      · intro nb' hnb'
        rcases List.mem_cons.1 hnb' with rfl | hnb'
        · rw [h3 nb' (Ne.symm hxnb) hnd'.1, hnb1 hxnb hfitnb.2 hfitnb.1]
        · have hne : nb' ≠ nb := fun hh => hnd'.1 (hh ▸ hnb')
          have hne' : nb' ≠ x := fun hh => hx (by simp [← hh, hnb'])
          rw [h2 nb' hnb', hfr1 lc nb' (fun hh => by rcases hh.1 with h1 | h1 <;> contradiction)]
      · intro j hjx hj
        have hjnb : j ≠ nb := fun hh => hj (by simp [hh])
        rw [h3 j hjx (fun hh => hj (List.mem_cons_of_mem _ hh)),
          hfr1 lc j (fun hh => by rcases hh.1 with h1 | h1 <;> contradiction)]

/-! ### selectNeighbors -/

theorem selectNeighbors_sub (lt : S → S → Bool) (cands : List (Hit S)) (M' : Nat) :
    ∀ i ∈ selectNeighbors lt cands M', i ∈ cands.map (·.id) := by
  intro i hi
  simp only [selectNeighbors] at hi
  split at hi
  · exact hi
  · obtain ⟨c, hc, rfl⟩ := List.mem_map.1 hi
    exact List.mem_map.2 ⟨c, (sortAsc_perm lt cands).mem_iff.1 (mem_take_of hc), rfl⟩

theorem selectNeighbors_nodup (lt : S → S → Bool) (cands : List (Hit S)) (M' : Nat)
    (h : (cands.map (·.id)).Nodup) : (selectNeighbors lt cands M').Nodup := by
  simp only [selectNeighbors]
  split
  · exact h
  · have hp : ((sortAsc lt cands).map (·.id)).Nodup := ((sortAsc_perm lt cands).map _).nodup_iff.2 h
    exact hp.sublist ((List.take_sublist _ _).map _)

theorem selectNeighbors_all (lt : S → S → Bool) (cands : List (Hit S)) (M' : Nat)
    (h : cands.length ≤ M') : selectNeighbors lt cands M' = cands.map (·.id) := by
  simp [selectNeighbors, h]

/-- nothing on a layer without in-edges to `x` is reached from elsewhere -/
theorem reach_ne {s : State V} {layer : Nat} {curr x : Id} (hcurr : curr ≠ x)
    (hno : ∀ j, x ∉ nbrsAt s layer j) : ∀ v, Reach (nbrsAt s layer) curr v → v ≠ x := by
  intro v hv
  induction hv with
  | refl => exact hcurr
  | step _ hw _ =>
    intro hh
    subst hh
    exact hno _ hw

/-- the layer loop never changes the vertex set, vectors, levels or scalars -/
theorem insertLayers_shape (x : Id) (q : V) :
    ∀ (ls : List Nat) (t t' : State V) (nx nx' : Node V) (curr : Id),
      t.nodes.get? x = some nx →
      insertLayers m true x q ls (t, nx, curr) = .ok (t', nx') →
      Shape t t' ∧ t'.nodes.get? x = some nx' := by
  intro ls
  induction ls with
  | nil =>
    intro t t' nx nx' curr hsync h
    simp only [insertLayers, Except.ok.injEq, Prod.mk.injEq] at h
    obtain ⟨rfl, rfl⟩ := h
    exact ⟨Shape.refl t, hsync⟩
  | cons lc rest ih =>
    intro t t' nx nx' curr hsync h
    simp only [insertLayers] at h
    split at h
    · cases h
    · split at h
      · cases h
      · next t1 nx1 hlink =>
        obtain ⟨sh1, hsync1, _⟩ := linkAll_frame m x lc _ _ t t1 nx nx1 hsync hlink
        obtain ⟨sh2, hsync2⟩ := ih t1 t' nx1 nx' _ hsync1 h
        exact ⟨sh1.trans sh2, hsync2⟩

/-! ### the layer loop of insertNode in the small regime -/

/-- hypotheses on the state right after the new vertex `x` has been registered
    (`idx.nodes[id] = node`), before `insertNode` links it -/
structure Pre (t0 : State V) (x : Id) : Prop where
  x_res : t0.nodes.contains x = true
  x_live : isDeleted t0 x = false
  x_empty : ∀ l, nbrsAt t0 l x = []
  no_in : ∀ l j, x ∉ nbrsAt t0 l j
  resolves : ∀ l j w, w ∈ nbrsAt t0 l j → t0.nodes.contains w = true
  l0 : ∀ j, t0.nodes.contains j = true → (nbrsAt t0 0 j).Nodup ∧ j ∉ nbrsAt t0 0 j
  comp : ∀ u v, Live t0 u → u ≠ x → Live t0 v → v ≠ x → u ≠ v → v ∈ nbrsAt t0 0 u
  small : t0.nodes.count ≤ 2 * t0.M + 1
  efOK : t0.nodes.count ≤ t0.efC + 1

/-- layer 0 after the new vertex has been linked on it -/
structure L0Final (t0 t : State V) (x : Id) : Prop where
  x_nodup : (nbrsAt t 0 x).Nodup
  x_mem : ∀ v, v ∈ nbrsAt t 0 x ↔ (Live t0 v ∧ v ≠ x)
  back : ∀ v, Live t0 v → v ≠ x → nbrsAt t 0 v = nbrsAt t0 0 v ++ [x]
  rest : ∀ j, j ≠ x → ¬ Live t0 j → nbrsAt t 0 j = nbrsAt t0 0 j

/-- loop invariant of `for lc := node.Level; lc >= 0; lc--`; `ls` = layers still to do -/
structure J (t0 t : State V) (x : Id) (nx : Node V) (curr : Id) (ls : List Nat) : Prop where
  shape : Shape t0 t
  sync : t.nodes.get? x = some nx
  resolves : ∀ l j w, w ∈ nbrsAt t l j → t.nodes.contains w = true
  no_in : ∀ l ∈ ls, ∀ j, x ∉ nbrsAt t l j
  x_empty : ∀ l ∈ ls, nbrsAt t l x = []
  curr_ok : Live t0 curr ∧ curr ≠ x
  l0a : 0 ∈ ls → ∀ j, nbrsAt t 0 j = nbrsAt t0 0 j
  l0b : 0 ∉ ls → L0Final t0 t x

theorem head_ok (P : Id → Prop) (cands : List (Hit S)) (curr : Id)
    (hc : ∀ c ∈ cands, P c.id) (h0 : P curr) :
    P (match (generalizing := false) cands with | c :: _ => c.id | [] => curr) := by
  cases cands with
  | nil => exact h0
  | cons c _ => exact hc c (by simp)

/-- residents other than `x`, as a list -/
theorem old_card (t0 : State V) (x : Id) (hx : t0.nodes.contains x = true) (l : List Id)
    (hnd : l.Nodup) (hsub : ∀ v ∈ l, t0.nodes.contains v = true ∧ v ≠ x) :
    l.length + 1 ≤ t0.nodes.count := by
  have hsp : (x :: l).Subperm t0.nodes.keys := by
    refine List.subperm_of_subset (List.nodup_cons.2 ⟨fun hh => (hsub x hh).2 rfl, hnd⟩) ?_
    intro v hv
    rcases List.mem_cons.1 hv with rfl | hv
    · exact IdMap.mem_keys.2 hx
    · exact IdMap.mem_keys.2 (hsub v hv).1
  simpa [IdMap.count] using hsp.length_le

theorem insertLayers_inv (t0 : State V) (x : Id) (q : V) (hpre : Pre t0 x) :
    ∀ (ls : List Nat) (t t' : State V) (nx nx' : Node V) (curr : Id), ls.Nodup →
      J t0 t x nx curr ls →
      insertLayers m true x q ls (t, nx, curr) = .ok (t', nx') →
      ∃ curr', J t0 t' x nx' curr' [] := by
  intro ls
  induction ls with
  | nil =>
    intro t t' nx nx' curr _ hJ h
    simp only [insertLayers, Except.ok.injEq, Prod.mk.injEq] at h
    obtain ⟨rfl, rfl⟩ := h
    exact ⟨curr, hJ⟩
  | cons lc rest ih =>
    intro t t' nx nx' curr hnd hJ h
    have hnd' := List.nodup_cons.1 hnd
    simp only [insertLayers] at h
    split at h
    · cases h
    · next cands hsl =>
      split at h
      · cases h
      · next t1 nx1 hlink =>
        -- the search on this layer
        obtain ⟨hs1, hs2⟩ := searchLayer_sound m t q t.efC lc curr cands hsl
        have hcurrT : Live t curr := (hJ.shape.live curr).2 hJ.curr_ok.1
        have hnoin := hJ.no_in lc (by simp)
        have hcne : ∀ c ∈ cands, c.id ≠ x ∧ Live t0 c.id := by
          intro c hc
          obtain ⟨hR, hdel, n, hn, _⟩ := hs1 c hc
          refine ⟨reach_ne hJ.curr_ok.2 hnoin _ hR, (hJ.shape.live _).1 ⟨IdMap.contains_iff.2 ⟨n, hn⟩, hdel⟩⟩
        -- the selected neighbours
        have hM : (if (lc == 0) = true then t.M * 2 else t.M) = (if lc = 0 then t.M * 2 else t.M) := by
          by_cases h0 : lc = 0 <;> simp [h0]
        rw [hM] at hlink
        generalize hM' : (if lc = 0 then t.M * 2 else t.M) = M' at hlink
        have hnsub := selectNeighbors_sub m.sc.lt cands M'
        have hnnd := selectNeighbors_nodup m.sc.lt cands M' hs2
        have hnok : ∀ nb ∈ selectNeighbors m.sc.lt cands M', nb ≠ x ∧ Live t0 nb := by
          intro nb hnb
          obtain ⟨c, hc, rfl⟩ := List.mem_map.1 (hnsub nb hnb)
          exact hcne c hc
        obtain ⟨sh1, hsync1, _, hfr1, hsub1⟩ :=
          linkAll_frame m x lc M' _ t t1 nx nx1 hJ.sync hlink
        -- the next entry vertex
        have hcurr' := head_ok (fun i => Live t0 i ∧ i ≠ x) cands curr
          (fun c hc => ⟨(hcne c hc).2, (hcne c hc).1⟩) hJ.curr_ok
        refine ih t1 t' nx1 nx' _ hnd'.2 ?_ h
        have hxres : t1.nodes.contains x = true := IdMap.contains_iff.2 ⟨nx1, hsync1⟩
        refine ⟨hJ.shape.trans sh1, hsync1, ?_, ?_, ?_, hcurr', ?_, ?_⟩
        · -- resolves
          intro l j w hw
          by_cases hl : l = lc
          · subst hl
            rcases hsub1 j w hw with h1 | h1 | h1
            · rw [sh1.contains]; exact hJ.resolves _ _ _ h1
            · rw [h1]; exact hxres
            · rw [(hJ.shape.trans sh1).contains]; exact (hnok w h1).2.1
          · rw [hfr1 l j hl] at hw
            rw [sh1.contains]; exact hJ.resolves _ _ _ hw
        · intro l hl j
          have hne : l ≠ lc := fun hh => hnd'.1 (hh ▸ hl)
          rw [hfr1 l j hne]; exact hJ.no_in l (List.mem_cons_of_mem _ hl) j
        · intro l hl
          have hne : l ≠ lc := fun hh => hnd'.1 (hh ▸ hl)
          rw [hfr1 l x hne]; exact hJ.x_empty l (List.mem_cons_of_mem _ hl)
        · intro h0 j
          have hne : 0 ≠ lc := fun hh => hnd'.1 (hh ▸ h0)
          rw [hfr1 0 j hne]; exact hJ.l0a (List.mem_cons_of_mem _ h0) j
        · intro h0
          by_cases hlc : lc = 0
          · -- this is the bottom layer: exact effect
            subst hlc
            have hl0 := hJ.l0a (by simp)
            have hM2 : M' = t0.M * 2 := by rw [← hM']; simp [hJ.shape.M]
            -- the candidates are exactly the old live vertices
            have hRold : ∀ v, RL t 0 curr v → t0.nodes.contains v = true ∧ v ≠ x := by
              intro v hv
              refine ⟨?_, reach_ne hJ.curr_ok.2 hnoin v hv⟩
              induction hv with
              | refl => exact hJ.curr_ok.1.1
              | step _ hw _ => rw [← hJ.shape.contains]; exact hJ.resolves _ _ _ hw
            have holdR : ∀ v, Live t0 v → v ≠ x → RL t 0 curr v := by
              intro v hv hvx
              by_cases hvc : curr = v
              · subst hvc; exact Reach.refl
              · refine Reach.step Reach.refl ?_
                rw [hl0]
                exact hpre.comp curr v hJ.curr_ok.1 hJ.curr_ok.2 hv hvx hvc
            -- cover for completeness: the old live ids
            have hcov : ∀ v, RL t 0 curr v → isDeleted t v = false → v ∈ (liveIds t0).erase x := by
              intro v hv hvd
              obtain ⟨h1, h2⟩ := hRold v hv
              exact (List.mem_erase_of_ne h2).2 (mem_liveIds.2 ⟨h1, by rw [← hJ.shape.isDeleted]; exact hvd⟩)
            have hxl : x ∈ liveIds t0 := mem_liveIds.2 ⟨hpre.x_res, hpre.x_live⟩
            have hlen : ((liveIds t0).erase x).length ≤ t.efC := by
              rw [List.length_erase_of_mem hxl, hJ.shape.efC]
              have h1 : (liveIds t0).length ≤ t0.nodes.count := by
                simp only [liveIds, IdMap.count]; exact List.length_filter_le _ _
              have := hpre.efOK
              omega
            have hall := searchLayer_complete m t q t.efC 0 curr _ hcov hlen cands hsl
            -- |cands| ≤ 2M, so every candidate is selected
            have hcl : cands.length + 1 ≤ t0.nodes.count := by
              have := old_card t0 x hpre.x_res (cands.map (·.id)) hs2 (by
                intro v hv
                obtain ⟨c, hc, rfl⟩ := List.mem_map.1 hv
                exact ⟨(hcne c hc).2.1, (hcne c hc).1⟩)
              simpa using this
            have hsel : selectNeighbors m.sc.lt cands M' = cands.map (·.id) :=
              selectNeighbors_all m.sc.lt cands M' (by have := hpre.small; omega)
            rw [hsel] at hlink hnnd hnok
            -- no list overflows
            have hfit : ∀ nb ∈ cands.map (·.id), 0 ≤ levelOf t nb ∧ (nbrsAt t 0 nb).length + 1 ≤ M' := by
              intro nb hnb
              refine ⟨Nat.zero_le _, ?_⟩
              obtain ⟨hnx, hnl⟩ := hnok nb hnb
              rw [hl0]
              have hwf := hpre.l0 nb hnl.1
              have := old_card t0 x hpre.x_res (nb :: nbrsAt t0 0 nb)
                (List.nodup_cons.2 ⟨hwf.2, hwf.1⟩) (by
                  intro v hv
                  rcases List.mem_cons.1 hv with rfl | hv
                  · exact ⟨hnl.1, hnx⟩
                  · exact ⟨hpre.resolves _ _ _ hv, fun hh => hpre.no_in 0 nb (hh ▸ hv)⟩)
              have hs := hpre.small
              simp only [List.length_cons] at this
              omega
            obtain ⟨e1, e2, e3⟩ := linkAll_exact m x 0 M' _ t t1 nx nx1 hJ.sync hnnd
              (fun hh => (hnok x hh).1 rfl) hfit hlink
            have hmemc : ∀ v, v ∈ cands.map (·.id) ↔ (Live t0 v ∧ v ≠ x) := by
              intro v
              constructor
              · intro hv; exact ⟨(hnok v hv).2, (hnok v hv).1⟩
              · rintro ⟨h1, h2⟩; exact hall v (holdR v h1 h2) (by rw [hJ.shape.isDeleted]; exact h1.2)
            refine ⟨?_, ?_, ?_, ?_⟩
            · rw [e1, hJ.x_empty 0 (by simp)]; simpa using hnnd
            · intro v
              rw [e1, hJ.x_empty 0 (by simp)]
              simpa using hmemc v
            · intro v hv hvx
              rw [e2 v ((hmemc v).2 ⟨hv, hvx⟩), hl0]
            · intro j hjx hj
              rw [e3 j hjx (fun hh => hj ((hmemc j).1 hh).1), hl0]
          · -- an upper layer: layer 0 is untouched
            have h0' : 0 ∉ lc :: rest := by
              intro hh
              rcases List.mem_cons.1 hh with hh | hh
              · exact hlc hh.symm
              · exact h0 hh
            have hf := hJ.l0b h0'
            have hne : 0 ≠ lc := fun hh => hlc hh.symm
            exact ⟨by rw [hfr1 0 x hne]; exact hf.x_nodup,
              by intro v; rw [hfr1 0 x hne]; exact hf.x_mem v,
              by intro v hv hvx; rw [hfr1 0 v hne]; exact hf.back v hv hvx,
              by intro j hjx hj; rw [hfr1 0 j hne]; exact hf.rest j hjx hj⟩

end
end Comet.HNSW
