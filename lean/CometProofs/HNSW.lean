/-
  Helper lemmas for C12 (HNSW).  Property theorems are in Properties/C12.lean.
-/
import Comet.Vector.HNSW
namespace Comet.HNSW

/-! ### the toy instance used by witnesses and non-vacuity examples:
    points on the integer line, distance |a − b| ∈ ℕ -/

def toy : Metric Int Nat where
  dimOf _ := 1
  pre v := some v
  dist a b := (a - b).natAbs
  sc := { zero := 0, add := (· + ·), divNat := fun a n => a / n,
          le := fun a b => decide (a ≤ b), lt := fun a b => decide (a < b) }

theorem toy_ordered : toy.sc.Ordered where
  total a b := by simp only [toy, Bool.or_eq_true, decide_eq_true_eq]; omega
  trans a b c := by simp only [toy, decide_eq_true_eq]; omega
  lt_iff a b := by simp only [toy]; by_cases h : a < b <;> simp [h] <;> omega

/-! ### reachability checker -/

theorem Reach.trans {succ : Id → List Id} {e u v : Id}
    (h1 : Reach succ e u) (h2 : Reach succ u v) : Reach succ e v := by
  induction h2 with
  | refl => exact h1
  | step _ hv ih => exact Reach.step ih hv

/-- soundness + completeness invariant of the depth-first closure -/
theorem dfs_spec (succ : Id → List Id) (e : Id) :
    ∀ (fuel : Nat) (st vis r : List Id),
      dfs succ fuel st vis = some r →
      (∀ x ∈ st, Reach succ e x) → (∀ x ∈ vis, Reach succ e x) →
      (∀ u ∈ vis, ∀ w ∈ succ u, w ∈ vis ∨ w ∈ st) →
      (∀ x ∈ r, Reach succ e x) ∧ (∀ u ∈ r, ∀ w ∈ succ u, w ∈ r) ∧
      (∀ x ∈ vis, x ∈ r) ∧ (∀ x ∈ st, x ∈ r) := by
  intro fuel
  induction fuel with
  | zero =>
    intro st vis r h hst hvis hcl
    cases st with
    | nil =>
      simp only [dfs, Option.some.injEq] at h; subst h
      refine ⟨hvis, ?_, fun x hx => hx, by simp⟩
      intro u hu w hw
      rcases hcl u hu w hw with h | h
      · exact h
      · cases h
    | cons a t => simp [dfs] at h
  | succ n ih =>
    intro st vis r h hst hvis hcl
    cases st with
    | nil =>
      simp only [dfs, Option.some.injEq] at h; subst h
      refine ⟨hvis, ?_, fun x hx => hx, by simp⟩
      intro u hu w hw
      rcases hcl u hu w hw with h | h
      · exact h
      · cases h
    | cons a t =>
      simp only [dfs] at h
      split at h
      · next hmem =>
        obtain ⟨h1, h2, h3, h4⟩ := ih t vis r h (fun x hx => hst x (List.mem_cons_of_mem _ hx)) hvis
          (by
            intro u hu w hw
            rcases hcl u hu w hw with h | h
            · exact Or.inl h
            · rcases List.mem_cons.1 h with rfl | h
              · exact Or.inl hmem
              · exact Or.inr h)
        refine ⟨h1, h2, h3, ?_⟩
        intro x hx
        rcases List.mem_cons.1 hx with rfl | hx
        · exact h3 _ hmem
        · exact h4 x hx
      · next hmem =>
        have ha : Reach succ e a := hst a (by simp)
        obtain ⟨h1, h2, h3, h4⟩ := ih (succ a ++ t) (a :: vis) r h
          (by
            intro x hx
            rcases List.mem_append.1 hx with hx | hx
            · exact Reach.step ha hx
            · exact hst x (List.mem_cons_of_mem _ hx))
          (by
            intro x hx
            rcases List.mem_cons.1 hx with rfl | hx
            · exact ha
            · exact hvis x hx)
          (by
            intro u hu w hw
            rcases List.mem_cons.1 hu with rfl | hu
            · exact Or.inr (List.mem_append.2 (Or.inl hw))
            · rcases hcl u hu w hw with h | h
              · exact Or.inl (List.mem_cons_of_mem _ h)
              · rcases List.mem_cons.1 h with rfl | h
                · exact Or.inl (by simp)
                · exact Or.inr (List.mem_append.2 (Or.inr h)))
        refine ⟨h1, h2, fun x hx => h3 x (List.mem_cons_of_mem _ hx), ?_⟩
        intro x hx
        rcases List.mem_cons.1 hx with rfl | hx
        · exact h3 _ (by simp)
        · exact h4 x (List.mem_append.2 (Or.inr hx))

end Comet.HNSW
