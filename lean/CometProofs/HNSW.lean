/-
  Helper lemmas for C12 (HNSW).  Property theorems are in Properties/C12.lean.
-/
import Comet.Vector.HNSW
import Mathlib.Data.List.Perm.Subperm
import Mathlib.Data.List.Nodup
namespace Comet.HNSW

/-! ### the toy instance used by witnesses and non-vacuity examples:
    points on the integer line, distance |a − b| ∈ ℕ -/

def toy : Metric Int Nat where
  dimOf _ := 1
  pre v := some v
  dist a b := (a - b).natAbs
  sc := { zero := 0, add := (· + ·), divNat := fun a n => a / n,
          le := fun a b => decide (a ≤ b), lt := fun a b => decide (a < b) }

theorem toy_ordered : toy.sc.Ordered where
  total a b := by simp only [toy, Bool.or_eq_true, decide_eq_true_eq]; omega
  trans a b c := by simp only [toy, decide_eq_true_eq]; omega
  lt_iff a b := by simp only [toy]; by_cases h : a < b <;> simp [h] <;> omega

/-! ### reachability checker -/

theorem Reach.trans {succ : Id → List Id} {e u v : Id}
    (h1 : Reach succ e u) (h2 : Reach succ u v) : Reach succ e v := by
  induction h2 with
  | refl => exact h1
  | step _ hv ih => exact Reach.step ih hv

/-- soundness + completeness invariant of the depth-first closure -/
theorem dfs_spec (succ : Id → List Id) (e : Id) :
    ∀ (fuel : Nat) (st vis r : List Id),
      dfs succ fuel st vis = some r →
      (∀ x ∈ st, Reach succ e x) → (∀ x ∈ vis, Reach succ e x) →
      (∀ u ∈ vis, ∀ w ∈ succ u, w ∈ vis ∨ w ∈ st) →
      (∀ x ∈ r, Reach succ e x) ∧ (∀ u ∈ r, ∀ w ∈ succ u, w ∈ r) ∧
      (∀ x ∈ vis, x ∈ r) ∧ (∀ x ∈ st, x ∈ r) := by
  intro fuel
  induction fuel with
  | zero =>
    intro st vis r h hst hvis hcl
    cases st with
    | nil =>
      simp only [dfs, Option.some.injEq] at h; subst h
      refine ⟨hvis, ?_, fun x hx => hx, by simp⟩
      intro u hu w hw
      rcases hcl u hu w hw with h | h
      · exact h
      · cases h
    | cons a t => simp [dfs] at h
  | succ n ih =>
    intro st vis r h hst hvis hcl
    cases st with
    | nil =>
      simp only [dfs, Option.some.injEq] at h; subst h
      refine ⟨hvis, ?_, fun x hx => hx, by simp⟩
      intro u hu w hw
      rcases hcl u hu w hw with h | h
      · exact h
      · cases h
    | cons a t =>
      simp only [dfs] at h
      split at h
      · next hmem =>
        obtain ⟨h1, h2, h3, h4⟩ := ih t vis r h (fun x hx => hst x (List.mem_cons_of_mem _ hx)) hvis
          (by
            intro u hu w hw
            rcases hcl u hu w hw with h | h
            · exact Or.inl h
            · rcases List.mem_cons.1 h with rfl | h
              · exact Or.inl hmem
              · exact Or.inr h)
        refine ⟨h1, h2, h3, ?_⟩
        intro x hx
        rcases List.mem_cons.1 hx with rfl | hx
        · exact h3 _ hmem
        · exact h4 x hx
      · next hmem =>
        have ha : Reach succ e a := hst a (by simp)
        obtain ⟨h1, h2, h3, h4⟩ := ih (succ a ++ t) (a :: vis) r h
          (by
            intro x hx
            rcases List.mem_append.1 hx with hx | hx
            · exact Reach.step ha hx
            · exact hst x (List.mem_cons_of_mem _ hx))
          (by
            intro x hx
            rcases List.mem_cons.1 hx with rfl | hx
            · exact ha
            · exact hvis x hx)
          (by
            intro u hu w hw
            rcases List.mem_cons.1 hu with rfl | hu
            · exact Or.inr (List.mem_append.2 (Or.inl hw))
            · rcases hcl u hu w hw with h | h
              · exact Or.inl (List.mem_cons_of_mem _ h)
              · rcases List.mem_cons.1 h with rfl | h
                · exact Or.inl (by simp)
                · exact Or.inr (List.mem_append.2 (Or.inr h)))
        refine ⟨h1, h2, fun x hx => h3 x (List.mem_cons_of_mem _ hx), ?_⟩
        intro x hx
        rcases List.mem_cons.1 hx with rfl | hx
        · exact h3 _ (by simp)
        · exact h4 x (List.mem_append.2 (Or.inr hx))

end Comet.HNSW

/-! ### finite maps -/

namespace Comet.HNSW.IdMap
variable {α : Type}

theorem get?_eq (m : IdMap α) (i : Id) : m.get? i = (m.arr[i]?).getD none := by
  simp [get?, Array.getD_eq_getD_getElem?]

@[simp] theorem get?_empty (i : Id) : (empty : IdMap α).get? i = none := by
  simp [get?_eq, empty]

theorem get?_set (m : IdMap α) (i j : Id) (a : α) :
    (m.set i a).get? j = if i = j then some a else m.get? j := by
  by_cases h : i < m.arr.size
  · simp only [set, h, if_true, get?_eq, Array.getElem?_setIfInBounds]
    split <;> simp
  · simp only [set, h, if_false, get?_eq]
    rw [Array.getElem?_push]
    simp only [Array.size_append, Array.size_replicate]
    have h' : m.arr.size ≤ i := Nat.le_of_not_lt h
    have hs : m.arr.size + (i - m.arr.size) = i := Nat.add_sub_cancel' h'
    rw [hs]
    by_cases hij : i = j
    · subst hij; simp
    · have : ¬ j = i := fun h => hij h.symm
      simp only [this, if_false, hij]
      rw [Array.getElem?_append]
      split
      · rfl
      · next h2 =>
        have hj : m.arr.size ≤ j := by omega
        rw [Array.getElem?_replicate]
        split <;> simp [Array.getElem?_eq_none hj]

theorem get?_erase (m : IdMap α) (i j : Id) :
    (m.erase i).get? j = if i = j then none else m.get? j := by
  simp only [erase, get?_eq, Array.getElem?_setIfInBounds]
  split
  · split <;> simp
  · rfl

theorem lt_bound_of_get? {m : IdMap α} {i : Id} {a : α} (h : m.get? i = some a) : i < m.bound := by
  rw [get?_eq] at h
  unfold bound
  by_cases hlt : i < m.arr.size
  · exact hlt
  · have : m.arr.size ≤ i := Nat.le_of_not_lt hlt
    simp [Array.getElem?_eq_none this] at h

theorem mem_keys {m : IdMap α} {i : Id} : i ∈ m.keys ↔ m.contains i = true := by
  simp only [keys, List.mem_filter, List.mem_range, and_iff_right_iff_imp]
  intro h
  simp only [contains, Option.isSome_iff_exists] at h
  obtain ⟨a, ha⟩ := h
  exact lt_bound_of_get? ha

theorem contains_iff {m : IdMap α} {i : Id} : m.contains i = true ↔ ∃ a, m.get? i = some a := by
  simp [contains, Option.isSome_iff_exists]

theorem keys_nodup (m : IdMap α) : m.keys.Nodup :=
  (List.nodup_range).sublist List.filter_sublist

end Comet.HNSW.IdMap
