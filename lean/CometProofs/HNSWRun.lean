/-
  The invariant along whole histories (helper lemmas for C12).
-/
import CometProofs.HNSWInv
namespace Comet.HNSW

variable {V S : Type}

theorem nodupB_iff : ∀ l : List Id, nodupB l = true ↔ l.Nodup
  | [] => by simp [nodupB]
  | a :: t => by simp [nodupB, nodupB_iff t]

/-- ids added by a history -/
def addedIds (ops : List (Op V)) : List Id := Flat.addedIds (ops.map Op.toFlat)

theorem addedIds_cons_add (id : Id) (v : V) (l : Nat) (p : Id) (rest : List (Op V)) :
    addedIds (Op.add id v l p :: rest) = id :: addedIds rest := rfl
theorem addedIds_cons_remove (id : Id) (rest : List (Op V)) :
    addedIds (Op.remove id :: rest : List (Op V)) = addedIds rest := rfl
theorem addedIds_cons_flush (e : Id) (rest : List (Op V)) :
    addedIds (Op.flush e :: rest : List (Op V)) = addedIds rest := rfl

theorem init_inv (dim M efC efS : Nat) : Inv (HNSW.init dim M efC efS : State V) := by
  have hget : ∀ j, (HNSW.init dim M efC efS : State V).nodes.get? j = none := by
    intro j; simp [HNSW.init]
  have hc : ∀ j, (HNSW.init dim M efC efS : State V).nodes.contains j = false := by
    intro j; simp [IdMap.contains, hget]
  have hnb : ∀ l j, nbrsAt (HNSW.init dim M efC efS : State V) l j = [] := by
    intro l j; simp [nbrsAt, hget]
  have hcnt : (HNSW.init dim M efC efS : State V).nodes.count = 0 := (count_eq_zero_iff _).2 hc
  refine ⟨?_, ?_, fun h => absurd hcnt h, fun h => absurd hcnt h, fun _ => rfl, ?_, ?_, ?_⟩
  · intro l j w hw; rw [hnb] at hw; cases hw
  · intro i hi; simp [isDeleted, HNSW.init, IdMap.contains] at hi
  · intro j hj; rw [hc] at hj; cases hj
  · intro u w hu; have := hu.1; rw [hc] at this; cases this
  · intro w hw; have := hw.1; rw [hc] at this; cases this

section
variable (m : Metric V S)

theorem along_cons (p : State V → Op V → Bool) (fin : State V → Bool) (s : State V) (op : Op V)
    (rest : List (Op V)) :
    along m p fin s (op :: rest) =
      (p s op && match step m s op with | .ok s' => along m p fin s' rest | .error _ => true) := rfl

theorem residentsLe_head (n : Nat) (s : State V) (ops : List (Op V))
    (h : residentsLe m n s ops = true) : s.nodes.count ≤ n := by
  cases ops with
  | nil => simpa [residentsLe, along] using h
  | cons op rest =>
    simp only [residentsLe, along_cons, Bool.and_eq_true, decide_eq_true_eq] at h
    exact h.1

/-- two duplicate-free lists with the same members -/
theorem perm_of_mem_iff {α : Type} {l1 l2 : List α} (h1 : l1.Nodup) (h2 : l2.Nodup)
    (h : ∀ a, a ∈ l1 ↔ a ∈ l2) : l1.Perm l2 := (List.perm_ext_iff_of_nodup h1 h2).2 h

theorem stateLive_nodup (s : State V) : (stateLive s).Nodup :=
  List.Nodup.of_map _ (stateLive_ids_nodup s)

/-- one step of a history in the small regime -/
theorem step_inv (n : Nat) (s0 s1 : State V) (op : Op V) (l0 : List (Id × V))
    (hinv : Inv s0) (hn1 : n ≤ 2 * s0.M + 1) (hn2 : n ≤ s0.efC)
    (hfresh : ∀ i ∈ addedIds [op], (i = 0 → s0.nextID = 0) ∧ s0.nodes.contains i = false)
    (hpick : ∀ e, op = .flush e → e ∈ flushChoices s0)
    (hpickA : ∀ id v l p, op = .add id v l p → addFlushes s0 id = true → p ∈ flushChoices s0)
    (hcount : s1.nodes.count ≤ n) (hperm : (stateLive s0).Perm l0)
    (hstep : step m s0 op = .ok s1) :
    Inv s1 ∧ s1.M = s0.M ∧ s1.efC = s0.efC ∧ s1.efS = s0.efS ∧ s1.dim = s0.dim ∧
    (∀ j, s1.nodes.contains j = true → s0.nodes.contains j = true ∨ j ∈ addedIds [op]) ∧
    (stateLive s1).Perm (Flat.specStep m s0.dim l0 op.toFlat) ∧
    (0 ∉ addedIds [op] → s1.nextID = s0.nextID) := by
  cases op with
  | add x v level pk =>
    simp only [step] at hstep
    split at hstep
    · next s' e hadd =>
      simp only [Except.ok.injEq] at hstep; subst hstep
      obtain ⟨hx0, hxf⟩ := hfresh x (by simp [addedIds, Flat.addedIds, Op.toFlat])
      obtain ⟨hinv', heff, hnid⟩ := add_inv m s0 s' x v level pk e hinv hxf hx0
        (fun hd => hpickA x v level pk rfl (by simp [addFlushes, hd])) (by omega) (by omega) hadd
      refine ⟨hinv', heff.M, heff.efC, heff.efS, heff.dim, ?_, ?_, ?_⟩
      rotate_left 2
      · intro h0
        exact hnid (fun hx => h0 (by simp [addedIds, Flat.addedIds, Op.toFlat, hx]))
      · intro j hj
        cases he : e with
        | some err =>
          have := (heff.rejected (by simp [he])).1
          rw [this] at hj; exact Or.inl hj
        | none =>
          obtain ⟨v', _, _, _, _, _, hc⟩ := heff.accepted he
          rcases hc j hj with hj | hj
          · exact Or.inr (by simp [addedIds, Flat.addedIds, Op.toFlat, hj])
          · exact Or.inl hj
      · cases he : e with
        | some err =>
          obtain ⟨hs, hwhy⟩ := heff.rejected (by simp [he])
          rw [hs]
          simp only [Op.toFlat, Flat.specStep]
          rcases hwhy with h1 | h1
          · simp [h1, hperm]
          · split
            · exact hperm
            · simp [h1, hperm]
        | none =>
          obtain ⟨v', hdim, hpre, hlive, hold, ⟨nx, hnx, hnxv⟩, _⟩ := heff.accepted he
          simp only [Op.toFlat, Flat.specStep, hdim, ne_eq, not_true_eq_false, if_false, hpre]
          refine List.Perm.trans ?_ (hperm.append_right _)
          apply perm_of_mem_iff (stateLive_nodup s')
          · rw [List.nodup_append]
            refine ⟨stateLive_nodup s0, by simp, ?_⟩
            intro a ha b hb
            simp only [List.mem_singleton] at hb
            subst hb
            intro hab; subst hab
            have := (mem_stateLive.1 ha).1.1
            rw [hxf] at this; cases this
          · rintro ⟨i, w⟩
            simp only [List.mem_append, List.mem_singleton, Prod.mk.injEq, mem_stateLive]
            constructor
            · rintro ⟨hl1, n1, hn1', rfl⟩
              rcases (hlive i).1 hl1 with rfl | hl0
              · right
                rw [hnx] at hn1'; cases hn1'
                exact ⟨rfl, hnxv⟩
              · left
                obtain ⟨n0, hn0⟩ := IdMap.contains_iff.1 hl0.1
                obtain ⟨n', hn', hv'⟩ := hold i n0 hl0 hn0
                rw [hn'] at hn1'; cases hn1'
                exact ⟨hl0, n0, hn0, hv'.symm⟩
            · rintro (⟨hl0, n0, hn0, rfl⟩ | ⟨rfl, rfl⟩)
              · obtain ⟨n', hn', hv'⟩ := hold i n0 hl0 hn0
                exact ⟨(hlive i).2 (Or.inr hl0), n', hn', hv'⟩
              · exact ⟨(hlive i).2 (Or.inl rfl), nx, hnx, hnxv⟩
    · cases hstep
  | remove id =>
    simp only [step, Except.ok.injEq] at hstep; subst hstep
    obtain ⟨hinv', hnodes, hdim, hM, hC, hS, _, hdel⟩ := remove_inv s0 id hinv
    refine ⟨hinv', hM, hC, hS, hdim, fun j hj => Or.inl (by rw [hnodes] at hj; exact hj), ?_,
      fun _ => by simp only [remove]; split; rfl; split <;> rfl⟩
    simp only [Op.toFlat, Flat.specStep]
    refine List.Perm.trans ?_ (hperm.filter _)
    apply perm_of_mem_iff (stateLive_nodup _) ((stateLive_nodup s0).sublist List.filter_sublist)
    rintro ⟨i, w⟩
    simp only [List.mem_filter, mem_stateLive, Live, hnodes, hdel, Bool.or_eq_false_iff,
      Bool.and_eq_false_iff, decide_eq_false_iff_not, bne_iff_ne, ne_eq]
    constructor
    · rintro ⟨⟨hc1, hd1, hd2⟩, hn⟩
      refine ⟨⟨⟨hc1, hd1⟩, hn⟩, ?_⟩
      intro hh; subst hh
      rcases hd2 with hd2 | hd2
      · exact hd2 rfl
      · rw [hc1] at hd2; cases hd2
    · rintro ⟨⟨⟨hc1, hd1⟩, hn⟩, hne⟩
      exact ⟨⟨hc1, hd1, Or.inl (fun hh => hne hh.symm)⟩, hn⟩
  | flush e =>
    simp only [step, Except.ok.injEq] at hstep; subst hstep
    obtain ⟨hinv', hdim, hM, hC, hS, hlive, hvec, hsub, _, _, _⟩ := flush_inv s0 e hinv (hpick e rfl)
    refine ⟨hinv', hM, hC, hS, hdim, fun j hj => Or.inl (hsub j hj), ?_,
      fun _ => by rw [flushTo_eq]; split <;> rfl⟩
    simp only [Op.toFlat, Flat.specStep]
    refine List.Perm.trans ?_ hperm
    apply perm_of_mem_iff (stateLive_nodup _) (stateLive_nodup s0)
    rintro ⟨i, w⟩
    simp only [mem_stateLive, hlive]
    constructor
    · rintro ⟨hl, n1, hn1', rfl⟩
      obtain ⟨n0, hn0⟩ := IdMap.contains_iff.1 hl.1
      obtain ⟨n', hn', hv'⟩ := hvec i n0 hl hn0
      rw [hn'] at hn1'; cases hn1'
      exact ⟨hl, n0, hn0, hv'.symm⟩
    · rintro ⟨hl, n0, hn0, rfl⟩
      obtain ⟨n', hn', hv'⟩ := hvec i n0 hl hn0
      exact ⟨hl, n', hn', hv'⟩

/-- the invariant along a whole history of the small regime -/
theorem run_inv (n : Nat) :
    ∀ (ops : List (Op V)) (s0 s : State V) (l0 : List (Id × V)),
      Inv s0 → n ≤ 2 * s0.M + 1 → n ≤ s0.efC →
      (∀ i ∈ addedIds ops, (i = 0 → s0.nextID = 0) ∧ s0.nodes.contains i = false) → (addedIds ops).Nodup →
      validPicks m s0 ops = true → residentsLe m n s0 ops = true →
      (stateLive s0).Perm l0 →
      run m s0 ops = .ok s →
      Inv s ∧ s.M = s0.M ∧ s.efC = s0.efC ∧ s.efS = s0.efS ∧ s.dim = s0.dim ∧
      s.nodes.count ≤ n ∧
      (stateLive s).Perm ((ops.map Op.toFlat).foldl (Flat.specStep m s0.dim) l0) := by
  intro ops
  induction ops with
  | nil =>
    intro s0 s l0 hinv _ _ _ _ _ hr hperm hrun
    simp only [run, Except.ok.injEq] at hrun; subst hrun
    exact ⟨hinv, rfl, rfl, rfl, rfl, residentsLe_head m n _ [] hr, by simpa using hperm⟩
  | cons op rest ih =>
    intro s0 s l0 hinv hn1 hn2 hfresh hnd hv hr hperm hrun
    simp only [validPicks, residentsLe, along_cons, Bool.and_eq_true] at hv hr
    simp only [run] at hrun
    cases hstep : step m s0 op with
    | error e => rw [hstep] at hrun; cases hrun
    | ok s1 =>
      rw [hstep] at hrun hv hr
      simp only at hrun hv hr
      have hcount1 : s1.nodes.count ≤ n := residentsLe_head m n s1 rest hr.2
      have hsub : ∀ i ∈ addedIds [op], i ∈ addedIds (op :: rest) := by
        intro i hi
        cases op <;> simp_all [addedIds, Flat.addedIds, Op.toFlat]
      obtain ⟨hinv1, hM, hC, hS, hdim, hres, hperm1, hnid⟩ := step_inv m n s0 s1 op l0 hinv hn1 hn2
        (fun i hi => hfresh i (hsub i hi))
        (by intro e' hop; subst hop; simpa using hv.1)
        (by
          intro id v l p hop hfl; subst hop
          have := hv.1
          simp only [hfl, Bool.not_true, Bool.false_or] at this
          simpa using this)
        hcount1 hperm hstep
      -- ids still to be added are fresh for the next state
      have hrestsub : ∀ i ∈ addedIds rest, i ∈ addedIds (op :: rest) := by
        intro i hi
        cases op <;> simp_all [addedIds, Flat.addedIds, Op.toFlat]
      have hnd' : (addedIds rest).Nodup := by
        cases op with
        | add id v l p => rw [addedIds_cons_add] at hnd; exact (List.nodup_cons.1 hnd).2
        | remove id => exact hnd
        | flush e => exact hnd
      have hfresh' : ∀ i ∈ addedIds rest, (i = 0 → s1.nextID = 0) ∧ s1.nodes.contains i = false := by
        intro i hi
        refine ⟨fun hi0 => ?_, ?_⟩
        · rw [hnid, (hfresh i (hrestsub i hi)).1 hi0]
          subst hi0
          cases op with
          | add id v l p =>
            rw [addedIds_cons_add] at hnd
            simp only [addedIds, Flat.addedIds, Op.toFlat, List.map_cons, List.map_nil,
              List.mem_singleton]
            intro hh; subst hh
            exact (List.nodup_cons.1 hnd).1 hi
          | remove id => simp [addedIds, Flat.addedIds, Op.toFlat]
          | flush e => simp [addedIds, Flat.addedIds, Op.toFlat]
        cases hc : s1.nodes.contains i with
        | false => rfl
        | true =>
          exfalso
          rcases hres i hc with h1 | h1
          · rw [(hfresh i (hrestsub i hi)).2] at h1; cases h1
          · cases op with
            | add id v l p =>
              simp only [addedIds, Flat.addedIds, Op.toFlat, List.map_cons, List.map_nil,
                List.mem_singleton] at h1
              subst h1
              rw [addedIds_cons_add] at hnd
              exact (List.nodup_cons.1 hnd).1 hi
            | remove id => simp [addedIds, Flat.addedIds, Op.toFlat] at h1
            | flush e => simp [addedIds, Flat.addedIds, Op.toFlat] at h1
      obtain ⟨r1, r2, r3, r4, r5, r7, r8⟩ := ih s1 s _ hinv1 (by rw [hM]; exact hn1)
        (by rw [hC]; exact hn2) hfresh' hnd' hv.2 hr.2 hperm1 hrun
      refine ⟨r1, r2.trans hM, r3.trans hC, r4.trans hS, r5.trans hdim, r7, ?_⟩
      rw [hdim] at r8
      simpa using r8

/-- the small regime of a history, as one decidable predicate: fresh ids (0 allowed), allowed
    flush picks, never more than `n ≤ min (2M+1) efConstruction` resident vertices -/
def smallRegime (dim M efC efS n : Nat) (ops : List (Op V)) : Bool :=
  freshAdds ops && validPicks m (HNSW.init dim M efC efS) ops &&
  residentsLe m n (HNSW.init dim M efC efS) ops &&
  decide (n ≤ 2 * M + 1) && decide (n ≤ efC)

theorem stateLive_init (dim M efC efS : Nat) : stateLive (HNSW.init dim M efC efS : State V) = [] := by
  have : liveIds (HNSW.init dim M efC efS : State V) = [] := by
    apply List.eq_nil_iff_forall_not_mem.2
    intro j hj
    have := (mem_liveIds.1 hj).1
    simp [HNSW.init, IdMap.contains] at this
  simp [stateLive, this]

/-- everything the small regime guarantees about the final state -/
theorem regime_facts (dim M efC efS n : Nat) (ops : List (Op V)) (s : State V)
    (hreg : smallRegime m dim M efC efS n ops = true)
    (hrun : run m (HNSW.init dim M efC efS) ops = .ok s) :
    Inv s ∧ s.M = M ∧ s.efC = efC ∧ s.efS = efS ∧ s.dim = dim ∧ s.nodes.count ≤ n ∧
    (stateLive s).Perm (liveSpec m dim ops) := by
  simp only [smallRegime, Bool.and_eq_true, decide_eq_true_eq] at hreg
  obtain ⟨⟨⟨⟨hf, hv⟩, hr⟩, hn1⟩, hn2⟩ := hreg
  simp only [freshAdds] at hf
  have := run_inv m n ops (HNSW.init dim M efC efS) s [] (init_inv dim M efC efS) hn1 hn2
    (fun i hi => ⟨fun _ => rfl, by simp [HNSW.init, IdMap.contains]⟩) ((nodupB_iff _).1 hf)
    hv hr (by rw [stateLive_init]) hrun
  exact this

theorem searchSingle_empty (s : State V) (q : V) (k : Int) (thr : S) (F : List Id) (ef : Int)
    (hq : m.dimOf q = s.dim) (h0 : s.nodes.count = 0) :
    searchSingle m s q k thr F ef = .ok (.ok []) := by
  simp [searchSingle, searchCands, hq, h0, sortAsc]

theorem isTopK_nil (le : S → S → Bool) (k : Int) : IsTopK le k ([] : List (Hit S)) [] :=
  ⟨List.Pairwise.nil, ⟨[], by simp, by simp⟩, by
    have := sanitizeK_le k 0
    simp only [List.length_nil]; omega⟩

/-- exactness along histories of the small regime -/
theorem regime_exact (ord : m.sc.Ordered) (dim M efC efS n : Nat) (ops : List (Op V)) (s : State V)
    (hreg : smallRegime m dim M efC efS n ops = true)
    (hrun : run m (HNSW.init dim M efC efS) ops = .ok s)
    (q q' : V) (k : Int) (thr : S) (F : List Id) (ef : Int)
    (hq : m.dimOf q = dim) (hpre : m.pre q = some q') (hef : n ≤ efUsed s ef)
    (res : List (Hit S)) (h : searchSingle m s q k thr F ef = .ok (.ok res)) :
    IsTopK m.sc.le k (Flat.cands m (liveSpec m dim ops) q' thr F) res := by
  obtain ⟨hinv, _, _, _, hdim, hcnt, hperm⟩ := regime_facts m dim M efC efS n ops s hreg hrun
  have hcands : (Flat.cands m (stateLive s) q' thr F).Perm (Flat.cands m (liveSpec m dim ops) q' thr F) :=
    hperm.filterMap _
  by_cases h0 : s.nodes.count = 0
  · rw [searchSingle_empty m s q k thr F ef (by rw [hdim]; exact hq) h0] at h
    simp only [Except.ok.injEq] at h; subst h
    have hnil : stateLive s = [] := by
      have : liveIds s = [] := by
        apply List.eq_nil_iff_forall_not_mem.2
        intro j hj
        have := (count_eq_zero_iff _).1 h0 j
        rw [(mem_liveIds.1 hj).1] at this; cases this
      simp [stateLive, this]
    rw [hnil] at hcands
    have : Flat.cands m (liveSpec m dim ops) q' thr F = [] := by
      have := hcands.length_eq
      simp only [Flat.cands, List.filterMap_nil, List.length_nil] at this
      exact List.eq_nil_of_length_eq_zero this.symm
    rw [this]; exact isTopK_nil _ k
  · have hgood : CurrGood s s.entry := ⟨hinv.entry_res h0, hinv.entry_comp⟩
    have hml : s.maxLevel ≠ -1 := by have := hinv.ml h0; omega
    have hlen : (liveIds s).length ≤ efUsed s ef := by
      have : (liveIds s).length ≤ s.nodes.count := by
        simp only [liveIds, IdMap.count]; exact List.length_filter_le _ _
      omega
    exact IsTopK.of_perm (search_exact_state m ord s hinv.comp
      (fun u w hw => hinv.resolves 0 u w hw) hgood hml q q' k thr F ef (by rw [hdim]; exact hq)
      hpre hlen res h) hcands

/-- reachability along histories of the small regime -/
theorem regime_reachable (dim M efC efS n : Nat) (ops : List (Op V)) (s : State V)
    (hreg : smallRegime m dim M efC efS n ops = true)
    (hrun : run m (HNSW.init dim M efC efS) ops = .ok s) : Reachable s := by
  obtain ⟨hinv, _, _, _, _, _, _⟩ := regime_facts m dim M efC efS n ops s hreg hrun
  by_cases h0 : s.nodes.count = 0
  · intro i hi
    have := (count_eq_zero_iff _).1 h0 i
    rw [(mem_liveIds.1 hi).1] at this; cases this
  · exact reachable_state s ⟨hinv.entry_res h0, hinv.entry_comp⟩

/-- non-emptiness along histories of the small regime: unconditional -/
theorem regime_nonempty (ord : m.sc.Ordered) (dim M efC efS n : Nat) (ops : List (Op V)) (s : State V)
    (hreg : smallRegime m dim M efC efS n ops = true)
    (hrun : run m (HNSW.init dim M efC efS) ops = .ok s) (hlive : liveIds s ≠ [])
    (q q' : V) (k ef : Int) (hq : m.dimOf q = dim) (hpre : m.pre q = some q')
    (res : List (Hit S)) (h : searchSingle m s q k m.sc.zero [] ef = .ok (.ok res)) : res ≠ [] := by
  obtain ⟨hinv, _, _, _, hdim, _, _⟩ := regime_facts m dim M efC efS n ops s hreg hrun
  obtain ⟨v, hv⟩ := List.exists_mem_of_ne_nil _ hlive
  have hvl := mem_liveIds.1 hv
  have h0 : s.nodes.count ≠ 0 := count_ne_zero_of_live hvl
  have hml : s.maxLevel ≠ -1 := by have := hinv.ml h0; omega
  have hreach : Reach (nbrsAt s 0) s.entry v := by
    by_cases he : v = s.entry
    · rw [he]; exact Reach.refl
    · exact Reach.step Reach.refl (hinv.entry_comp v hvl he)
  exact search_nonempty_state m ord s (hinv.entry_res h0) hml v hvl hreach q q' k ef
    (by rw [hdim]; exact hq) hpre res h

end
end Comet.HNSW
