/- Helper lemmas for C02. -/
import Comet.Vector.Pipeline
import CometProofs.Flat
namespace Comet.Pipeline

variable {V S : Type}

theorem keep_some (sc : Scalar S) (deleted filter : List Id) (thr : S) (c : Id × V × S)
    (h : Hit S) (hk : keep sc deleted filter thr c = some h) :
    h.id = c.1 ∧ h.score = c.2.2 ∧ c.1 ∉ deleted ∧ Flat.eligible filter c.1 = true ∧
      Flat.thrSkip sc thr c.2.2 = false := by
  unfold keep at hk
  split at hk
  · cases hk
  · next hd =>
    split at hk
    · cases hk
    · next he =>
      split at hk
      · cases hk
      · next ht =>
        injection hk with hk
        subst hk
        exact ⟨rfl, rfl, by simpa using hd, by simpa using he, by simpa using ht⟩

/-- filtering candidates keeps their ids in order -/
theorem filterMap_ids_sublist (f : Id × V × S → Option (Hit S))
    (hf : ∀ c h, f c = some h → h.id = c.1) (l : List (Id × V × S)) :
    ((l.filterMap f).map (·.id)).Sublist (l.map (·.1)) := by
  induction l with
  | nil => simp
  | cons c t ih =>
    simp only [List.filterMap_cons, List.map_cons]
    cases hc : f c with
    | none => exact ih.cons _
    | some h =>
      simp only [List.map_cons]
      rw [hf c h hc]
      exact ih.cons_cons _

/-- the same for any candidate type with a key -/
theorem filterMap_key_sublist {α : Type} (key : α → Id) (f : α → Option (Hit S))
    (hf : ∀ c h, f c = some h → h.id = key c) (l : List α) :
    ((l.filterMap f).map (·.id)).Sublist (l.map key) := by
  induction l with
  | nil => simp
  | cons c t ih =>
    simp only [List.filterMap_cons, List.map_cons]
    cases hc : f c with
    | none => exact ih.cons _
    | some h =>
      simp only [List.map_cons]
      rw [hf c h hc]
      exact ih.cons_cons _

end Comet.Pipeline
