/-
  Helper lemmas for C04, part 2: what the filters of the model compute, read through the
  invariant `InvS` (part 1: CometProofs/MetaInv.lean).
-/
import CometProofs.MetaInv
namespace Comet.Meta
open Comet

/-! ### consequences of the decidable side conditions -/

theorem get_some_iff {D : Docs} {d : Nat} {f : String} {v : Value} :
    D.get d f = some v ↔ ∃ doc, D.lookup d = some doc ∧ doc.lookup f = some v := by
  simp only [Docs.get]
  cases D.lookup d with
  | none => simp
  | some doc => simp

theorem get_of_lookup {D : Docs} {d : Nat} {doc : Doc} (h : D.lookup d = some doc) :
    D.get d = fun f => doc.lookup f := by
  funext f; simp [Docs.get, h]

theorem conform_nodup {sp : Spec} (hc : conform sp = true) : (sp.docs.map (·.1)).Nodup := by
  simp only [conform, Bool.and_eq_true, decide_eq_true_eq] at hc
  exact hc.2

theorem conform_get {sp : Spec} (hc : conform sp = true) {d : Nat} {f : String} {v : Value}
    (hg : sp.docs.get d f = some v) : v.isInt = sp.numSeen.contains f ∧ noColon f = true := by
  obtain ⟨doc, hd, hf⟩ := get_some_iff.mp hg
  simp only [conform, Bool.and_eq_true, decide_eq_true_eq, List.all_eq_true, beq_iff_eq] at hc
  have := (hc.1 (d, doc) (mem_of_lookup hd)).1 (f, v) (mem_of_lookup hf)
  exact this

theorem fieldAbsent_get {D : Docs} {f : String} (ha : fieldAbsent D f = true) (d : Nat) :
    D.get d f = none := by
  cases hg : D.get d f with
  | none => rfl
  | some v =>
    obtain ⟨doc, hd, hf⟩ := get_some_iff.mp hg
    simp only [fieldAbsent, List.all_eq_true] at ha
    have := ha (d, doc) (mem_of_lookup hd)
    simp [hf] at this

theorem noMixed_of {D : Docs} {f : String} {os : List Operand}
    (hm : mixedSignF.mixed D f os = false) {d : Nat} {y : I64} (hg : D.get d f = some (.int y))
    {x : I64} {txt : String} (ho : Operand.int x txt ∈ os) : y.msb = x.msb := by
  obtain ⟨doc, hd, hf⟩ := get_some_iff.mp hg
  simp only [mixedSignF.mixed] at hm
  have h1 := (List.any_eq_false.mp hm) (d, doc) (mem_of_lookup hd)
  simp only [hf] at h1
  have h2 := (List.any_eq_false.mp (by simpa using h1)) (Operand.int x txt) ho
  simp only [bne_iff_ne, ne_eq, Decidable.not_not] at h2
  exact h2.symm

/-! ### existence bitmap -/

theorem mem_foldl_or (p : String → Bool) (d : Nat) : ∀ (l : List (String × RB)) (acc : RB),
    d ∈ l.foldl (fun acc kb => if p kb.1 then RB.or acc kb.2 else acc) acc ↔
      d ∈ acc ∨ ∃ kb, kb ∈ l ∧ p kb.1 = true ∧ d ∈ kb.2
  | [], acc => by simp
  | kb :: r, acc => by
    rw [List.foldl_cons, mem_foldl_or p d r]
    by_cases hp : p kb.1 = true
    · simp only [hp, if_true, RB.mem_or, List.mem_cons]
      constructor
      · rintro ((h | h) | ⟨kb', hm, hp', hd⟩)
        · exact Or.inl h
        · exact Or.inr ⟨kb, Or.inl rfl, hp, h⟩
        · exact Or.inr ⟨kb', Or.inr hm, hp', hd⟩
      · rintro (h | ⟨kb', rfl | hm, hp', hd⟩)
        · exact Or.inl (Or.inl h)
        · exact Or.inl (Or.inr hd)
        · exact Or.inr ⟨kb', hm, hp', hd⟩
    · simp only [hp, Bool.false_eq_true, if_false, List.mem_cons]
      constructor
      · rintro (h | ⟨kb', hm, hp', hd⟩)
        · exact Or.inl h
        · exact Or.inr ⟨kb', Or.inr hm, hp', hd⟩
      · rintro (h | ⟨kb', rfl | hm, hp', hd⟩)
        · exact Or.inl h
        · exact absurd hp' hp
        · exact Or.inr ⟨kb', hm, hp', hd⟩

theorem numContains {s : State} {sp : Spec} (h : InvS s sp) (f : String) :
    sp.numSeen.contains f = (s.numeric.lookup f).isSome := by
  apply Bool.eq_iff_iff.mpr
  rw [h.numKeys f, List.contains_iff_mem]

/-- on a categorical field every stored value is a string -/
theorem get_str_of_cat {s : State} {sp : Spec} (h : InvS s sp) {f : String}
    (hn : s.numeric.lookup f = none) {d : Nat} {w : Value} (hg : sp.docs.get d f = some w) :
    ∃ v, w = .str v := by
  cases w with
  | str v => exact ⟨v, rfl⟩
  | int y =>
    have := (h.numKeys f).mpr (h.intSeen d f y hg)
    rw [hn] at this; simp at this

/-- on a numeric field every stored value is a number (per-field fixed type) -/
theorem get_int_of_num {s : State} {sp : Spec} (h : InvS s sp) (hc : conform sp = true) {f : String}
    {b : BSI.T} (hn : s.numeric.lookup f = some b) {d : Nat} {w : Value} (hg : sp.docs.get d f = some w) :
    ∃ y, w = .int y := by
  have := (conform_get hc hg).1
  rw [numContains h, hn] at this
  cases w with
  | int y => exact ⟨y, rfl⟩
  | str v => simp [Value.isInt] at this

theorem mem_getExistence {s : State} {sp : Spec} (h : InvS s sp) (hc : conform sp = true)
    (f : String) (hf : noColon f = true) (d : Nat) :
    d ∈ getExistenceBitmap s f ↔ (sp.docs.get d f).isSome = true := by
  unfold getExistenceBitmap
  cases hn : s.numeric.lookup f with
  | some b =>
    simp only
    rw [(h.rep f b hn).ebm d]
    constructor
    · intro hi
      cases hg : sp.docs.get d f with
      | none => simp [hg, intOf] at hi
      | some w => rfl
    · intro hi
      obtain ⟨w, hw⟩ := Option.isSome_iff_exists.mp hi
      obtain ⟨y, rfl⟩ := get_int_of_num h hc hn hw
      simp [hw, intOf]
  | none =>
    simp only
    rw [mem_foldl_or (fun key => hasPrefix key (f ++ ":")) d]
    simp only [List.not_mem_nil, false_or]
    constructor
    · rintro ⟨⟨key, bm⟩, hm, hp, hd⟩
      have hl := lookup_of_mem h.catKeys hm
      obtain ⟨f', v, hk, hg⟩ := (h.cat key bm hl d).mp hd
      subst hk
      have hf' := (conform_get hc hg).2
      have := (hasPrefix_keyOf hf hf').mp hp
      subst this
      simp [hg]
    · intro hi
      obtain ⟨w, hw⟩ := Option.isSome_iff_exists.mp hi
      obtain ⟨v, rfl⟩ := get_str_of_cat h hn hw
      obtain ⟨bm, hbm⟩ := Option.isSome_iff_exists.mp (h.catHas d f v hw)
      refine ⟨(keyOf f v, bm), mem_of_lookup hbm, (hasPrefix_keyOf hf hf).mpr rfl, ?_⟩
      exact (h.cat _ bm hbm d).mpr ⟨f, v, rfl, hw⟩

/-! ### categorical keys -/

/-- the bitmap under a key, empty when the key does not exist -/
def catSet (s : State) (key : String) : RB :=
  match catLookup s key with
  | some bm => bm
  | none => []

theorem mem_catSet {s : State} {sp : Spec} (h : InvS s sp) (hc : conform sp = true)
    (f : String) (hf : noColon f = true) (o : Operand)
    (hty : o.isInt = false ∨ fieldAbsent sp.docs f = true) (d : Nat) :
    d ∈ catSet s (keyOf f o.txt) ↔ sp.docs.get d f = some o.val := by
  unfold catSet catLookup
  cases o with
  | str sv =>
    simp only [Operand.txt, Operand.val]
    cases hl : s.categorical.lookup (keyOf f sv) with
    | none =>
      simp only [List.not_mem_nil, false_iff]
      intro hg
      have := h.catHas d f sv hg
      rw [hl] at this; simp at this
    | some bm =>
      simp only
      rw [h.cat _ bm hl d]
      constructor
      · rintro ⟨f', v', hk, hg⟩
        have := keyOf_inj (conform_get hc hg).2 hf hk
        rw [this.1, this.2] at hg
        exact hg
      · intro hg
        exact ⟨f, sv, rfl, hg⟩
  | int x txt =>
    have ha : fieldAbsent sp.docs f = true := by
      rcases hty with h1 | h1
      · simp [Operand.isInt] at h1
      · exact h1
    simp only [Operand.txt, Operand.val, fieldAbsent_get ha d]
    cases hl : s.categorical.lookup (keyOf f txt) with
    | none => simp
    | some bm =>
      simp only [reduceCtorEq, iff_false]
      intro hd
      obtain ⟨f', v', hk, hg⟩ := (h.cat _ bm hl d).mp hd
      have := keyOf_inj (conform_get hc hg).2 hf hk
      rw [this.1, fieldAbsent_get ha d] at hg
      cases hg

theorem mem_foldl_in (s : State) (f : String) (d : Nat) : ∀ (vs : List Operand) (acc : RB),
    d ∈ vs.foldl (inStep s f) acc ↔
      d ∈ acc ∨ ∃ v, v ∈ vs ∧ d ∈ catSet s (keyOf f v.txt)
  | [], acc => by simp
  | v :: r, acc => by
    rw [List.foldl_cons, mem_foldl_in s f d r]
    simp only [List.mem_cons, inStep]
    cases hc : catLookup s (keyOf f v.txt) with
    | none =>
      have hv : ∀ x, x ∉ catSet s (keyOf f v.txt) := by simp [catSet, hc]
      simp only
      constructor
      · rintro (h | ⟨v', hm, hd⟩)
        · exact Or.inl h
        · exact Or.inr ⟨v', Or.inr hm, hd⟩
      · rintro (h | ⟨v', rfl | hm, hd⟩)
        · exact Or.inl h
        · exact absurd hd (hv d)
        · exact Or.inr ⟨v', hm, hd⟩
    | some bm =>
      have hv : catSet s (keyOf f v.txt) = bm := by simp [catSet, hc]
      simp only [RB.mem_or]
      constructor
      · rintro ((h | h) | ⟨v', hm, hd⟩)
        · exact Or.inl h
        · exact Or.inr ⟨v, Or.inl rfl, by rw [hv]; exact h⟩
        · exact Or.inr ⟨v', Or.inr hm, hd⟩
      · rintro (h | ⟨v', rfl | hm, hd⟩)
        · exact Or.inl (Or.inl h)
        · exact Or.inl (Or.inr (by rw [hv] at hd; exact hd))
        · exact Or.inr ⟨v', hm, hd⟩

theorem mem_foldl_notIn (s : State) (f : String) (d : Nat) : ∀ (vs : List Operand) (acc : RB),
    d ∈ vs.foldl (notInStep s f) acc ↔
      d ∈ acc ∧ ∀ v, v ∈ vs → d ∉ catSet s (keyOf f v.txt)
  | [], acc => by simp
  | v :: r, acc => by
    rw [List.foldl_cons, mem_foldl_notIn s f d r]
    simp only [List.mem_cons, notInStep]
    cases hc : catLookup s (keyOf f v.txt) with
    | none =>
      have hv : ∀ x, x ∉ catSet s (keyOf f v.txt) := by simp [catSet, hc]
      simp only
      constructor
      · rintro ⟨h, hr⟩
        refine ⟨h, ?_⟩
        rintro v' (rfl | hm)
        · exact hv d
        · exact hr v' hm
      · rintro ⟨h, hr⟩
        exact ⟨h, fun v' hm => hr v' (Or.inr hm)⟩
    | some bm =>
      have hv : catSet s (keyOf f v.txt) = bm := by simp [catSet, hc]
      simp only [RB.mem_andNot]
      constructor
      · rintro ⟨⟨h, hn⟩, hr⟩
        refine ⟨h, ?_⟩
        rintro v' (rfl | hm)
        · rw [hv]; exact hn
        · exact hr v' hm
      · rintro ⟨h, hr⟩
        exact ⟨⟨h, by have := hr v (Or.inl rfl); rw [hv] at this; exact this⟩,
          fun v' hm => hr v' (Or.inr hm)⟩

/-! ### numeric comparisons -/

theorem intOf_eq_some {w : Option Value} {y : I64} : intOf w = some y ↔ w = some (.int y) := by
  cases w with
  | none => simp [intOf]
  | some v => cases v <;> simp [intOf]

/-- `CompareValue` through the invariant: right when no stored value differs in sign
    from the operand(s) -/
theorem mem_numCmp {s : State} {sp : Spec} (h : InvS s sp) {f : String} {b : BSI.T}
    (hb : s.numeric.lookup f = some b) (op : BSI.Op) (x e : I64)
    (hms : ∀ d y, sp.docs.get d f = some (.int y) → y.msb = x.msb ∧ (op = .range → y.msb = e.msb))
    (d : Nat) :
    d ∈ BSI.compareValue b op x e ↔
      ∃ y, sp.docs.get d f = some (.int y) ∧ BSI.signedCmp op y x e = true := by
  rw [BSI.mem_compareValue (h.rep f b hb)]
  constructor
  · rintro ⟨y, hy, hcmp⟩
    have hg := intOf_eq_some.mp hy
    obtain ⟨h1, h2⟩ := hms d y hg
    rw [BSI.compareOne_same_sign op y x e h1 h2] at hcmp
    exact ⟨y, hg, hcmp⟩
  · rintro ⟨y, hg, hcmp⟩
    obtain ⟨h1, h2⟩ := hms d y hg
    refine ⟨y, intOf_eq_some.mpr hg, ?_⟩
    rw [BSI.compareOne_same_sign op y x e h1 h2]
    exact hcmp

theorem mem_eBM {s : State} {sp : Spec} (h : InvS s sp) {f : String} {b : BSI.T}
    (hb : s.numeric.lookup f = some b) (d : Nat) :
    d ∈ b.eBM ↔ ∃ y, sp.docs.get d f = some (.int y) := by
  rw [(h.rep f b hb).ebm d, Option.isSome_iff_exists]
  constructor
  · rintro ⟨y, hy⟩; exact ⟨y, intOf_eq_some.mp hy⟩
  · rintro ⟨y, hy⟩; exact ⟨y, intOf_eq_some.mpr hy⟩

end Comet.Meta
