/-
  Helper lemmas for C18: the ℝ instance of the distance model (Comet/Distance.lean)
  and its links to Mathlib's Euclidean space (`dist`, `‖·‖`, `inner`).
-/
import Mathlib.Analysis.InnerProductSpace.PiL2
import Mathlib.Geometry.Euclidean.Angle.Unoriented.Basic
import Comet.Distance
namespace Comet.Dist

/-- the ℝ instance of the scalar operations: the *meaning* of distance.go's arithmetic -/
noncomputable def realOps : Ops ℝ where
  zero := 0
  one := 1
  add := (· + ·)
  sub := (· - ·)
  mul := (· * ·)
  div := (· / ·)
  neg := fun x => -x
  sqrt := Real.sqrt
  lt := fun a b => decide (a < b)
  isZero := fun x => decide (x = 0)
  ofNat := fun n => (n : ℝ)
  ltInf := fun _ => true

local notation "R" => realOps

/-- the point of `EuclideanSpace ℝ (Fin n)` a list denotes (used with `a.length = n`) -/
noncomputable def vecN (n : ℕ) (a : List ℝ) : EuclideanSpace ℝ (Fin n) :=
  WithLp.toLp 2 fun i : Fin n => a.getD i 0

theorem foldl_add_sum (l : List ℝ) (acc : ℝ) : l.foldl (· + ·) acc = acc + l.sum := by
  induction l generalizing acc with
  | nil => simp
  | cons x t ih => simp [ih, add_assoc]

theorem sumSqDiff_eq (a b : List ℝ) :
    sumSqDiff R a b = (List.zipWith (fun x y => (x - y) ^ 2) a b).sum := by
  simp only [sumSqDiff, realOps, foldl_add_sum, zero_add]
  have : (fun x y : ℝ => (x - y) * (x - y)) = fun x y => (x - y) ^ 2 := by
    funext x y; ring
  rw [this]

theorem dot_eq (a b : List ℝ) : dot R a b = (List.zipWith (· * ·) a b).sum := by
  simp only [dot, realOps, foldl_add_sum, zero_add]

theorem sumSq_eq (a : List ℝ) : sumSq R a = (a.map (· ^ 2)).sum := by
  have : ∀ acc : ℝ, a.foldl (fun s x => s + x * x) acc = acc + (a.map (· ^ 2)).sum := by
    induction a with
    | nil => simp
    | cons x t ih => intro acc; simp [ih, add_assoc, sq]
  simp only [sumSq, realOps, this, zero_add]

theorem sumSq_eq_dot (a : List ℝ) : sumSq R a = dot R a a := by
  rw [sumSq_eq, dot_eq]
  induction a with
  | nil => simp
  | cons x t ih => simp [sq]

theorem zipWith_sum_eq_fin (g : ℝ → ℝ → ℝ) (n : ℕ) (a b : List ℝ) (ha : a.length = n)
    (hb : b.length = n) :
    (List.zipWith g a b).sum = ∑ i : Fin n, g (a.getD i 0) (b.getD i 0) := by
  subst ha
  have : List.zipWith g a b = List.ofFn fun i : Fin a.length => g (a.getD i 0) (b.getD i 0) := by
    apply List.ext_getElem
    · simp [hb]
    · intro i h1 h2
      have hi : i < a.length := by simpa [hb] using h1
      have hi' : i < b.length := by omega
      simp [List.getD_eq_getElem?_getD, hi']
  rw [this, List.sum_ofFn]

theorem map_sum_eq_fin (g : ℝ → ℝ) (n : ℕ) (a : List ℝ) (ha : a.length = n) :
    (a.map g).sum = ∑ i : Fin n, g (a.getD i 0) := by
  subst ha
  have : a.map g = List.ofFn fun i : Fin a.length => g (a.getD i 0) := by
    apply List.ext_getElem
    · simp
    · intro i h1 h2
      have hi : i < a.length := by simpa using h1
      simp [List.getD_eq_getElem?_getD]
  rw [this, List.sum_ofFn]

theorem sumSqDiff_nonneg (a b : List ℝ) : 0 ≤ sumSqDiff R a b := by
  rw [sumSqDiff_eq]
  apply List.sum_nonneg
  intro x hx
  obtain ⟨i, hi, rfl⟩ := List.mem_iff_getElem.1 hx
  simp only [List.getElem_zipWith]
  positivity

theorem sumSq_nonneg (a : List ℝ) : 0 ≤ sumSq R a := by
  rw [sumSq_eq]
  apply List.sum_nonneg
  intro x hx
  obtain ⟨y, _, rfl⟩ := List.mem_map.1 hx
  positivity

/-- link: the model's Euclidean distance is Mathlib's `dist` in `EuclideanSpace ℝ (Fin n)` -/
theorem euclid_eq_dist (n : ℕ) (a b : List ℝ) (ha : a.length = n) (hb : b.length = n) :
    euclid R a b = dist (vecN n a) (vecN n b) := by
  rw [EuclideanSpace.dist_eq]
  show Real.sqrt (sumSqDiff R a b) = _
  rw [sumSqDiff_eq, zipWith_sum_eq_fin _ n a b ha hb]
  congr 1
  apply Finset.sum_congr rfl
  intro i _
  simp [vecN, Real.dist_eq, sq_abs]

/-- link: the model's dot product is Mathlib's real inner product -/
theorem dot_eq_inner (n : ℕ) (a b : List ℝ) (ha : a.length = n) (hb : b.length = n) :
    dot R a b = inner ℝ (vecN n a) (vecN n b) := by
  rw [dot_eq, zipWith_sum_eq_fin _ n a b ha hb, vecN, vecN, EuclideanSpace.inner_toLp_toLp]
  simp [dotProduct, mul_comm]

/-- link: the model's `Norm` is Mathlib's norm -/
theorem norm_eq_norm (n : ℕ) (a : List ℝ) (ha : a.length = n) :
    norm R a = ‖vecN n a‖ := by
  rw [EuclideanSpace.norm_eq]
  show Real.sqrt (sumSq R a) = _
  rw [sumSq_eq, map_sum_eq_fin _ n a ha]
  congr 1
  apply Finset.sum_congr rfl
  intro i _
  simp [vecN]

theorem norm_nonneg' (a : List ℝ) : 0 ≤ norm R a := Real.sqrt_nonneg _

theorem norm_sq (a : List ℝ) : norm R a ^ 2 = sumSq R a := Real.sq_sqrt (sumSq_nonneg a)

theorem sumSq_eq_zero_iff (a : List ℝ) : sumSq R a = 0 ↔ ∀ x ∈ a, x = 0 := by
  rw [sumSq_eq]
  induction a with
  | nil => simp
  | cons x t ih =>
    have ht : 0 ≤ (t.map (· ^ 2)).sum := by
      rw [← sumSq_eq]; exact sumSq_nonneg t
    simp only [List.map_cons, List.sum_cons, List.mem_cons, forall_eq_or_imp]
    constructor
    · intro h
      have hx : x ^ 2 = 0 := by nlinarith [sq_nonneg x]
      have hs : (t.map (· ^ 2)).sum = 0 := by nlinarith [sq_nonneg x]
      exact ⟨by simpa using hx, ih.1 hs⟩
    · rintro ⟨rfl, h⟩
      simp [ih.2 h]

theorem norm_eq_zero_iff (a : List ℝ) : norm R a = 0 ↔ ∀ x ∈ a, x = 0 := by
  show Real.sqrt (sumSq R a) = 0 ↔ _
  rw [Real.sqrt_eq_zero (sumSq_nonneg a), sumSq_eq_zero_iff]

theorem dot_comm (a b : List ℝ) : dot R a b = dot R b a := by
  rw [dot_eq, dot_eq, List.zipWith_comm]
  have : (fun b a : ℝ => a * b) = fun x1 x2 => x1 * x2 := by
    funext x y; exact mul_comm _ _
  rw [this]

theorem dot_map_mul (a b : List ℝ) (s t : ℝ) :
    dot R (a.map (· * s)) (b.map (· * t)) = s * t * dot R a b := by
  rw [dot_eq, dot_eq]
  induction a generalizing b with
  | nil => simp
  | cons x xs ih =>
    cases b with
    | nil => simp
    | cons y ys =>
      simp only [List.map_cons, List.zipWith_cons_cons, List.sum_cons, ih]
      ring

theorem sumSq_map_mul (a : List ℝ) (s : ℝ) : sumSq R (a.map (· * s)) = s ^ 2 * sumSq R a := by
  rw [sumSq_eq_dot, sumSq_eq_dot, dot_map_mul]; ring

theorem norm_map_mul (a : List ℝ) (s : ℝ) (hs : 0 ≤ s) : norm R (a.map (· * s)) = s * norm R a := by
  show Real.sqrt (sumSq R _) = s * Real.sqrt (sumSq R a)
  rw [sumSq_map_mul, Real.sqrt_mul (sq_nonneg s), Real.sqrt_sq hs]

/-- unfolding of `cosPre` at ℝ -/
theorem cosPre_eq (a : List ℝ) :
    cosPre R a = if norm R a = 0 then none else some (a.map (· * (1 / norm R a))) := by
  simp only [cosPre, realOps]
  by_cases h : Dist.norm realOps a = 0
  · simp [realOps] at h
    simp [h]
  · simp [realOps] at h
    simp [h]

theorem normalize_eq (a : List ℝ) :
    normalize R a = if norm R a = 0 then a else a.map (· * (1 / norm R a)) := by
  simp only [normalize, realOps]
  by_cases h : Dist.norm realOps a = 0
  · simp [realOps] at h
    simp [h]
  · simp [realOps] at h
    simp [h]

theorem clamp_eq (d : ℝ) : clamp R d = max (-1) (min 1 d) := by
  simp only [clamp, realOps]
  by_cases h1 : (1 : ℝ) < d
  · simp [h1, min_eq_left h1.le]
  · by_cases h2 : d < -1
    · have : min 1 d = d := min_eq_right (by linarith)
      simp [h1, h2, this, max_eq_left h2.le]
    · have : min 1 d = d := min_eq_right (by linarith)
      simp [h1, h2, this, max_eq_right (not_lt.1 h2)]

theorem cosine_eq (a b : List ℝ) : cosine R a b = 1 - max (-1) (min 1 (dot R a b)) := by
  show (1 : ℝ) - clamp R (dot R a b) = _
  rw [clamp_eq]

/-- Cauchy–Schwarz for the model's dot product and norm (through Mathlib's) -/
theorem abs_dot_le (a b : List ℝ) (h : a.length = b.length) :
    |dot R a b| ≤ norm R a * norm R b := by
  rw [dot_eq_inner b.length a b h rfl, norm_eq_norm b.length a h, norm_eq_norm b.length b rfl]
  exact abs_real_inner_le_norm _ _

end Comet.Dist
