/-
  Helper lemmas for C04, part 3: `evaluateFilter` is exact on well-typed, sign-pure
  leaves; `Not`; the AND / OR loops with their early exits; `Execute`.
-/
import CometProofs.MetaEval
namespace Comet.Meta
open Comet

/-! ### one filter -/

theorem queryCat_eq (s : State) (f : String) (o : Operand) :
    queryCategorical s (.cmp .eq f o) = .ok (catSet s (keyOf f o.txt)) := by
  simp only [queryCategorical, catSet]
  cases catLookup s (keyOf f o.txt) <;> rfl

theorem queryCat_ne (s : State) (f : String) (o : Operand) :
    ∃ r, queryCategorical s (.cmp .ne f o) = .ok r ∧
      ∀ d, d ∈ r ↔ d ∈ s.allDocs ∧ d ∉ catSet s (keyOf f o.txt) := by
  simp only [queryCategorical, catSet]
  cases catLookup s (keyOf f o.txt) with
  | none => exact ⟨_, rfl, fun d => by simp⟩
  | some bm => exact ⟨_, rfl, fun d => by simp [RB.mem_andNot]⟩

/-- the six comparison operators as BSI operations -/
def bsiOp : CmpOp → BSI.Op
  | .eq => .eq | .ne => .eq | .gt => .gt | .gte => .ge | .lt => .lt | .lte => .le

theorem evaluateFilter_cmp (s : State) (op : CmpOp) (f : String) (o : Operand) :
    evaluateFilter s (.cmp op f o) =
      match s.numeric.lookup f with
      | some b => queryNumeric b (.cmp op f o)
      | none => queryCategorical s (.cmp op f o) := rfl

theorem evaluateFilter_range (s : State) (f : String) (lo hi : Operand) :
    evaluateFilter s (.range f lo hi) =
      match s.numeric.lookup f with
      | some b => queryNumeric b (.range f lo hi)
      | none => queryCategorical s (.range f lo hi) := rfl

theorem evaluateFilter_isIn (s : State) (n : Bool) (f : String) (vs : Option (List Operand)) :
    evaluateFilter s (.isIn n f vs) =
      match s.numeric.lookup f with
      | some b => queryNumeric b (.isIn n f vs)
      | none => queryCategorical s (.isIn n f vs) := rfl

theorem optBeq_iff {a b : Option Value} : (a == b) = true ↔ a = b := beq_iff_eq

/-- **one filter is exact**: a well-typed leaf whose operands do not differ in sign from
    any stored value of the field evaluates without error to the live documents
    satisfying it. -/
theorem evaluateFilter_exact {s : State} {sp : Spec} (h : InvS s sp) (hc : conform sp = true)
    (flt : Filter) (hwt : wellTypedF sp.numSeen sp.docs flt = true)
    (hcol : noColon flt.field = true) (hms : mixedSignF sp.numSeen sp.docs flt = false) :
    ∃ r, evaluateFilter s flt = .ok r ∧
      ∀ d, d ∈ r ↔ ((sp.docs.lookup d).isSome = true ∧ sat sp.numSeen (sp.docs.get d) flt = true) := by
  have hlive : ∀ d f v, sp.docs.get d f = some v → (sp.docs.lookup d).isSome = true := h.getLive
  cases flt with
  | ex neg f =>
    simp only [Filter.field] at hcol
    cases neg with
    | false =>
      refine ⟨getExistenceBitmap s f, rfl, fun d => ?_⟩
      rw [mem_getExistence h hc f hcol d]
      simp only [sat]
      constructor
      · intro hi
        obtain ⟨w, hw⟩ := Option.isSome_iff_exists.mp hi
        exact ⟨hlive d f w hw, hi⟩
      · exact fun hh => hh.2
    | true =>
      refine ⟨RB.andNot s.allDocs (getExistenceBitmap s f), rfl, fun d => ?_⟩
      rw [RB.mem_andNot, mem_getExistence h hc f hcol d, h.all d]
      simp only [sat]
      cases sp.docs.get d f <;> simp
  | cmp op f o =>
    simp only [Filter.field] at hcol
    rw [evaluateFilter_cmp]
    cases hn : s.numeric.lookup f with
    | some b =>
      have hN : sp.numSeen.contains f = true := by rw [numContains h, hn]; rfl
      simp only [wellTypedF, hN, if_true] at hwt
      cases o with
      | str sv => simp [Operand.isInt] at hwt
      | int x txt =>
        simp only [mixedSignF, hN, Bool.true_and] at hms
        have hsign : ∀ d y, sp.docs.get d f = some (.int y) → y.msb = x.msb :=
          fun d y hg => noMixed_of hms hg (List.mem_singleton.mpr rfl)
        have hnum : ∀ (bop : BSI.Op), bop ≠ .range → ∀ d, d ∈ BSI.compareValue b bop x 0 ↔
            ∃ y, sp.docs.get d f = some (.int y) ∧ BSI.signedCmp bop y x 0 = true :=
          fun bop hne d => mem_numCmp h hn bop x 0
            (fun d y hg => ⟨hsign d y hg, fun e => absurd e hne⟩) d
        cases op with
        | eq =>
          refine ⟨_, rfl, fun d => ?_⟩
          rw [hnum .eq (by decide) d]
          simp only [BSI.signedCmp, decide_eq_true_eq, sat, Operand.val, optBeq_iff]
          constructor
          · rintro ⟨y, hg, rfl⟩
            exact ⟨hlive d f _ hg, hg⟩
          · rintro ⟨_, hg⟩
            exact ⟨x, hg, rfl⟩
        | ne =>
          refine ⟨_, rfl, fun d => ?_⟩
          rw [RB.mem_andNot, mem_eBM h hn d, hnum .eq (by decide) d]
          simp only [BSI.signedCmp, decide_eq_true_eq, sat, hN, if_true, Operand.val]
          constructor
          · rintro ⟨⟨y, hg⟩, hne⟩
            refine ⟨hlive d f _ hg, ?_⟩
            rw [hg]
            simp only [bne_iff_ne, ne_eq, Value.int.injEq]
            intro hyx
            exact hne ⟨y, hg, hyx⟩
          · rintro ⟨_, hs⟩
            cases hg : sp.docs.get d f with
            | none => simp [hg] at hs
            | some w =>
              obtain ⟨y, rfl⟩ := get_int_of_num h hc hn hg
              refine ⟨⟨y, rfl⟩, ?_⟩
              rintro ⟨y', hy', hyx⟩
              cases hy'
              simp [hg, hyx] at hs
        | gt =>
          refine ⟨_, rfl, fun d => ?_⟩
          rw [hnum .gt (by decide) d]
          simp only [BSI.signedCmp, sat, numRel, Operand.val]
          constructor
          · rintro ⟨y, hg, hcmp⟩
            exact ⟨hlive d f _ hg, by rw [hg]; exact hcmp⟩
          · rintro ⟨_, hs⟩
            cases hg : sp.docs.get d f with
            | none => simp [hg] at hs
            | some w =>
              obtain ⟨y, rfl⟩ := get_int_of_num h hc hn hg
              exact ⟨y, rfl, by simpa [hg] using hs⟩
        | gte =>
          refine ⟨_, rfl, fun d => ?_⟩
          rw [hnum .ge (by decide) d]
          simp only [BSI.signedCmp, sat, numRel, Operand.val]
          constructor
          · rintro ⟨y, hg, hcmp⟩
            exact ⟨hlive d f _ hg, by rw [hg]; exact hcmp⟩
          · rintro ⟨_, hs⟩
            cases hg : sp.docs.get d f with
            | none => simp [hg] at hs
            | some w =>
              obtain ⟨y, rfl⟩ := get_int_of_num h hc hn hg
              exact ⟨y, rfl, by simpa [hg] using hs⟩
        | lt =>
          refine ⟨_, rfl, fun d => ?_⟩
          rw [hnum .lt (by decide) d]
          simp only [BSI.signedCmp, sat, numRel, Operand.val]
          constructor
          · rintro ⟨y, hg, hcmp⟩
            exact ⟨hlive d f _ hg, by rw [hg]; exact hcmp⟩
          · rintro ⟨_, hs⟩
            cases hg : sp.docs.get d f with
            | none => simp [hg] at hs
            | some w =>
              obtain ⟨y, rfl⟩ := get_int_of_num h hc hn hg
              exact ⟨y, rfl, by simpa [hg] using hs⟩
        | lte =>
          refine ⟨_, rfl, fun d => ?_⟩
          rw [hnum .le (by decide) d]
          simp only [BSI.signedCmp, sat, numRel, Operand.val]
          constructor
          · rintro ⟨y, hg, hcmp⟩
            exact ⟨hlive d f _ hg, by rw [hg]; exact hcmp⟩
          · rintro ⟨_, hs⟩
            cases hg : sp.docs.get d f with
            | none => simp [hg] at hs
            | some w =>
              obtain ⟨y, rfl⟩ := get_int_of_num h hc hn hg
              exact ⟨y, rfl, by simpa [hg] using hs⟩
    | none =>
      have hN : sp.numSeen.contains f = false := by rw [numContains h, hn]; rfl
      simp only [wellTypedF, hN, Bool.false_eq_true, if_false, Bool.and_eq_true, Bool.or_eq_true,
        Bool.not_eq_true', beq_iff_eq] at hwt
      obtain ⟨hop, hty⟩ := hwt
      have hcat := mem_catSet h hc f hcol o hty
      rcases hop with rfl | rfl
      · refine ⟨_, queryCat_eq s f o, fun d => ?_⟩
        rw [hcat d]
        simp only [sat, optBeq_iff]
        constructor
        · intro hg; exact ⟨hlive d f _ hg, hg⟩
        · exact fun hh => hh.2
      · obtain ⟨r, hr, hmem⟩ := queryCat_ne s f o
        refine ⟨r, hr, fun d => ?_⟩
        rw [hmem d, hcat d, h.all d]
        simp only [sat, hN, Bool.false_eq_true, if_false, Bool.not_eq_true', ← Bool.not_eq_true, optBeq_iff]
  | range f lo hi =>
    simp only [Filter.field] at hcol
    rw [evaluateFilter_range]
    simp only [wellTypedF, Bool.and_eq_true] at hwt
    obtain ⟨⟨hN, hlo⟩, hhi⟩ := hwt
    have hsome : (s.numeric.lookup f).isSome = true := by rw [← numContains h]; exact hN
    obtain ⟨b, hn⟩ := Option.isSome_iff_exists.mp hsome
    rw [hn]
    cases lo with
    | str _ => simp [Operand.isInt] at hlo
    | int l ltxt =>
      cases hi with
      | str _ => simp [Operand.isInt] at hhi
      | int u utxt =>
        simp only [mixedSignF, hN, Bool.true_and] at hms
        refine ⟨_, rfl, fun d => ?_⟩
        rw [mem_numCmp h hn .range l u (fun d y hg =>
          ⟨noMixed_of hms hg (x := l) (txt := ltxt) (List.mem_cons_self ..),
            fun _ => noMixed_of hms hg (x := u) (txt := utxt)
              (List.mem_cons_of_mem _ (List.mem_singleton.mpr rfl))⟩) d]
        simp only [BSI.signedCmp, sat, numRel, Operand.val, Bool.and_eq_true, decide_eq_true_eq]
        constructor
        · rintro ⟨y, hg, hcmp⟩
          refine ⟨hlive d f _ hg, ?_⟩
          rw [hg]
          simpa using hcmp
        · rintro ⟨_, hs⟩
          cases hg : sp.docs.get d f with
          | none => simp [hg] at hs
          | some w =>
            obtain ⟨y, rfl⟩ := get_int_of_num h hc hn hg
            exact ⟨y, rfl, by simpa [hg] using hs⟩
  | isIn neg f vs =>
    simp only [Filter.field] at hcol
    rw [evaluateFilter_isIn]
    cases vs with
    | none => simp [wellTypedF] at hwt
    | some l =>
      simp only [wellTypedF, Bool.and_eq_true, Bool.not_eq_true', List.all_eq_true, Bool.or_eq_true] at hwt
      obtain ⟨hN, hty⟩ := hwt
      have hn : s.numeric.lookup f = none := by
        have := numContains h f
        rw [hN] at this
        cases hl : s.numeric.lookup f with
        | none => rfl
        | some _ => rw [hl] at this; simp at this
      rw [hn]
      have hcat : ∀ o, o ∈ l → ∀ d, d ∈ catSet s (keyOf f o.txt) ↔ sp.docs.get d f = some o.val :=
        fun o ho => mem_catSet h hc f hcol o (hty o ho)
      cases neg with
      | false =>
        refine ⟨_, rfl, fun d => ?_⟩
        rw [mem_foldl_in s f d l []]
        simp only [List.not_mem_nil, false_or, sat, List.any_eq_true, optBeq_iff]
        constructor
        · rintro ⟨o, ho, hd⟩
          have hg := (hcat o ho d).mp hd
          exact ⟨hlive d f _ hg, o, ho, hg⟩
        · rintro ⟨_, o, ho, hg⟩
          exact ⟨o, ho, (hcat o ho d).mpr hg⟩
      | true =>
        refine ⟨_, rfl, fun d => ?_⟩
        rw [mem_foldl_notIn s f d l s.allDocs, h.all d]
        simp only [sat, Bool.not_eq_true', List.any_eq_false, optBeq_iff]
        constructor
        · rintro ⟨hl, hno⟩
          exact ⟨hl, fun o ho hg => hno o ho ((hcat o ho d).mpr hg)⟩
        · rintro ⟨hl, hno⟩
          exact ⟨hl, fun o ho hd => hno o ho ((hcat o ho d).mp hd)⟩


/-! ### `Not` -/

theorem notF_field (flt : Filter) : (notF flt).field = flt.field := by
  cases flt with
  | cmp op f o => cases op <;> rfl
  | range f lo hi => rfl
  | isIn n f vs => rfl
  | ex n f => rfl

theorem wellTypedF_notF (N : List String) (D : Docs) (flt : Filter) :
    wellTypedF N D (notF flt) = wellTypedF N D flt := by
  cases flt with
  | cmp op f o => cases op <;> rfl
  | range f lo hi => rfl
  | isIn n f vs => cases vs <;> simp [notF, wellTypedF]
  | ex n f => rfl

theorem mixedSignF_notF (N : List String) (D : Docs) (flt : Filter) :
    mixedSignF N D (notF flt) = mixedSignF N D flt := by
  cases flt with
  | cmp op f o => cases op <;> rfl
  | range f lo hi => rfl
  | isIn n f vs => rfl
  | ex n f => rfl

theorem dec_le_not_lt (a b : Int) : decide (a ≤ b) = !decide (b < a) := by
  by_cases h : a ≤ b
  · have : ¬ b < a := by omega
    simp [h, this]
  · have : b < a := by omega
    simp [h, this]

theorem dec_lt_not_le (a b : Int) : decide (a < b) = !decide (b ≤ a) := by
  by_cases h : a < b
  · have : ¬ b ≤ a := by omega
    simp [h, this]
  · have : b ≤ a := by omega
    simp [h, this]

theorem beq_eq_not_bne (a b : Value) : (a == b) = !(a != b) := by
  cases h : (a == b) <;> simp [bne, h]

/-- **`Not` is the complement within the universe** (specification side): for every
    operator `Not` handles (all but `range`), on well-typed filters and documents whose
    values have the field's type. -/
theorem sat_notF (N : List String) (D : Docs) (g : String → Option Value) (flt : Filter)
    (hwt : wellTypedF N D flt = true) (hg : ∀ f v, g f = some v → v.isInt = N.contains f)
    (hnr : flt.isRange = false) :
    sat N g (notF flt) = (univ N g flt && !sat N g flt) := by
  cases flt with
  | range f lo hi => simp [Filter.isRange] at hnr
  | ex n f => cases n <;> cases g f <;> simp [notF, sat, univ]
  | isIn n f vs =>
    cases vs with
    | none => simp [wellTypedF] at hwt
    | some l => cases n <;> simp [notF, sat, univ]
  | cmp op f o =>
    by_cases hN : N.contains f = true
    · have hNm : f ∈ N := List.contains_iff_mem.mp hN
      simp only [wellTypedF, hN, if_true] at hwt
      cases o with
      | str _ => simp [Operand.isInt] at hwt
      | int x txt =>
        cases hgf : g f with
        | none => cases op <;> simp [notF, sat, univ, numRel, hNm, hgf]
        | some v =>
          have hv := hg f v hgf
          rw [hN] at hv
          cases v with
          | str _ => simp [Value.isInt] at hv
          | int y =>
            cases op
            · simp [notF, sat, univ, hNm, hgf, Operand.val]; rfl
            · simp [notF, sat, univ, hNm, hgf, Operand.val]; exact beq_eq_not_bne _ _
            · simp [notF, sat, univ, numRel, hNm, hgf, Operand.val]; exact dec_le_not_lt _ _
            · simp [notF, sat, univ, numRel, hNm, hgf, Operand.val]; exact dec_lt_not_le _ _
            · simp [notF, sat, univ, numRel, hNm, hgf, Operand.val]; exact dec_le_not_lt _ _
            · simp [notF, sat, univ, numRel, hNm, hgf, Operand.val]; exact dec_lt_not_le _ _
    · have hN' : N.contains f = false := by simpa using hN
      have hNm : f ∉ N := fun hm => hN (List.contains_iff_mem.mpr hm)
      simp only [wellTypedF, hN', Bool.false_eq_true, if_false, Bool.and_eq_true, Bool.or_eq_true,
        beq_iff_eq] at hwt
      rcases hwt.1 with rfl | rfl <;> simp [notF, sat, univ, hNm]

/-- a leaf (`f` or `Not(f)`, `Not(range)` excluded) is exact -/
theorem leaf_exact {s : State} {sp : Spec} (h : InvS s sp) (hc : conform sp = true) (l : Leaf)
    (hwt : wellTypedF sp.numSeen sp.docs l.f = true) (hcol : noColon l.f.field = true)
    (hms : mixedSignF sp.numSeen sp.docs l.f = false) (hnr : notRangeL l = false) :
    ∃ r, evaluateFilter s l.toFilter = .ok r ∧
      ∀ d, d ∈ r ↔ ((sp.docs.lookup d).isSome = true ∧ satLeaf sp.numSeen (sp.docs.get d) l = true) := by
  cases hneg : l.neg with
  | false =>
    simp only [Leaf.toFilter, satLeaf, hneg, Bool.false_eq_true, if_false]
    exact evaluateFilter_exact h hc l.f hwt hcol hms
  | true =>
    simp only [Leaf.toFilter, satLeaf, hneg, if_true]
    have hr : l.f.isRange = false := by simpa [notRangeL, hneg] using hnr
    obtain ⟨r, hr1, hr2⟩ := evaluateFilter_exact h hc (notF l.f)
      (by rw [wellTypedF_notF]; exact hwt) (by rw [notF_field]; exact hcol)
      (by rw [mixedSignF_notF]; exact hms)
    refine ⟨r, hr1, fun d => ?_⟩
    rw [hr2 d, sat_notF sp.numSeen sp.docs (sp.docs.get d) l.f hwt
      (fun f v hg => (conform_get hc hg).1) hr]

/-! ### the AND / OR loops (group algebra, with the early exits) -/

/-- what `evaluateFilter` returns (`[]` on error; only used under `AllOK`) -/
def evalSet (s : State) (f : Filter) : RB :=
  match evaluateFilter s f with
  | .ok r => r
  | .error _ => []

def AllOK (s : State) (fs : List Filter) : Prop := ∀ f, f ∈ fs → ∃ r, evaluateFilter s f = .ok r

theorem evalSet_of_ok {s : State} {f : Filter} {r : RB} (h : evaluateFilter s f = .ok r) :
    evalSet s f = r := by simp [evalSet, h]

theorem simpleLoop_some (s : State) : ∀ (fs : List Filter) (a : RB), AllOK s fs →
    ∃ r, simpleLoop s fs (some a) = .ok r ∧ ∀ d, d ∈ r ↔ d ∈ a ∧ ∀ f, f ∈ fs → d ∈ evalSet s f
  | [], a, _ => ⟨a, rfl, fun d => by simp⟩
  | f :: fs, a, hok => by
    obtain ⟨bm, hbm⟩ := hok f (List.mem_cons_self ..)
    have hE := evalSet_of_ok hbm
    simp only [simpleLoop, hbm]
    by_cases hemp : (RB.and a bm).isEmpty = true
    · simp only [hemp, if_true]
      refine ⟨_, rfl, fun d => ?_⟩
      have hno := RB.isEmpty_iff.mp hemp d
      constructor
      · intro hd; exact absurd hd hno
      · rintro ⟨ha, hall⟩
        have := hall f (List.mem_cons_self ..)
        rw [hE] at this
        exact absurd (RB.mem_and.mpr ⟨ha, this⟩) hno
    · simp only [hemp, Bool.false_eq_true, if_false]
      obtain ⟨r, hr, hm⟩ := simpleLoop_some s fs (RB.and a bm)
        (fun f' hf' => hok f' (List.mem_cons_of_mem _ hf'))
      refine ⟨r, hr, fun d => ?_⟩
      rw [hm d, RB.mem_and]
      constructor
      · rintro ⟨⟨ha, hb⟩, hall⟩
        refine ⟨ha, ?_⟩
        intro f' hf'
        rcases List.mem_cons.mp hf' with rfl | hf'
        · rw [hE]; exact hb
        · exact hall f' hf'
      · rintro ⟨ha, hall⟩
        refine ⟨⟨ha, ?_⟩, fun f' hf' => hall f' (List.mem_cons_of_mem _ hf')⟩
        have := hall f (List.mem_cons_self ..)
        rw [hE] at this
        exact this

/-- simple filters: the intersection of the filters' sets (early exit included) -/
theorem executeSimple_algebra (s : State) (fs : List Filter) (hne : fs ≠ []) (hok : AllOK s fs) :
    ∃ r, executeSimpleFilters s fs = .ok r ∧ ∀ d, d ∈ r ↔ ∀ f, f ∈ fs → d ∈ evalSet s f := by
  cases fs with
  | nil => exact absurd rfl hne
  | cons f fs =>
    obtain ⟨bm, hbm⟩ := hok f (List.mem_cons_self ..)
    have hE := evalSet_of_ok hbm
    simp only [executeSimpleFilters, simpleLoop, hbm]
    by_cases hemp : bm.isEmpty = true
    · simp only [hemp, if_true]
      refine ⟨_, rfl, fun d => ?_⟩
      have hno := RB.isEmpty_iff.mp hemp d
      constructor
      · intro hd; exact absurd hd hno
      · intro hall
        have := hall f (List.mem_cons_self ..)
        rw [hE] at this
        exact absurd this hno
    · simp only [hemp, Bool.false_eq_true, if_false]
      obtain ⟨r, hr, hm⟩ := simpleLoop_some s fs bm (fun f' hf' => hok f' (List.mem_cons_of_mem _ hf'))
      refine ⟨r, hr, fun d => ?_⟩
      rw [hm d]
      constructor
      · rintro ⟨hb, hall⟩ f' hf'
        rcases List.mem_cons.mp hf' with rfl | hf'
        · rw [hE]; exact hb
        · exact hall f' hf'
      · intro hall
        refine ⟨?_, fun f' hf' => hall f' (List.mem_cons_of_mem _ hf')⟩
        have := hall f (List.mem_cons_self ..)
        rw [hE] at this
        exact this

theorem groupLoop_and_some (s : State) : ∀ (fs : List Filter) (a : RB), AllOK s fs →
    ∃ r, groupLoop s .and fs (some a) = .ok r ∧ ∀ d, d ∈ r ↔ d ∈ a ∧ ∀ f, f ∈ fs → d ∈ evalSet s f
  | [], a, _ => ⟨a, rfl, fun d => by simp⟩
  | f :: fs, a, hok => by
    obtain ⟨bm, hbm⟩ := hok f (List.mem_cons_self ..)
    have hE := evalSet_of_ok hbm
    simp only [groupLoop, hbm, beq_self_eq_true, if_true, Bool.true_and]
    by_cases hemp : (RB.and a bm).isEmpty = true
    · simp only [hemp, if_true]
      refine ⟨_, rfl, fun d => ?_⟩
      have hno := RB.isEmpty_iff.mp hemp d
      constructor
      · intro hd; exact absurd hd hno
      · rintro ⟨ha, hall⟩
        have := hall f (List.mem_cons_self ..)
        rw [hE] at this
        exact absurd (RB.mem_and.mpr ⟨ha, this⟩) hno
    · simp only [hemp, Bool.false_eq_true, if_false]
      obtain ⟨r, hr, hm⟩ := groupLoop_and_some s fs (RB.and a bm)
        (fun f' hf' => hok f' (List.mem_cons_of_mem _ hf'))
      refine ⟨r, hr, fun d => ?_⟩
      rw [hm d, RB.mem_and]
      constructor
      · rintro ⟨⟨ha, hb⟩, hall⟩
        refine ⟨ha, ?_⟩
        intro f' hf'
        rcases List.mem_cons.mp hf' with rfl | hf'
        · rw [hE]; exact hb
        · exact hall f' hf'
      · rintro ⟨ha, hall⟩
        refine ⟨⟨ha, ?_⟩, fun f' hf' => hall f' (List.mem_cons_of_mem _ hf')⟩
        have := hall f (List.mem_cons_self ..)
        rw [hE] at this
        exact this

theorem groupLoop_or_some (s : State) (logic : Logic) (hl : logic ≠ .and) :
    ∀ (fs : List Filter) (a : RB), AllOK s fs →
    ∃ r, groupLoop s logic fs (some a) = .ok r ∧ ∀ d, d ∈ r ↔ d ∈ a ∨ ∃ f, f ∈ fs ∧ d ∈ evalSet s f
  | [], a, _ => ⟨a, rfl, fun d => by simp⟩
  | f :: fs, a, hok => by
    obtain ⟨bm, hbm⟩ := hok f (List.mem_cons_self ..)
    have hE := evalSet_of_ok hbm
    have hl' : (logic == Logic.and) = false := by simpa using hl
    simp only [groupLoop, hbm, hl', Bool.false_eq_true, if_false, Bool.false_and]
    obtain ⟨r, hr, hm⟩ := groupLoop_or_some s logic hl fs (RB.or a bm)
      (fun f' hf' => hok f' (List.mem_cons_of_mem _ hf'))
    refine ⟨r, hr, fun d => ?_⟩
    rw [hm d, RB.mem_or]
    constructor
    · rintro ((ha | hb) | ⟨f', hf', hd⟩)
      · exact Or.inl ha
      · exact Or.inr ⟨f, List.mem_cons_self .., by rw [hE]; exact hb⟩
      · exact Or.inr ⟨f', List.mem_cons_of_mem _ hf', hd⟩
    · rintro (ha | ⟨f', hf', hd⟩)
      · exact Or.inl (Or.inl ha)
      · rcases List.mem_cons.mp hf' with rfl | hf'
        · rw [hE] at hd; exact Or.inl (Or.inr hd)
        · exact Or.inr ⟨f', hf', hd⟩

/-- what a group denotes in terms of its filters' sets -/
def groupSem (s : State) (g : Group) (d : Nat) : Prop :=
  if g.filters = [] then d ∈ s.allDocs
  else if g.logic = .and then ∀ f, f ∈ g.filters → d ∈ evalSet s f
  else ∃ f, f ∈ g.filters ∧ d ∈ evalSet s f

/-- one group: all documents when empty, else ∩ (AND, early exit included) or ∪ -/
theorem executeGroup_algebra (s : State) (g : Group) (hok : AllOK s g.filters) :
    ∃ r, executeGroup s g = .ok r ∧ ∀ d, d ∈ r ↔ groupSem s g d := by
  obtain ⟨logic, fs⟩ := g
  cases fs with
  | nil => exact ⟨s.allDocs, rfl, fun d => by simp [groupSem]⟩
  | cons f fs =>
    obtain ⟨bm, hbm⟩ := hok f (List.mem_cons_self ..)
    have hE := evalSet_of_ok hbm
    have hok' : AllOK s fs := fun f' hf' => hok f' (List.mem_cons_of_mem _ hf')
    simp only [executeGroup, List.isEmpty_cons, Bool.false_eq_true, if_false, groupLoop, hbm, groupSem,
      reduceCtorEq]
    by_cases hl : logic = .and
    · subst hl
      simp only [beq_self_eq_true, Bool.true_and, if_true]
      by_cases hemp : bm.isEmpty = true
      · simp only [hemp, if_true]
        refine ⟨_, rfl, fun d => ?_⟩
        have hno := RB.isEmpty_iff.mp hemp d
        constructor
        · intro hd; exact absurd hd hno
        · intro hall
          have := hall f (List.mem_cons_self ..)
          rw [hE] at this
          exact absurd this hno
      · simp only [hemp, Bool.false_eq_true, if_false]
        obtain ⟨r, hr, hm⟩ := groupLoop_and_some s fs bm hok'
        refine ⟨r, hr, fun d => ?_⟩
        rw [hm d]
        constructor
        · rintro ⟨hb, hall⟩ f' hf'
          rcases List.mem_cons.mp hf' with rfl | hf'
          · rw [hE]; exact hb
          · exact hall f' hf'
        · intro hall
          refine ⟨?_, fun f' hf' => hall f' (List.mem_cons_of_mem _ hf')⟩
          have := hall f (List.mem_cons_self ..)
          rw [hE] at this
          exact this
    · have hl' : (logic == Logic.and) = false := by simpa using hl
      simp only [hl', Bool.false_and, Bool.false_eq_true, if_false, hl]
      obtain ⟨r, hr, hm⟩ := groupLoop_or_some s logic hl fs bm hok'
      refine ⟨r, hr, fun d => ?_⟩
      rw [hm d]
      constructor
      · rintro (hb | ⟨f', hf', hd⟩)
        · exact ⟨f, List.mem_cons_self .., by rw [hE]; exact hb⟩
        · exact ⟨f', List.mem_cons_of_mem _ hf', hd⟩
      · rintro ⟨f', hf', hd⟩
        rcases List.mem_cons.mp hf' with rfl | hf'
        · rw [hE] at hd; exact Or.inl hd
        · exact Or.inr ⟨f', hf', hd⟩

theorem groupsLoop_some (s : State) : ∀ (gs : List Group) (i : Nat) (a : RB),
    (∀ g, g ∈ gs → AllOK s g.filters) →
    ∃ r, groupsLoop s gs i (some a) = .ok r ∧ ∀ d, d ∈ r ↔ d ∈ a ∨ ∃ g, g ∈ gs ∧ groupSem s g d
  | [], _, a, _ => ⟨a, rfl, fun d => by simp⟩
  | g :: gs, i, a, hok => by
    obtain ⟨gr, hgr, hG⟩ := executeGroup_algebra s g (hok g (List.mem_cons_self ..))
    simp only [groupsLoop, hgr]
    obtain ⟨r, hr, hm⟩ := groupsLoop_some s gs (i + 1) (RB.or a gr)
      (fun g' hg' => hok g' (List.mem_cons_of_mem _ hg'))
    refine ⟨r, hr, fun d => ?_⟩
    rw [hm d, RB.mem_or, hG d]
    constructor
    · rintro ((ha | hb) | ⟨g', hg', hd⟩)
      · exact Or.inl ha
      · exact Or.inr ⟨g, List.mem_cons_self .., hb⟩
      · exact Or.inr ⟨g', List.mem_cons_of_mem _ hg', hd⟩
    · rintro (ha | ⟨g', hg', hd⟩)
      · exact Or.inl (Or.inl ha)
      · rcases List.mem_cons.mp hg' with rfl | hg'
        · exact Or.inl (Or.inr hd)
        · exact Or.inr ⟨g', hg', hd⟩

/-- across groups: the union of the groups' sets -/
theorem executeGroups_algebra (s : State) (gs : List Group) (hne : gs ≠ [])
    (hok : ∀ g, g ∈ gs → AllOK s g.filters) :
    ∃ r, executeFilterGroups s gs = .ok r ∧ ∀ d, d ∈ r ↔ ∃ g, g ∈ gs ∧ groupSem s g d := by
  cases gs with
  | nil => exact absurd rfl hne
  | cons g gs =>
    obtain ⟨gr, hgr, hG⟩ := executeGroup_algebra s g (hok g (List.mem_cons_self ..))
    simp only [executeFilterGroups, groupsLoop, hgr]
    obtain ⟨r, hr, hm⟩ := groupsLoop_some s gs 1 gr (fun g' hg' => hok g' (List.mem_cons_of_mem _ hg'))
    refine ⟨r, hr, fun d => ?_⟩
    rw [hm d, hG d]
    constructor
    · rintro (hb | ⟨g', hg', hd⟩)
      · exact ⟨g, List.mem_cons_self .., hb⟩
      · exact ⟨g', List.mem_cons_of_mem _ hg', hd⟩
    · rintro ⟨g', hg', hd⟩
      rcases List.mem_cons.mp hg' with rfl | hg'
      · exact Or.inl hd
      · exact Or.inr ⟨g', hg', hd⟩


/-! ### the whole query -/

/-- the side conditions of one leaf -/
def LeafOK (sp : Spec) (l : Leaf) : Prop :=
  wellTypedF sp.numSeen sp.docs l.f = true ∧ noColon l.f.field = true ∧
    mixedSignF sp.numSeen sp.docs l.f = false ∧ notRangeL l = false

theorem mem_evalSet_leaf {s : State} {sp : Spec} (h : InvS s sp) (hc : conform sp = true) {l : Leaf}
    (hl : LeafOK sp l) :
    (∃ r, evaluateFilter s l.toFilter = .ok r) ∧
    ∀ d, d ∈ evalSet s l.toFilter ↔
      ((sp.docs.lookup d).isSome = true ∧ satLeaf sp.numSeen (sp.docs.get d) l = true) := by
  obtain ⟨r, hr, hm⟩ := leaf_exact h hc l hl.1 hl.2.1 hl.2.2.1 hl.2.2.2
  exact ⟨⟨r, hr⟩, fun d => by rw [evalSet_of_ok hr]; exact hm d⟩

theorem allOK_leaves {s : State} {sp : Spec} (h : InvS s sp) (hc : conform sp = true) {ls : List Leaf}
    (hl : ∀ l, l ∈ ls → LeafOK sp l) : AllOK s (ls.map Leaf.toFilter) := by
  intro f hf
  obtain ⟨l, hlm, rfl⟩ := List.mem_map.mp hf
  exact (mem_evalSet_leaf h hc (hl l hlm)).1

theorem group_exact {s : State} {sp : Spec} (h : InvS s sp) (hc : conform sp = true) (g : LGroup)
    (hl : ∀ l, l ∈ g.leaves → LeafOK sp l) (d : Nat) :
    groupSem s g.toGroup d ↔
      ((sp.docs.lookup d).isSome = true ∧ satGroup sp.numSeen (sp.docs.get d) g = true) := by
  obtain ⟨logic, ls⟩ := g
  simp only [LGroup.toGroup, groupSem, satGroup]
  cases ls with
  | nil => simp [h.all d]
  | cons l0 ls =>
    have hmem : ∀ l, l ∈ l0 :: ls → (d ∈ evalSet s l.toFilter ↔
        ((sp.docs.lookup d).isSome = true ∧ satLeaf sp.numSeen (sp.docs.get d) l = true)) :=
      fun l hlm => (mem_evalSet_leaf h hc (hl l hlm)).2 d
    simp only [List.map_cons, reduceCtorEq, if_false, List.isEmpty_cons, Bool.false_eq_true]
    by_cases hlog : logic = .and
    · subst hlog
      simp only [if_true, beq_self_eq_true, List.all_eq_true]
      constructor
      · intro hall
        have h0 := (hmem l0 (List.mem_cons_self ..)).mp (hall _ (List.mem_cons_self ..))
        refine ⟨h0.1, fun l hlm => ?_⟩
        have : l.toFilter ∈ l0.toFilter :: List.map Leaf.toFilter ls := by
          rw [← List.map_cons]; exact List.mem_map.mpr ⟨l, hlm, rfl⟩
        exact ((hmem l hlm).mp (hall _ this)).2
      · rintro ⟨hlive, hall⟩ f hf
        rw [← List.map_cons] at hf
        obtain ⟨l, hlm, rfl⟩ := List.mem_map.mp hf
        exact (hmem l hlm).mpr ⟨hlive, hall l hlm⟩
    · have hlog' : (logic == Logic.and) = false := by simpa using hlog
      simp only [hlog, if_false, hlog', Bool.false_eq_true, List.any_eq_true]
      constructor
      · rintro ⟨f, hf, hd⟩
        rw [← List.map_cons] at hf
        obtain ⟨l, hlm, rfl⟩ := List.mem_map.mp hf
        have := (hmem l hlm).mp hd
        exact ⟨this.1, l, hlm, this.2⟩
      · rintro ⟨hlive, l, hlm, hsat⟩
        refine ⟨l.toFilter, ?_, (hmem l hlm).mpr ⟨hlive, hsat⟩⟩
        rw [← List.map_cons]; exact List.mem_map.mpr ⟨l, hlm, rfl⟩

theorem mem_specAnswer {sp : Spec} (hc : conform sp = true) (fs : List Leaf) (gs : List LGroup) (d : Nat) :
    d ∈ specAnswer sp fs gs ↔
      ((sp.docs.lookup d).isSome = true ∧ satQuery sp.numSeen (sp.docs.get d) fs gs = true) := by
  simp only [specAnswer, List.mem_map, List.mem_filter]
  constructor
  · rintro ⟨⟨d', doc⟩, ⟨hm, hsat⟩, rfl⟩
    have hl := lookup_of_mem (conform_nodup hc) hm
    refine ⟨by simp [hl], ?_⟩
    rw [get_of_lookup hl]
    exact hsat
  · rintro ⟨hlive, hsat⟩
    obtain ⟨doc, hl⟩ := Option.isSome_iff_exists.mp hlive
    refine ⟨(d, doc), ⟨mem_of_lookup hl, ?_⟩, rfl⟩
    rw [get_of_lookup hl] at hsat
    exact hsat

/-- **the query is exact** under the side conditions (well-typed, no mixed signs, no
    `Not(range)`): `Execute` returns without error exactly the specification's answer. -/
theorem execute_exact {s : State} {sp : Spec} (h : InvS s sp) (hc : conform sp = true)
    (fs : List Leaf) (gs : List LGroup)
    (hwt : wellTypedQ sp fs gs = true) (hms : noMixedSign sp fs gs = true)
    (hnr : noNotRange fs gs = true) :
    ∃ r, execute s (fs.map Leaf.toFilter) (gs.map LGroup.toGroup) = .ok r ∧
      ∀ d, d ∈ r ↔ d ∈ specAnswer sp fs gs := by
  simp only [wellTypedQ, Bool.and_eq_true, Bool.or_eq_true, List.all_eq_true] at hwt
  obtain ⟨⟨hone, _⟩, hleaves⟩ := hwt
  simp only [noMixedSign, List.all_eq_true, Bool.not_eq_true'] at hms
  simp only [noNotRange, List.all_eq_true, Bool.not_eq_true'] at hnr
  have hok : ∀ l, l ∈ leavesOf fs gs → LeafOK sp l := fun l hl =>
    ⟨(hleaves l hl).1, (hleaves l hl).2, hms l hl, hnr l hl⟩
  cases gs with
  | nil =>
    simp only [leavesOf, List.isEmpty_nil, Bool.not_true, Bool.false_eq_true, if_false] at hok
    cases fs with
    | nil =>
      refine ⟨s.allDocs, rfl, fun d => ?_⟩
      rw [mem_specAnswer hc, h.all d]
      simp [satQuery]
    | cons l0 ls =>
      obtain ⟨r, hr, hm⟩ := executeSimple_algebra s ((l0 :: ls).map Leaf.toFilter) (by simp)
        (allOK_leaves h hc hok)
      refine ⟨r, by simp only [execute, List.map_nil, List.isEmpty_nil, Bool.not_true,
        Bool.false_eq_true, if_false, List.map_cons, List.isEmpty_cons, Bool.not_false, if_true]
                    rw [← List.map_cons, hr], fun d => ?_⟩
      rw [hm d, mem_specAnswer hc]
      simp only [satQuery, List.isEmpty_nil, Bool.not_true, Bool.false_eq_true, if_false, List.all_eq_true]
      constructor
      · intro hall
        have h0 := ((mem_evalSet_leaf h hc (hok l0 (List.mem_cons_self ..))).2 d).mp
          (hall _ (List.mem_map.mpr ⟨l0, List.mem_cons_self .., rfl⟩))
        refine ⟨h0.1, fun l hl => ?_⟩
        exact (((mem_evalSet_leaf h hc (hok l hl)).2 d).mp (hall _ (List.mem_map.mpr ⟨l, hl, rfl⟩))).2
      · rintro ⟨hlive, hall⟩ f hf
        obtain ⟨l, hl, rfl⟩ := List.mem_map.mp hf
        exact ((mem_evalSet_leaf h hc (hok l hl)).2 d).mpr ⟨hlive, hall l hl⟩
  | cons g0 gs' =>
    simp only [leavesOf, List.isEmpty_cons, Bool.not_false, if_true] at hok
    have hokg : ∀ g, g ∈ g0 :: gs' → ∀ l, l ∈ g.leaves → LeafOK sp l := fun g hg l hl =>
      hok l (List.mem_flatMap.mpr ⟨g, hg, hl⟩)
    obtain ⟨r, hr, hm⟩ := executeGroups_algebra s ((g0 :: gs').map LGroup.toGroup) (by simp)
      (fun g' hg' => by
        obtain ⟨g, hg, rfl⟩ := List.mem_map.mp hg'
        exact allOK_leaves h hc (hokg g hg))
    refine ⟨r, by simp only [execute, List.map_cons, List.isEmpty_cons, Bool.not_false, if_true]
                  rw [← List.map_cons, hr], fun d => ?_⟩
    rw [hm d, mem_specAnswer hc]
    simp only [satQuery, List.isEmpty_cons, Bool.not_false, if_true, List.any_eq_true]
    constructor
    · rintro ⟨g', hg', hd⟩
      obtain ⟨g, hg, rfl⟩ := List.mem_map.mp hg'
      have := (group_exact h hc g (hokg g hg) d).mp hd
      exact ⟨this.1, g, hg, this.2⟩
    · rintro ⟨hlive, g, hg, hsat⟩
      exact ⟨g.toGroup, List.mem_map.mpr ⟨g, hg, rfl⟩, (group_exact h hc g (hokg g hg) d).mpr ⟨hlive, hsat⟩⟩

/-! ### only live documents are ever returned (no side condition at all) -/

theorem evaluateFilter_live {s : State} {sp : Spec} (h : InvS s sp) (flt : Filter) (r : RB)
    (hr : evaluateFilter s flt = .ok r) : ∀ d, d ∈ r → (sp.docs.lookup d).isSome = true := by
  have hcatSet : ∀ key d, d ∈ catSet s key → (sp.docs.lookup d).isSome = true := by
    intro key d hd
    simp only [catSet, catLookup] at hd
    cases hl : s.categorical.lookup key with
    | none => rw [hl] at hd; simp at hd
    | some bm =>
      rw [hl] at hd
      obtain ⟨f, v, _, hg⟩ := (h.cat key bm hl d).mp hd
      exact h.getLive d f _ hg
  have hex : ∀ f d, d ∈ getExistenceBitmap s f → (sp.docs.lookup d).isSome = true := by
    intro f d hd
    unfold getExistenceBitmap at hd
    cases hn : s.numeric.lookup f with
    | some b =>
      rw [hn] at hd
      obtain ⟨y, hy⟩ := (mem_eBM h hn d).mp hd
      exact h.getLive d f _ hy
    | none =>
      rw [hn] at hd
      simp only at hd
      rw [mem_foldl_or (fun key => hasPrefix key (f ++ ":")) d] at hd
      rcases hd with hd | ⟨⟨key, bm⟩, hm, _, hd⟩
      · simp at hd
      · have hl := lookup_of_mem h.catKeys hm
        obtain ⟨f', v, _, hg⟩ := (h.cat key bm hl d).mp hd
        exact h.getLive d f' _ hg
  have hcmp : ∀ f b, s.numeric.lookup f = some b → ∀ op x e d, d ∈ BSI.compareValue b op x e →
      (sp.docs.lookup d).isSome = true := by
    intro f b hb op x e d hd
    have : d ∈ b.eBM := (List.mem_filter.mp hd).1
    obtain ⟨y, hy⟩ := (mem_eBM h hb d).mp this
    exact h.getLive d f _ hy
  have hall : ∀ d, d ∈ s.allDocs → (sp.docs.lookup d).isSome = true := fun d hd => (h.all d).mp hd
  intro d hd
  cases flt with
  | ex neg f =>
    cases neg with
    | false =>
      have : r = getExistenceBitmap s f := by
        have : evaluateFilter s (.ex false f) = .ok (getExistenceBitmap s f) := rfl
        rw [this] at hr; injection hr with hr; exact hr.symm
      subst this; exact hex f d hd
    | true =>
      have : r = RB.andNot s.allDocs (getExistenceBitmap s f) := by
        have : evaluateFilter s (.ex true f) = .ok (RB.andNot s.allDocs (getExistenceBitmap s f)) := rfl
        rw [this] at hr; injection hr with hr; exact hr.symm
      subst this; exact hall d (RB.mem_andNot.mp hd).1
  | cmp op f o =>
    rw [evaluateFilter_cmp] at hr
    cases hn : s.numeric.lookup f with
    | some b =>
      rw [hn] at hr
      simp only [queryNumeric] at hr
      cases hx : o.toInt64 with
      | none => rw [hx] at hr; simp at hr
      | some x =>
        rw [hx] at hr
        cases op <;> simp only [Except.ok.injEq] at hr <;> subst hr
        · exact hcmp f b hn _ _ _ d hd
        · have : d ∈ b.eBM := (RB.mem_andNot.mp hd).1
          obtain ⟨y, hy⟩ := (mem_eBM h hn d).mp this
          exact h.getLive d f _ hy
        · exact hcmp f b hn _ _ _ d hd
        · exact hcmp f b hn _ _ _ d hd
        · exact hcmp f b hn _ _ _ d hd
        · exact hcmp f b hn _ _ _ d hd
    | none =>
      rw [hn] at hr
      cases op with
      | eq =>
        rw [queryCat_eq] at hr
        injection hr with hr; subst hr
        exact hcatSet _ d hd
      | ne =>
        obtain ⟨r', hr', hm⟩ := queryCat_ne s f o
        rw [hr'] at hr
        injection hr with hr; subst hr
        exact hall d ((hm d).mp hd).1
      | gt => simp [queryCategorical] at hr
      | gte => simp [queryCategorical] at hr
      | lt => simp [queryCategorical] at hr
      | lte => simp [queryCategorical] at hr
  | range f lo hi =>
    rw [evaluateFilter_range] at hr
    cases hn : s.numeric.lookup f with
    | some b =>
      rw [hn] at hr
      simp only [queryNumeric] at hr
      cases hl : lo.toInt64 with
      | none => rw [hl] at hr; simp at hr
      | some l =>
        cases hu : hi.toInt64 with
        | none => rw [hl, hu] at hr; simp at hr
        | some u =>
          rw [hl, hu] at hr
          simp only [Except.ok.injEq] at hr
          subst hr
          exact hcmp f b hn _ _ _ d hd
    | none =>
      rw [hn] at hr
      simp [queryCategorical] at hr
  | isIn neg f vs =>
    rw [evaluateFilter_isIn] at hr
    cases hn : s.numeric.lookup f with
    | some b => rw [hn] at hr; simp [queryNumeric] at hr
    | none =>
      rw [hn] at hr
      cases vs with
      | none => simp [queryCategorical] at hr
      | some l =>
        cases neg with
        | false =>
          simp only [queryCategorical, Except.ok.injEq] at hr
          subst hr
          rcases (mem_foldl_in s f d l []).mp hd with hd | ⟨v, _, hd⟩
          · simp at hd
          · exact hcatSet _ d hd
        | true =>
          simp only [queryCategorical, Except.ok.injEq] at hr
          subst hr
          exact hall d ((mem_foldl_notIn s f d l s.allDocs).mp hd).1

/-- `A ⊆ live` for the accumulators of the loops -/
def SubLive (sp : Spec) (a : RB) : Prop := ∀ d, d ∈ a → (sp.docs.lookup d).isSome = true

theorem simpleLoop_live {s : State} {sp : Spec} (h : InvS s sp) : ∀ (fs : List Filter) (acc : Option RB) (r : RB),
    (∀ a, acc = some a → SubLive sp a) → simpleLoop s fs acc = .ok r → SubLive sp r
  | [], none, r, _, hr => by
    simp only [simpleLoop, Except.ok.injEq] at hr; subst hr; intro d hd; simp at hd
  | [], some a, r, ha, hr => by
    simp only [simpleLoop, Except.ok.injEq] at hr; subst hr; exact ha a rfl
  | f :: fs, none, r, _, hr => by
    simp only [simpleLoop] at hr
    cases he : evaluateFilter s f with
    | error e => rw [he] at hr; simp at hr
    | ok bm =>
      rw [he] at hr
      have hbm : SubLive sp bm := evaluateFilter_live h f bm he
      by_cases hemp : bm.isEmpty = true
      · simp only [hemp, if_true, Except.ok.injEq] at hr; subst hr; exact hbm
      · simp only [hemp, Bool.false_eq_true, if_false] at hr
        exact simpleLoop_live h fs (some bm) r (fun a ha' => by cases ha'; exact hbm) hr
  | f :: fs, some a, r, ha, hr => by
    simp only [simpleLoop] at hr
    cases he : evaluateFilter s f with
    | error e => rw [he] at hr; simp at hr
    | ok bm =>
      rw [he] at hr
      have hbm : SubLive sp bm := evaluateFilter_live h f bm he
      have hnew : SubLive sp (RB.and a bm) := fun d hd => hbm d (RB.mem_and.mp hd).2
      by_cases hemp : (RB.and a bm).isEmpty = true
      · simp only [hemp, if_true, Except.ok.injEq] at hr; subst hr; exact hnew
      · simp only [hemp, Bool.false_eq_true, if_false] at hr
        exact simpleLoop_live h fs (some (RB.and a bm)) r (fun a' ha' => by cases ha'; exact hnew) hr

theorem groupLoop_live {s : State} {sp : Spec} (h : InvS s sp) (logic : Logic) :
    ∀ (fs : List Filter) (acc : Option RB) (r : RB),
    (∀ a, acc = some a → SubLive sp a) → groupLoop s logic fs acc = .ok r → SubLive sp r
  | [], none, r, _, hr => by
    simp only [groupLoop, Except.ok.injEq] at hr; subst hr; intro d hd; simp at hd
  | [], some a, r, ha, hr => by
    simp only [groupLoop, Except.ok.injEq] at hr; subst hr; exact ha a rfl
  | f :: fs, none, r, _, hr => by
    simp only [groupLoop] at hr
    cases he : evaluateFilter s f with
    | error e => rw [he] at hr; simp at hr
    | ok bm =>
      rw [he] at hr
      have hbm : SubLive sp bm := evaluateFilter_live h f bm he
      by_cases hemp : (logic == Logic.and && bm.isEmpty) = true
      · simp only [hemp, if_true, Except.ok.injEq] at hr; subst hr; exact hbm
      · simp only [hemp, Bool.false_eq_true, if_false] at hr
        exact groupLoop_live h logic fs (some bm) r (fun a ha' => by cases ha'; exact hbm) hr
  | f :: fs, some a, r, ha, hr => by
    simp only [groupLoop] at hr
    cases he : evaluateFilter s f with
    | error e => rw [he] at hr; simp at hr
    | ok bm =>
      rw [he] at hr
      have hbm : SubLive sp bm := evaluateFilter_live h f bm he
      by_cases hl : logic = Logic.and
      · subst hl
        simp only [beq_self_eq_true, if_true, Bool.true_and] at hr
        have hnew : SubLive sp (RB.and a bm) := fun d hd => hbm d (RB.mem_and.mp hd).2
        by_cases hemp : (RB.and a bm).isEmpty = true
        · simp only [hemp, if_true, Except.ok.injEq] at hr; subst hr; exact hnew
        · simp only [hemp, Bool.false_eq_true, if_false] at hr
          exact groupLoop_live h .and fs (some (RB.and a bm)) r (fun a' ha' => by cases ha'; exact hnew) hr
      · have hl' : (logic == Logic.and) = false := by simpa using hl
        simp only [hl', Bool.false_eq_true, if_false, Bool.false_and] at hr
        have hnew : SubLive sp (RB.or a bm) := by
          intro d hd
          rcases RB.mem_or.mp hd with hd | hd
          · exact ha a rfl d hd
          · exact hbm d hd
        exact groupLoop_live h logic fs (some (RB.or a bm)) r (fun a' ha' => by cases ha'; exact hnew) hr

theorem executeGroup_live {s : State} {sp : Spec} (h : InvS s sp) (g : Group) (r : RB)
    (hr : executeGroup s g = .ok r) : SubLive sp r := by
  simp only [executeGroup] at hr
  split at hr
  · simp only [Except.ok.injEq] at hr; subst hr; exact fun d hd => (h.all d).mp hd
  · exact groupLoop_live h g.logic g.filters none r (fun a ha => by cases ha) hr

theorem groupsLoop_live {s : State} {sp : Spec} (h : InvS s sp) :
    ∀ (gs : List Group) (i : Nat) (acc : Option RB) (r : RB),
    (∀ a, acc = some a → SubLive sp a) → groupsLoop s gs i acc = .ok r → SubLive sp r
  | [], _, none, r, _, hr => by
    simp only [groupsLoop, Except.ok.injEq] at hr; subst hr; intro d hd; simp at hd
  | [], _, some a, r, ha, hr => by
    simp only [groupsLoop, Except.ok.injEq] at hr; subst hr; exact ha a rfl
  | g :: gs, i, acc, r, ha, hr => by
    simp only [groupsLoop] at hr
    cases he : executeGroup s g with
    | error e => rw [he] at hr; simp at hr
    | ok gr =>
      rw [he] at hr
      have hgr : SubLive sp gr := executeGroup_live h g gr he
      refine groupsLoop_live h gs (i + 1) _ r (fun a ha' => ?_) hr
      cases acc with
      | none => cases ha'; exact hgr
      | some a0 =>
        cases ha'
        intro d hd
        rcases RB.mem_or.mp hd with hd | hd
        · exact ha a0 rfl d hd
        · exact hgr d hd

/-- whatever the query (ill-typed, mixed signs, `Not(range)` included): every returned id is live -/
theorem execute_live {s : State} {sp : Spec} (h : InvS s sp) (fs : List Filter) (gs : List Group) (r : RB)
    (hr : execute s fs gs = .ok r) : SubLive sp r := by
  simp only [execute] at hr
  split at hr
  · exact groupsLoop_live h gs 0 none r (fun a ha => by cases ha) hr
  · split at hr
    · cases he : executeSimpleFilters s fs with
      | error e => rw [he] at hr; simp at hr
      | ok r' =>
        rw [he] at hr
        simp only [Except.ok.injEq] at hr
        subst hr
        exact simpleLoop_live h fs none r' (fun a ha => by cases ha) he
    · simp only [Except.ok.injEq] at hr; subst hr; exact fun d hd => (h.all d).mp hd

/-- ids of a successful answer (for the `decide`d witnesses) -/
def okIds : Except Err RB → Option (List Nat)
  | .ok r => some r
  | .error _ => none

end Comet.Meta
