/-
  Helper definitions for C19: the exact scalar ℚ (what "the sum", "the mean", "the
  maximum" mean) as an instance of the model's scalar interface.
-/
import Mathlib.Algebra.Order.Field.Rat
import Mathlib.Tactic.NormNum
import Comet.Agg
namespace Comet

/-- the exact scalar: ℚ with its usual order -/
def qScalar : Scalar ℚ where
  zero := 0
  add := (· + ·)
  divNat x n := x / (n : ℚ)
  le a b := decide (a ≤ b)
  lt a b := decide (a < b)

theorem qScalar_ordered : qScalar.Ordered where
  total a b := by simp only [qScalar, Bool.or_eq_true, decide_eq_true_eq]; exact le_total a b
  trans a b c := by simp only [qScalar, decide_eq_true_eq]; exact le_trans
  lt_iff a b := by simp only [qScalar]; by_cases h : a < b <;> simp [h, not_le.2, not_lt.1]

theorem foldl_add_rat (l : List ℚ) : ∀ a : ℚ, l.foldl (· + ·) a = a + l.sum := by
  induction l with
  | nil => intro a; simp
  | cons x l ih => intro a; simp only [List.foldl_cons, List.sum_cons, ih]; exact add_assoc a x l.sum

end Comet
