/-
  Helper lemmas for C11 (C): the invariant `Good` of the protocol model
  (Comet/Conc/RemoveProto.lean) and its preservation by every region execution.
-/
import Comet.Conc.RemoveProto
namespace Comet.Conc.Proto

theorem mem_visible {st dl : List Id} {x : Id} : x ∈ visible st dl ↔ x ∈ st ∧ x ∉ dl := by
  simp [visible, List.mem_filter]

theorem flushCore_some {cfg : Cfg} {st dl st' dl' : List Id}
    (h : flushCore cfg st dl = some (st', dl')) :
    (dl = [] ∧ st' = st ∧ dl' = []) ∨ (st' = visible st dl ∧ dl' = []) := by
  unfold flushCore at h
  split at h
  · next he =>
    injection h with h; injection h with h1 h2
    have : dl = [] := List.isEmpty_iff.1 he
    subst this
    exact .inl ⟨rfl, h1.symm, h2.symm⟩
  · split at h
    · cases h
    · injection h with h; injection h with h1 h2
      exact .inr ⟨h1.symm, h2.symm⟩

theorem flush_visible {cfg : Cfg} {st dl st' dl' : List Id}
    (h : flushCore cfg st dl = some (st', dl')) (x : Id) :
    x ∈ visible st' dl' ↔ x ∈ visible st dl := by
  rcases flushCore_some h with ⟨rfl, rfl, rfl⟩ | ⟨rfl, rfl⟩
  · rfl
  · simp [mem_visible]

theorem flush_stored_sub {cfg : Cfg} {st dl st' dl' : List Id}
    (h : flushCore cfg st dl = some (st', dl')) {x : Id} (hx : x ∈ st') : x ∈ st := by
  rcases flushCore_some h with ⟨rfl, rfl, rfl⟩ | ⟨rfl, rfl⟩
  · exact hx
  · exact (mem_visible.1 hx).1

theorem flush_deleted_nil {cfg : Cfg} {st dl st' dl' : List Id}
    (h : flushCore cfg st dl = some (st', dl')) : dl' = [] := by
  rcases flushCore_some h with ⟨_, _, rfl⟩ | ⟨_, rfl⟩ <;> rfl

theorem flush_keeps {cfg : Cfg} {st dl st' dl' : List Id}
    (h : flushCore cfg st dl = some (st', dl')) {x : Id} (hx : x ∈ st) (hd : x ∉ dl) : x ∈ st' := by
  rcases flushCore_some h with ⟨rfl, rfl, rfl⟩ | ⟨rfl, rfl⟩
  · exact hx
  · exact mem_visible.2 ⟨hx, hd⟩

/-- the invariant of the protocol model -/
structure Good (s : PSt) : Prop where
  times : ∀ op ∈ s.hist, op.inv ≤ op.resp ∧ op.resp < s.now
  pendT : ∀ p ∈ s.pend, p.2 < s.now
  storedAdded : ∀ x ∈ s.stored, ∃ A ∈ s.hist, A.kind = .add ∧ A.id = x ∧ A.ok = true
  deletedRemoved : ∀ x ∈ s.deleted, ∃ M ∈ s.hist, M.kind = .remove ∧ M.id = x ∧ M.ok = true
  addedStored : ∀ A ∈ s.hist, A.kind = .add → A.ok = true →
    (∀ M ∈ s.hist, M.kind = .remove → M.ok = true → M.id ≠ A.id) → A.id ∈ s.stored
  removedHidden : ∀ M ∈ s.hist, M.kind = .remove → M.ok = true →
    (∀ A ∈ s.hist, A.kind = .add → A.id = M.id → A.resp ≤ M.inv) →
    M.id ∉ visible s.stored s.deleted
  vis : VisibilityOK s.hist

theorem good_init : Good {} := by
  constructor <;> simp [VisibilityOK]

/-- the verdict on an already recorded search is not changed by operations responding later -/
theorem vis_old {h : List HOp} {now : Nat} (ht : ∀ o ∈ h, o.inv ≤ o.resp ∧ o.resp < now)
    (op : HOp) (hop : now ≤ op.resp) {S : HOp} (hS : S ∈ h)
    (hv : V1 h S ∧ V2 h S ∧ V3 h S) : V1 (op :: h) S ∧ V2 (op :: h) S ∧ V3 (op :: h) S := by
  obtain ⟨v1, v2, v3⟩ := hv
  have hSt := ht S hS
  refine ⟨?_, ?_, ?_⟩
  · intro A hA hk hok hlt hrem
    rcases List.mem_cons.1 hA with rfl | hA
    · omega
    · exact v1 A hA hk hok hlt fun M hM => hrem M (List.mem_cons_of_mem _ hM)
  · intro x hx M hM hk hok hid hlt
    rcases List.mem_cons.1 hM with rfl | hM
    · omega
    · obtain ⟨A, hA, h1⟩ := v2 x hx M hM hk hok hid hlt
      exact ⟨A, List.mem_cons_of_mem _ hA, h1⟩
  · intro x hx
    obtain ⟨A, hA, h1⟩ := v3 x hx
    exact ⟨A, List.mem_cons_of_mem _ hA, h1⟩

/-- appending an operation that is not a search keeps `VisibilityOK` -/
theorem vis_cons_nonsearch {h : List HOp} {now : Nat}
    (ht : ∀ o ∈ h, o.inv ≤ o.resp ∧ o.resp < now) (op : HOp) (hop : now ≤ op.resp)
    (hk : op.kind ≠ .search) (hv : VisibilityOK h) : VisibilityOK (op :: h) := by
  intro S hS hSk
  rcases List.mem_cons.1 hS with rfl | hS
  · exact absurd hSk hk
  · exact vis_old ht op hop hS (hv S hS hSk)

theorem times_cons {h : List HOp} {now : Nat} (ht : ∀ o ∈ h, o.inv ≤ o.resp ∧ o.resp < now)
    (op : HOp) (h1 : op.inv ≤ op.resp) (h2 : op.resp = now) :
    ∀ o ∈ op :: h, o.inv ≤ o.resp ∧ o.resp < now + 1 := by
  intro o ho
  rcases List.mem_cons.1 ho with rfl | ho
  · omega
  · have := ht o ho; omega

/-- a successful Add region -/
theorem good_add_ok {s : PSt} (g : Good s) (id : Id) (st' dl' : List Id)
    (hsub : ∀ x ∈ st', x ∈ s.stored) (hdl : ∀ x ∈ dl', x ∈ s.deleted)
    (hkeep : ∀ x ∈ s.stored, x ∉ s.deleted → x ∈ st')
    (hvis : ∀ x, x ∈ visible st' dl' → x ∈ visible s.stored s.deleted)
    (hidvis : id ∈ dl' → False ∨ True) :
    Good { s with stored := st' ++ [id], deleted := dl', now := s.now + 1,
                  hist := { kind := .add, id := id, inv := s.now, resp := s.now } :: s.hist } := by
  constructor
  · exact times_cons g.times _ (Nat.le_refl _) rfl
  · intro p hp; have := g.pendT p hp; simp only at this ⊢; omega
  · intro x hx
    simp only [List.mem_append, List.mem_singleton] at hx
    rcases hx with hx | rfl
    · obtain ⟨A, hA, h1⟩ := g.storedAdded x (hsub x hx)
      exact ⟨A, List.mem_cons_of_mem _ hA, h1⟩
    · exact ⟨_, List.mem_cons_self .., rfl, rfl, rfl⟩
  · intro x hx
    obtain ⟨M, hM, h1⟩ := g.deletedRemoved x (hdl x hx)
    exact ⟨M, List.mem_cons_of_mem _ hM, h1⟩
  · intro A hA hk hok hno
    simp only [List.mem_append, List.mem_singleton]
    rcases List.mem_cons.1 hA with rfl | hA
    · exact .inr rfl
    · left
      have hnoOld : ∀ M ∈ s.hist, M.kind = .remove → M.ok = true → M.id ≠ A.id :=
        fun M hM => hno M (List.mem_cons_of_mem _ hM)
      have h1 := g.addedStored A hA hk hok hnoOld
      apply hkeep _ h1
      intro hd
      obtain ⟨M, hM, hMk, hMid, hMok⟩ := g.deletedRemoved _ hd
      exact hnoOld M hM hMk hMok hMid
  · intro M hM hk hok hadds
    rcases List.mem_cons.1 hM with rfl | hM
    · cases hk
    · have hMt := g.times M hM
      by_cases hid : M.id = id
      · -- the new add responds after M began: the hypothesis is contradictory
        have := hadds _ (List.mem_cons_self ..) rfl hid.symm
        simp only at this
        omega
      · intro hv
        rw [mem_visible] at hv
        simp only [List.mem_append, List.mem_singleton] at hv
        rcases hv.1 with h1 | h1
        · have : M.id ∈ visible st' dl' := mem_visible.2 ⟨h1, hv.2⟩
          exact g.removedHidden M hM hk hok (fun A hA => hadds A (List.mem_cons_of_mem _ hA)) (hvis _ this)
        · exact hid h1
  · exact vis_cons_nonsearch g.times _ (Nat.le_refl _) (by simp) g.vis

/-- an operation that only records a failed / panicked response and leaves the data alone -/
theorem good_record_failed {s : PSt} (g : Good s) (k : Kind) (hk : k ≠ .search) (id : Id) (p : Bool) :
    Good { s with panicked := p, now := s.now + 1,
                  hist := { kind := k, id := id, inv := s.now, resp := s.now, ok := false } :: s.hist } := by
  constructor
  · exact times_cons g.times _ (Nat.le_refl _) rfl
  · intro q hq; have := g.pendT q hq; simp only at this ⊢; omega
  · intro x hx
    obtain ⟨A, hA, h1⟩ := g.storedAdded x hx
    exact ⟨A, List.mem_cons_of_mem _ hA, h1⟩
  · intro x hx
    obtain ⟨M, hM, h1⟩ := g.deletedRemoved x hx
    exact ⟨M, List.mem_cons_of_mem _ hM, h1⟩
  · intro A hA hAk hok hno
    rcases List.mem_cons.1 hA with rfl | hA
    · cases hok
    · exact g.addedStored A hA hAk hok fun M hM => hno M (List.mem_cons_of_mem _ hM)
  · intro M hM hMk hok hadds
    rcases List.mem_cons.1 hM with rfl | hM
    · cases hok
    · exact g.removedHidden M hM hMk hok fun A hA => hadds A (List.mem_cons_of_mem _ hA)
  · exact vis_cons_nonsearch g.times _ (Nat.le_refl _) hk g.vis

/-- a successful Remove writes its tombstone (write region of the two-region shape, or the
    single region of the atomic shape) -/
theorem good_rm_write {s : PSt} (g : Good s) (id : Id) (t0 : Nat) (ht0 : t0 ≤ s.now)
    (pend' : List (Id × Nat)) (hp' : ∀ p ∈ pend', p ∈ s.pend) :
    Good { s with now := s.now + 1, pend := pend',
                  deleted := if s.deleted.contains id then s.deleted else id :: s.deleted,
                  hist := { kind := .remove, id := id, inv := t0, resp := s.now } :: s.hist } := by
  have hdel : ∀ x, x ∈ (if s.deleted.contains id then s.deleted else id :: s.deleted) ↔
      x = id ∨ x ∈ s.deleted := by
    intro x
    split
    · next hc =>
      have : id ∈ s.deleted := by simpa using hc
      constructor
      · exact .inr
      · rintro (rfl | h)
        · exact this
        · exact h
    · simp
  constructor
  · exact times_cons g.times _ (by simp only; omega) rfl
  · intro p hp
    have := g.pendT p (hp' p hp)
    simp only at this ⊢; omega
  · intro x hx
    obtain ⟨A, hA, h1⟩ := g.storedAdded x hx
    exact ⟨A, List.mem_cons_of_mem _ hA, h1⟩
  · intro x hx
    rcases (hdel x).1 hx with rfl | hx
    · exact ⟨_, List.mem_cons_self .., rfl, rfl, rfl⟩
    · obtain ⟨M, hM, h1⟩ := g.deletedRemoved x hx
      exact ⟨M, List.mem_cons_of_mem _ hM, h1⟩
  · intro A hA hAk hok hno
    rcases List.mem_cons.1 hA with rfl | hA
    · cases hAk
    · exact g.addedStored A hA hAk hok fun M hM => hno M (List.mem_cons_of_mem _ hM)
  · intro M hM hMk hok hadds hv
    rw [mem_visible] at hv
    have hnd : M.id ≠ id ∧ M.id ∉ s.deleted := by
      constructor
      · intro h; exact hv.2 ((hdel _).2 (.inl h))
      · intro h; exact hv.2 ((hdel _).2 (.inr h))
    rcases List.mem_cons.1 hM with rfl | hM
    · exact hnd.1 rfl
    · exact g.removedHidden M hM hMk hok (fun A hA => hadds A (List.mem_cons_of_mem _ hA))
        (mem_visible.2 ⟨hv.1, hnd.2⟩)
  · exact vis_cons_nonsearch g.times _ (Nat.le_refl _) (by simp) g.vis

theorem good_step (cfg : Cfg) {s : PSt} (g : Good s) (a : Act) : Good (step cfg s a) := by
  cases a with
  | add id =>
    simp only [step]
    split
    · split
      · exact good_record_failed g .add (by simp) id true
      · next st dl hf =>
        refine good_add_ok g id st dl (fun x hx => flush_stored_sub hf hx) ?_
          (fun x hx hd => flush_keeps hf hx hd) (fun x hx => (flush_visible hf x).1 hx) (fun _ => .inr trivial)
        intro x hx
        rw [flush_deleted_nil hf] at hx
        cases hx
    · exact good_add_ok g id s.stored s.deleted (fun _ h => h) (fun _ h => h) (fun _ h _ => h)
        (fun _ h => h) (fun _ => .inr trivial)
  | rmCheck id =>
    simp only [step]
    split
    · exact good_record_failed g .remove (by simp) id s.panicked
    · split
      · exact good_rm_write g id s.now (Nat.le_refl _) s.pend (fun _ h => h)
      constructor
      · intro o ho; have := g.times o ho; simp only at this ⊢; omega
      · intro p hp
        simp only [List.mem_append, List.mem_singleton] at hp
        rcases hp with hp | rfl
        · have := g.pendT p hp; simp only at this ⊢; omega
        · simp
      · exact g.storedAdded
      · exact g.deletedRemoved
      · exact g.addedStored
      · exact g.removedHidden
      · exact g.vis
  | rmWrite k =>
    simp only [step]
    split
    · constructor
      · intro o ho; have := g.times o ho; simp only at this ⊢; omega
      · intro p hp; have := g.pendT p hp; simp only at this ⊢; omega
      · exact g.storedAdded
      · exact g.deletedRemoved
      · exact g.addedStored
      · exact g.removedHidden
      · exact g.vis
    · next id t0 hk =>
      have hp : (id, t0) ∈ s.pend := List.mem_of_getElem? hk
      have ht0 := g.pendT _ hp
      simp only at ht0
      exact good_rm_write g id t0 (by omega) _ (fun p hp' => List.mem_of_mem_eraseIdx hp')
  | search =>
    simp only [step]
    have ht' := times_cons g.times
      { kind := .search, inv := s.now, resp := s.now, res := visible s.stored s.deleted } (Nat.le_refl _) rfl
    constructor
    · exact ht'
    · intro p hp; have := g.pendT p hp; simp only at this ⊢; omega
    · intro x hx
      obtain ⟨A, hA, h1⟩ := g.storedAdded x hx
      exact ⟨A, List.mem_cons_of_mem _ hA, h1⟩
    · intro x hx
      obtain ⟨M, hM, h1⟩ := g.deletedRemoved x hx
      exact ⟨M, List.mem_cons_of_mem _ hM, h1⟩
    · intro A hA hAk hok hno
      rcases List.mem_cons.1 hA with rfl | hA
      · cases hAk
      · exact g.addedStored A hA hAk hok fun M hM => hno M (List.mem_cons_of_mem _ hM)
    · intro M hM hMk hok hadds
      rcases List.mem_cons.1 hM with rfl | hM
      · cases hMk
      · exact g.removedHidden M hM hMk hok fun A hA => hadds A (List.mem_cons_of_mem _ hA)
    · intro S hS hSk
      rcases List.mem_cons.1 hS with rfl | hS
      · -- the new search: judged on the state it read
        refine ⟨?_, ?_, ?_⟩
        · intro A hA hAk hok hlt hrem
          rcases List.mem_cons.1 hA with rfl | hA
          · cases hAk
          · simp only
            have hnoRem : ∀ M ∈ s.hist, M.kind = .remove → M.ok = true → M.id ≠ A.id := by
              intro M hM hMk hMok hid
              have h1 := hrem M (List.mem_cons_of_mem _ hM) hMk hMok hid
              have h2 := g.times M hM
              simp only at h1
              omega
            refine mem_visible.2 ⟨g.addedStored A hA hAk hok hnoRem, ?_⟩
            intro hd
            obtain ⟨M, hM, hMk, hMid, hMok⟩ := g.deletedRemoved _ hd
            exact hnoRem M hM hMk hMok hMid
        · intro x hx M hM hMk hok hid hlt
          simp only at hx hlt
          rcases List.mem_cons.1 hM with rfl | hM
          · cases hMk
          · false_or_by_contra
            rename_i hcon
            apply g.removedHidden M hM hMk hok ?_ (hid ▸ hx)
            intro A hA hAk hAid
            false_or_by_contra
            rename_i hgt
            exact hcon ⟨A, List.mem_cons_of_mem _ hA, hAk, hAid.trans hid, by omega⟩
        · intro x hx
          simp only at hx
          obtain ⟨A, hA, hAk, hAid, _⟩ := g.storedAdded x (mem_visible.1 hx).1
          refine ⟨A, List.mem_cons_of_mem _ hA, hAk, hAid, ?_⟩
          have := g.times A hA
          simp only
          omega
      · exact vis_old g.times _ (Nat.le_refl _) hS (g.vis S hS hSk)
  | flush =>
    simp only [step]
    split
    · exact good_record_failed g .flush (by simp) 0 true
    · next st dl hf =>
      constructor
      · exact times_cons g.times _ (Nat.le_refl _) rfl
      · intro p hp; have := g.pendT p hp; simp only at this ⊢; omega
      · intro x hx
        obtain ⟨A, hA, h1⟩ := g.storedAdded x (flush_stored_sub hf hx)
        exact ⟨A, List.mem_cons_of_mem _ hA, h1⟩
      · intro x hx
        rw [flush_deleted_nil hf] at hx
        cases hx
      · intro A hA hAk hok hno
        rcases List.mem_cons.1 hA with rfl | hA
        · cases hAk
        · have hnoOld : ∀ M ∈ s.hist, M.kind = .remove → M.ok = true → M.id ≠ A.id :=
            fun M hM => hno M (List.mem_cons_of_mem _ hM)
          apply flush_keeps hf (g.addedStored A hA hAk hok hnoOld)
          intro hd
          obtain ⟨M, hM, hMk, hMid, hMok⟩ := g.deletedRemoved _ hd
          exact hnoOld M hM hMk hMok hMid
      · intro M hM hMk hok hadds hv
        rcases List.mem_cons.1 hM with rfl | hM
        · cases hMk
        · exact g.removedHidden M hM hMk hok (fun A hA => hadds A (List.mem_cons_of_mem _ hA))
            ((flush_visible hf _).1 hv)
      · exact vis_cons_nonsearch g.times _ (Nat.le_refl _) (by simp) g.vis

theorem good_foldl (cfg : Cfg) (acts : List Act) {s : PSt} (g : Good s) :
    Good (acts.foldl (step cfg) s) := by
  induction acts generalizing s with
  | nil => exact g
  | cons a as ih => exact ih (good_step cfg g a)

theorem good_run (cfg : Cfg) (acts : List Act) : Good (run cfg acts) := good_foldl cfg acts good_init

/-! ### the checker decides the history predicate -/

theorem checkV1_iff (h : List HOp) (S : HOp) : checkV1 h S = true ↔ V1 h S := by
  simp only [checkV1, V1, List.all_eq_true, Bool.or_eq_true, Bool.not_eq_true', Bool.and_eq_false_iff,
    Bool.and_eq_true, beq_iff_eq, decide_eq_true_eq, decide_eq_false_iff_not, List.contains_iff_mem,
    beq_eq_false_iff_ne, ne_eq]
  constructor
  · intro hc A hA hk hok hlt hrem
    rcases hc A hA with (h1 | h1) | h1
    · rcases h1 with (h1 | h1) | h1
      · exact absurd hk h1
      · rw [hok] at h1; cases h1
      · exact absurd hlt h1
    · exfalso
      apply (Bool.eq_false_iff.1 h1)
      rw [List.all_eq_true]
      intro M hM
      simp only [Bool.or_eq_true, Bool.not_eq_true', Bool.and_eq_false_iff, beq_eq_false_iff_ne,
        decide_eq_true_eq]
      by_cases hk' : M.kind = .remove
      · by_cases hok' : M.ok = true
        · by_cases hid : M.id = A.id
          · exact .inr (hrem M hM hk' hok' hid)
          · exact .inl (.inr hid)
        · exact .inl (.inl (.inr (Bool.eq_false_iff.2 hok')))
      · exact .inl (.inl (.inl hk'))
    · exact h1
  · intro hv A hA
    by_cases hk : A.kind = .add
    · by_cases hok : A.ok = true
      · by_cases hlt : A.resp < S.inv
        · by_cases hall : (h.all fun M => !(M.kind == .remove && M.ok && M.id == A.id) || decide (S.resp < M.inv)) = true
          · right
            apply hv A hA hk hok hlt
            intro M hM hMk hMok hid
            have := (List.all_eq_true.1 hall) M hM
            simpa [hMk, hMok, hid] using this
          · exact .inl (.inr (Bool.eq_false_iff.2 hall))
        · exact .inl (.inl (.inr hlt))
      · exact .inl (.inl (.inl (.inr (Bool.eq_false_iff.2 hok))))
    · exact .inl (.inl (.inl (.inl hk)))

theorem checkV2_iff (h : List HOp) (S : HOp) : checkV2 h S = true ↔ V2 h S := by
  simp only [checkV2, V2, List.all_eq_true, Bool.or_eq_true, Bool.not_eq_true', Bool.and_eq_false_iff,
    Bool.and_eq_true, beq_iff_eq, decide_eq_true_eq, decide_eq_false_iff_not, List.any_eq_true,
    beq_eq_false_iff_ne, ne_eq]
  constructor
  · intro hc x hx M hM hk hok hid hlt
    rcases hc x hx M hM with h1 | ⟨A, hA, h2⟩
    · rcases h1 with ((h1 | h1) | h1) | h1
      · exact absurd hk h1
      · rw [hok] at h1; cases h1
      · exact absurd hid h1
      · exact absurd hlt h1
    · exact ⟨A, hA, h2.1.1, h2.1.2, h2.2⟩
  · intro hv x hx M hM
    by_cases hk : M.kind = .remove
    · by_cases hok : M.ok = true
      · by_cases hid : M.id = x
        · by_cases hlt : M.resp < S.inv
          · obtain ⟨A, hA, h1, h2, h3⟩ := hv x hx M hM hk hok hid hlt
            exact .inr ⟨A, hA, ⟨h1, h2⟩, h3⟩
          · exact .inl (.inr hlt)
        · exact .inl (.inl (.inr hid))
      · exact .inl (.inl (.inl (.inr (Bool.eq_false_iff.2 hok))))
    · exact .inl (.inl (.inl (.inl hk)))

theorem checkV3_iff (h : List HOp) (S : HOp) : checkV3 h S = true ↔ V3 h S := by
  simp only [checkV3, V3, List.all_eq_true, List.any_eq_true, Bool.and_eq_true, beq_iff_eq,
    decide_eq_true_eq]
  constructor
  · intro hc x hx
    obtain ⟨A, hA, h1⟩ := hc x hx
    exact ⟨A, hA, h1.1.1, h1.1.2, h1.2⟩
  · intro hv x hx
    obtain ⟨A, hA, h1, h2, h3⟩ := hv x hx
    exact ⟨A, hA, ⟨h1, h2⟩, h3⟩

/-! ### helpers for no_spurious_error, the panic theorems and ids_unique -/

/-- every failing response in a history of the model is of one of two kinds -/
def FailKinds (s : PSt) : Prop :=
  ∀ op ∈ s.hist, op.ok = false →
    (op.kind = .remove ∧ op.inv = op.resp) ∨ ((op.kind = .add ∨ op.kind = .flush) ∧ s.panicked = true)

theorem failKinds_step (cfg : Cfg) {s : PSt} (h : FailKinds s) (a : Act) : FailKinds (step cfg s a) := by
  have keep : ∀ {s' : PSt}, s'.hist = s.hist → (s.panicked = true → s'.panicked = true) → FailKinds s' := by
    intro s' hh hp op hop hok
    rw [hh] at hop
    rcases h op hop hok with h1 | ⟨h1, h2⟩
    · exact .inl h1
    · exact .inr ⟨h1, hp h2⟩
  have push : ∀ {s' : PSt} (o : HOp), s'.hist = o :: s.hist → (s.panicked = true → s'.panicked = true) →
      (o.ok = false → (o.kind = .remove ∧ o.inv = o.resp) ∨ ((o.kind = .add ∨ o.kind = .flush) ∧ s'.panicked = true)) →
      FailKinds s' := by
    intro s' o hh hp ho op hop hok
    rw [hh] at hop
    rcases List.mem_cons.1 hop with rfl | hop
    · exact ho hok
    · rcases h op hop hok with h1 | ⟨h1, h2⟩
      · exact .inl h1
      · exact .inr ⟨h1, hp h2⟩
  cases a with
  | add id =>
    simp only [step]
    split
    · split
      · exact push _ rfl (fun _ => rfl) (fun _ => .inr ⟨.inl rfl, rfl⟩)
      · exact push _ rfl (fun h => h) (fun h => by cases h)
    · exact push _ rfl (fun h => h) (fun h => by cases h)
  | rmCheck id =>
    simp only [step]
    split
    · exact push _ rfl (fun h => h) (fun _ => .inl ⟨rfl, rfl⟩)
    · split
      · exact push _ rfl (fun h => h) (fun h => by cases h)
      · exact keep rfl (fun h => h)
  | rmWrite k =>
    simp only [step]
    split
    · exact keep rfl (fun h => h)
    · exact push _ rfl (fun h => h) (fun h => by cases h)
  | search => exact push _ rfl (fun h => h) (fun h => by cases h)
  | flush =>
    simp only [step]
    split
    · exact push _ rfl (fun _ => rfl) (fun _ => .inr ⟨.inr rfl, rfl⟩)
    · exact push _ rfl (fun h => h) (fun h => by cases h)

theorem nodup_subset_length : ∀ (l m : List Id), l.Nodup → (∀ x ∈ l, x ∈ m) → l.length ≤ m.length := by
  intro l
  induction l with
  | nil => intro m _ _; exact Nat.zero_le _
  | cons x xs ih =>
    intro m hnd hsub
    rw [List.nodup_cons] at hnd
    have hx : x ∈ m := hsub x (List.mem_cons_self ..)
    have := ih (m.erase x) hnd.2 (fun y hy => by
      have hym := hsub y (List.mem_cons_of_mem _ hy)
      have hne : y ≠ x := fun h => hnd.1 (h ▸ hy)
      exact (List.mem_erase_of_ne hne).2 hym)
    rw [List.length_erase_of_mem hx] at this
    have : 0 < m.length := List.length_pos_of_mem hx
    simp only [List.length_cons]
    omega

/-- invariant behind `flush_no_panic_partial` -/
structure Tidy (s : PSt) : Prop where
  sub : ∀ x ∈ s.deleted, x ∈ s.stored
  nd : s.deleted.Nodup
  pend : ∀ p ∈ s.pend, p.1 ∈ s.stored
  np : s.panicked = false

theorem flushCore_tidy {cfg : Cfg} {st dl : List Id} (hsub : ∀ x ∈ dl, x ∈ st) (hnd : dl.Nodup) :
    flushCore cfg st dl = some (if dl.isEmpty then (st, dl) else (visible st dl, [])) := by
  unfold flushCore
  split
  · rfl
  · have := nodup_subset_length dl st hnd hsub
    have h2 : decide (st.length < dl.length) = false := by simp; omega
    simp [h2]

theorem tidy_steps (cfg : Cfg) : ∀ (acts : List Act) (s : PSt), Tidy s →
    noFlushInRemoveWindow cfg s acts = true → (acts.foldl (step cfg) s).panicked = false := by
  intro acts
  induction acts with
  | nil => intro s t _; exact t.np
  | cons a as ih =>
    intro s t hw
    simp only [noFlushInRemoveWindow, Bool.and_eq_true] at hw
    refine ih _ ?_ hw.2
    have hw1 := hw.1
    cases a with
    | add id =>
      simp only [step]
      split
      · next hpurge =>
        simp only [hpurge, Bool.not_true, Bool.false_or, List.isEmpty_iff] at hw1
        rw [flushCore_tidy t.sub t.nd]
        have hne : s.deleted.isEmpty = false := by
          simp only [Bool.and_eq_true] at hpurge
          cases hd : s.deleted with
          | nil => rw [hd] at hpurge; simp at hpurge
          | cons _ _ => rfl
        simp only [hne, Bool.false_eq_true, ↓reduceIte]
        exact ⟨by simp, by simp, by simp [hw1], t.np⟩
      · exact ⟨fun x hx => List.mem_append_left _ (t.sub x hx), t.nd,
          fun p hp => List.mem_append_left _ (t.pend p hp), t.np⟩
    | rmCheck id =>
      simp only [step]
      split
      · exact ⟨t.sub, t.nd, t.pend, t.np⟩
      · next hc =>
        simp only [Bool.or_eq_true, Bool.not_eq_true', not_or, Bool.not_eq_false] at hc
        have hid : id ∈ s.stored := by simpa using hc.1
        split
        · refine ⟨?_, ?_, t.pend, t.np⟩
          · intro x hx
            simp only at hx
            split at hx
            · exact t.sub x hx
            · rcases List.mem_cons.1 hx with rfl | hx
              · exact hid
              · exact t.sub x hx
          · simp only
            split
            · exact t.nd
            · next hc2 => exact List.nodup_cons.2 ⟨by simpa using hc2, t.nd⟩
        · refine ⟨t.sub, t.nd, ?_, t.np⟩
          intro p hp
          simp only [List.mem_append, List.mem_singleton] at hp
          rcases hp with hp | rfl
          · exact t.pend p hp
          · exact hid
    | rmWrite k =>
      simp only [step]
      split
      · exact ⟨t.sub, t.nd, t.pend, t.np⟩
      · next id t0 hk =>
        have hp : (id, t0) ∈ s.pend := List.mem_of_getElem? hk
        have hid : id ∈ s.stored := t.pend _ hp
        refine ⟨?_, ?_, fun p hp' => t.pend p (List.mem_of_mem_eraseIdx hp'), t.np⟩
        · intro x hx
          simp only at hx
          split at hx
          · exact t.sub x hx
          · rcases List.mem_cons.1 hx with rfl | hx
            · exact hid
            · exact t.sub x hx
        · simp only
          split
          · exact t.nd
          · next hc => exact List.nodup_cons.2 ⟨by simpa using hc, t.nd⟩
    | search => exact ⟨t.sub, t.nd, t.pend, t.np⟩
    | flush =>
      simp only [step]
      simp only [List.isEmpty_iff] at hw1
      rw [flushCore_tidy t.sub t.nd]
      by_cases he : s.deleted.isEmpty = true
      · simp only [he, ↓reduceIte]
        exact ⟨t.sub, t.nd, t.pend, t.np⟩
      · have he' : s.deleted.isEmpty = false := Bool.eq_false_iff.2 he
        simp only [he', Bool.false_eq_true, ↓reduceIte]
        exact ⟨by simp, by simp, by simp [hw1], t.np⟩

theorem pend_nil_step (cfg : Cfg) (ha : cfg.atomicRemove = true) {s : PSt} (hp : s.pend = [])
    (a : Act) : (step cfg s a).pend = [] := by
  cases a with
  | add id =>
    simp only [step]
    split
    · split <;> exact hp
    · exact hp
  | rmCheck id =>
    simp only [step, ha]
    split
    · exact hp
    · exact hp
  | rmWrite k => simp [step, hp]
  | search => exact hp
  | flush =>
    simp only [step]
    split <;> exact hp

theorem noWindow_of_atomic (cfg : Cfg) (ha : cfg.atomicRemove = true) :
    ∀ (acts : List Act) (s : PSt), s.pend = [] → noFlushInRemoveWindow cfg s acts = true := by
  intro acts
  induction acts with
  | nil => intro _ _; rfl
  | cons a as ih =>
    intro s hp
    simp only [noFlushInRemoveWindow, Bool.and_eq_true]
    refine ⟨?_, ih _ (pend_nil_step cfg ha hp a)⟩
    cases a <;> simp [hp]

theorem issue_ids_range : ∀ (whos : List (Nat × Nat)) (c : Nat), ∀ x ∈ (issue c whos).map (·.2),
    ∃ j, 1 ≤ j ∧ j ≤ whos.length ∧ x = (c + j) % W32 := by
  intro whos
  induction whos with
  | nil => intro c x hx; simp [issue] at hx
  | cons w rest ih =>
    intro c x hx
    simp only [issue, List.map_cons, List.mem_cons] at hx
    rcases hx with rfl | hx
    · exact ⟨1, Nat.le_refl _, by simp, rfl⟩
    · obtain ⟨j, h1, h2, h3⟩ := ih _ x hx
      refine ⟨j + 1, by omega, by simp; omega, ?_⟩
      rw [h3]
      simp only [W32]
      omega


end Comet.Conc.Proto
