/-
  Helper lemmas for C11 (A): the invariant of the abstract machine of
  Comet/Conc/Lockset.lean and its preservation.  The property theorems
  (`lockset_sound`, …) are in CometProofs/Properties/C11.lean.
-/
import Comet.Conc.Lockset
namespace Comet.Conc

/-! ### `holds` -/

theorem holds_iff (h : Held) (b : Base) (m : Mode) :
    holds h b m = true ↔ (b, Mode.W) ∈ h ∨ (m = .R ∧ (b, Mode.R) ∈ h) := by
  simp [holds]

theorem holds_append (a c : Held) (b : Base) (m : Mode) :
    holds (a ++ c) b m = true ↔ holds a b m = true ∨ holds c b m = true := by
  simp only [holds_iff, List.mem_append]
  constructor
  · rintro ((h | h) | ⟨hm, h | h⟩)
    · exact .inl (.inl h)
    · exact .inr (.inl h)
    · exact .inl (.inr ⟨hm, h⟩)
    · exact .inr (.inr ⟨hm, h⟩)
  · rintro ((h | ⟨hm, h⟩) | (h | ⟨hm, h⟩))
    · exact .inl (.inl h)
    · exact .inr ⟨hm, .inl h⟩
    · exact .inl (.inr h)
    · exact .inr ⟨hm, .inr h⟩

/-- whoever `holds` a lock has an entry for it -/
theorem holds_mem {h : Held} {b : Base} {m : Mode} (hh : holds h b m = true) :
    ∃ m', (b, m') ∈ h := by
  rcases (holds_iff h b m).1 hh with h1 | ⟨_, h1⟩
  · exact ⟨_, h1⟩
  · exact ⟨_, h1⟩

theorem holds_W {h : Held} {b : Base} (hh : holds h b .W = true) : (b, Mode.W) ∈ h := by
  rcases (holds_iff h b .W).1 hh with h1 | ⟨h0, _⟩
  · exact h1
  · cases h0

/-- a W entry covers every request; an R entry covers R -/
theorem holds_of_holds_req {h : Held} {req : Held}
    (hcov : ∀ r ∈ req, holds h r.1 r.2 = true) {b : Base} {m : Mode}
    (hr : holds req b m = true) : holds h b m = true := by
  rcases (holds_iff req b m).1 hr with h1 | ⟨hm, h1⟩
  · have := hcov _ h1
    exact (holds_iff h b m).2 (.inl (holds_W this))
  · subst hm
    exact hcov _ h1

/-! ### the thread invariant: every frame passes the static tracker -/

def topH : Thread → Held
  | [] => []
  | g :: _ => g.h

/-- `WC T ctx t`: the top frame of `t` is checked under inherited locks `ctx`, which are
    covered by what the frames below hold; and so on down the stack. -/
inductive WC (T : Table) : Held → Thread → Prop
  | nil : WC T [] []
  | cons (ctx ctx' : Held) (f : Frame) (rest : Thread) :
      chk T ctx f.h f.prog = some [] →
      (∀ r ∈ ctx, holds (topH rest ++ ctx') r.1 r.2 = true) →
      WC T ctx' rest → WC T ctx (f :: rest)

theorem heldAll_cons (f : Frame) (rest : Thread) : heldAll (f :: rest) = f.h ++ heldAll rest := by
  simp [heldAll]

/-- what the static tracker believes is held is really held by the thread -/
theorem WC.covered {T : Table} {ctx : Held} {t : Thread} (w : WC T ctx t) :
    ∀ b m, holds (topH t ++ ctx) b m = true → holds (heldAll t) b m = true := by
  induction w with
  | nil => intro b m h; simp [topH, holds] at h
  | cons ctx ctx' f rest hchk hcov _ ih =>
    intro b m h
    rw [heldAll_cons]
    rcases (holds_append _ _ _ _).1 h with h1 | h1
    · exact (holds_append _ _ _ _).2 (.inl h1)
    · refine (holds_append _ _ _ _).2 (.inr ?_)
      apply ih
      exact holds_of_holds_req hcov h1

/-! ### mutual exclusion of writers -/

/-- a lock held for writing by one side is not held at all by the other -/
def Excl (a c : Held) : Prop :=
  ∀ x, ((x, Mode.W) ∈ a → ∀ m, (x, m) ∉ c) ∧ ((x, Mode.W) ∈ c → ∀ m, (x, m) ∉ a)

theorem Excl.symm {a c : Held} (h : Excl a c) : Excl c a := fun x => ⟨(h x).2, (h x).1⟩

theorem Excl.mono_right {a c c' : Held} (h : Excl a c) (hs : ∀ x ∈ c', x ∈ c) : Excl a c' :=
  fun x => ⟨fun hx m hm => (h x).1 hx m (hs _ hm), fun hx m => (h x).2 (hs _ hx) m⟩

def Inv (T : Table) (st : State) : Prop :=
  st.Pairwise (fun t u => Excl (heldAll t) (heldAll u)) ∧ ∀ t ∈ st, ∃ ctx, WC T ctx t

theorem pairwise_of_forall {α} {R : α → α → Prop} (l : List α) (h : ∀ a ∈ l, ∀ b ∈ l, R a b) :
    l.Pairwise R := by
  induction l with
  | nil => exact List.Pairwise.nil
  | cons x xs ih =>
    refine List.Pairwise.cons (fun b hb => h x (List.mem_cons_self ..) b (List.mem_cons_of_mem _ hb)) ?_
    exact ih fun a ha b hb => h a (List.mem_cons_of_mem _ ha) b (List.mem_cons_of_mem _ hb)

/-- replacing one element of a pairwise-related list (symmetric relation) -/
theorem pairwise_replace {α} {R : α → α → Prop} (hsym : ∀ a b, R a b → R b a)
    (pre post : List α) (t t' : α)
    (h : (pre ++ t :: post).Pairwise R)
    (hrep : ∀ u, (u ∈ pre ∨ u ∈ post) → R u t → R u t') :
    (pre ++ t' :: post).Pairwise R := by
  rw [List.pairwise_append] at h ⊢
  obtain ⟨h1, h2, h3⟩ := h
  rw [List.pairwise_cons] at h2 ⊢
  refine ⟨h1, ⟨fun b hb => ?_, h2.2⟩, fun a ha b hb => ?_⟩
  · exact hsym _ _ (hrep b (.inr hb) (hsym _ _ (h2.1 b hb)))
  · rcases List.mem_cons.1 hb with rfl | hb
    · exact hrep a (.inl ha) (h3 a ha _ (List.mem_cons_self ..))
    · exact h3 a ha b (List.mem_cons_of_mem _ hb)

theorem pairwise_rel_of_mem {α} {R : α → α → Prop} (hsym : ∀ a b, R a b → R b a)
    (pre post : List α) (t u : α) (h : (pre ++ t :: post).Pairwise R)
    (hu : u ∈ pre ∨ u ∈ post) : R u t := by
  rw [List.pairwise_append, List.pairwise_cons] at h
  rcases hu with hu | hu
  · exact h.2.2 u hu t (List.mem_cons_self ..)
  · exact hsym _ _ (h.2.1.1 u hu)

/-! ### Discipline gives the checks the invariant needs -/

theorem discipline_path {T : Table} (hd : Discipline T) {g : FnId} {fn : Fn}
    (hl : T.lookup g = some fn) {q : List Ev} (hq : q ∈ fn.paths) :
    chk T fn.req [] q = some [] := by
  have hmem : fn ∈ T.fns := List.mem_of_find?_eq_some hl
  have := (List.all_eq_true.1 hd) fn hmem
  simp only [Bool.and_eq_true] at this
  have h2 := (List.all_eq_true.1 this.2) q hq
  exact eq_of_beq h2

theorem discipline_entry {T : Table} (hd : Discipline T) {g : FnId} {fn : Fn}
    (hl : T.lookup g = some fn) (he : fn.entry = true) : fn.req = [] := by
  have hmem : fn ∈ T.fns := List.mem_of_find?_eq_some hl
  have := (List.all_eq_true.1 hd) fn hmem
  simp only [Bool.and_eq_true, Bool.or_eq_true, Bool.not_eq_true', he] at this
  rcases this.1 with h | h
  · cases h
  · exact List.isEmpty_iff.1 h

theorem inv_init {T : Table} (hd : Discipline T) {st : State} (hi : Init T st) : Inv T st := by
  constructor
  · apply pairwise_of_forall
    intro a ha b hb
    obtain ⟨_, _, _, _, rfl⟩ := hi a ha
    obtain ⟨_, _, _, _, rfl⟩ := hi b hb
    intro x
    simp [heldAll]
  · intro t ht
    obtain ⟨g, fn, hl, he, rfl⟩ := hi t ht
    refine ⟨[], WC.cons [] [] _ [] ?_ (by simp) WC.nil⟩
    have hreq := discipline_entry hd hl he
    simp [chk, callOK, hl, hreq]

theorem heldAll_mem_of_free_W {st : State} {b : Base} (hf : free st b .W) {u : Thread}
    (hu : u ∈ st) (m : Mode) : (b, m) ∉ heldAll u := hf u hu m

/-- the invariant is preserved by every step -/
theorem inv_step {T : Table} (hd : Discipline T) {st st' : State}
    (hinv : Inv T st) (hs : Step T st st') : Inv T st' := by
  obtain ⟨hpw, hwc⟩ := hinv
  cases hs with
  | mk pre post t t' hts =>
    have hsym : ∀ a c : Thread, Excl (heldAll a) (heldAll c) → Excl (heldAll c) (heldAll a) :=
      fun _ _ h => h.symm
    obtain ⟨ctx, wt⟩ := hwc t (by simp)
    -- the other threads keep their invariant
    have hothers : ∀ v ∈ pre ++ t' :: post, v ≠ t' → ∃ ctx, WC T ctx v := by
      intro v hv hne
      apply hwc v
      simp only [List.mem_append, List.mem_cons] at hv ⊢
      rcases hv with h | h | h
      · exact .inl h
      · exact absurd h hne
      · exact .inr (.inr h)
    have finish : (∀ u, (u ∈ pre ∨ u ∈ post) → Excl (heldAll u) (heldAll t) →
          Excl (heldAll u) (heldAll t')) → (∃ ctx, WC T ctx t') → Inv T (pre ++ t' :: post) := by
      intro hex hwt
      refine ⟨pairwise_replace hsym pre post t t' hpw hex, fun v hv => ?_⟩
      by_cases hvt : v = t'
      · subst hvt; exact hwt
      · exact hothers v hv hvt
    cases hts with
    | acq h p fs b m hfree =>
      apply finish
      · intro u hu hex
        have hust : u ∈ pre ++ ((⟨h, .acq b m :: p⟩ : Frame) :: fs) :: post := by
          simp only [List.mem_append, List.mem_cons]
          rcases hu with hu | hu
          · exact .inl hu
          · exact .inr (.inr hu)
        simp only [heldAll_cons] at hex ⊢
        intro x
        constructor
        · intro hx m' hm'
          simp only [List.cons_append, List.mem_cons] at hm'
          rcases hm' with heq | hm'
          · injection heq with h1 h2
            subst h1; subst h2
            cases m' with
            | W => exact hfree u hust .W hx
            | R => exact hfree u hust hx
          · exact (hex x).1 hx m' hm'
        · intro hx m' hm'
          simp only [List.cons_append, List.mem_cons] at hx
          rcases hx with heq | hx
          · injection heq with h1 h2
            subst h1; subst h2
            exact hfree u hust m' hm'
          · exact (hex x).2 hx m' hm'
      · cases wt with
        | cons _ ctx' _ _ hchk hcov wrest =>
          exact ⟨ctx, WC.cons ctx ctx' _ _ (by simpa [chk] using hchk) hcov wrest⟩
    | rel h p fs b m hmem =>
      apply finish
      · intro u _ hex
        apply hex.mono_right
        intro x hx
        simp only [heldAll_cons, List.mem_append] at hx ⊢
        rcases hx with hx | hx
        · exact .inl (List.mem_of_mem_erase hx)
        · exact .inr hx
      · cases wt with
        | cons _ ctx' _ _ hchk hcov wrest =>
          refine ⟨ctx, WC.cons ctx ctx' _ _ ?_ hcov wrest⟩
          simp only [chk] at hchk
          split at hchk
          · exact hchk
          · cases hchk
    | acc h p fs b f m s =>
      apply finish
      · intro u _ hex
        simpa [heldAll_cons] using hex
      · cases wt with
        | cons _ ctx' _ _ hchk hcov wrest =>
          refine ⟨ctx, WC.cons ctx ctx' _ _ ?_ hcov wrest⟩
          simp only [chk] at hchk
          split at hchk
          · exact hchk
          · cases hchk
    | call h p fs gs g fn q hg hl hq =>
      apply finish
      · intro u _ hex
        simpa [heldAll_cons] using hex
      · cases wt with
        | cons _ ctx' _ _ hchk hcov wrest =>
          simp only [chk] at hchk
          split at hchk
          · next hcall =>
            refine ⟨fn.req, WC.cons fn.req ctx _ _ (discipline_path hd hl hq) ?_
              (WC.cons ctx ctx' _ _ hchk hcov wrest)⟩
            intro r hr
            have := (List.all_eq_true.1 hcall) g hg
            simp only [hl] at this
            exact (List.all_eq_true.1 this) r hr
          · cases hchk
    | ret h g fs =>
      apply finish
      · intro u _ hex
        simpa [heldAll_cons, List.append_assoc] using hex
      · cases wt with
        | cons _ ctx' _ _ hchk hcov wrest =>
          simp only [chk] at hchk
          injection hchk with hh
          subst hh
          exact ⟨ctx', by simpa using wrest⟩

theorem inv_reachable {T : Table} (hd : Discipline T) {st : State} (hr : Reachable T st) :
    Inv T st := by
  induction hr with
  | init st hi => exact inv_init hd hi
  | step st st' _ hs ih => exact inv_step hd ih hs

/-- what a thread about to access `(b, f)` in mode `m` holds, by the invariant -/
theorem next_access_held {T : Table} {ctx : Held} {t : Thread} (w : WC T ctx t)
    {b : Base} {f : Field} {m : Mode} {s : FnId} (hn : nextAcc t = some (b, f, m, s))
    (hex : T.exempt s f = false) (hna : T.classOf f ≠ .atomic) (hns : T.classOf f ≠ .sync) :
    (T.classOf f = .immutable ∧ m = .R) ∨ (T.classOf f = .guarded ∧ holds (heldAll t) b m = true) := by
  cases w with
  | nil => simp [nextAcc] at hn
  | cons _ ctx' fr rest hchk hcov wrest =>
    obtain ⟨h, prog⟩ := fr
    cases prog with
    | nil => simp [nextAcc] at hn
    | cons e p =>
      cases e with
      | acq _ _ => simp [nextAcc] at hn
      | rel _ _ => simp [nextAcc] at hn
      | call _ => simp [nextAcc] at hn
      | acc b' f' m' s' =>
        simp only [nextAcc, Option.some.injEq, Prod.mk.injEq] at hn
        obtain ⟨rfl, rfl, rfl, rfl⟩ := hn
        have hchk0 := hchk
        simp only [chk] at hchk
        split at hchk
        · next hok =>
          simp only [accOK, hex, Bool.false_or] at hok
          cases hc : T.classOf f' with
          | atomic => exact absurd hc hna
          | sync => exact absurd hc hns
          | immutable =>
            rw [hc] at hok
            exact .inl ⟨rfl, by simpa using hok⟩
          | guarded =>
            rw [hc] at hok
            refine .inr ⟨rfl, ?_⟩
            exact (WC.cons ctx ctx' ⟨h, _⟩ rest hchk0 hcov wrest).covered b' m' hok
        · cases hchk

end Comet.Conc
