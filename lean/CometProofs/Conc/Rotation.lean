/-
  Helper lemmas for C11 (D): the invariant behind `add_never_fails_or_lost` and
  `rotation_partial` (model: Comet/Conc/Rotation.lean).
-/
import Comet.Conc.Rotation
namespace Comet.Conc.Rot

theorem visibleDoc_iff (s : RSt) (d : Doc) : visibleDoc s d = true ↔
    d ∈ s.segments ∨ ∃ p ∈ s.contents, p.2 = d ∧ (p.1 = s.mutable ∨ p.1 ∈ s.frozenQ) := by
  simp [visibleDoc]

/-- the invariant -/
structure RGood (s : RSt) : Prop where
  pendMut : ∀ p, (p ∈ s.picked ∨ p ∈ s.checked) → p.2.1 = s.mutable
  ackVis : ∀ d ∈ s.acked, visibleDoc s d = true
  curOK : ∀ p ∈ s.cur, p.2 < s.mutable ∧ ∀ d, (p.2, d) ∈ s.contents → d ∈ s.segments
  snapOld : ∀ p ∈ s.snaps, ∀ m ∈ p.2, m < s.mutable
  noFail : s.failed = []
  older : ∀ m ∈ s.frozenQ, m < s.mutable

theorem rgood_rotate {s : RSt} (g : RGood s) (hp : s.picked = []) (hc : s.checked = []) :
    RGood (rotateSt s) := by
  constructor
  · intro p hp'
    simp only [rotateSt, hp, hc, List.not_mem_nil, or_self] at hp'
  · intro d hd
    have := (visibleDoc_iff s d).1 (g.ackVis d hd)
    rw [visibleDoc_iff]
    rcases this with h | ⟨p, hp1, hp2, h | h⟩
    · exact .inl h
    · exact .inr ⟨p, hp1, hp2, .inr (by simp [rotateSt, h])⟩
    · exact .inr ⟨p, hp1, hp2, .inr (by simp [rotateSt, h])⟩
  · intro p hp'
    have := g.curOK p hp'
    exact ⟨Nat.lt_succ_of_lt this.1, this.2⟩
  · intro p hp' m hm
    exact Nat.lt_succ_of_lt (g.snapOld p hp' m hm)
  · exact g.noFail
  · intro m hm
    simp only [rotateSt, List.mem_append, List.mem_singleton] at hm ⊢
    rcases hm with hm | rfl
    · exact Nat.lt_succ_of_lt (g.older m hm)
    · exact Nat.lt_succ_self _

/-- writing a document into the mutable memtable keeps the invariant -/
theorem rgood_write_mutable {s : RSt} (g : RGood s) (d : Doc) (pk ck : List (Nat × Mt × Doc))
    (hpk : ∀ p ∈ pk, p ∈ s.picked) (hck : ∀ p ∈ ck, p ∈ s.checked) :
    RGood { s with picked := pk, checked := ck, contents := s.contents ++ [(s.mutable, d)],
                   acked := d :: s.acked } := by
  refine ⟨?_, ?_, ?_, g.snapOld, g.noFail, g.older⟩
  · intro p hp
    rcases hp with hp | hp
    · exact g.pendMut p (.inl (hpk p hp))
    · exact g.pendMut p (.inr (hck p hp))
  · intro x hx
    rw [visibleDoc_iff]
    simp only [List.mem_cons] at hx
    rcases hx with rfl | hx
    · exact .inr ⟨(s.mutable, x), by simp, rfl, .inl rfl⟩
    · rcases (visibleDoc_iff s x).1 (g.ackVis x hx) with h | ⟨p, hp1, hp2⟩
      · exact .inl h
      · exact .inr ⟨p, by simp [hp1], hp2⟩
  · intro p hp
    have := g.curOK p hp
    refine ⟨this.1, ?_⟩
    intro d' hd'
    simp only [List.mem_append, List.mem_singleton, Prod.mk.injEq] at hd'
    rcases hd' with hd' | ⟨h1, _⟩
    · exact this.2 d' hd'
    · exact absurd this.1 (h1 ▸ Nat.lt_irrefl _)

theorem rgood_step (locked : Bool) {s : RSt} (g : RGood s) (a : RAct)
    (hrot : match a with
      | .rotate => s.picked = [] ∧ s.checked = []
      | .pick _ _ true => s.picked = [] ∧ s.checked = []
      | _ => True) : RGood (rstep locked s a) := by
  cases a with
  | pick t d rot =>
    have key : ∀ s1 : RSt, RGood s1 →
        RGood (if locked then { s1 with contents := s1.contents ++ [(s1.mutable, d)], acked := d :: s1.acked }
               else { s1 with picked := s1.picked ++ [(t, s1.mutable, d)] }) := by
      intro s1 g1
      cases locked with
      | true => exact rgood_write_mutable g1 d s1.picked s1.checked (fun _ h => h) (fun _ h => h)
      | false =>
        simp only [Bool.false_eq_true, ↓reduceIte]
        refine ⟨?_, ?_, g1.curOK, g1.snapOld, g1.noFail, g1.older⟩
        · intro p hp
          simp only [List.mem_append, List.mem_singleton] at hp
          rcases hp with (hp | rfl) | hp
          · exact g1.pendMut p (.inl hp)
          · rfl
          · exact g1.pendMut p (.inr hp)
        · intro x hx
          exact (visibleDoc_iff _ x).2 ((visibleDoc_iff s1 x).1 (g1.ackVis x hx))
    simp only [rstep]
    cases rot with
    | true => exact key _ (rgood_rotate g hrot.1 hrot.2)
    | false => exact key _ g
  | check t =>
    simp only [rstep]
    split
    · exact g
    · next t' m d hf =>
      have hmem : (t', m, d) ∈ s.picked := List.mem_of_find?_eq_some hf
      have hm : m = s.mutable := g.pendMut _ (.inl hmem)
      have : (m != s.mutable) = false := by simp [hm]
      simp only [this, Bool.false_eq_true, ↓reduceIte]
      refine ⟨?_, ?_, g.curOK, g.snapOld, g.noFail, g.older⟩
      · intro p hp
        simp only [List.mem_append, List.mem_singleton] at hp
        rcases hp with hp | hp | rfl
        · exact g.pendMut p (.inl (List.mem_of_mem_erase hp))
        · exact g.pendMut p (.inr hp)
        · exact hm
      · intro x hx
        exact (visibleDoc_iff _ x).2 ((visibleDoc_iff s x).1 (g.ackVis x hx))
  | write t =>
    simp only [rstep]
    split
    · exact g
    · next t' m d hf =>
      have hmem : (t', m, d) ∈ s.checked := List.mem_of_find?_eq_some hf
      have hm : m = s.mutable := g.pendMut _ (.inr hmem)
      subst hm
      exact rgood_write_mutable g d s.picked _ (fun _ h => h) (fun _ h => List.mem_of_mem_erase h)
  | rotate => exact rgood_rotate g hrot.1 hrot.2
  | flushSnap f =>
    simp only [rstep]
    split
    · exact g
    · refine ⟨g.pendMut, ?_, g.curOK, ?_, g.noFail, g.older⟩
      · intro x hx
        exact (visibleDoc_iff _ x).2 ((visibleDoc_iff s x).1 (g.ackVis x hx))
      · intro p hp m hm
        simp only [List.mem_cons] at hp
        rcases hp with rfl | hp
        · exact g.older m hm
        · exact g.snapOld p hp m hm
  | flushWrite f =>
    simp only [rstep]
    split
    · exact g
    · split
      · exact g
      · next f' hf =>
        refine ⟨g.pendMut, ?_, g.curOK, fun p hp => g.snapOld p (List.mem_of_mem_erase hp), g.noFail, g.older⟩
        intro x hx
        exact (visibleDoc_iff _ x).2 ((visibleDoc_iff s x).1 (g.ackVis x hx))
      · next f' m rest hf =>
        have hmem : (f', m :: rest) ∈ s.snaps := List.mem_of_find?_eq_some hf
        have hold := g.snapOld _ hmem
        refine ⟨g.pendMut, ?_, ?_, ?_, g.noFail, g.older⟩
        · intro x hx
          rw [visibleDoc_iff]
          rcases (visibleDoc_iff s x).1 (g.ackVis x hx) with h | h
          · exact .inl (List.mem_append_left _ h)
          · exact .inr h
        · intro p hp
          simp only [List.mem_cons] at hp
          rcases hp with rfl | hp
          · refine ⟨hold m (List.mem_cons_self ..), ?_⟩
            intro d hd
            apply List.mem_append_right
            simp only [docsOf, List.mem_map, List.mem_filter]
            exact ⟨(m, d), ⟨hd, by simp⟩, rfl⟩
          · have := g.curOK p hp
            exact ⟨this.1, fun d hd => List.mem_append_left _ (this.2 d hd)⟩
        · intro p hp m' hm'
          simp only [List.mem_cons] at hp
          rcases hp with rfl | hp
          · exact hold m' (List.mem_cons_of_mem _ hm')
          · exact g.snapOld p (List.mem_of_mem_erase hp) m' hm'
  | flushDrop f =>
    simp only [rstep]
    split
    · exact g
    · next f' m hf =>
      have hmem : (f', m) ∈ s.cur := List.mem_of_find?_eq_some hf
      have hm := g.curOK _ hmem
      refine ⟨g.pendMut, ?_, fun p hp => g.curOK p (List.mem_of_mem_erase hp), g.snapOld, g.noFail,
        fun m' hm' => g.older m' (List.mem_of_mem_erase hm')⟩
      intro x hx
      rw [visibleDoc_iff]
      rcases (visibleDoc_iff s x).1 (g.ackVis x hx) with h | ⟨p, hp1, hp2, h | h⟩
      · exact .inl h
      · exact .inr ⟨p, hp1, hp2, .inl h⟩
      · by_cases hpm : p.1 = m
        · left
          apply hm.2 x
          rw [← hpm, ← hp2]
          exact hp1
        · exact .inr ⟨p, hp1, hp2, .inr ((List.mem_erase_of_ne hpm).2 h)⟩

theorem rgood_run (locked : Bool) : ∀ (acts : List RAct) (s : RSt), RGood s →
    noRotationDuringAdd locked s acts = true → RGood (acts.foldl (rstep locked) s) := by
  intro acts
  induction acts with
  | nil => intro s g _; exact g
  | cons a as ih =>
    intro s g h
    simp only [noRotationDuringAdd, Bool.and_eq_true] at h
    refine ih _ (rgood_step locked g a ?_) h.2
    have h1 := h.1
    cases a with
    | pick t d rot =>
      cases rot with
      | true => simpa [List.isEmpty_iff] using h1
      | false => trivial
    | rotate => simpa [List.isEmpty_iff] using h1
    | check _ => trivial
    | write _ => trivial
    | flushSnap _ => trivial
    | flushWrite _ => trivial
    | flushDrop _ => trivial

theorem rgood_init : RGood {} := ⟨by simp, by simp, by simp, by simp, rfl, by simp⟩

/-- with the locked add no add is ever pending between regions -/
theorem pending_nil_step {s : RSt} (hp : s.picked = []) (hc : s.checked = []) (a : RAct) :
    (rstep true s a).picked = [] ∧ (rstep true s a).checked = [] := by
  cases a with
  | pick t d rot => cases rot <;> simp [rstep, rotateSt, hp, hc]
  | check t => simp [rstep, hp, hc]
  | write t => simp [rstep, hp, hc]
  | rotate => simp [rstep, rotateSt, hp, hc]
  | flushSnap f => simp only [rstep]; split <;> exact ⟨hp, hc⟩
  | flushWrite f =>
    simp only [rstep]
    split
    · exact ⟨hp, hc⟩
    · split <;> exact ⟨hp, hc⟩
  | flushDrop f => simp only [rstep]; split <;> exact ⟨hp, hc⟩

theorem noRotationDuringAdd_locked : ∀ (acts : List RAct) (s : RSt), s.picked = [] → s.checked = [] →
    noRotationDuringAdd true s acts = true := by
  intro acts
  induction acts with
  | nil => intro _ _ _; rfl
  | cons a as ih =>
    intro s hp hc
    simp only [noRotationDuringAdd, Bool.and_eq_true]
    have := pending_nil_step hp hc a
    refine ⟨?_, ih _ this.1 this.2⟩
    cases a with
    | pick t d rot => cases rot <;> simp [hp, hc]
    | rotate => simp [hp, hc]
    | check _ => rfl
    | write _ => rfl
    | flushSnap _ => rfl
    | flushWrite _ => rfl
    | flushDrop _ => rfl

end Comet.Conc.Rot
