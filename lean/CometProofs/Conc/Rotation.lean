/-
  Helper lemmas for C11 (D): the invariant behind `rotation_partial`
  (model: Comet/Conc/Rotation.lean).
-/
import Comet.Conc.Rotation
namespace Comet.Conc.Rot

theorem visibleDoc_iff (s : RSt) (d : Doc) : visibleDoc s d = true ↔
    d ∈ s.segments ∨ ∃ p ∈ s.contents, p.2 = d ∧ (p.1 = s.mutable ∨ p.1 ∈ s.frozenQ) := by
  simp [visibleDoc]

/-- invariant behind `rotation_partial` -/
structure RGood (s : RSt) : Prop where
  pendMut : ∀ p, (p ∈ s.picked ∨ p ∈ s.checked) → p.2.1 = s.mutable
  ackVis : ∀ d ∈ s.acked, visibleDoc s d = true
  flushedOK : ∀ m ∈ s.flushed, m ∈ s.frozenQ ∧ ∀ d, (m, d) ∈ s.contents → d ∈ s.segments
  noFail : s.failed = []
  older : ∀ m ∈ s.frozenQ, m < s.mutable
  nd : s.flushed.Nodup

theorem rgood_rotate {s : RSt} (g : RGood s) (hp : s.picked = []) (hc : s.checked = []) :
    RGood (rotateSt s) := by
  constructor
  · intro p hp'
    simp only [rotateSt, hp, hc, List.not_mem_nil, or_self] at hp'
  · intro d hd
    have := (visibleDoc_iff s d).1 (g.ackVis d hd)
    rw [visibleDoc_iff]
    rcases this with h | ⟨p, hp1, hp2, h | h⟩
    · exact .inl h
    · exact .inr ⟨p, hp1, hp2, .inr (by simp [rotateSt, h])⟩
    · exact .inr ⟨p, hp1, hp2, .inr (by simp [rotateSt, h])⟩
  · intro m hm
    have := g.flushedOK m hm
    exact ⟨by simp [rotateSt, this.1], this.2⟩
  · exact g.noFail
  · intro m hm
    simp only [rotateSt, List.mem_append, List.mem_singleton] at hm ⊢
    rcases hm with hm | rfl
    · exact Nat.lt_succ_of_lt (g.older m hm)
    · exact Nat.lt_succ_self _
  · exact g.nd

theorem rgood_step {s : RSt} (g : RGood s) (a : RAct)
    (hrot : match a with
      | .rotate => s.picked = [] ∧ s.checked = []
      | .pick _ _ true => s.picked = [] ∧ s.checked = []
      | _ => True) : RGood (rstep s a) := by
  cases a with
  | pick t d rot =>
    have key : ∀ s1 : RSt, RGood s1 → RGood { s1 with picked := s1.picked ++ [(t, s1.mutable, d)] } := by
      intro s1 g1
      refine ⟨?_, ?_, g1.flushedOK, g1.noFail, g1.older, g1.nd⟩
      · intro p hp
        simp only [List.mem_append, List.mem_singleton] at hp
        rcases hp with (hp | rfl) | hp
        · exact g1.pendMut p (.inl hp)
        · rfl
        · exact g1.pendMut p (.inr hp)
      · intro x hx
        have := (visibleDoc_iff s1 x).1 (g1.ackVis x hx)
        exact (visibleDoc_iff _ x).2 this
    simp only [rstep]
    cases rot with
    | true => exact key _ (rgood_rotate g hrot.1 hrot.2)
    | false => exact key _ g
  | check t =>
    simp only [rstep]
    split
    · exact g
    · next t' m d hf =>
      have hmem : (t', m, d) ∈ s.picked := List.mem_of_find?_eq_some hf
      have hm : m = s.mutable := g.pendMut _ (.inl hmem)
      have : (m != s.mutable) = false := by simp [hm]
      simp only [this, Bool.false_eq_true, ↓reduceIte]
      refine ⟨?_, ?_, g.flushedOK, g.noFail, g.older, g.nd⟩
      · intro p hp
        simp only [List.mem_append, List.mem_singleton] at hp
        rcases hp with hp | hp | rfl
        · exact g.pendMut p (.inl (List.mem_of_mem_erase hp))
        · exact g.pendMut p (.inr hp)
        · exact hm
      · intro x hx
        exact (visibleDoc_iff _ x).2 ((visibleDoc_iff s x).1 (g.ackVis x hx))
  | write t =>
    simp only [rstep]
    split
    · exact g
    · next t' m d hf =>
      have hmem : (t', m, d) ∈ s.checked := List.mem_of_find?_eq_some hf
      have hm : m = s.mutable := g.pendMut _ (.inr hmem)
      refine ⟨?_, ?_, ?_, g.noFail, g.older, g.nd⟩
      · intro p hp
        rcases hp with hp | hp
        · exact g.pendMut p (.inl hp)
        · exact g.pendMut p (.inr (List.mem_of_mem_erase hp))
      · intro x hx
        rw [visibleDoc_iff]
        simp only [List.mem_cons] at hx
        rcases hx with rfl | hx
        · exact .inr ⟨(m, x), by simp, rfl, .inl hm⟩
        · rcases (visibleDoc_iff s x).1 (g.ackVis x hx) with h | ⟨p, hp1, hp2⟩
          · exact .inl h
          · exact .inr ⟨p, by simp [hp1], hp2⟩
      · intro m' hm'
        have := g.flushedOK m' hm'
        refine ⟨this.1, ?_⟩
        intro d' hd'
        simp only [List.mem_append, List.mem_singleton, Prod.mk.injEq] at hd'
        rcases hd' with hd' | ⟨rfl, _⟩
        · exact this.2 d' hd'
        · exact absurd (g.older _ this.1) (hm ▸ Nat.lt_irrefl _)
  | rotate => exact rgood_rotate g hrot.1 hrot.2
  | flushWrite m =>
    simp only [rstep]
    split
    · next hc =>
      simp only [Bool.and_eq_true, Bool.not_eq_true', List.contains_iff_mem] at hc
      have hnf : m ∉ s.flushed := by
        intro h
        have : s.flushed.contains m = true := by simpa using h
        rw [this] at hc; cases hc.2
      refine ⟨g.pendMut, ?_, ?_, g.noFail, g.older, List.nodup_cons.2 ⟨hnf, g.nd⟩⟩
      · intro x hx
        rw [visibleDoc_iff]
        rcases (visibleDoc_iff s x).1 (g.ackVis x hx) with h | h
        · exact .inl (List.mem_append_left _ h)
        · exact .inr h
      · intro m' hm'
        simp only [List.mem_cons] at hm'
        rcases hm' with rfl | hm'
        · refine ⟨hc.1, ?_⟩
          intro d hd
          apply List.mem_append_right
          simp only [docsOf, List.mem_map, List.mem_filter]
          exact ⟨(m', d), ⟨hd, by simp⟩, rfl⟩
        · have := g.flushedOK m' hm'
          exact ⟨this.1, fun d hd => List.mem_append_left _ (this.2 d hd)⟩
    · exact g
  | flushDrop m =>
    simp only [rstep]
    split
    · next hc =>
      have hmf : m ∈ s.flushed := by simpa using hc
      refine ⟨g.pendMut, ?_, ?_, g.noFail, fun m' hm' => g.older m' (List.mem_of_mem_erase hm'),
        g.nd.erase m⟩
      · intro x hx
        rw [visibleDoc_iff]
        rcases (visibleDoc_iff s x).1 (g.ackVis x hx) with h | ⟨p, hp1, hp2, h | h⟩
        · exact .inl h
        · exact .inr ⟨p, hp1, hp2, .inl h⟩
        · by_cases hpm : p.1 = m
          · left
            have := (g.flushedOK m hmf).2 x
            apply this
            rw [← hpm, ← hp2]
            exact hp1
          · exact .inr ⟨p, hp1, hp2, .inr ((List.mem_erase_of_ne hpm).2 h)⟩
      · intro m' hm'
        have hne : m' ≠ m := fun h => by
          subst h
          exact (List.Nodup.mem_erase_iff g.nd).1 hm' |>.1 rfl
        have := g.flushedOK m' (List.mem_of_mem_erase hm')
        exact ⟨(List.mem_erase_of_ne hne).2 this.1, this.2⟩
    · exact g

theorem rgood_run : ∀ (acts : List RAct) (s : RSt), RGood s → noRotationDuringAdd s acts = true →
    RGood (acts.foldl rstep s) := by
  intro acts
  induction acts with
  | nil => intro s g _; exact g
  | cons a as ih =>
    intro s g h
    simp only [noRotationDuringAdd, Bool.and_eq_true] at h
    refine ih _ (rgood_step g a ?_) h.2
    have h1 := h.1
    cases a with
    | pick t d rot =>
      cases rot with
      | true => simpa [List.isEmpty_iff] using h1
      | false => trivial
    | rotate => simpa [List.isEmpty_iff] using h1
    | check _ => trivial
    | write _ => trivial
    | flushWrite _ => trivial
    | flushDrop _ => trivial


end Comet.Conc.Rot
