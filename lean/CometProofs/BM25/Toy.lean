/-
  A toy instance of `Scoring` over ℕ (exact, order-preserving) used by the non-vacuity
  examples of C03, and the realisation of auto-generated congruence lemmas (so that
  they are not attributed to — and counted in — the Properties module).
-/
import CometProofs.BM25.SpecLemmas
namespace Comet.BM25

/-- toy arithmetic (exact, order-preserving): enough to see every statistic matter -/
def toy : Scoring Nat Nat where
  zero := 0
  add := (· + ·)
  score N df tf len avg :=
    (N.toNat + 1 - df) * 1000 * tf /
      (tf + len + (match avg with | .zero => 0 | .quot t n => (t / n).toNat))
  le a b := decide (a ≤ b)
  toS := id

def leN : Nat → Nat → Bool := fun a b => decide (a ≤ b)

theorem toy_ordered : toy.Ordered leN where
  total a b := by simp only [toy, Bool.or_eq_true, decide_eq_true_eq]; omega
  trans a b c := by simp only [toy, decide_eq_true_eq]; omega
  mono a b := by
    intro h
    have h' : a ≤ b := by simpa [toy] using h
    show decide (a ≤ b) = true
    exact decide_eq_true h'


def realized0 := @Spec.df.congr_simp
def realized1 := @scoreMap.congr_simp
def realized2 := @searchSingle.congr_simp
def realized3 := @specCands.congr_simp
def realized4 := @specHits.congr_simp

end Comet.BM25
