/-
  C03 helpers §C — the invariant of the incremental bookkeeping (`WF`), its
  preservation by Add / Remove / Flush, and the refinement of the specification
  (`Inv s c`: `docTokens` IS the specification's corpus, `deletedDocs` its tombstones).
-/
import CometProofs.BM25.Loops
namespace Comet.BM25
set_option linter.unusedSectionVars false

variable {Tok : Type} [DecidableEq Tok]

/-! ### sums of lengths -/

theorem sumLen_append (l₁ l₂ : List (Id × List Tok)) : sumLen (l₁ ++ l₂) = sumLen l₁ + sumLen l₂ := by
  induction l₁ with
  | nil => simp [sumLen]
  | cons p t ih => simp [sumLen, ih]; omega

theorem sumLen_aerase (l : List (Id × List Tok)) (id : Id) (toks : List Tok)
    (hn : (akeys l).Nodup) (h : aget l id = some toks) :
    sumLen l = toks.length + sumLen (aerase l id) := by
  induction l with
  | nil => simp [aget] at h
  | cons p t ih =>
    obtain ⟨k, v⟩ := p
    simp only [akeys, List.map_cons, List.nodup_cons] at hn
    by_cases hk : k = id
    · subst hk
      simp only [aget, if_true, Option.some.injEq] at h
      subst h
      have e : aerase ((k, v) :: t) k = aerase t k := by simp [aerase, List.filter]
      rw [e, aerase_of_not_mem t hn.1]; rfl
    · simp only [aget, hk, if_false] at h
      have e : aerase ((k, v) :: t) id = (k, v) :: aerase t id := by simp [aerase, List.filter, hk]
      rw [e]
      simp only [sumLen]
      rw [ih hn.2 h]; omega

/-! ### field projections of `removeInternal` -/

section RI
variable (s : State Tok) (id : Id)

theorem ri_absent (h : aget s.docTokens id = none) : removeInternal s id = s := by
  simp [removeInternal, h]

theorem ri_deleted : (removeInternal s id).deleted = s.deleted := by
  unfold removeInternal
  cases aget s.docTokens id with
  | none => rfl
  | some toks => simp only []; split <;> simp [updateAvg] <;> split <;> rfl

theorem ri_docTokens : (removeInternal s id).docTokens = aerase s.docTokens id := by
  unfold removeInternal
  cases h : aget s.docTokens id with
  | none =>
    simp only []
    exact (aerase_of_not_mem _ ((aget_eq_none_iff _ _).1 h)).symm
  | some toks => simp only []; split <;> simp [updateAvg] <;> split <;> rfl

variable {s id} {toks : List Tok} (h : aget s.docTokens id = some toks)
include h

theorem ri_docLengths : (removeInternal s id).docLengths = aerase s.docLengths id := by
  unfold removeInternal
  simp only [h]; split <;> simp [updateAvg] <;> split <;> rfl

theorem ri_postings : (removeInternal s id).postings = toks.foldl (rmPost id) s.postings := by
  unfold removeInternal
  simp only [h, foldl_rmTok]; split <;> simp [updateAvg] <;> split <;> rfl

theorem ri_tf : (removeInternal s id).tf = toks.foldl (rmTf id) s.tf := by
  unfold removeInternal
  simp only [h, foldl_rmTok]; split <;> simp [updateAvg] <;> split <;> rfl

theorem ri_numDocs : (removeInternal s id).numDocs = s.numDocs - 1 := by
  unfold removeInternal
  simp only [h]; split <;> simp [updateAvg] <;> split <;> rfl

theorem ri_totalTokens : (removeInternal s id).totalTokens =
    if s.numDocs - 1 ≠ 0 then s.totalTokens - (lenOf s id : Int) else 0 := by
  unfold removeInternal
  simp only [h]
  by_cases hn : s.numDocs - 1 = 0
  · simp [hn]
  · simp [hn, updateAvg]

theorem ri_avg : (removeInternal s id).avgDocLen =
    if s.numDocs - 1 ≠ 0 then Avg.quot (s.totalTokens - (lenOf s id : Int)) (s.numDocs - 1)
    else Avg.zero := by
  unfold removeInternal
  simp only [h]
  by_cases hn : s.numDocs - 1 = 0
  · simp [hn]
  · simp [hn, updateAvg]

end RI

/-! ### the invariant -/

/-- Internal consistency of the incremental fields (everything but `deletedDocs`). -/
structure WFc (s : State Tok) : Prop where
  keys : (akeys s.docTokens).Nodup
  lens : s.docLengths = s.docTokens.map fun p => (p.1, p.2.length)
  post : ∀ t d, d ∈ postOf s t ↔ t ∈ toksOf s d
  postNodup : ∀ t, (postOf s t).Nodup
  tf : ∀ t d, tfOf s t d = (toksOf s d).count t
  numDocs : s.numDocs = (s.docTokens.length : Int)
  total : s.totalTokens = (sumLen s.docTokens : Int)
  avg : s.avgDocLen = if s.numDocs = 0 then Avg.zero else Avg.quot s.totalTokens s.numDocs

structure WF (s : State Tok) : Prop extends WFc s where
  delSub : ∀ d ∈ s.deleted, d ∈ akeys s.docTokens
  delNodup : s.deleted.Nodup

theorem lenOf_eq {s : State Tok} (w : WFc s) (d : Id) : lenOf s d = (toksOf s d).length := by
  unfold lenOf toksOf
  rw [w.lens, aget_map_val s.docTokens (fun _ v => v.length) d]
  cases aget s.docTokens d <;> simp

theorem toksOf_absent {s : State Tok} {d : Id} (h : d ∉ akeys s.docTokens) : toksOf s d = [] := by
  unfold toksOf; rw [(aget_eq_none_iff _ _).2 h]; rfl

theorem wfc_init : WFc (init : State Tok) where
  keys := by simp [init, akeys]
  lens := rfl
  post := by intro t d; simp [postOf, toksOf, init, aget]
  postNodup := by intro t; simp [postOf, init, aget]
  tf := by intro t d; simp [tfOf, toksOf, init, aget]
  numDocs := rfl
  total := rfl
  avg := rfl

theorem wf_init : WF (init : State Tok) where
  toWFc := wfc_init
  delSub := by intro d hd; cases hd
  delNodup := by simp [init]

theorem wfc_removeInternal {s : State Tok} (w : WFc s) (id : Id) : WFc (removeInternal s id) := by
  cases h : aget s.docTokens id with
  | none => rw [ri_absent s id h]; exact w
  | some toks =>
    have hmem : id ∈ akeys s.docTokens := (aget_isSome_iff _ _).1 (by simp [h])
    have htoks : toksOf s id = toks := by simp [toksOf, h]
    have hlen := length_aerase s.docTokens w.keys hmem
    have hsum := sumLen_aerase s.docTokens id toks w.keys h
    have hto : ∀ d, toksOf (removeInternal s id) d = if d = id then [] else toksOf s d := by
      intro d; unfold toksOf; rw [ri_docTokens, aget_aerase]
      by_cases hd : d = id <;> simp [hd]
    have hpo : ∀ t, postOf (removeInternal s id) t = bmRemove (postOf s t) id := by
      intro t
      show pOf (removeInternal s id).postings t = _
      rw [ri_postings h, pOf_foldl_rmPost]
      by_cases ht : t ∈ toks
      · simp [ht]; rfl
      · simp only [ht, if_false]
        symm
        apply bmRemove_of_not_mem
        intro hc
        exact ht (htoks ▸ (w.post t id).1 hc)
    refine ⟨?_, ?_, ?_, ?_, ?_, ?_, ?_, ?_⟩
    · rw [ri_docTokens]; exact nodup_akeys_aerase _ _ w.keys
    · rw [ri_docLengths h, ri_docTokens, w.lens]
      exact aerase_map_val s.docTokens (fun _ v => v.length) id
    · intro t d
      rw [hpo, hto, mem_bmRemove, w.post]
      by_cases hd : d = id <;> simp [hd]
    · intro t; rw [hpo]; exact nodup_bmRemove _ _ (w.postNodup t)
    · intro t d
      show fOf (removeInternal s id).tf t d = _
      rw [ri_tf h, fOf_foldl_rmTf, hto]
      by_cases hd : d = id
      · subst hd
        by_cases ht : t ∈ toks
        · simp [ht]
        · simp only [ht, false_and, if_false, if_true]
          have := w.tf t d
          rw [htoks] at this
          simp only [tfOf] at this
          simp [fOf, this, List.count_eq_zero.2 ht]
      · simp only [hd, and_false, if_false]
        exact w.tf t d
    · rw [ri_numDocs h, ri_docTokens, w.numDocs]; omega
    · rw [ri_totalTokens h, ri_docTokens, w.numDocs, w.total, lenOf_eq w, htoks]
      by_cases hz : ((s.docTokens.length : Int) - 1) = 0
      · have : (aerase s.docTokens id).length = 0 := by omega
        have hnil : aerase s.docTokens id = [] := List.eq_nil_of_length_eq_zero this
        simp [hz, hnil, sumLen]
      · simp only [ne_eq, hz, not_false_eq_true, if_true]; omega
    · rw [ri_avg h, ri_numDocs h, ri_totalTokens h]
      by_cases hz : s.numDocs - 1 = 0 <;> simp [hz]

/-! ### Add -/

section AddNew
variable (s : State Tok) (id : Id) (toks : List Tok)

theorem an_docTokens : (addNew s id toks).docTokens = aset s.docTokens id toks := by
  unfold addNew updateAvg; simp only []; split <;> rfl
theorem an_docLengths : (addNew s id toks).docLengths = aset s.docLengths id toks.length := by
  unfold addNew updateAvg; simp only []; split <;> rfl
theorem an_postings : (addNew s id toks).postings = toks.foldl (addPost id) s.postings := by
  unfold addNew updateAvg; simp only [foldl_addTok]; split <;> rfl
theorem an_tf : (addNew s id toks).tf = toks.foldl (addTf id) s.tf := by
  unfold addNew updateAvg; simp only [foldl_addTok]; split <;> rfl
theorem an_numDocs : (addNew s id toks).numDocs = s.numDocs + 1 := by
  unfold addNew updateAvg; simp only []; split <;> rfl
theorem an_totalTokens : (addNew s id toks).totalTokens = s.totalTokens + (toks.length : Int) := by
  unfold addNew updateAvg; simp only []; split <;> rfl
theorem an_deleted : (addNew s id toks).deleted = s.deleted := by
  unfold addNew updateAvg; simp only []; split <;> rfl
theorem an_avg : (addNew s id toks).avgDocLen =
    if s.numDocs + 1 = 0 then Avg.zero
    else Avg.quot (s.totalTokens + (toks.length : Int)) (s.numDocs + 1) := by
  unfold addNew updateAvg; simp only []; split <;> rfl
end AddNew

/-- indexing a new document under an id that is absent keeps the bookkeeping consistent -/
theorem wfc_addNew {s1 : State Tok} (w1 : WFc s1) (id : Id) (toks : List Tok)
    (habs : id ∉ akeys s1.docTokens) : WFc (addNew s1 id toks) := by
  have hdt : (addNew s1 id toks).docTokens = s1.docTokens ++ [(id, toks)] := by
    rw [an_docTokens]; exact aset_of_not_mem _ _ habs
  have hdl : (addNew s1 id toks).docLengths = s1.docLengths ++ [(id, toks.length)] := by
    have : id ∉ akeys s1.docLengths := by
      rw [w1.lens, akeys_map_val s1.docTokens (fun _ v => v.length)]; exact habs
    rw [an_docLengths]; exact aset_of_not_mem _ _ this
  have hto : ∀ d, toksOf (addNew s1 id toks) d = if d = id then toks else toksOf s1 d := by
    intro d
    unfold toksOf
    rw [hdt, aget_append]
    by_cases hd : d = id
    · subst hd
      rw [(aget_eq_none_iff _ _).2 habs]; simp [aget]
    · cases aget s1.docTokens d <;> simp [aget, hd, Ne.symm hd]
  have ht1 : toksOf s1 id = [] := toksOf_absent habs
  refine ⟨?_, ?_, ?_, ?_, ?_, ?_, ?_, ?_⟩
  · rw [hdt]
    simp only [akeys, List.map_append, List.map_cons, List.map_nil]
    rw [List.nodup_append]
    refine ⟨w1.keys, by simp, ?_⟩
    intro a ha b hb
    simp only [List.mem_singleton] at hb
    subst hb
    intro e; subst e; exact habs ha
  · rw [hdl, hdt, w1.lens]; simp
  · intro t d
    show d ∈ pOf (addNew s1 id toks).postings t ↔ _
    rw [an_postings, pOf_foldl_addPost, hto]
    have hp := w1.post t d
    by_cases hd : d = id
    · subst hd
      rw [ht1] at hp
      by_cases ht : t ∈ toks
      · simp [ht, mem_bmAdd]
      · simp only [ht, if_false, if_true, iff_false]
        intro hc; exact absurd (hp.1 hc) (by simp)
    · by_cases ht : t ∈ toks
      · simp only [ht, if_true, mem_bmAdd, hd, or_false, if_false]; exact hp
      · simp only [ht, if_false, hd]; exact hp
  · intro t
    show (pOf (addNew s1 id toks).postings t).Nodup
    rw [an_postings, pOf_foldl_addPost]
    split
    · exact nodup_bmAdd _ _ (w1.postNodup t)
    · exact w1.postNodup t
  · intro t d
    show fOf (addNew s1 id toks).tf t d = _
    rw [an_tf, fOf_foldl_addTf, hto]
    have := w1.tf t d
    simp only [tfOf] at this
    by_cases hd : d = id
    · subst hd
      rw [ht1] at this
      simp [fOf, this]
    · simp [hd, fOf, this]
  · rw [an_numDocs, hdt, w1.numDocs]; simp
  · rw [an_totalTokens, hdt, w1.total, sumLen_append]; simp [sumLen]
  · rw [an_avg, an_numDocs, an_totalTokens]

/-- the state `Add` hands to `addNew` -/
def preAdd (s : State Tok) (id : Id) : State Tok :=
  let s1 := if (aget s.docTokens id).isSome then removeInternal s id else s
  { s1 with deleted := bmRemove s1.deleted id }

theorem add_eq (s : State Tok) (id : Id) (toks : List Tok) :
    add s id toks = addNew (preAdd s id) id toks := rfl

theorem preAdd_docTokens (s : State Tok) (id : Id) :
    (preAdd s id).docTokens = aerase s.docTokens id := by
  unfold preAdd
  simp only []
  split
  · exact ri_docTokens s id
  · next hn =>
    symm
    apply aerase_of_not_mem
    exact fun hc => hn ((aget_isSome_iff _ _).2 hc)

theorem preAdd_deleted (s : State Tok) (id : Id) :
    (preAdd s id).deleted = bmRemove s.deleted id := by
  unfold preAdd
  simp only []
  split
  · rw [ri_deleted]
  · rfl

theorem wfc_preAdd {s : State Tok} (w : WFc s) (id : Id) : WFc (preAdd s id) := by
  have : WFc (if (aget s.docTokens id).isSome then removeInternal s id else s) := by
    split
    · exact wfc_removeInternal w id
    · exact w
  exact ⟨this.keys, this.lens, this.post, this.postNodup, this.tf, this.numDocs, this.total, this.avg⟩

theorem wfc_add {s : State Tok} (w : WFc s) (id : Id) (toks : List Tok) : WFc (add s id toks) := by
  rw [add_eq]
  apply wfc_addNew (wfc_preAdd w id)
  rw [preAdd_docTokens]; exact not_mem_akeys_aerase _ _

theorem add_deleted (s : State Tok) (id : Id) (toks : List Tok) :
    (add s id toks).deleted = bmRemove s.deleted id := by
  rw [add_eq, an_deleted, preAdd_deleted]

theorem add_docTokens {s : State Tok} (id : Id) (toks : List Tok) :
    (add s id toks).docTokens = aerase s.docTokens id ++ [(id, toks)] := by
  rw [add_eq, an_docTokens, preAdd_docTokens]
  exact aset_of_not_mem _ _ (not_mem_akeys_aerase _ _)

theorem wf_add {s : State Tok} (w : WF s) (id : Id) (toks : List Tok) : WF (add s id toks) where
  toWFc := wfc_add w.toWFc id toks
  delSub := by
    intro d hd
    rw [add_deleted, mem_bmRemove] at hd
    rw [add_docTokens]
    simp only [akeys, List.map_append, List.mem_append]
    left
    have := w.delSub d hd.1
    have e := akeys_aerase s.docTokens id
    simp only [akeys] at e this
    rw [e]
    simp [this, hd.2]
  delNodup := by rw [add_deleted]; exact nodup_bmRemove _ _ w.delNodup

/-! ### Remove -/

theorem wf_remove {s : State Tok} (w : WF s) (id : Id) : WF (remove s id) := by
  unfold remove
  split
  · exact w
  · next hs =>
    split
    · exact w
    · next hd =>
      refine ⟨⟨w.keys, w.lens, w.post, w.postNodup, w.tf, w.numDocs, w.total, w.avg⟩, ?_, ?_⟩
      · intro d hd'
        simp only [List.mem_append, List.mem_singleton] at hd'
        rcases hd' with h | rfl
        · exact w.delSub d h
        · apply (aget_isSome_iff _ _).1
          cases h : aget s.docTokens d <;> simp_all
      · show (s.deleted ++ [id]).Nodup
        rw [List.nodup_append]
        refine ⟨w.delNodup, by simp, ?_⟩
        intro a ha b hb
        simp only [List.mem_singleton] at hb
        subst hb
        intro e; subst e; exact hd ha

/-! ### Flush -/

theorem wfc_foldl_removeInternal {s : State Tok} (w : WFc s) (ds : List Id) :
    WFc (ds.foldl removeInternal s) := by
  induction ds generalizing s with
  | nil => exact w
  | cons d t ih => exact ih (wfc_removeInternal w d)

theorem foldl_aerase_eq_filter {β : Type} (l : List (Id × β)) (ds : List Id) :
    ds.foldl aerase l = l.filter fun p => decide (p.1 ∉ ds) := by
  induction ds generalizing l with
  | nil => exact (List.filter_eq_self.2 (by simp)).symm
  | cons d t ih =>
    simp only [List.foldl_cons, ih, aerase, List.filter_filter]
    apply List.filter_congr
    intro p _
    by_cases h1 : p.1 = d <;> by_cases h2 : p.1 ∈ t <;> simp [h1, h2]

theorem docTokens_foldl_removeInternal (s : State Tok) (ds : List Id) :
    (ds.foldl removeInternal s).docTokens = s.docTokens.filter fun p => decide (p.1 ∉ ds) := by
  rw [← foldl_aerase_eq_filter]
  induction ds generalizing s with
  | nil => rfl
  | cons d t ih => simp only [List.foldl_cons, ih, ri_docTokens]

theorem flush_docTokens (s : State Tok) :
    (flush s).docTokens = s.docTokens.filter fun p => decide (p.1 ∉ s.deleted) := by
  unfold flush
  split
  · next he =>
    have : s.deleted = [] := List.isEmpty_iff.1 he
    rw [this]; exact (List.filter_eq_self.2 (by simp)).symm
  · exact docTokens_foldl_removeInternal s s.deleted

theorem flush_deleted (s : State Tok) : (flush s).deleted = [] := by
  unfold flush
  split
  · next he => exact List.isEmpty_iff.1 he
  · rfl

theorem wf_flush {s : State Tok} (w : WF s) : WF (flush s) := by
  refine ⟨?_, ?_, ?_⟩
  · unfold flush
    split
    · exact w.toWFc
    · have := wfc_foldl_removeInternal w.toWFc s.deleted
      exact ⟨this.keys, this.lens, this.post, this.postNodup, this.tf, this.numDocs, this.total, this.avg⟩
  · rw [flush_deleted]; intro d hd; cases hd
  · rw [flush_deleted]; exact List.nodup_nil

theorem wf_step {s : State Tok} (w : WF s) (op : Op Tok) : WF (step s op) := by
  cases op with
  | add id toks => exact wf_add w id toks
  | remove id => exact wf_remove w id
  | flush => exact wf_flush w

theorem wf_run {s : State Tok} (w : WF s) (ops : List (Op Tok)) : WF (run s ops) := by
  induction ops generalizing s with
  | nil => exact w
  | cons op t ih => exact ih (wf_step w op)

/-! ### refinement of the specification -/

/-- `docTokens` is literally the specification's corpus and `deletedDocs` its tombstones. -/
structure Inv (s : State Tok) (c : Spec Tok) : Prop extends WF s where
  corpus : s.docTokens = c.corpus
  tomb : s.deleted = c.tomb

theorem inv_step {s : State Tok} {c : Spec Tok} (i : Inv s c) (op : Op Tok) :
    Inv (step s op) (specStep c op) := by
  refine ⟨wf_step i.toWF op, ?_, ?_⟩
  all_goals
    obtain ⟨cc, ct⟩ := c
    have h1 := i.corpus
    have h2 := i.tomb
    simp only [] at h1 h2
    subst h1; subst h2
  · cases op with
    | add id toks => simp only [step, specStep, add_docTokens]
    | remove id =>
      simp only [step, specStep, remove]
      split
      · next h =>
        have : ¬ ((aget s.docTokens id).isSome = true ∧ id ∉ s.deleted) := by
          intro hc; simp [Option.isNone_iff_eq_none.1 h] at hc
        simp only [this, if_false]
      · split <;> (split <;> rfl)
    | flush => simp only [step, specStep, flush_docTokens]
  · cases op with
    | add id toks => simp only [step, specStep, add_deleted]
    | remove id =>
      simp only [step, specStep, remove]
      by_cases h1 : (aget s.docTokens id).isNone = true
      · have : ¬ ((aget s.docTokens id).isSome = true ∧ id ∉ s.deleted) := by
          intro hc; simp [Option.isNone_iff_eq_none.1 h1] at hc
        simp [h1, this]
      · have h1' : (aget s.docTokens id).isSome = true := by
          cases h : aget s.docTokens id <;> simp_all
        by_cases h2 : id ∈ s.deleted
        · simp [h1, h2]
        · simp [h1, h1', h2]
    | flush => simp only [step, specStep, flush_deleted]

theorem inv_init : Inv (init : State Tok) Spec.empty := ⟨wf_init, rfl, rfl⟩

theorem inv_run' {s : State Tok} {c : Spec Tok} (i : Inv s c) (ops : List (Op Tok)) :
    Inv (run s ops) (ops.foldl specStep c) := by
  induction ops generalizing s c with
  | nil => exact i
  | cons op t ih => exact ih (inv_step i op)

theorem inv_run (ops : List (Op Tok)) : Inv (run init ops) (spec ops) := inv_run' inv_init ops

end Comet.BM25
