/-
  C03 helpers §D — the score map built by `searchSingleQuery` holds exactly the
  specification's candidates with the specification's scores.
-/
import CometProofs.BM25.Inv
namespace Comet.BM25
set_option linter.unusedSectionVars false

variable {Tok : Type} [DecidableEq Tok] {R S : Type}

/-! ### document frequency -/

theorem mem_toksOf {s : State Tok} (w : WFc s) (t : Tok) (d : Id) :
    t ∈ toksOf s d ↔ ∃ toks, (d, toks) ∈ s.docTokens ∧ t ∈ toks := by
  unfold toksOf
  constructor
  · intro h
    cases hg : aget s.docTokens d with
    | none => simp [hg] at h
    | some toks => exact ⟨toks, mem_of_aget hg, by simpa [hg] using h⟩
  · rintro ⟨toks, hm, ht⟩
    rw [aget_of_mem w.keys hm]; exact ht

/-- `df = |postings[t]|` is the number of stored documents (tombstoned included) containing `t` -/
theorem df_eq {s : State Tok} (w : WFc s) (t : Tok) :
    (postOf s t).length = (s.docTokens.filter fun p => decide (t ∈ p.2)).length := by
  have hnd : ((s.docTokens.filter fun p => decide (t ∈ p.2)).map (·.1)).Nodup :=
    List.Nodup.sublist (List.Sublist.map _ List.filter_sublist) w.keys
  have hp : (postOf s t).Perm ((s.docTokens.filter fun p => decide (t ∈ p.2)).map (·.1)) := by
    rw [List.perm_ext_iff_of_nodup (w.postNodup t) hnd]
    intro d
    rw [w.post, mem_toksOf w]
    simp only [List.mem_map, List.mem_filter, decide_eq_true_eq]
    constructor
    · rintro ⟨toks, hm, ht⟩; exact ⟨(d, toks), ⟨hm, ht⟩, rfl⟩
    · rintro ⟨⟨d', toks⟩, ⟨hm, ht⟩, rfl⟩; exact ⟨toks, hm, ht⟩
  rw [hp.length_eq, List.length_map]

/-! ### the accumulation loops -/

theorem aget_accum (sc : Scoring R S) (m : List (Id × R)) (d0 d : Id) (x : R) :
    aget (accum sc m d0 x) d =
      if d = d0 then some (sc.add ((aget m d0).getD sc.zero) x) else aget m d := by
  unfold accum; exact aget_aset m d0 d _

theorem nodup_accum (sc : Scoring R S) (m : List (Id × R)) (d0 : Id) (x : R)
    (h : (akeys m).Nodup) : (akeys (accum sc m d0 x)).Nodup :=
  nodup_akeys_aset m d0 _ h

/-- a query-token occurrence `t` contributes to document `d` -/
def hit (s : State Tok) (F : List Id) (t : Tok) (d : Id) : Bool :=
  decide (d ∈ postOf s t) && !decide (d ∈ s.deleted) && eligible F d

/-- … this much -/
def contrib (sc : Scoring R S) (s : State Tok) (t : Tok) (d : Id) : R :=
  sc.score s.numDocs (postOf s t).length (tfOf s t d) (lenOf s d) s.avgDocLen

/-- the inner loop over one posting list `ds` (duplicate-free) -/
theorem aget_inner (sc : Scoring R S) (s : State Tok) (F : List Id) (val : Id → R)
    (ds : List Id) (hn : ds.Nodup) (m : List (Id × R)) (d : Id) :
    aget (ds.foldl (fun scores d =>
        if d ∈ s.deleted then scores
        else if !eligible F d then scores
        else accum sc scores d (val d)) m) d =
      if d ∈ ds ∧ d ∉ s.deleted ∧ eligible F d = true
      then some (sc.add ((aget m d).getD sc.zero) (val d)) else aget m d := by
  induction ds generalizing m with
  | nil => simp
  | cons d0 t ih =>
    rw [List.nodup_cons] at hn
    simp only [List.foldl_cons]
    rw [ih hn.2]
    by_cases hd : d = d0
    · subst hd
      have hnt : d ∉ t := hn.1
      by_cases h1 : d ∈ s.deleted
      · simp [h1]
      · by_cases h2 : eligible F d = true
        · simp [hnt, h1, h2, aget_accum]
        · simp [hnt, h1, h2]
    · have e : aget (if d0 ∈ s.deleted then m else if (!eligible F d0) = true then m
          else accum sc m d0 (val d0)) d = aget m d := by
        split
        · rfl
        · split
          · rfl
          · rw [aget_accum]; simp [hd]
      rw [e]
      simp [hd]

theorem nodup_inner (sc : Scoring R S) (s : State Tok) (F : List Id) (val : Id → R)
    (ds : List Id) (m : List (Id × R)) (h : (akeys m).Nodup) :
    (akeys (ds.foldl (fun scores d =>
        if d ∈ s.deleted then scores
        else if !eligible F d then scores
        else accum sc scores d (val d)) m)).Nodup := by
  induction ds generalizing m with
  | nil => exact h
  | cons d0 t ih =>
    simp only [List.foldl_cons]
    apply ih
    split
    · exact h
    · split
      · exact h
      · exact nodup_accum sc m d0 _ h

theorem aget_scoreTok (sc : Scoring R S) {s : State Tok} (w : WFc s) (F : List Id)
    (m : List (Id × R)) (t : Tok) (d : Id) :
    aget (scoreTok sc s F m t) d =
      if hit s F t d = true then some (sc.add ((aget m d).getD sc.zero) (contrib sc s t d))
      else aget m d := by
  unfold scoreTok
  cases hp : aget s.postings t with
  | none =>
    have : postOf s t = [] := by simp [postOf, hp]
    simp [hit, this]
  | some bitmap =>
    have hb : postOf s t = bitmap := by simp [postOf, hp]
    have hn : bitmap.Nodup := hb ▸ w.postNodup t
    simp only []
    rw [aget_inner sc s F (fun d => sc.score s.numDocs bitmap.length (tfOf s t d) (lenOf s d) s.avgDocLen)
      bitmap hn m d]
    simp only [hit, contrib, hb, Bool.and_eq_true, decide_eq_true_eq, Bool.not_eq_true',
      decide_eq_false_iff_not, and_assoc]

theorem nodup_scoreTok (sc : Scoring R S) (s : State Tok) (F : List Id)
    (m : List (Id × R)) (t : Tok) (h : (akeys m).Nodup) :
    (akeys (scoreTok sc s F m t)).Nodup := by
  unfold scoreTok
  cases aget s.postings t with
  | none => exact h
  | some bitmap => exact nodup_inner sc s F _ bitmap m h

/-- per-document view of the outer loop -/
def docStep (sc : Scoring R S) (s : State Tok) (F : List Id) (d : Id) (acc : Option R) (t : Tok) :
    Option R :=
  if hit s F t d = true then some (sc.add (acc.getD sc.zero) (contrib sc s t d)) else acc

theorem aget_foldl_scoreTok (sc : Scoring R S) {s : State Tok} (w : WFc s) (F : List Id)
    (q : List Tok) (m : List (Id × R)) (d : Id) :
    aget (q.foldl (scoreTok sc s F) m) d = q.foldl (docStep sc s F d) (aget m d) := by
  induction q generalizing m with
  | nil => rfl
  | cons t ts ih =>
    simp only [List.foldl_cons, ih, aget_scoreTok sc w]
    rfl

theorem nodup_scoreMap (sc : Scoring R S) (s : State Tok) (F : List Id) (q : List Tok) :
    (akeys (scoreMap sc s F q)).Nodup := by
  unfold scoreMap
  have : ∀ m : List (Id × R), (akeys m).Nodup → (akeys (q.foldl (scoreTok sc s F) m)).Nodup := by
    induction q with
    | nil => intro m h; exact h
    | cons t ts ih => intro m h; exact ih _ (nodup_scoreTok sc s F m t h)
  exact this [] (by simp [akeys])

/-- folding the per-document step = summing over the contributing occurrences, in order -/
theorem foldl_docStep (sc : Scoring R S) (s : State Tok) (F : List Id) (d : Id) (q : List Tok)
    (acc : Option R) :
    q.foldl (docStep sc s F d) acc =
      if (q.filter fun t => hit s F t d) = [] then acc
      else some ((q.filter fun t => hit s F t d).foldl
        (fun a t => sc.add a (contrib sc s t d)) (acc.getD sc.zero)) := by
  induction q generalizing acc with
  | nil => simp
  | cons t ts ih =>
    simp only [List.foldl_cons, ih]
    by_cases h : hit s F t d = true
    · simp only [docStep, h, if_true, List.filter_cons, Option.getD_some, List.foldl_cons]
      split
      · next he => simp [he]
      · simp
    · simp only [docStep, h, List.filter_cons]
      simp

/-! ### under the refinement invariant the score map is the specification's candidate list -/

/-- the specification's candidates as an association list -/
def candPairs (sc : Scoring R S) (c : Spec Tok) (q : List Tok) (F : List Id) : List (Id × R) :=
  (c.live.filter fun p => eligible F p.1 && shares q p.2).map fun p => (p.1, specScore sc c q p.2)

theorem specCands_eq (sc : Scoring R S) (c : Spec Tok) (q : List Tok) (F : List Id) :
    specCands sc c q F = toHits (candPairs sc c q F) := by
  simp [specCands, candPairs, toHits, Function.comp_def]

theorem aget_filter_map_of_nodup {β γ : Type} (l : List (Id × β)) (P : Id → β → Bool) (g : β → γ)
    (hn : (akeys l).Nodup) (d : Id) :
    aget ((l.filter fun p => P p.1 p.2).map fun p => (p.1, g p.2)) d =
      (aget l d).bind fun v => if P d v then some (g v) else none := by
  induction l with
  | nil => simp [aget]
  | cons p t ih =>
    obtain ⟨k, v⟩ := p
    simp only [akeys, List.map_cons, List.nodup_cons] at hn
    by_cases hk : k = d
    · subst hk
      by_cases hp : P k v = true
      · simp [hp, aget]
      · have hnone : aget ((t.filter fun p => P p.1 p.2).map fun p => (p.1, g p.2)) k = none := by
          rw [aget_eq_none_iff]
          intro hc
          simp only [akeys, List.map_map, List.mem_map, List.mem_filter, Function.comp] at hc
          obtain ⟨x, ⟨hx, _⟩, hxe⟩ := hc
          exact hn.1 (List.mem_map.2 ⟨x, hx, hxe⟩)
        simp [hp, aget, hnone]
    · by_cases hp : P k v = true
      · simp only [List.filter_cons, hp, if_true, List.map_cons, aget, hk, if_false]
        exact ih hn.2
      · simp only [List.filter_cons, hp, aget, hk, if_false]
        exact ih hn.2

theorem score_map_spec (sc : Scoring R S) {s : State Tok} {c : Spec Tok} (i : Inv s c)
    (q : List Tok) (F : List Id) (d : Id) :
    aget (scoreMap sc s F q) d = aget (candPairs sc c q F) d := by
  have w := i.toWFc
  unfold scoreMap
  rw [aget_foldl_scoreTok sc w, foldl_docStep]
  simp only [aget, Option.getD_none]
  -- right-hand side
  have hnl : (akeys c.corpus).Nodup := i.corpus ▸ w.keys
  have hrhs : aget (candPairs sc c q F) d =
      (aget c.corpus d).bind fun toks =>
        if decide (d ∉ c.tomb) && (eligible F d && shares q toks) then some (specScore sc c q toks)
        else none := by
    unfold candPairs Spec.live
    rw [List.filter_filter]
    exact aget_filter_map_of_nodup c.corpus
      (fun d toks => (eligible F d && shares q toks) && decide (d ∉ c.tomb))
      (specScore sc c q) hnl d |>.trans (by
        congr 1; funext toks
        by_cases h1 : d ∈ c.tomb <;> by_cases h2 : eligible F d = true <;>
          by_cases h3 : shares q toks = true <;> simp [h1, h2, h3])
  rw [hrhs]
  -- hits in terms of the document's own token list
  have hhit : ∀ t, hit s F t d =
      (decide (t ∈ toksOf s d) && !decide (d ∈ c.tomb) && eligible F d) := by
    intro t
    unfold hit
    rw [i.tomb]
    have := w.post t d
    by_cases h : d ∈ postOf s t
    · simp [h, this.1 h]
    · have h' : t ∉ toksOf s d := fun hc => h (this.2 hc)
      simp [h, h']
  simp only [hhit]
  cases hg : aget c.corpus d with
  | none =>
    have : toksOf s d = [] := by simp [toksOf, i.corpus, hg]
    simp [this]
  | some toks =>
    have hto : toksOf s d = toks := by simp [toksOf, i.corpus, hg]
    simp only [hto, Option.bind_some]
    by_cases h1 : d ∈ c.tomb
    · simp [h1]
    · by_cases h2 : eligible F d = true
      · simp only [h1, h2, decide_false, Bool.not_false, Bool.and_true, decide_true, Bool.true_and,
          not_false_eq_true]
        by_cases h3 : shares q toks = true
        · have hne : (q.filter fun t => decide (t ∈ toks)) ≠ [] := by
            simp only [shares, List.any_eq_true] at h3
            obtain ⟨t, ht, hm⟩ := h3
            intro hc
            have : t ∈ q.filter fun t => decide (t ∈ toks) := List.mem_filter.2 ⟨ht, hm⟩
            rw [hc] at this; cases this
          simp only [hne, if_false, h3, if_true]
          congr 1
          unfold specScore
          congr 1
          funext a t
          unfold contrib
          rw [df_eq w, w.tf, lenOf_eq w, hto, w.numDocs, w.avg, w.numDocs, w.total, i.corpus]
          simp only [Spec.N, Spec.df, Spec.avg, Spec.total]
          congr 1
          by_cases hz : c.corpus.length = 0
          · simp [hz]
          · simp [hz]
        · have he : (q.filter fun t => decide (t ∈ toks)) = [] := by
            simp only [shares, List.any_eq_true, not_exists, not_and] at h3
            apply List.filter_eq_nil_iff.2
            intro t ht
            exact h3 t ht
          simp [he, h3]
      · simp [h2]

theorem nodup_candPairs (sc : Scoring R S) {c : Spec Tok} (hn : (akeys c.corpus).Nodup)
    (q : List Tok) (F : List Id) : (akeys (candPairs sc c q F)).Nodup := by
  unfold candPairs Spec.live akeys
  rw [List.map_map]
  have : ((fun p : Id × R => p.1) ∘ fun p : Id × List Tok => (p.1, specScore sc c q p.2)) =
      fun p => p.1 := rfl
  rw [this]
  exact List.Nodup.sublist
    (List.Sublist.map _ (List.filter_sublist.trans List.filter_sublist)) hn

/-- the score map and the specification's candidate list hold the same hits -/
theorem scoreMap_perm_specCands (sc : Scoring R S) {s : State Tok} {c : Spec Tok} (i : Inv s c)
    (q : List Tok) (F : List Id) :
    (toHits (scoreMap sc s F q)).Perm (specCands sc c q F) := by
  rw [specCands_eq]
  apply List.Perm.map
  exact perm_of_aget_eq (nodup_scoreMap sc s F q)
    (nodup_candPairs sc (i.corpus ▸ i.keys) q F) (score_map_spec sc i q F)

end Comet.BM25
