/-
  C03 helpers §B — the per-token loops of `Add` and `removeInternal`, read through
  look-ups: what `postings[t]` and `tf[t][d]` are after the loop.
-/
import CometProofs.BM25.AList
namespace Comet.BM25

variable {Tok : Type} [DecidableEq Tok]

/-- look-up view of a postings map / tf map (nil bitmap = empty, absent count = 0) -/
def pOf (p : List (Tok × List Id)) (t : Tok) : List Id := (aget p t).getD []
def fOf (f : List (Tok × List (Id × Nat))) (t : Tok) (d : Id) : Nat :=
  (aget ((aget f t).getD []) d).getD 0

theorem bmAdd_idem (l : List Id) (id : Id) : bmAdd (bmAdd l id) id = bmAdd l id := by
  unfold bmAdd
  by_cases h : id ∈ l <;> simp [h]

theorem mem_bmAdd (l : List Id) (id d : Id) : d ∈ bmAdd l id ↔ d ∈ l ∨ d = id := by
  unfold bmAdd
  by_cases h : id ∈ l
  · simp only [h, if_true]
    constructor
    · exact Or.inl
    · rintro (h' | rfl) <;> assumption
  · simp [h]

theorem nodup_bmAdd (l : List Id) (id : Id) (h : l.Nodup) : (bmAdd l id).Nodup := by
  unfold bmAdd
  by_cases hm : id ∈ l
  · simp [hm, h]
  · simp only [hm, if_false]
    rw [List.nodup_append]
    refine ⟨h, by simp, ?_⟩
    intro a ha b hb
    simp only [List.mem_singleton] at hb
    subst hb
    intro e; subst e; exact hm ha

theorem bmRemove_idem (l : List Id) (id : Id) : bmRemove (bmRemove l id) id = bmRemove l id := by
  simp [bmRemove, List.filter_filter]

theorem mem_bmRemove (l : List Id) (id d : Id) : d ∈ bmRemove l id ↔ d ∈ l ∧ d ≠ id := by
  simp [bmRemove]

theorem nodup_bmRemove (l : List Id) (id : Id) (h : l.Nodup) : (bmRemove l id).Nodup :=
  h.sublist List.filter_sublist

theorem bmRemove_of_not_mem (l : List Id) (id : Id) (h : id ∉ l) : bmRemove l id = l := by
  unfold bmRemove
  apply List.filter_eq_self.2
  intro a ha
  simp only [decide_eq_true_eq]
  intro e; subst e; exact h ha

/-! ### Add -/

theorem pOf_addPost (id : Id) (p : List (Tok × List Id)) (t0 t : Tok) :
    pOf (addPost id p t0) t = if t = t0 then bmAdd (pOf p t0) id else pOf p t := by
  unfold pOf addPost
  rw [aget_aset]
  by_cases h : t = t0 <;> simp [h]

theorem pOf_foldl_addPost (id : Id) (toks : List Tok) (p : List (Tok × List Id)) (t : Tok) :
    pOf (toks.foldl (addPost id) p) t = if t ∈ toks then bmAdd (pOf p t) id else pOf p t := by
  induction toks generalizing p with
  | nil => simp
  | cons t0 ts ih =>
    simp only [List.foldl_cons, ih, pOf_addPost, List.mem_cons]
    by_cases h0 : t = t0
    · subst h0
      by_cases h1 : t ∈ ts <;> simp [h1, bmAdd_idem]
    · by_cases h1 : t ∈ ts <;> simp [h0, h1]

theorem fOf_addTf (id : Id) (f : List (Tok × List (Id × Nat))) (t0 t : Tok) (d : Id) :
    fOf (addTf id f t0) t d = fOf f t d + if t = t0 ∧ d = id then 1 else 0 := by
  unfold fOf addTf
  simp only []
  rw [aget_aset]
  by_cases h : t = t0
  · subst h
    simp only [if_true, Option.getD_some, true_and]
    rw [aget_aset]
    by_cases hd : d = id
    · subst hd; simp
    · simp [hd]
  · simp [h]

theorem fOf_foldl_addTf (id : Id) (toks : List Tok) (f : List (Tok × List (Id × Nat))) (t : Tok)
    (d : Id) :
    fOf (toks.foldl (addTf id) f) t d = fOf f t d + if d = id then toks.count t else 0 := by
  induction toks generalizing f with
  | nil => simp
  | cons t0 ts ih =>
    simp only [List.foldl_cons, ih, fOf_addTf, List.count_cons]
    by_cases hd : d = id
    · by_cases h0 : t = t0
      · subst h0; simp [hd]; omega
      · have : (t0 == t) = false := by simp [Ne.symm h0]
        simp [hd, h0, this]
    · simp [hd]

theorem foldl_addTok (id : Id) (toks : List Tok) (p : List (Tok × List Id))
    (f : List (Tok × List (Id × Nat))) :
    toks.foldl (addTok id) (p, f) = (toks.foldl (addPost id) p, toks.foldl (addTf id) f) := by
  induction toks generalizing p f with
  | nil => rfl
  | cons t ts ih => simp only [List.foldl_cons, addTok, ih]

/-! ### removeInternal -/

theorem pOf_rmPost (id : Id) (p : List (Tok × List Id)) (t0 t : Tok) :
    pOf (rmPost id p t0) t = if t = t0 then bmRemove (pOf p t0) id else pOf p t := by
  unfold rmPost
  cases h0 : aget p t0 with
  | none =>
    by_cases h : t = t0
    · subst h; simp [pOf, h0, bmRemove]
    · simp [h]
  | some l =>
    simp only []
    by_cases he : (bmRemove l id).isEmpty = true
    · simp only [he, if_true]
      unfold pOf
      rw [aget_aerase]
      by_cases h : t = t0
      · subst h
        simp only [if_true, Option.getD_none, h0, Option.getD_some]
        exact (List.isEmpty_iff.1 he).symm
      · simp [h]
    · simp only [he, Bool.false_eq_true, if_false]
      unfold pOf
      rw [aget_aset]
      by_cases h : t = t0
      · subst h; simp [h0]
      · simp [h]

theorem pOf_foldl_rmPost (id : Id) (toks : List Tok) (p : List (Tok × List Id)) (t : Tok) :
    pOf (toks.foldl (rmPost id) p) t = if t ∈ toks then bmRemove (pOf p t) id else pOf p t := by
  induction toks generalizing p with
  | nil => simp
  | cons t0 ts ih =>
    simp only [List.foldl_cons, ih, pOf_rmPost, List.mem_cons]
    by_cases h0 : t = t0
    · subst h0
      by_cases h1 : t ∈ ts <;> simp [h1, bmRemove_idem]
    · by_cases h1 : t ∈ ts <;> simp [h0, h1]

theorem fOf_rmTf (id : Id) (f : List (Tok × List (Id × Nat))) (t0 t : Tok) (d : Id) :
    fOf (rmTf id f t0) t d = if t = t0 ∧ d = id then 0 else fOf f t d := by
  unfold rmTf
  cases h0 : aget f t0 with
  | none =>
    by_cases h : t = t0 ∧ d = id
    · obtain ⟨h1, h2⟩ := h; subst h1; subst h2; simp [fOf, h0, aget]
    · simp [h]
  | some m =>
    simp only []
    by_cases he : (aerase m id).isEmpty = true
    · simp only [he, if_true]
      have hnil : aerase m id = [] := List.isEmpty_iff.1 he
      unfold fOf
      rw [aget_aerase]
      by_cases h : t = t0
      · subst h
        simp only [if_true, Option.getD_none, aget, Option.getD_some, h0, true_and]
        by_cases hd : d = id
        · simp [hd]
        · have := aget_aerase_ne m (a := id) (a' := d) hd
          rw [hnil] at this
          simp only [aget] at this
          simp [hd, ← this]
      · simp [h]
    · simp only [he, Bool.false_eq_true, if_false]
      unfold fOf
      rw [aget_aset]
      by_cases h : t = t0
      · subst h
        simp only [if_true, Option.getD_some, h0, true_and]
        rw [aget_aerase]
        by_cases hd : d = id <;> simp [hd]
      · simp [h]

theorem fOf_foldl_rmTf (id : Id) (toks : List Tok) (f : List (Tok × List (Id × Nat))) (t : Tok)
    (d : Id) :
    fOf (toks.foldl (rmTf id) f) t d = if t ∈ toks ∧ d = id then 0 else fOf f t d := by
  induction toks generalizing f with
  | nil => simp
  | cons t0 ts ih =>
    simp only [List.foldl_cons, ih, fOf_rmTf, List.mem_cons]
    by_cases hd : d = id
    · by_cases h0 : t = t0
      · subst h0; simp [hd]
      · by_cases h1 : t ∈ ts <;> simp [hd, h0, h1]
    · simp [hd]

theorem foldl_rmTok (id : Id) (toks : List Tok) (p : List (Tok × List Id))
    (f : List (Tok × List (Id × Nat))) :
    toks.foldl (rmTok id) (p, f) = (toks.foldl (rmPost id) p, toks.foldl (rmTf id) f) := by
  induction toks generalizing p f with
  | nil => rfl
  | cons t ts ih => simp only [List.foldl_cons, rmTok, ih]

end Comet.BM25
