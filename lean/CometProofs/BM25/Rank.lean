/-
  C03 helpers §E — the ranking tail of `searchSingleQuery`.

  Both branches (full heap-sort when `k ≤ 0 ∨ k ≥ len(scores)`; size-k min-heap with
  strict `>` replacement otherwise) return an exact top-k in descending order —
  for EVERY order in which the score map is iterated (the statement is about an
  arbitrary list `hits`) and for EVERY lawful priority queue (`Pop` returns some
  minimum; which one among equals is left open).
-/
import Comet.BM25
namespace Comet.BM25
set_option linter.unusedSectionVars false

variable {R : Type}

/-- what `container/heap` is trusted to provide -/
structure LawfulPopMin (le : R → R → Bool) (pm : PopMin R) : Prop where
  nil : pm [] = none
  cons : ∀ h : List (Hit R), h ≠ [] → ∃ m rest, pm h = some (m, rest) ∧ (m :: rest).Perm h ∧
    ∀ x ∈ rest, le m.score x.score = true

structure TotalPreorder (le : R → R → Bool) : Prop where
  total : ∀ a b : R, le a b || le b a
  trans : ∀ a b c : R, le a b → le b c → le a c

theorem TotalPreorder.refl {le : R → R → Bool} (o : TotalPreorder le) (a : R) : le a a = true := by
  have := o.total a a; simpa using this

theorem TotalPreorder.of_not {le : R → R → Bool} (o : TotalPreorder le) {a b : R}
    (h : ¬ le a b = true) : le b a = true := by
  have := o.total a b
  simp only [Bool.or_eq_true] at this
  rcases this with h' | h'
  · exact absurd h' h
  · exact h'

/-- the model's own `popMin` (first minimum) is lawful -/
theorem popMin_lawful (le : R → R → Bool) (o : TotalPreorder le) : LawfulPopMin le (popMin le) where
  nil := rfl
  cons := by
    intro h
    induction h with
    | nil => intro hc; exact absurd rfl hc
    | cons a t ih =>
      intro _
      cases t with
      | nil => exact ⟨a, [], by simp [popMin], List.Perm.refl _, by intro x hx; cases hx⟩
      | cons b t' =>
        obtain ⟨m, rest, hpm, hperm, hmin⟩ := ih (by simp)
        by_cases hle : le a.score m.score = true
        · refine ⟨a, b :: t', by rw [popMin.eq_2, hpm]; simp [hle], List.Perm.refl _, ?_⟩
          intro x hx
          have : x ∈ m :: rest := hperm.symm.subset hx
          rcases List.mem_cons.1 this with rfl | hr
          · exact hle
          · exact o.trans _ _ _ hle (hmin x hr)
        · refine ⟨m, a :: rest, by rw [popMin.eq_2, hpm]; simp [hle], ?_, ?_⟩
          · exact (List.Perm.swap a m rest).trans (List.Perm.cons a hperm)
          · intro x hx
            rcases List.mem_cons.1 hx with rfl | hr
            · exact o.of_not hle
            · exact hmin x hr

/-- draining a heap of `n` elements lists them in ascending order -/
theorem drain_spec (le : R → R → Bool) (pm : PopMin R) (law : LawfulPopMin le pm) :
    ∀ (n : Nat) (h : List (Hit R)), h.length = n →
      (drain pm n h).Perm h ∧ (drain pm n h).Pairwise fun a b => le a.score b.score = true := by
  intro n
  induction n with
  | zero =>
    intro h hl
    have : h = [] := List.eq_nil_of_length_eq_zero hl
    subst this
    exact ⟨List.Perm.refl _, List.Pairwise.nil⟩
  | succ n ih =>
    intro h hl
    have hne : h ≠ [] := by intro e; subst e; simp at hl
    obtain ⟨m, rest, hpm, hperm, hmin⟩ := law.cons h hne
    have hrl : rest.length = n := by
      have := hperm.length_eq; simp at this; omega
    obtain ⟨ihp, ihs⟩ := ih rest hrl
    simp only [drain, hpm]
    refine ⟨(List.Perm.cons m ihp).trans hperm, ?_⟩
    rw [List.pairwise_cons]
    exact ⟨fun x hx => hmin x (ihp.subset hx), ihs⟩

/-- descending order on hits -/
abbrev geR (le : R → R → Bool) : R → R → Bool := fun a b => le b a

theorem drain_reverse_sorted (le : R → R → Bool) (pm : PopMin R) (law : LawfulPopMin le pm)
    (h : List (Hit R)) :
    ((drain pm h.length h).reverse).Perm h ∧
    ((drain pm h.length h).reverse).Pairwise fun a b => geR le a.score b.score = true := by
  obtain ⟨hp, hs⟩ := drain_spec le pm law h.length h rfl
  exact ⟨(List.reverse_perm _).trans hp, List.pairwise_reverse.2 hs⟩

/-- invariant of the top-k loop after the prefix `P` of the iteration order -/
structure HeapInv (le : R → R → Bool) (k : Nat) (P h : List (Hit R)) : Prop where
  ex : ∃ dropped, (h ++ dropped).Perm P ∧
        ∀ a ∈ h, ∀ b ∈ dropped, le b.score a.score = true
  len : h.length = min k P.length

theorem heapStep_inv (le : R → R → Bool) (o : TotalPreorder le) (pm : PopMin R)
    (law : LawfulPopMin le pm) (k : Nat) (hk : 0 < k) (P h : List (Hit R)) (x : Hit R)
    (inv : HeapInv le k P h) : HeapInv le k (P ++ [x]) (heapStep le pm k h x) := by
  obtain ⟨⟨dropped, hperm, hord⟩, hlen⟩ := inv
  have hPl : h.length + dropped.length = P.length := by
    have := hperm.length_eq; simpa using this
  unfold heapStep
  by_cases hlt : h.length < k
  · -- heap not yet full: nothing has been dropped so far
    have hd : dropped = [] := by
      apply List.eq_nil_of_length_eq_zero
      have : h.length = P.length := by
        rw [hlen] at hlt ⊢
        omega
      omega
    subst hd
    simp only [hlt, if_true]
    refine ⟨⟨[], ?_, by intro a _ b hb; cases hb⟩, ?_⟩
    · simp only [List.append_nil] at hperm ⊢
      exact (List.Perm.cons x hperm).trans (List.perm_append_comm (l₁ := [x]) (l₂ := P))
    · simp only [List.length_cons, List.length_append, List.length_nil]
      omega
  · simp only [hlt, if_false]
    have hne : h ≠ [] := by intro e; subst e; simp at hlt; omega
    obtain ⟨m, rest, hpm, hmperm, hmin⟩ := law.cons h hne
    have hml : rest.length + 1 = h.length := by
      have := hmperm.length_eq; simpa using this
    have hmh : m ∈ h := hmperm.subset (by simp)
    have hrest : ∀ a ∈ rest, a ∈ h := fun a ha => hmperm.subset (List.mem_cons_of_mem _ ha)
    have hfull : h.length = k := by rw [hlen] at hlt ⊢; omega
    simp only [hpm]
    by_cases hgt : le x.score m.score = true
    · -- not better than the minimum: dropped
      simp only [hgt, Bool.not_true, Bool.false_eq_true, if_false]
      refine ⟨⟨x :: dropped, ?_, ?_⟩, ?_⟩
      · have : (h ++ x :: dropped).Perm (x :: (h ++ dropped)) := List.perm_middle
        exact this.trans ((List.Perm.cons x hperm).trans
          (List.perm_append_comm (l₁ := [x]) (l₂ := P)))
      · intro a ha b hb
        rcases List.mem_cons.1 hb with rfl | hb
        · have hma : le m.score a.score = true := by
            have : a ∈ m :: rest := hmperm.symm.subset ha
            rcases List.mem_cons.1 this with rfl | hr
            · exact o.refl _
            · exact hmin a hr
          exact o.trans _ _ _ hgt hma
        · exact hord a ha b hb
      · simp only [List.length_append, List.length_cons, List.length_nil]; omega
    · -- strictly better: replaces the minimum
      have hmx : le m.score x.score = true := o.of_not hgt
      simp only [hgt, Bool.not_false, if_true]
      refine ⟨⟨m :: dropped, ?_, ?_⟩, ?_⟩
      · have h1 : (x :: rest ++ m :: dropped).Perm (x :: (m :: rest ++ dropped)) := by
          simp only [List.cons_append]
          exact List.Perm.cons x List.perm_middle
        have h2 : (m :: rest ++ dropped).Perm (h ++ dropped) := List.Perm.append_right _ hmperm
        exact h1.trans ((List.Perm.cons x (h2.trans hperm)).trans
          (List.perm_append_comm (l₁ := [x]) (l₂ := P)))
      · intro a ha b hb
        rcases List.mem_cons.1 ha with rfl | ha
        · rcases List.mem_cons.1 hb with rfl | hb
          · exact hmx
          · exact o.trans _ _ _ (hord m hmh b hb) hmx
        · rcases List.mem_cons.1 hb with rfl | hb
          · exact hmin a ha
          · exact hord a (hrest a ha) b hb
      · simp only [List.length_cons, List.length_append, List.length_nil]; omega

theorem heapLoop_inv (le : R → R → Bool) (o : TotalPreorder le) (pm : PopMin R)
    (law : LawfulPopMin le pm) (k : Nat) (hk : 0 < k) (hits : List (Hit R)) :
    ∀ (P h : List (Hit R)), HeapInv le k P h →
      HeapInv le k (P ++ hits) (hits.foldl (heapStep le pm k) h) := by
  induction hits with
  | nil => intro P h inv; simpa using inv
  | cons x t ih =>
    intro P h inv
    have := ih (P ++ [x]) _ (heapStep_inv le o pm law k hk P h x inv)
    simpa using this

/-- **Both branches of the ranking tail yield an exact top-k, descending, for every
    iteration order `hits` of the score map and every lawful heap.** -/
theorem rankWith_isTopK (le : R → R → Bool) (o : TotalPreorder le) (pm : PopMin R)
    (law : LawfulPopMin le pm) (k : Int) (hits : List (Hit R)) :
    IsTopK (geR le) k hits (rankWith le pm k hits) := by
  unfold rankWith
  by_cases hfull : k ≤ 0 ∨ k ≥ (hits.length : Int)
  · simp only [hfull, if_true]
    obtain ⟨hp, hs⟩ := drain_reverse_sorted le pm law hits
    refine ⟨hs, ⟨[], by simpa using hp, by intro a _ b hb; cases hb⟩, ?_⟩
    rw [hp.length_eq]
    unfold sanitizeK
    split
    · rfl
    · omega
  · simp only [hfull, if_false]
    have hk0 : 0 < k := by omega
    have hkn : k < (hits.length : Int) := by omega
    have hkk : 0 < k.toNat := by omega
    have inv := heapLoop_inv le o pm law k.toNat hkk hits [] []
      ⟨⟨[], List.Perm.refl _, by intro a ha; cases ha⟩, by simp⟩
    simp only [List.nil_append] at inv
    obtain ⟨⟨dropped, hperm, hord⟩, hlen⟩ := inv
    obtain ⟨hp, hs⟩ := drain_reverse_sorted le pm law (hits.foldl (heapStep le pm k.toNat) [])
    refine ⟨hs, ⟨dropped, (List.Perm.append_right _ hp).trans hperm, ?_⟩, ?_⟩
    · intro a ha b hb
      exact hord a (hp.subset ha) b hb
    · rw [hp.length_eq, hlen]
      unfold sanitizeK
      split
      · omega
      · omega

/-! ### transport of `IsTopK` -/

theorem isTopK_of_perm {S : Type} {le : S → S → Bool} {k : Int} {c c' res : List (Hit S)}
    (h : IsTopK le k c res) (p : c.Perm c') : IsTopK le k c' res := by
  obtain ⟨hs, ⟨rest, hp, hle⟩, hl⟩ := h
  exact ⟨hs, ⟨rest, hp.trans p, hle⟩, by rw [← p.length_eq]; exact hl⟩

/-- a monotone score conversion (`float32(score)`) preserves exact top-k answers -/
theorem isTopK_map {S S' : Type} {le : S → S → Bool} {le' : S' → S' → Bool} (f : S → S')
    (mono : ∀ a b, le a b = true → le' (f a) (f b) = true)
    {k : Int} {c res : List (Hit S)} (h : IsTopK le k c res) :
    IsTopK le' k (c.map fun x => ⟨x.id, f x.score⟩) (res.map fun x => ⟨x.id, f x.score⟩) := by
  obtain ⟨hs, ⟨rest, hp, hle⟩, hl⟩ := h
  refine ⟨?_, ⟨rest.map fun x => ⟨x.id, f x.score⟩, ?_, ?_⟩, ?_⟩
  · rw [List.pairwise_map]
    exact hs.imp fun hab => mono _ _ hab
  · rw [← List.map_append]; exact hp.map _
  · intro a ha b hb
    obtain ⟨a', ha', rfl⟩ := List.mem_map.1 ha
    obtain ⟨b', hb', rfl⟩ := List.mem_map.1 hb
    exact mono _ _ (hle a' ha' b' hb')
  · simp [hl]

/-- the head of a sorted list is an exact top-k of it (`LimitResults` after a sort) -/
theorem isTopK_take_of_sorted {S : Type} (le : S → S → Bool) (k : Int) (xs : List (Hit S))
    (hs : xs.Pairwise fun a b => le a.score b.score = true) :
    IsTopK le k xs (limitResults k xs) := by
  unfold limitResults
  have hsplit := List.take_append_drop (sanitizeK k xs.length) xs
  refine ⟨hs.sublist (List.take_sublist _ _), ⟨xs.drop (sanitizeK k xs.length), ?_, ?_⟩, ?_⟩
  · rw [hsplit]
  · intro a ha b hb
    rw [← hsplit, List.pairwise_append] at hs
    exact hs.2.2 a ha b hb
  · simp [List.length_take, sanitizeK_le]

end Comet.BM25
