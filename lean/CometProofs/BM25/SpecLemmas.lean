/-
  C03 helpers — facts about the specification `spec h` alone (no model involved):
  an earlier add of an id that is added again later leaves no trace; a removed id is
  not live until it is added again; and the invariant pins the state down up to the
  order of Go's maps.
-/
import CometProofs.BM25.Search
namespace Comet.BM25
set_option linter.unusedSectionVars false

variable {Tok : Type} [DecidableEq Tok]

/-- the op names this id -/
def mentions (id : Id) : Op Tok → Bool
  | .add j _ => j == id
  | .remove j => j == id
  | .flush => false

theorem spec_append (h₁ h₂ : List (Op Tok)) : spec (h₁ ++ h₂) = h₂.foldl specStep (spec h₁) := by
  simp [spec, List.foldl_append]

/-! ### "the same except possibly at `id`" -/

def SameBut (id : Id) (c₁ c₂ : Spec Tok) : Prop :=
  aerase c₁.corpus id = aerase c₂.corpus id ∧ bmRemove c₁.tomb id = bmRemove c₂.tomb id

theorem aerase_comm {β : Type} (l : List (Id × β)) (a b : Id) :
    aerase (aerase l a) b = aerase (aerase l b) a := by
  simp only [aerase, List.filter_filter]
  apply List.filter_congr
  intro p _
  exact Bool.and_comm _ _

theorem bmRemove_comm (l : List Id) (a b : Id) :
    bmRemove (bmRemove l a) b = bmRemove (bmRemove l b) a := by
  simp only [bmRemove, List.filter_filter]
  apply List.filter_congr
  intro p _
  exact Bool.and_comm _ _

theorem aerase_append {β : Type} (l₁ l₂ : List (Id × β)) (a : Id) :
    aerase (l₁ ++ l₂) a = aerase l₁ a ++ aerase l₂ a := by
  simp [aerase]

theorem sameBut_add_self (c : Spec Tok) (id : Id) (toks : List Tok) :
    SameBut id (specStep c (.add id toks)) c := by
  constructor
  · simp only [specStep, aerase_append]
    have : aerase [(id, toks)] id = [] := by simp [aerase]
    rw [this, List.append_nil]
    simp [aerase, List.filter_filter]
  · simp only [specStep]; exact bmRemove_idem _ _

theorem mem_tomb_iff_of_sameBut {id : Id} {c₁ c₂ : Spec Tok} (h : SameBut id c₁ c₂) {j : Id}
    (hj : j ≠ id) : j ∈ c₁.tomb ↔ j ∈ c₂.tomb := by
  have h1 := mem_bmRemove c₁.tomb id j
  have h2 := mem_bmRemove c₂.tomb id j
  rw [h.2] at h1
  constructor
  · intro hm; exact (h2.1 (h1.2 ⟨hm, hj⟩)).1
  · intro hm; exact (h1.1 (h2.2 ⟨hm, hj⟩)).1

theorem sameBut_step {id : Id} {c₁ c₂ : Spec Tok} (h : SameBut id c₁ c₂) (op : Op Tok)
    (hop : mentions id op = false) : SameBut id (specStep c₁ op) (specStep c₂ op) := by
  cases op with
  | add j toks =>
    have hj : j ≠ id := by simpa [mentions] using hop
    constructor
    · simp only [specStep, aerase_append]
      rw [aerase_comm c₁.corpus j id, aerase_comm c₂.corpus j id, h.1]
    · simp only [specStep]
      rw [bmRemove_comm c₁.tomb j id, bmRemove_comm c₂.tomb j id, h.2]
  | remove j =>
    have hj : j ≠ id := by simpa [mentions] using hop
    have hg : aget c₁.corpus j = aget c₂.corpus j := by
      rw [← aget_aerase_ne c₁.corpus hj, ← aget_aerase_ne c₂.corpus hj, h.1]
    have ht := mem_tomb_iff_of_sameBut h hj
    simp only [specStep, hg, ht]
    split
    · constructor
      · exact h.1
      · have h2 := h.2
        simp only [bmRemove, List.filter_append] at h2 ⊢
        rw [h2]
    · exact h
  | flush =>
    constructor
    · simp only [specStep, aerase, List.filter_filter]
      have e : ∀ (c : Spec Tok), (c.corpus.filter fun p => decide (p.1 ≠ id) && decide (p.1 ∉ c.tomb)) =
          (aerase c.corpus id).filter fun p => decide (p.1 ∉ bmRemove c.tomb id) := by
        intro c
        simp only [aerase, List.filter_filter]
        apply List.filter_congr
        intro p _
        by_cases hp : p.1 = id
        · simp [hp]
        · simp [hp, mem_bmRemove]
      rw [e c₁, e c₂, h.1, h.2]
    · simp [specStep, bmRemove]

theorem sameBut_foldl {id : Id} {c₁ c₂ : Spec Tok} (h : SameBut id c₁ c₂) (ops : List (Op Tok))
    (hops : ∀ op ∈ ops, mentions id op = false) :
    SameBut id (ops.foldl specStep c₁) (ops.foldl specStep c₂) := by
  induction ops generalizing c₁ c₂ with
  | nil => exact h
  | cons op t ih =>
    simp only [List.foldl_cons]
    exact ih (sameBut_step h op (hops op (by simp))) (fun o ho => hops o (List.mem_cons_of_mem _ ho))

theorem specStep_add_of_sameBut {id : Id} {c₁ c₂ : Spec Tok} (h : SameBut id c₁ c₂) (toks : List Tok) :
    specStep c₁ (.add id toks) = specStep c₂ (.add id toks) := by
  simp only [specStep, h.1, h.2]

/-- an add that is overwritten later (with nothing naming the id in between) does not
    change what the history denotes -/
theorem spec_overwritten_add (h₁ h₂ : List (Op Tok)) (id : Id) (t₁ t₂ : List Tok)
    (hops : ∀ op ∈ h₂, mentions id op = false) :
    spec (h₁ ++ [.add id t₁] ++ h₂ ++ [.add id t₂]) = spec (h₁ ++ h₂ ++ [.add id t₂]) := by
  simp only [spec_append, List.foldl_cons, List.foldl_nil]
  exact specStep_add_of_sameBut (sameBut_foldl (sameBut_add_self _ id t₁) h₂ hops) t₂

/-! ### removed ids are not live -/

def NotLive (c : Spec Tok) (id : Id) : Prop := ∀ toks, (id, toks) ∈ c.corpus → id ∈ c.tomb

theorem notLive_after_remove (c : Spec Tok) (id : Id) : NotLive (specStep c (.remove id)) id := by
  intro toks hm
  simp only [specStep] at hm ⊢
  split
  · simp
  · next hn =>
    split at hm
    · next hp => exact absurd hp hn
    · have hs : (aget c.corpus id).isSome = true :=
        (aget_isSome_iff _ _).2 (List.mem_map.2 ⟨(id, toks), hm, rfl⟩)
      apply Classical.byContradiction
      intro hc
      exact hn ⟨hs, hc⟩

theorem notLive_step {c : Spec Tok} {id : Id} (h : NotLive c id) (op : Op Tok)
    (hop : ∀ toks, op ≠ .add id toks) : NotLive (specStep c op) id := by
  cases op with
  | add j toks =>
    have hj : id ≠ j := by intro e; subst e; exact hop toks rfl
    intro tk hm
    simp only [specStep, List.mem_append, List.mem_singleton, Prod.mk.injEq] at hm ⊢
    rcases hm with hm | ⟨e, _⟩
    · rw [mem_bmRemove]
      exact ⟨h tk (List.mem_filter.1 hm).1, hj⟩
    · exact absurd e hj
  | remove j =>
    intro tk hm
    simp only [specStep] at hm ⊢
    split
    · next hp =>
      simp only [hp] at hm
      exact List.mem_append_left _ (h tk hm)
    · next hp =>
      simp only [hp, if_false] at hm
      exact h tk hm
  | flush =>
    intro tk hm
    simp only [specStep, List.mem_filter, decide_eq_true_eq] at hm
    exact absurd (h tk hm.1) hm.2

theorem notLive_foldl {c : Spec Tok} {id : Id} (h : NotLive c id) (ops : List (Op Tok))
    (hops : ∀ op ∈ ops, ∀ toks, op ≠ .add id toks) : NotLive (ops.foldl specStep c) id := by
  induction ops generalizing c with
  | nil => exact h
  | cons op t ih =>
    simp only [List.foldl_cons]
    exact ih (notLive_step h op (hops op (by simp))) (fun o ho => hops o (List.mem_cons_of_mem _ ho))

theorem not_mem_live_of_notLive {c : Spec Tok} {id : Id} (h : NotLive c id) (toks : List Tok) :
    (id, toks) ∉ c.live := by
  intro hm
  simp only [Spec.live, List.mem_filter, decide_eq_true_eq] at hm
  exact hm.2 (h toks hm.1)

/-! ### the invariant determines the state up to map order -/

/-- equality of two index states up to the (unspecified) order of Go's maps and
    the internal order of bitmaps -/
structure StateEquiv (s s' : State Tok) : Prop where
  docTokens : s.docTokens = s'.docTokens
  docLengths : s.docLengths = s'.docLengths
  postings : ∀ t, (postOf s t).Perm (postOf s' t)
  tf : ∀ t d, tfOf s t d = tfOf s' t d
  numDocs : s.numDocs = s'.numDocs
  totalTokens : s.totalTokens = s'.totalTokens
  avgDocLen : s.avgDocLen = s'.avgDocLen
  deleted : s.deleted = s'.deleted

theorem inv_unique {s s' : State Tok} {c : Spec Tok} (i : Inv s c) (i' : Inv s' c) :
    StateEquiv s s' := by
  have hd : s.docTokens = s'.docTokens := i.corpus.trans i'.corpus.symm
  have hto : ∀ d, toksOf s d = toksOf s' d := by intro d; simp [toksOf, hd]
  refine ⟨hd, ?_, ?_, ?_, ?_, ?_, ?_, ?_⟩
  · rw [i.lens, i'.lens, hd]
  · intro t
    rw [List.perm_ext_iff_of_nodup (i.postNodup t) (i'.postNodup t)]
    intro d
    rw [i.post, i'.post, hto]
  · intro t d; rw [i.tf, i'.tf, hto]
  · rw [i.numDocs, i'.numDocs, hd]
  · rw [i.total, i'.total, hd]
  · rw [i.avg, i'.avg, i.numDocs, i'.numDocs, i.total, i'.total, hd]
  · exact i.tomb.trans i'.tomb.symm

end Comet.BM25
