/-
  Helper lemmas for C03 (BM25 text index).

    §A  association lists (Go maps)
    §B  the per-token loops of Add / removeInternal, read through look-ups
    §C  the invariant `WF` and its preservation; refinement `Inv s (spec h)`
    §D  the score map of `searchSingleQuery` is the specification's candidate list
    §E  heap selection / full heap-sort are exact top-k for every iteration order
    §F  text aggregation
-/
import Comet.BM25
namespace Comet.BM25

/-! ## §A association lists -/
section AList
variable {α β γ : Type} [DecidableEq α]

theorem aget_aset_self (l : List (α × β)) (a : α) (b : β) : aget (aset l a b) a = some b := by
  induction l with
  | nil => simp [aset, aget]
  | cons p t ih =>
    obtain ⟨k, v⟩ := p
    by_cases h : k = a <;> simp [aset, aget, h, ih]

theorem aget_aset_ne (l : List (α × β)) {a a' : α} (b : β) (h : a' ≠ a) :
    aget (aset l a b) a' = aget l a' := by
  induction l with
  | nil => simp [aset, aget, Ne.symm h]
  | cons p t ih =>
    obtain ⟨k, v⟩ := p
    by_cases hk : k = a
    · subst hk; simp [aset, aget, Ne.symm h]
    · by_cases hk' : k = a'
      · subst hk'; simp [aset, aget, hk]
      · simp [aset, aget, hk, hk', ih]

theorem aget_aset (l : List (α × β)) (a a' : α) (b : β) :
    aget (aset l a b) a' = if a' = a then some b else aget l a' := by
  by_cases h : a' = a
  · subst h; simp [aget_aset_self]
  · simp [h, aget_aset_ne l b h]

theorem aget_filter_key (l : List (α × β)) (p : α → Bool) (a : α) :
    aget (l.filter fun x => p x.1) a = if p a then aget l a else none := by
  induction l with
  | nil => simp [aget]
  | cons x t ih =>
    obtain ⟨k, v⟩ := x
    by_cases hp : p k = true
    · by_cases hk : k = a
      · subst hk; simp [List.filter, hp, aget]
      · simp [List.filter, hp, aget, hk, ih]
    · by_cases hk : k = a
      · subst hk; simp [List.filter, hp, ih]
      · simp [List.filter, hp, aget, hk, ih]

theorem aget_aerase (l : List (α × β)) (a a' : α) :
    aget (aerase l a) a' = if a' = a then none else aget l a' := by
  unfold aerase
  rw [aget_filter_key l (fun k => decide (k ≠ a)) a']
  by_cases h : a' = a <;> simp [h]

theorem aget_aerase_self (l : List (α × β)) (a : α) : aget (aerase l a) a = none := by
  simp [aget_aerase]

theorem aget_aerase_ne (l : List (α × β)) {a a' : α} (h : a' ≠ a) :
    aget (aerase l a) a' = aget l a' := by
  simp [aget_aerase, h]

theorem aget_eq_none_iff (l : List (α × β)) (a : α) : aget l a = none ↔ a ∉ akeys l := by
  induction l with
  | nil => simp [aget, akeys]
  | cons p t ih =>
    obtain ⟨k, v⟩ := p
    by_cases hk : k = a
    · subst hk; simp [aget, akeys]
    · simp only [akeys] at ih
      simp [aget, akeys, hk, ih, Ne.symm hk]

theorem aget_isSome_iff (l : List (α × β)) (a : α) : (aget l a).isSome ↔ a ∈ akeys l := by
  have := aget_eq_none_iff l a
  cases h : aget l a with
  | none => simp [h] at this; simp [this]
  | some v =>
    simp only [Option.isSome_some, true_iff]
    apply Classical.byContradiction
    intro hn
    have := (aget_eq_none_iff l a).2 hn
    simp [h] at this

theorem mem_of_aget {l : List (α × β)} {a : α} {b : β} (h : aget l a = some b) : (a, b) ∈ l := by
  induction l with
  | nil => simp [aget] at h
  | cons p t ih =>
    obtain ⟨k, v⟩ := p
    by_cases hk : k = a
    · subst hk; simp [aget] at h; simp [h]
    · simp [aget, hk] at h; exact List.mem_cons_of_mem _ (ih h)

theorem aget_of_mem {l : List (α × β)} (hn : (akeys l).Nodup) {a : α} {b : β} (h : (a, b) ∈ l) :
    aget l a = some b := by
  induction l with
  | nil => cases h
  | cons p t ih =>
    obtain ⟨k, v⟩ := p
    simp only [akeys, List.map_cons, List.nodup_cons] at hn
    rcases List.mem_cons.1 h with he | ht
    · injection he with h1 h2; subst h1; subst h2; simp [aget]
    · have hne : k ≠ a := by
        intro he; subst he
        exact hn.1 (List.mem_map.2 ⟨(k, b), ht, rfl⟩)
      simp only [aget, hne, if_false]
      exact ih hn.2 ht

theorem aget_iff_mem {l : List (α × β)} (hn : (akeys l).Nodup) (a : α) (b : β) :
    aget l a = some b ↔ (a, b) ∈ l := ⟨mem_of_aget, aget_of_mem hn⟩

theorem aset_of_not_mem (l : List (α × β)) {a : α} (b : β) (h : a ∉ akeys l) :
    aset l a b = l ++ [(a, b)] := by
  induction l with
  | nil => rfl
  | cons p t ih =>
    obtain ⟨k, v⟩ := p
    simp only [akeys, List.map_cons, List.mem_cons, not_or] at h
    have hk : k ≠ a := fun e => h.1 e.symm
    simp only [aset, hk, if_false, List.cons_append]
    rw [ih (by simpa [akeys] using h.2)]

theorem akeys_aset (l : List (α × β)) (a : α) (b : β) :
    akeys (aset l a b) = if a ∈ akeys l then akeys l else akeys l ++ [a] := by
  induction l with
  | nil => simp [aset, akeys]
  | cons p t ih =>
    obtain ⟨k, v⟩ := p
    by_cases hk : k = a
    · subst hk; simp [aset, akeys]
    · simp only [akeys] at ih
      simp only [aset, hk, if_false, akeys, List.map_cons, List.mem_cons, ih]
      by_cases hm : a ∈ t.map (·.1)
      · simp [hm]
      · simp [hm, Ne.symm hk]

theorem nodup_akeys_aset (l : List (α × β)) (a : α) (b : β) (h : (akeys l).Nodup) :
    (akeys (aset l a b)).Nodup := by
  rw [akeys_aset]
  split
  · exact h
  · next hm =>
    rw [List.nodup_append]
    refine ⟨h, by simp, ?_⟩
    intro x hx y hy
    simp only [List.mem_singleton] at hy
    subst hy
    intro e; subst e; exact hm hx

theorem akeys_aerase (l : List (α × β)) (a : α) :
    akeys (aerase l a) = (akeys l).filter fun k => decide (k ≠ a) := by
  simp [akeys, aerase, List.filter_map, Function.comp_def]

theorem nodup_akeys_aerase (l : List (α × β)) (a : α) (h : (akeys l).Nodup) :
    (akeys (aerase l a)).Nodup := by
  rw [akeys_aerase]; exact h.sublist List.filter_sublist

theorem not_mem_akeys_aerase (l : List (α × β)) (a : α) : a ∉ akeys (aerase l a) := by
  rw [akeys_aerase]; simp

theorem aerase_of_not_mem (l : List (α × β)) {a : α} (h : a ∉ akeys l) : aerase l a = l := by
  unfold aerase
  apply List.filter_eq_self.2
  intro p hp
  simp only [decide_eq_true_eq]
  intro e
  exact h (List.mem_map.2 ⟨p, hp, e⟩)

theorem length_aerase (l : List (α × β)) {a : α} (hn : (akeys l).Nodup) (h : a ∈ akeys l) :
    (aerase l a).length + 1 = l.length := by
  induction l with
  | nil => simp [akeys] at h
  | cons p t ih =>
    obtain ⟨k, v⟩ := p
    simp only [akeys, List.map_cons, List.nodup_cons] at hn
    by_cases hk : k = a
    · subst hk
      have : aerase t k = t := aerase_of_not_mem t hn.1
      have e : aerase ((k, v) :: t) k = aerase t k := by simp [aerase, List.filter]
      rw [e, this]; rfl
    · have ht : a ∈ akeys t := by
        simp only [akeys, List.map_cons, List.mem_cons] at h
        rcases h with e | h
        · exact absurd e.symm hk
        · exact h
      have := ih hn.2 ht
      simp only [aerase, List.filter, hk, ne_eq, not_false_eq_true, decide_true, List.length_cons] at this ⊢
      omega

omit [DecidableEq α] in
theorem nodup_of_nodup_akeys {l : List (α × β)} (h : (akeys l).Nodup) : l.Nodup := by
  simp only [akeys, List.Nodup, List.pairwise_map] at h
  exact h.imp fun hne e => hne (by rw [e])

/-- two maps with the same look-ups hold the same entries -/
theorem perm_of_aget_eq {l₁ l₂ : List (α × β)} (h₁ : (akeys l₁).Nodup) (h₂ : (akeys l₂).Nodup)
    (h : ∀ a, aget l₁ a = aget l₂ a) : l₁.Perm l₂ := by
  rw [List.perm_ext_iff_of_nodup (nodup_of_nodup_akeys h₁) (nodup_of_nodup_akeys h₂)]
  intro ⟨a, b⟩
  rw [← aget_iff_mem h₁, ← aget_iff_mem h₂, h]

theorem aget_map_val (l : List (α × β)) (f : α → β → γ) (a : α) :
    aget (l.map fun p => (p.1, f p.1 p.2)) a = (aget l a).map (f a) := by
  induction l with
  | nil => simp [aget]
  | cons p t ih =>
    obtain ⟨k, v⟩ := p
    by_cases hk : k = a
    · subst hk; simp [aget]
    · simp [aget, hk, ih]

omit [DecidableEq α] in
theorem akeys_map_val (l : List (α × β)) (f : α → β → γ) :
    akeys (l.map fun p => (p.1, f p.1 p.2)) = akeys l := by
  simp [akeys, Function.comp_def]

theorem aget_append (l₁ l₂ : List (α × β)) (a : α) :
    aget (l₁ ++ l₂) a = (aget l₁ a).orElse fun _ => aget l₂ a := by
  induction l₁ with
  | nil => simp [aget]
  | cons p t ih =>
    obtain ⟨k, v⟩ := p
    by_cases hk : k = a <;> simp [aget, hk, ih]

theorem aerase_map_val (l : List (α × β)) (f : α → β → γ) (a : α) :
    aerase (l.map fun p => (p.1, f p.1 p.2)) a = (aerase l a).map fun p => (p.1, f p.1 p.2) := by
  simp [aerase, List.filter_map, Function.comp_def]

end AList

end Comet.BM25
