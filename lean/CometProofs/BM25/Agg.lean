/-
  C03 helpers §F — text aggregation (`textSum/Max/MeanAggregation.Aggregate`,
  modelled by `Comet.textAggregate`): one hit per distinct id, scored by the selected
  rule over that id's per-query scores in query order, sorted descending.
-/
import Comet.Agg
namespace Comet.BM25
set_option linter.unusedSectionVars false

variable {S : Type}

theorem mem_firstIds (l : List Id) (a : Id) : a ∈ firstIds l ↔ a ∈ l := by
  induction l with
  | nil => simp [firstIds]
  | cons b t ih =>
    simp only [firstIds, List.mem_cons, List.mem_filter, ih, bne_iff_ne, ne_eq]
    by_cases h : a = b <;> simp [h]

theorem nodup_firstIds (l : List Id) : (firstIds l).Nodup := by
  induction l with
  | nil => simp [firstIds]
  | cons b t ih =>
    simp only [firstIds, List.nodup_cons, List.mem_filter, bne_self_eq_false, Bool.false_eq_true,
      and_false, not_false_eq_true, true_and]
    exact ih.sublist List.filter_sublist

/-- the maximum rule returns one of the scores, and none is larger -/
theorem maxScores_spec (sc : Scalar S) (ord : sc.Ordered) (s : S) (ss : List S) :
    maxScores sc (s :: ss) ∈ s :: ss ∧ ∀ x ∈ s :: ss, sc.le x (maxScores sc (s :: ss)) = true := by
  have refl : ∀ a : S, sc.le a a = true := by
    intro a; have := ord.total a a; simpa using this
  have key : ∀ (ss : List S) (s : S),
      let r := ss.foldl (fun m x => if sc.lt m x then x else m) s
      r ∈ s :: ss ∧ sc.le s r = true ∧ ∀ x ∈ ss, sc.le x r = true := by
    intro ss
    induction ss with
    | nil => intro s; exact ⟨by simp, refl s, by intro x hx; cases hx⟩
    | cons x t ih =>
      intro s
      simp only [List.foldl_cons]
      by_cases hlt : sc.lt s x = true
      · simp only [hlt, if_true]
        obtain ⟨h1, h2, h3⟩ := ih x
        have hsx : sc.le s x = true := by
          rw [ord.lt_iff] at hlt
          have := ord.total s x
          simp only [Bool.or_eq_true] at this
          rcases this with h | h
          · exact h
          · simp [h] at hlt
        refine ⟨List.mem_cons_of_mem _ h1, ord.trans _ _ _ hsx h2, ?_⟩
        intro y hy
        rcases List.mem_cons.1 hy with rfl | hy
        · exact h2
        · exact h3 y hy
      · simp only [hlt, Bool.false_eq_true, if_false]
        obtain ⟨h1, h2, h3⟩ := ih s
        have hxs : sc.le x s = true := by
          rw [ord.lt_iff] at hlt
          simpa using hlt
        refine ⟨?_, h2, ?_⟩
        · rcases List.mem_cons.1 h1 with h | h
          · rw [h]; simp
          · exact List.mem_cons_of_mem _ (List.mem_cons_of_mem _ h)
        · intro y hy
          rcases List.mem_cons.1 hy with rfl | hy
          · exact ord.trans _ _ _ hxs h2
          · exact h3 y hy
  obtain ⟨h1, h2, h3⟩ := key ss s
  refine ⟨h1, ?_⟩
  intro x hx
  rcases List.mem_cons.1 hx with rfl | hx
  · exact h2
  · exact h3 x hx

/-- the unsorted aggregate: one hit per distinct id, in first-occurrence order -/
def aggList (sc : Scalar S) (kind : AggKind) (xs : List (Hit S)) : List (Hit S) :=
  (firstIds (xs.map (·.id))).map fun i => ⟨i, reduceVec sc kind (scoresOf i xs)⟩

theorem textAggregate_perm (sc : Scalar S) (kind : AggKind) (xs : List (Hit S)) :
    (textAggregate sc kind xs).Perm (aggList sc kind xs) := by
  unfold textAggregate aggList groupScores
  rw [List.map_map]
  exact List.mergeSort_perm _ _

theorem textAggregate_sorted (sc : Scalar S) (ord : sc.Ordered) (kind : AggKind) (xs : List (Hit S)) :
    (textAggregate sc kind xs).Pairwise fun a b => sc.le b.score a.score = true := by
  unfold textAggregate
  exact List.pairwise_mergeSort (le := hitLe fun a b => sc.le b a)
    (fun a b c h1 h2 => ord.trans _ _ _ h2 h1)
    (fun a b => by have := ord.total b.score a.score; simpa [hitLe, Bool.or_comm] using this) _

theorem textAggregate_ids_nodup (sc : Scalar S) (kind : AggKind) (xs : List (Hit S)) :
    ((textAggregate sc kind xs).map (·.id)).Nodup := by
  have hp := (textAggregate_perm sc kind xs).map (·.id)
  rw [hp.nodup_iff]
  unfold aggList
  rw [List.map_map]
  have : ((fun h : Hit S => h.id) ∘ fun i => (⟨i, reduceVec sc kind (scoresOf i xs)⟩ : Hit S)) = id := rfl
  rw [this, List.map_id]
  exact nodup_firstIds _

theorem mem_textAggregate (sc : Scalar S) (kind : AggKind) (xs : List (Hit S)) (r : Hit S) :
    r ∈ textAggregate sc kind xs ↔
      r.id ∈ xs.map (·.id) ∧ r.score = reduceVec sc kind (scoresOf r.id xs) := by
  rw [(textAggregate_perm sc kind xs).mem_iff]
  unfold aggList
  simp only [List.mem_map, mem_firstIds]
  constructor
  · rintro ⟨i, ⟨h, hh, rfl⟩, rfl⟩
    exact ⟨⟨h, hh, rfl⟩, rfl⟩
  · rintro ⟨⟨h, hh, he⟩, hs⟩
    refine ⟨r.id, ⟨h, hh, he⟩, ?_⟩
    cases r; simp_all

end Comet.BM25
