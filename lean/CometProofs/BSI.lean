/-
  Helper lemmas about Comet.BSI, part 2: bits versus numbers, `compareOne_same_sign`,
  the representation invariant `Rep` (see CometProofs/BSILoop.lean for the overview).
-/
import CometProofs.BSILoop
namespace Comet
namespace BSI

/-! ### bits versus numbers -/

def ord3 (a b : Nat) : Ordering := if a < b then .lt else if a = b then .eq else .gt

theorem cmpBits_eq_ord3 (a b : Nat) :
    ∀ j, cmpBits a.testBit b.testBit j = ord3 (a % 2 ^ j) (b % 2 ^ j) := by
  intro j
  induction j with
  | zero => simp [cmpBits, ord3, Nat.mod_one]
  | succ j ih =>
    simp only [cmpBits, ih]
    rw [Nat.mod_pow_succ (x := a), Nat.mod_pow_succ (x := b)]
    simp only [Nat.testBit_eq_decide_div_mod_eq]
    have hA : a % 2 ^ j < 2 ^ j := Nat.mod_lt _ (Nat.two_pow_pos j)
    have hB : b % 2 ^ j < 2 ^ j := Nat.mod_lt _ (Nat.two_pow_pos j)
    generalize a % 2 ^ j = A at *
    generalize b % 2 ^ j = B at *
    have hta : a / 2 ^ j % 2 = 0 ∨ a / 2 ^ j % 2 = 1 := by omega
    have htb : b / 2 ^ j % 2 = 0 ∨ b / 2 ^ j % 2 = 1 := by omega
    generalize 2 ^ j = P at *
    rcases hta with hta | hta <;> rcases htb with htb | htb <;> simp only [hta, htb]
    · simp [ext]
    · have h1 : ord3 (A + P * 0) (B + P * 1) = .lt := by
        unfold ord3; rw [if_pos (by omega)]
      rw [h1]; simp [ext]
    · have h1 : ord3 (A + P * 1) (B + P * 0) = .gt := by
        unfold ord3; rw [if_neg (by omega), if_neg (by omega)]
      rw [h1]; simp [ext]
    · have h1 : ord3 (A + P * 1) (B + P * 1) = ord3 A B := by
        unfold ord3
        have e1 : (A + P * 1 < B + P * 1) ↔ A < B := by omega
        have e2 : (A + P * 1 = B + P * 1) ↔ A = B := by omega
        simp only [e1, e2]
      rw [h1]; simp [ext]

/-- for two int64 of equal sign the signed order is the order of the low 63 bits -/
theorem toInt_lt_iff_low {x s : I64} (h : x.msb = s.msb) :
    x.toInt < s.toInt ↔ x.toNat % 2 ^ 63 < s.toNat % 2 ^ 63 := by
  have hx := x.isLt
  have hs := s.isLt
  rw [BitVec.toInt_eq_msb_cond, BitVec.toInt_eq_msb_cond, ← h]
  rw [BitVec.msb_eq_decide, BitVec.msb_eq_decide] at h
  simp only [Nat.reduceSub, decide_eq_decide] at h
  by_cases hm : x.msb = true
  · have hm' := hm
    rw [BitVec.msb_eq_decide] at hm'
    simp only [Nat.reduceSub, decide_eq_true_eq] at hm'
    have := h.mp hm'
    simp only [hm, if_true]
    omega
  · have hm' := hm
    rw [BitVec.msb_eq_decide] at hm'
    simp only [Nat.reduceSub, decide_eq_true_eq] at hm'
    have : ¬ 2 ^ 63 ≤ s.toNat := fun hh => hm' (h.mpr hh)
    simp only [hm, if_false, Bool.false_eq_true]
    omega

theorem eq_iff_low {x s : I64} (h : x.msb = s.msb) :
    x = s ↔ x.toNat % 2 ^ 63 = s.toNat % 2 ^ 63 := by
  have hx := x.isLt
  have hs := s.isLt
  rw [BitVec.msb_eq_decide, BitVec.msb_eq_decide] at h
  simp only [Nat.reduceSub, decide_eq_decide] at h
  constructor
  · rintro rfl; rfl
  · intro hl
    apply BitVec.eq_of_toNat_eq
    by_cases hm : 2 ^ 63 ≤ x.toNat
    · have := h.mp hm; omega
    · have : ¬ 2 ^ 63 ≤ s.toNat := fun hh => hm (h.mpr hh)
      omega

theorem getLsbD_fun (x : I64) : x.getLsbD = x.toNat.testBit := by
  funext i; exact (BitVec.testBit_toNat x).symm

/-- three-way signed comparison -/
def ordI (x s : I64) : Ordering := if x.toInt < s.toInt then .lt else if x = s then .eq else .gt

/-- the comparison of the low 63 slices, as an `Ordering` on the signed values -/
theorem cmpBits63 {x s : I64} (h : x.msb = s.msb) : cmpBits x.getLsbD s.getLsbD 63 = ordI x s := by
  rw [getLsbD_fun, getLsbD_fun, cmpBits_eq_ord3, ord3, ordI]
  simp only [toInt_lt_iff_low h, eq_iff_low h]

theorem msb_eq_getLsbD63 (x : I64) : x.getLsbD 63 = x.msb := by
  simp [BitVec.msb_eq_getLsbD_last]

theorem ordI_cases (x s : I64) :
    (x.toInt < s.toInt ∧ ordI x s = .lt) ∨ (x.toInt = s.toInt ∧ x = s ∧ ordI x s = .eq) ∨
      (x.toInt > s.toInt ∧ ordI x s = .gt) := by
  unfold ordI
  by_cases h1 : x.toInt < s.toInt
  · exact Or.inl ⟨h1, by simp [h1]⟩
  · by_cases h2 : x = s
    · exact Or.inr (Or.inl ⟨by rw [h2], h2, by simp [h2]⟩)
    · have : x.toInt ≠ s.toInt := fun h => h2 (BitVec.toInt_inj.mp h)
      exact Or.inr (Or.inr ⟨by omega, by simp [h1, h2]⟩)

theorem ordI_lt (x s : I64) : (ordI x s == .lt) = decide (x.toInt < s.toInt) := by
  rcases ordI_cases x s with ⟨h, e⟩ | ⟨h, _, e⟩ | ⟨h, e⟩
  · rw [e, decide_eq_true h]; rfl
  · rw [e, decide_eq_false (by omega)]; rfl
  · rw [e, decide_eq_false (by omega)]; rfl
theorem ordI_le (x s : I64) : (ordI x s != .gt) = decide (x.toInt ≤ s.toInt) := by
  rcases ordI_cases x s with ⟨h, e⟩ | ⟨h, _, e⟩ | ⟨h, e⟩
  · rw [e, decide_eq_true (by omega)]; rfl
  · rw [e, decide_eq_true (by omega)]; rfl
  · rw [e, decide_eq_false (by omega)]; rfl
theorem ordI_eq (x s : I64) : (ordI x s == .eq) = decide (x = s) := by
  rcases ordI_cases x s with ⟨h, e⟩ | ⟨h, h', e⟩ | ⟨h, e⟩
  · rw [e, decide_eq_false (fun hh => by rw [hh] at h; omega)]; rfl
  · rw [e, decide_eq_true h']; rfl
  · rw [e, decide_eq_false (fun hh => by rw [hh] at h; omega)]; rfl
theorem ordI_ge (x s : I64) : (ordI x s != .lt) = decide (x.toInt ≥ s.toInt) := by
  rcases ordI_cases x s with ⟨h, e⟩ | ⟨h, _, e⟩ | ⟨h, e⟩
  · rw [e, decide_eq_false (by omega)]; rfl
  · rw [e, decide_eq_true (by omega)]; rfl
  · rw [e, decide_eq_true (by omega)]; rfl
theorem ordI_gt (x s : I64) : (ordI x s == .gt) = decide (x.toInt > s.toInt) := by
  rcases ordI_cases x s with ⟨h, e⟩ | ⟨h, _, e⟩ | ⟨h, e⟩
  · rw [e, decide_eq_false (by omega)]; rfl
  · rw [e, decide_eq_false (by omega)]; rfl
  · rw [e, decide_eq_true (by omega)]; rfl

/-- **`compareValue` is right when the signs agree** (per column): the transcribed loop
    equals ordinary signed comparison when the stored value `x` and the operand(s) have
    the same sign bit. -/
theorem compareOne_same_sign (op : Op) (x s e : I64) (hs : x.msb = s.msb)
    (he : op = .range → x.msb = e.msb) :
    compareOne 64 x.getLsbD op s e = signedCmp op x s e := by
  simp only [compareOne, beq_self_eq_true, Bool.true_and, if_true, Nat.reduceSub]
  rw [msb_eq_getLsbD63 x, msb_eq_getLsbD63 s, msb_eq_getLsbD63 e, ← hs]
  simp only [bne_self_eq_false, Bool.false_eq_true, if_false]
  by_cases hop : op = .range
  · subst hop
    rw [← he rfl]
    simp only [bne_self_eq_false, Bool.false_eq_true, if_false]
    rw [loop_sem .range x.msb x.msb s e x.getLsbD (fun _ => rfl) 63 {} (by decide)]
    rw [cmpBits63 hs, cmpBits63 (he rfl)]
    simp only [sem, signedCmp, if_true, ordI_ge, ordI_le, ge_iff_le]
  · generalize (if (x.msb != e.msb) = true then ~~~e + 1 else e) = ce
    rw [loop_sem op x.msb e.msb s ce x.getLsbD (fun h => absurd h hop) 63 {} (by decide)]
    rw [cmpBits63 hs]
    cases op
    · simp only [sem, signedCmp, if_true, ordI_lt]
    · simp only [sem, signedCmp, if_true, ordI_le]
    · simp only [sem, signedCmp, Bool.true_and, ordI_eq]
    · simp only [sem, signedCmp, if_true, ordI_ge]
    · simp only [sem, signedCmp, if_true, ordI_gt]
    · exact absurd rfl hop

/-! ### a BSI represents a finite map -/

/-- `b` stores exactly the map `m` (64 slices, existence bitmap = domain, slice `j` =
    the ids whose value has bit `j`) -/
structure Rep (b : T) (m : Nat → Option I64) : Prop where
  len : b.bA.length = 64
  ebm : ∀ d, d ∈ b.eBM ↔ (m d).isSome = true
  bits : ∀ j, j < 64 → ∀ d, b.bit j d = true ↔ ∃ v, m d = some v ∧ v.getLsbD j = true

theorem new_bA : BSI.new.bA = List.replicate 64 [] := by decide

theorem bit_of_getElem {b : T} {j : Nat} {s : RB} (h : b.bA[j]? = some s) (d : Nat) :
    b.bit j d = s.contains d := by
  simp [T.bit, h]

theorem rep_new : Rep BSI.new (fun _ => none) := by
  refine ⟨by rw [new_bA]; simp, by simp [BSI.new, newBSI], ?_⟩
  intro j hj d
  have : BSI.new.bA[j]? = some [] := by
    rw [new_bA, List.getElem?_replicate]; simp [hj]
  simp [bit_of_getElem this]

/-- slice membership through `Rep` -/
theorem rep_slice {b : T} {m : Nat → Option I64} (h : Rep b m) {j : Nat} (hj : j < 64) :
    ∃ s, b.bA[j]? = some s ∧ ∀ d, d ∈ s ↔ ∃ v, m d = some v ∧ v.getLsbD j = true := by
  have hlt : j < b.bA.length := by rw [h.len]; exact hj
  refine ⟨b.bA[j], List.getElem?_eq_getElem hlt, ?_⟩
  intro d
  rw [← h.bits j hj d, bit_of_getElem (List.getElem?_eq_getElem hlt), RB.contains_eq_true]

theorem rep_setValue {b : T} {m : Nat → Option I64} (h : Rep b m) (c : Nat) (v : I64) :
    Rep (setValue b c v) (fun d => if d = c then some v else m d) := by
  refine ⟨by simp [setValue, h.len], ?_, ?_⟩
  · intro d
    simp only [setValue, RB.mem_add, h.ebm]
    by_cases hd : d = c <;> simp [hd]
  · intro j hj d
    obtain ⟨s, hs, hbit⟩ := rep_slice h hj
    have hnew : (setValue b c v).bA[j]? =
        some (if v.getLsbD j then RB.add s c else if b.eBM.contains c then RB.remove s c else s) := by
      simp [setValue, List.getElem?_mapIdx, hs]
    rw [bit_of_getElem hnew, RB.contains_eq_true]
    have hmem : d ∈ (if v.getLsbD j then RB.add s c else if b.eBM.contains c then RB.remove s c else s) ↔
        (if d = c then v.getLsbD j = true else d ∈ s) := by
      by_cases hv : v.getLsbD j = true
      · simp only [hv, if_true, RB.mem_add]
        by_cases hd : d = c <;> simp [hd]
      · have hv' : v.getLsbD j = false := by simpa using hv
        simp only [hv', Bool.false_eq_true, if_false]
        by_cases hex : b.eBM.contains c = true
        · simp only [hex, if_true, RB.mem_remove]
          by_cases hd : d = c <;> simp [hd]
        · have hex' : b.eBM.contains c = false := by simpa using hex
          simp only [hex', Bool.false_eq_true, if_false]
          by_cases hd : d = c
          · subst hd
            have hnm : ¬ d ∈ b.eBM := fun hm => hex (RB.contains_eq_true.mpr hm)
            have hnone : ¬ (m d).isSome = true := (not_congr (h.ebm d)).mp hnm
            have : d ∉ s := by
              intro hds
              obtain ⟨w, hw, _⟩ := (hbit d).mp hds
              rw [hw] at hnone; simp at hnone
            simp [this]
          · simp [hd]
    rw [hmem]
    by_cases hd : d = c
    · simp [hd]
    · simp [hd, hbit]

theorem clearBits_single (c : Nat) (t : RB) : clearBits [c] t = RB.remove t c := rfl

theorem rep_clearValues {b : T} {m : Nat → Option I64} (h : Rep b m) (c : Nat) :
    Rep (clearValues b [c]) (fun d => if d = c then none else m d) := by
  refine ⟨by simp [clearValues, h.len], ?_, ?_⟩
  · intro d
    simp only [clearValues, clearBits_single, RB.mem_remove, h.ebm]
    by_cases hd : d = c <;> simp [hd]
  · intro j hj d
    obtain ⟨s, hs, hbit⟩ := rep_slice h hj
    have hnew : (clearValues b [c]).bA[j]? = some (RB.remove s c) := by
      simp [clearValues, hs, clearBits_single]
    rw [bit_of_getElem hnew, RB.contains_eq_true, RB.mem_remove, hbit d]
    by_cases hd : d = c <;> simp [hd]

/-- `CompareValue` through `Rep`: the columns whose stored value passes `compareOne` -/
theorem mem_compareValue {b : T} {m : Nat → Option I64} (h : Rep b m) (op : Op) (s e : I64) (d : Nat) :
    d ∈ compareValue b op s e ↔ ∃ v, m d = some v ∧ compareOne 64 v.getLsbD op s e = true := by
  simp only [compareValue, List.mem_filter, h.ebm, T.bitCount, h.len]
  constructor
  · rintro ⟨hd, hc⟩
    obtain ⟨v, hv⟩ := Option.isSome_iff_exists.mp hd
    refine ⟨v, hv, ?_⟩
    rw [← hc]
    apply compareOne_congr
    intro i hi
    apply Bool.eq_iff_iff.mpr
    rw [h.bits i hi d]
    constructor
    · intro hb; exact ⟨v, hv, hb⟩
    · rintro ⟨w, hw, hb⟩; rw [hv] at hw; cases hw; exact hb
  · rintro ⟨v, hv, hc⟩
    refine ⟨by simp [hv], ?_⟩
    rw [← hc]
    apply compareOne_congr
    intro i hi
    apply Bool.eq_iff_iff.mpr
    rw [h.bits i hi d]
    constructor
    · rintro ⟨w, hw, hb⟩; rw [hv] at hw; cases hw; exact hb
    · intro hb; exact ⟨v, hv, hb⟩

end BSI
end Comet
