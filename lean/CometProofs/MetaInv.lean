/-
  Helper lemmas for C04, part 1: association lists, the categorical key, and the
  representation invariant `Inv` of the metadata index with its preservation by
  `Add` / `Remove` (part 2: CometProofs/MetaEval.lean — filters and queries).

  `Inv s live get num` relates a model state to an abstract view of the documents:
  `live d` (the id is live), `get d f` (the value document `d` carries under `f`),
  `num f` (a number has ever been stored under `f`).
-/
import CometProofs.BSI
import Comet.MetaSpec
namespace Comet.Meta
open Comet

/-! ### association lists -/

theorem lookup_cons' {α β : Type} [DecidableEq α] (a k : α) (b : β) (es : List (α × β)) :
    List.lookup a ((k, b) :: es) = if a = k then some b else List.lookup a es := by
  rw [List.lookup_cons]
  by_cases h : a = k
  · subst h; simp
  · have : (a == k) = false := by simpa using h
    simp [this, h]

theorem lookup_upsert {β : Type} (k k' : String) (f : Option β → β) (l : List (String × β)) :
    (upsert k f l).lookup k' = if k' = k then some (f (l.lookup k)) else l.lookup k' := by
  induction l with
  | nil =>
    simp only [upsert, lookup_cons', List.lookup_nil]
  | cons p r ih =>
    obtain ⟨k0, v0⟩ := p
    simp only [upsert]
    by_cases h0 : k0 = k
    · subst h0
      simp only [beq_self_eq_true, if_true, lookup_cons']
      by_cases hk : k' = k0 <;> simp [hk]
    · have : (k0 == k) = false := by simpa using h0
      simp only [this, Bool.false_eq_true, if_false, lookup_cons', ih]
      by_cases hk : k' = k0
      · subst hk
        have hne : ¬ k = k' := fun h => h0 h.symm
        simp [h0, hne]
      · simp only [hk, if_false]
        by_cases hk2 : k' = k
        · subst hk2
          have : ¬ k' = k0 := hk
          simp [this]
        · simp [hk2]

theorem keys_upsert_mem {β : Type} (k x : String) (f : Option β → β) (l : List (String × β)) :
    x ∈ (upsert k f l).map (·.1) ↔ x = k ∨ x ∈ l.map (·.1) := by
  induction l with
  | nil => simp [upsert]
  | cons p r ih =>
    obtain ⟨k0, v0⟩ := p
    simp only [upsert]
    by_cases h0 : (k0 == k) = true
    · have : k0 = k := by simpa using h0
      subst this
      simp
    · simp only [h0, Bool.false_eq_true, if_false, List.map_cons, List.mem_cons, ih]
      constructor
      · rintro (h | h | h)
        · exact Or.inr (Or.inl h)
        · exact Or.inl h
        · exact Or.inr (Or.inr h)
      · rintro (h | h | h)
        · exact Or.inr (Or.inl h)
        · exact Or.inl h
        · exact Or.inr (Or.inr h)

theorem nodup_keys_upsert {β : Type} (k : String) (f : Option β → β) (l : List (String × β))
    (h : (l.map (·.1)).Nodup) : ((upsert k f l).map (·.1)).Nodup := by
  induction l with
  | nil => simp [upsert]
  | cons p r ih =>
    obtain ⟨k0, v0⟩ := p
    simp only [List.map_cons, List.nodup_cons] at h
    simp only [upsert]
    by_cases h0 : (k0 == k) = true
    · simp only [h0, if_true, List.map_cons, List.nodup_cons]
      exact h
    · simp only [h0, Bool.false_eq_true, if_false, List.map_cons, List.nodup_cons]
      refine ⟨?_, ih h.2⟩
      rw [keys_upsert_mem]
      rintro (hk | hk)
      · exact h0 (by simp [hk])
      · exact h.1 hk

theorem lookup_map_val {β γ : Type} (g : β → γ) (k : String) (l : List (String × β)) :
    (l.map fun p => (p.1, g p.2)).lookup k = (l.lookup k).map g := by
  induction l with
  | nil => simp
  | cons p r ih =>
    obtain ⟨k0, v0⟩ := p
    simp only [List.map_cons, lookup_cons', ih]
    by_cases h : k = k0 <;> simp [h]

theorem keys_map_val {β γ : Type} (g : β → γ) (l : List (String × β)) :
    (l.map fun p => (p.1, g p.2)).map (·.1) = l.map (·.1) := by
  induction l with
  | nil => rfl
  | cons p r ih => simp [ih]

theorem mem_of_lookup {α β : Type} [DecidableEq α] {k : α} {v : β} {l : List (α × β)}
    (h : l.lookup k = some v) : (k, v) ∈ l := by
  induction l with
  | nil => simp at h
  | cons p r ih =>
    obtain ⟨k0, v0⟩ := p
    rw [lookup_cons'] at h
    by_cases hk : k = k0
    · subst hk
      simp only [if_true, Option.some.injEq] at h
      subst h
      exact List.mem_cons_self ..
    · simp only [hk, if_false] at h
      exact List.mem_cons_of_mem _ (ih h)

theorem lookup_of_mem {α β : Type} [DecidableEq α] {k : α} {v : β} {l : List (α × β)}
    (hnd : (l.map (·.1)).Nodup) (h : (k, v) ∈ l) : l.lookup k = some v := by
  induction l with
  | nil => simp at h
  | cons p r ih =>
    obtain ⟨k0, v0⟩ := p
    simp only [List.map_cons, List.nodup_cons] at hnd
    rw [lookup_cons']
    rcases List.mem_cons.mp h with h1 | h2
    · cases h1; simp
    · have : k ≠ k0 := by
        rintro rfl
        exact hnd.1 (List.mem_map.mpr ⟨(k, v), h2, rfl⟩)
      simp [this, ih hnd.2 h2]

theorem lookup_filter_ne {β : Type} (id d : Nat) (l : List (Nat × β)) :
    (l.filter (·.1 != id)).lookup d = if d = id then none else l.lookup d := by
  induction l with
  | nil => simp
  | cons p r ih =>
    obtain ⟨k0, v0⟩ := p
    simp only [List.filter_cons]
    by_cases hk : k0 = id
    · subst hk
      simp only [bne_self_eq_false, Bool.false_eq_true, if_false, ih, lookup_cons']
      by_cases hd : d = k0 <;> simp [hd]
    · have : (k0 != id) = true := by simpa using hk
      simp only [this, if_true, lookup_cons', ih]
      by_cases hd : d = k0
      · subst hd; simp [hk]
      · simp [hd]

/-! ### the categorical key `field:value` -/

theorem keyOf_toList (f v : String) : (keyOf f v).toList = f.toList ++ ':' :: v.toList := by
  simp [keyOf, String.toList_append]

theorem split_colon_inj : ∀ {a a' b b' : List Char}, ':' ∉ a → ':' ∉ a' →
    a ++ ':' :: b = a' ++ ':' :: b' → a = a' ∧ b = b'
  | [], [], _, _, _, _, h => by simpa using h
  | [], c :: a', _, _, _, h', h => by
    simp only [List.nil_append, List.cons_append, List.cons.injEq] at h
    exact absurd (h.1 ▸ List.mem_cons_self ..) h'
  | c :: a, [], _, _, h0, _, h => by
    simp only [List.nil_append, List.cons_append, List.cons.injEq] at h
    exact absurd (h.1 ▸ List.mem_cons_self ..) h0
  | c :: a, c' :: a', b, b', h0, h', h => by
    simp only [List.cons_append, List.cons.injEq] at h
    have := split_colon_inj (a := a) (a' := a') (b := b) (b' := b')
      (fun hm => h0 (List.mem_cons_of_mem _ hm)) (fun hm => h' (List.mem_cons_of_mem _ hm)) h.2
    exact ⟨by rw [h.1, this.1], this.2⟩

theorem noColon_iff {s : String} : noColon s = true ↔ ':' ∉ s.toList := by
  simp [noColon]

/-- distinct (colon-free field, value) pairs have distinct keys -/
theorem keyOf_inj {f f' v v' : String} (hf : noColon f = true) (hf' : noColon f' = true)
    (h : keyOf f v = keyOf f' v') : f = f' ∧ v = v' := by
  have h' := congrArg String.toList h
  rw [keyOf_toList, keyOf_toList] at h'
  have := split_colon_inj (noColon_iff.mp hf) (noColon_iff.mp hf') h'
  exact ⟨String.toList_inj.mp this.1, String.toList_inj.mp this.2⟩

/-- the prefix test of `getExistenceBitmap` selects exactly the keys of the field -/
theorem hasPrefix_keyOf {f f' v : String} (hf : noColon f = true) (hf' : noColon f' = true) :
    hasPrefix (keyOf f' v) (f ++ ":") = true ↔ f' = f := by
  have hpre : (f ++ ":").toList = f.toList ++ [':'] := by
    rw [String.toList_append]; rfl
  simp only [hasPrefix, Bool.and_eq_true, decide_eq_true_eq, List.isPrefixOf_iff_prefix, hpre, keyOf_toList]
  constructor
  · rintro ⟨_, t, ht⟩
    have h2 : f.toList ++ ':' :: t = f'.toList ++ ':' :: v.toList := by
      rw [← ht]; simp
    exact (String.toList_inj.mp (split_colon_inj (noColon_iff.mp hf) (noColon_iff.mp hf') h2).1).symm
  · rintro rfl
    refine ⟨by simp, v.toList, by simp⟩

/-! ### the invariant -/

def intOf : Option Value → Option I64
  | some (.int x) => some x
  | _ => none

structure Inv (s : State) (live : Nat → Prop) (get : Nat → String → Option Value)
    (num : String → Prop) : Prop where
  /-- `allDocs` = the live ids -/
  all : ∀ d, d ∈ s.allDocs ↔ live d
  catKeys : (s.categorical.map (·.1)).Nodup
  /-- the bitmap under a key holds the documents carrying some (field, string value) with that key -/
  cat : ∀ key bm, s.categorical.lookup key = some bm →
    ∀ d, d ∈ bm ↔ ∃ f v, keyOf f v = key ∧ get d f = some (.str v)
  catHas : ∀ d f v, get d f = some (.str v) → (s.categorical.lookup (keyOf f v)).isSome = true
  /-- a BSI exists exactly for the names that ever carried a number -/
  numKeys : ∀ f, (s.numeric.lookup f).isSome = true ↔ num f
  /-- the BSI of `f` represents `{d ↦ x | get d f = int x}` -/
  rep : ∀ f b, s.numeric.lookup f = some b → BSI.Rep b (fun d => intOf (get d f))
  intSeen : ∀ d f x, get d f = some (.int x) → num f
  getLive : ∀ d f v, get d f = some v → live d

theorem inv_init : Inv Meta.init (fun _ => False) (fun _ _ => none) (fun _ => False) := by
  refine ⟨by simp [Meta.init], by simp [Meta.init], ?_, ?_, by simp [Meta.init], ?_, ?_, ?_⟩ <;>
    simp [Meta.init]

theorem Inv.congr {s : State} {live live' : Nat → Prop} {get get' : Nat → String → Option Value}
    {num num' : String → Prop} (h : Inv s live get num) (hl : ∀ d, live d ↔ live' d)
    (hg : ∀ d f, get d f = get' d f) (hn : ∀ f, num f ↔ num' f) : Inv s live' get' num' := by
  have e1 : live = live' := funext fun d => propext (hl d)
  have e2 : get = get' := funext fun d => funext fun f => hg d f
  have e3 : num = num' := funext fun f => propext (hn f)
  subst e1 e2 e3
  exact h

/-- functional update of the view: document `id` gets value `v` under `k` -/
def upd (get : Nat → String → Option Value) (id : Nat) (k : String) (v : Value) :
    Nat → String → Option Value :=
  fun d f => if d = id ∧ f = k then some v else get d f

theorem inv_allDocs_add {s : State} {live get num} (h : Inv s live get num) (id : Nat) :
    Inv { s with allDocs := RB.add s.allDocs id } (fun d => d = id ∨ live d) get num :=
  { h with
    all := fun d => by simp only [RB.mem_add, h.all]
    getLive := fun d f v hv => Or.inr (h.getLive d f v hv) }

theorem inv_addCategorical {s : State} {live get num} (h : Inv s live get num) (id : Nat) (k v : String)
    (hnone : get id k = none) (hlive : live id) :
    Inv (addCategorical s k v id) live (upd get id k (.str v)) num := by
  have hget : ∀ d f w, get d f = some w → upd get id k (.str v) d f = some w := by
    intro d f w hw
    simp only [upd]
    by_cases hc : d = id ∧ f = k
    · rw [hc.1, hc.2, hnone] at hw; cases hw
    · simp [hc, hw]
  have hget' : ∀ d f w, upd get id k (.str v) d f = some w →
      (d = id ∧ f = k ∧ w = .str v) ∨ get d f = some w := by
    intro d f w hw
    simp only [upd] at hw
    by_cases hc : d = id ∧ f = k
    · simp only [hc, and_self, if_true, Option.some.injEq] at hw
      exact Or.inl ⟨hc.1, hc.2, hw.symm⟩
    · simp only [hc, if_false] at hw
      exact Or.inr hw
  refine ⟨h.all, ?_, ?_, ?_, h.numKeys, ?_, ?_, ?_⟩
  · exact nodup_keys_upsert _ _ _ h.catKeys
  · intro key bm hbm d
    simp only [addCategorical, lookup_upsert] at hbm
    by_cases hkey : key = keyOf k v
    · subst hkey
      simp only [if_true, Option.some.injEq] at hbm
      subst hbm
      cases hold : s.categorical.lookup (keyOf k v) with
      | none =>
        simp only [RB.mem_add, List.not_mem_nil, or_false]
        constructor
        · rintro rfl
          exact ⟨k, v, rfl, by simp [upd]⟩
        · rintro ⟨f', v', hk, hg⟩
          rcases hget' d f' (.str v') hg with ⟨hd, _, _⟩ | hg0
          · exact hd
          · have := h.catHas d f' v' hg0
            rw [hk, hold] at this; simp at this
      | some bm0 =>
        simp only [RB.mem_add, h.cat _ bm0 hold d]
        constructor
        · rintro (rfl | ⟨f', v', hk, hg⟩)
          · exact ⟨k, v, rfl, by simp [upd]⟩
          · exact ⟨f', v', hk, hget d f' _ hg⟩
        · rintro ⟨f', v', hk, hg⟩
          rcases hget' d f' (.str v') hg with ⟨hd, _, _⟩ | hg0
          · exact Or.inl hd
          · exact Or.inr ⟨f', v', hk, hg0⟩
    · simp only [hkey, if_false] at hbm
      rw [h.cat key bm hbm d]
      constructor
      · rintro ⟨f', v', hk, hg⟩
        exact ⟨f', v', hk, hget d f' _ hg⟩
      · rintro ⟨f', v', hk, hg⟩
        rcases hget' d f' (.str v') hg with ⟨_, hf, hv⟩ | hg0
        · cases hv
          exact absurd (by rw [← hk, hf]) hkey
        · exact ⟨f', v', hk, hg0⟩
  · intro d f' v' hg
    simp only [addCategorical, lookup_upsert]
    rcases hget' d f' (.str v') hg with ⟨_, hf, hv⟩ | hg0
    · cases hv; subst hf; simp
    · by_cases hkey : keyOf f' v' = keyOf k v
      · simp [hkey]
      · simp only [hkey, if_false]
        exact h.catHas d f' v' hg0
  · intro f b hb
    have := h.rep f b hb
    have e : (fun d => intOf (upd get id k (.str v) d f)) = (fun d => intOf (get d f)) := by
      funext d
      simp only [upd]
      by_cases hc : d = id ∧ f = k
      · obtain ⟨hd, hf⟩ := hc
        simp [hd, hf, intOf, hnone]
      · simp [hc]
    rw [e]; exact this
  · intro d f x hg
    rcases hget' d f (.int x) hg with ⟨_, _, hv⟩ | hg0
    · cases hv
    · exact h.intSeen d f x hg0
  · intro d f w hg
    rcases hget' d f w hg with ⟨hd, _, _⟩ | hg0
    · rw [hd]; exact hlive
    · exact h.getLive d f w hg0

theorem inv_addNumeric {s : State} {live get num} (h : Inv s live get num) (id : Nat) (k : String) (x : I64)
    (hnone : get id k = none) (hlive : live id) :
    Inv (addNumeric s k id x) live (upd get id k (.int x)) (fun f => f = k ∨ num f) := by
  have hget : ∀ d f w, get d f = some w → upd get id k (.int x) d f = some w := by
    intro d f w hw
    simp only [upd]
    by_cases hc : d = id ∧ f = k
    · rw [hc.1, hc.2, hnone] at hw; cases hw
    · simp [hc, hw]
  have hget' : ∀ d f w, upd get id k (.int x) d f = some w →
      (d = id ∧ f = k ∧ w = .int x) ∨ get d f = some w := by
    intro d f w hw
    simp only [upd] at hw
    by_cases hc : d = id ∧ f = k
    · simp only [hc, and_self, if_true, Option.some.injEq] at hw
      exact Or.inl ⟨hc.1, hc.2, hw.symm⟩
    · simp only [hc, if_false] at hw
      exact Or.inr hw
  have hstr : ∀ d f v, upd get id k (.int x) d f = some (.str v) ↔ get d f = some (.str v) := by
    intro d f v
    constructor
    · intro hg
      rcases hget' d f _ hg with ⟨_, _, hv⟩ | hg0
      · cases hv
      · exact hg0
    · exact hget d f _
  refine ⟨h.all, h.catKeys, ?_, ?_, ?_, ?_, ?_, ?_⟩
  · intro key bm hbm d
    rw [h.cat key bm hbm d]
    simp only [hstr]
  · intro d f v hg
    exact h.catHas d f v ((hstr d f v).mp hg)
  · intro f
    simp only [addNumeric, lookup_upsert]
    by_cases hf : f = k
    · simp [hf]
    · simp [hf, h.numKeys]
  · intro f b hb
    simp only [addNumeric, lookup_upsert] at hb
    by_cases hf : f = k
    · subst hf
      simp only [if_true, Option.some.injEq] at hb
      subst hb
      have e : (fun d => intOf (upd get id f (.int x) d f)) =
          (fun d => if d = id then some x else intOf (get d f)) := by
        funext d
        simp only [upd]
        by_cases hd : d = id <;> simp [hd, intOf]
      rw [e]
      cases hold : s.numeric.lookup f with
      | none =>
        have hnn : ¬ num f := fun hn => by
          have := (h.numKeys f).mpr hn
          rw [hold] at this; simp at this
        have e0 : (fun d => intOf (get d f)) = (fun _ => none) := by
          funext d
          cases hg : get d f with
          | none => rfl
          | some w =>
            cases w with
            | int y => exact absurd (h.intSeen d f y hg) hnn
            | str _ => rfl
        have := BSI.rep_setValue BSI.rep_new id x
        have e1 : (fun d => if d = id then some x else intOf (get d f)) =
            (fun d => if d = id then some x else none) := by
          funext d; rw [congrFun e0 d]
        rw [e1]
        exact this
      | some b0 => exact BSI.rep_setValue (h.rep f b0 hold) id x
    · simp only [hf, if_false] at hb
      have e : (fun d => intOf (upd get id k (.int x) d f)) = (fun d => intOf (get d f)) := by
        funext d
        simp only [upd]
        have : ¬ (d = id ∧ f = k) := fun hc => hf hc.2
        simp [this]
      rw [e]; exact h.rep f b hb
  · intro d f y hg
    rcases hget' d f _ hg with ⟨_, hf, _⟩ | hg0
    · exact Or.inl hf
    · exact Or.inr (h.intSeen d f y hg0)
  · intro d f w hg
    rcases hget' d f w hg with ⟨hd, _, _⟩ | hg0
    · rw [hd]; exact hlive
    · exact h.getLive d f w hg0

theorem remove_cat_lookup (s : State) (id : Nat) (key : String) :
    (remove s id).categorical.lookup key = (s.categorical.lookup key).map (fun bm => RB.remove bm id) :=
  lookup_map_val (fun bm => RB.remove bm id) key s.categorical

theorem remove_num_lookup (s : State) (id : Nat) (f : String) :
    (remove s id).numeric.lookup f = (s.numeric.lookup f).map (fun b => BSI.clearValues b [id]) :=
  lookup_map_val (fun b => BSI.clearValues b [id]) f s.numeric

theorem remove_cat_keys (s : State) (id : Nat) :
    (remove s id).categorical.map (·.1) = s.categorical.map (·.1) :=
  keys_map_val (fun bm => RB.remove bm id) s.categorical

theorem inv_remove {s : State} {live get num} (h : Inv s live get num) (id : Nat) :
    Inv (remove s id) (fun d => d ≠ id ∧ live d) (fun d f => if d = id then none else get d f) num := by
  refine ⟨?_, ?_, ?_, ?_, ?_, ?_, ?_, ?_⟩
  · intro d
    simp only [remove, RB.mem_remove, h.all]
    exact And.comm
  · rw [remove_cat_keys]; exact h.catKeys
  · intro key bm hbm d
    rw [remove_cat_lookup] at hbm
    cases hold : s.categorical.lookup key with
    | none => rw [hold] at hbm; simp at hbm
    | some bm0 =>
      rw [hold] at hbm
      simp only [Option.map_some, Option.some.injEq] at hbm
      subst hbm
      rw [RB.mem_remove, h.cat key bm0 hold d]
      by_cases hd : d = id <;> simp [hd]
  · intro d f v hg
    by_cases hd : d = id
    · simp [hd] at hg
    · simp only [hd, if_false] at hg
      rw [remove_cat_lookup, Option.isSome_map]
      exact h.catHas d f v hg
  · intro f
    rw [remove_num_lookup, Option.isSome_map]
    exact h.numKeys f
  · intro f b hb
    rw [remove_num_lookup] at hb
    cases hold : s.numeric.lookup f with
    | none => rw [hold] at hb; simp at hb
    | some b0 =>
      rw [hold] at hb
      simp only [Option.map_some, Option.some.injEq] at hb
      subst hb
      have := BSI.rep_clearValues (h.rep f b0 hold) id
      have e : (fun d => intOf (if d = id then none else get d f)) =
          (fun d => if d = id then none else intOf (get d f)) := by
        funext d
        by_cases hd : d = id <;> simp [hd, intOf]
      rw [e]; exact this
  · intro d f x hg
    by_cases hd : d = id
    · simp [hd] at hg
    · simp only [hd, if_false] at hg
      exact h.intSeen d f x hg
  · intro d f v hg
    by_cases hd : d = id
    · simp [hd] at hg
    · simp only [hd, if_false] at hg
      exact ⟨hd, h.getLive d f v hg⟩

/-! ### `Add` as a sequence of view updates -/

/-- the view after the metadata loop of `Add` walked `doc` -/
def updAll (get : Nat → String → Option Value) (id : Nat) : Doc → Nat → String → Option Value
  | [] => get
  | (k, v) :: r => updAll (upd get id k v) id r

theorem updAll_apply (id : Nat) : ∀ (doc : Doc) (get : Nat → String → Option Value),
    (doc.map (·.1)).Nodup → ∀ d f, updAll get id doc d f =
      if d = id then (match doc.lookup f with | some v => some v | none => get d f) else get d f
  | [], get, _, d, f => by simp [updAll]
  | (k, v) :: r, get, hnd, d, f => by
    simp only [List.map_cons, List.nodup_cons] at hnd
    rw [updAll, updAll_apply id r _ hnd.2, lookup_cons']
    by_cases hd : d = id
    · subst hd
      simp only [if_true]
      by_cases hf : f = k
      · subst hf
        have : r.lookup f = none := by
          cases hl : r.lookup f with
          | none => rfl
          | some w => exact absurd (List.mem_map.mpr ⟨(f, w), mem_of_lookup hl, rfl⟩) hnd.1
        simp [this, upd]
      · simp [hf, upd]
    · simp [hd, upd]

theorem intFields_mem {doc : Doc} {f : String} : f ∈ intFields doc ↔ ∃ x, (f, Value.int x) ∈ doc := by
  induction doc with
  | nil => simp [intFields]
  | cons p r ih =>
    obtain ⟨k, v⟩ := p
    cases v with
    | int y =>
      simp only [intFields, List.mem_cons, ih, Prod.mk.injEq]
      constructor
      · rintro (rfl | ⟨x, hx⟩)
        · exact ⟨y, Or.inl ⟨rfl, rfl⟩⟩
        · exact ⟨x, Or.inr hx⟩
      · rintro ⟨x, ⟨rfl, _⟩ | hx⟩
        · exact Or.inl rfl
        · exact Or.inr ⟨x, hx⟩
    | str s =>
      simp only [intFields, List.mem_cons, ih, Prod.mk.injEq]
      constructor
      · rintro ⟨x, hx⟩; exact ⟨x, Or.inr hx⟩
      · rintro ⟨x, ⟨_, h⟩ | hx⟩
        · cases h
        · exact ⟨x, hx⟩

/-- the metadata loop of `Add` on a validated document -/
theorem inv_addKVs (id : Nat) : ∀ (kvs : List (String × Option Value)) (doc : Doc) (s : State)
    (live : Nat → Prop) (get : Nat → String → Option Value) (num : String → Prop),
    Inv s live get num → live id → docOf kvs = some doc → (doc.map (·.1)).Nodup →
    (∀ k, k ∈ doc.map (·.1) → get id k = none) →
    (addKVs id s kvs).2 = false ∧
      Inv (addKVs id s kvs).1 live (updAll get id doc) (fun f => f ∈ intFields doc ∨ num f)
  | [], doc, s, live, get, num, h, _, hdoc, _, _ => by
    simp only [docOf, Option.some.injEq] at hdoc
    subst hdoc
    exact ⟨rfl, h.congr (fun _ => Iff.rfl) (fun _ _ => rfl) (fun f => by simp [intFields])⟩
  | (k, none) :: r, doc, s, live, get, num, _, _, hdoc, _, _ => by simp [docOf] at hdoc
  | (k, some v) :: r, doc, s, live, get, num, h, hl, hdoc, hnd, hnone => by
    simp only [docOf, Option.map_eq_some_iff] at hdoc
    obtain ⟨doc', hdoc', rfl⟩ := hdoc
    simp only [List.map_cons, List.nodup_cons] at hnd
    have hk : get id k = none := hnone k (by simp)
    cases v with
    | int x =>
      have h1 := inv_addNumeric h id k x hk hl
      have hnone' : ∀ k', k' ∈ doc'.map (·.1) → upd get id k (.int x) id k' = none := by
        intro k' hk'
        have : k' ≠ k := fun e => hnd.1 (e ▸ hk')
        simp only [upd, this, and_false, if_false]
        exact hnone k' (by simp [hk'])
      obtain ⟨e, h2⟩ := inv_addKVs id r doc' _ live _ _ h1 hl hdoc' hnd.2 hnone'
      refine ⟨by simpa [addKVs] using e, ?_⟩
      simp only [addKVs, updAll]
      refine h2.congr (fun _ => Iff.rfl) (fun _ _ => rfl) (fun f => ?_)
      simp only [intFields, List.mem_cons]
      constructor
      · rintro (h | h | h)
        · exact Or.inl (Or.inr h)
        · exact Or.inl (Or.inl h)
        · exact Or.inr h
      · rintro ((h | h) | h)
        · exact Or.inr (Or.inl h)
        · exact Or.inl h
        · exact Or.inr (Or.inr h)
    | str w =>
      have h1 := inv_addCategorical h id k w hk hl
      have hnone' : ∀ k', k' ∈ doc'.map (·.1) → upd get id k (.str w) id k' = none := by
        intro k' hk'
        have : k' ≠ k := fun e => hnd.1 (e ▸ hk')
        simp only [upd, this, and_false, if_false]
        exact hnone k' (by simp [hk'])
      obtain ⟨e, h2⟩ := inv_addKVs id r doc' _ live _ _ h1 hl hdoc' hnd.2 hnone'
      refine ⟨by simpa [addKVs] using e, ?_⟩
      simp only [addKVs, updAll]
      exact h2.congr (fun _ => Iff.rfl) (fun _ _ => rfl) (fun f => by simp [intFields])

theorem docOf_keys : ∀ {kvs : List (String × Option Value)} {doc : Doc},
    docOf kvs = some doc → doc.map (·.1) = kvs.map (·.1)
  | [], doc, h => by simp only [docOf, Option.some.injEq] at h; subst h; rfl
  | (k, none) :: r, doc, h => by simp [docOf] at h
  | (k, some v) :: r, doc, h => by
    simp only [docOf, Option.map_eq_some_iff] at h
    obtain ⟨doc', hdoc', rfl⟩ := h
    simp [docOf_keys hdoc']

theorem docOf_none_iff : ∀ {kvs : List (String × Option Value)},
    docOf kvs = none ↔ validateMetadata kvs = false
  | [] => by simp [docOf, validateMetadata]
  | (k, none) :: r => by simp [docOf, validateMetadata]
  | (k, some v) :: r => by
    have := docOf_none_iff (kvs := r)
    simp only [docOf, Option.map_eq_none_iff, this]
    simp [validateMetadata]

/-! ### the invariant along histories -/

/-- the view of a specification state -/
def InvS (s : State) (sp : Spec) : Prop :=
  Inv s (fun d => (sp.docs.lookup d).isSome = true) sp.docs.get (fun f => f ∈ sp.numSeen)

/-- well-formed step: `Add` of an id that is not live, with a proper map (unique keys) -/
def okOp (sp : Spec) : HOp → Bool
  | .add id kvs => (sp.docs.lookup id).isNone && decide (kvs.map (·.1)).Nodup
  | .remove _ => true

def wfHist : Spec → List HOp → Bool
  | _, [] => true
  | sp, op :: r => okOp sp op && wfHist (sp.step op) r

theorem get_cons (id : Nat) (doc : Doc) (D : Docs) (d : Nat) (f : String) :
    Docs.get ((id, doc) :: D) d f = if d = id then doc.lookup f else D.get d f := by
  simp only [Docs.get, lookup_cons']
  by_cases hd : d = id <;> simp [hd]

theorem invS_step {s : State} {sp : Spec} (h : InvS s sp) (op : HOp) (hok : okOp sp op = true) :
    InvS (step s op) (sp.step op) := by
  cases op with
  | remove id =>
    have := inv_remove h id
    simp only [step, Spec.step, InvS]
    refine this.congr (fun d => ?_) (fun d f => ?_) (fun _ => Iff.rfl)
    · rw [lookup_filter_ne]
      by_cases hd : d = id <;> simp [hd]
    · simp only [Docs.get, lookup_filter_ne]
      by_cases hd : d = id <;> simp [hd]
  | add id kvs =>
    simp only [okOp, Bool.and_eq_true, decide_eq_true_eq, Option.isNone_iff_eq_none] at hok
    simp only [step, Spec.step, add]
    cases hdoc : docOf kvs with
    | none =>
      have hv := docOf_none_iff.mp hdoc
      simp only [hv, Bool.not_false, if_true]
      exact h
    | some doc =>
      have hv : validateMetadata kvs = true := by
        cases hvv : validateMetadata kvs with
        | true => rfl
        | false => rw [docOf_none_iff.mpr hvv] at hdoc; cases hdoc
      simp only [hv, Bool.not_true, Bool.false_eq_true, if_false]
      have hnl : ∀ f, sp.docs.get id f = none := by
        intro f; simp [Docs.get, hok.1]
      have h1 := inv_allDocs_add h id
      have hnd : (doc.map (·.1)).Nodup := by rw [docOf_keys hdoc]; exact hok.2
      obtain ⟨_, h2⟩ := inv_addKVs id kvs doc _ _ _ _ h1 (Or.inl rfl) hdoc hnd (fun k _ => hnl k)
      simp only [InvS]
      refine h2.congr (fun d => ?_) (fun d f => ?_) (fun f => ?_)
      · rw [lookup_cons']
        by_cases hd : d = id <;> simp [hd]
      · rw [updAll_apply id doc _ hnd, get_cons]
        by_cases hd : d = id
        · subst hd
          simp only [if_true, hnl]
          cases doc.lookup f <;> rfl
        · simp [hd]
      · simp [List.mem_append]

theorem invS_run : ∀ (ops : List HOp) (s : State) (sp : Spec), InvS s sp → wfHist sp ops = true →
    InvS (ops.foldl step s) (ops.foldl Spec.step sp)
  | [], _, _, h, _ => h
  | op :: r, s, sp, h, hw => by
    simp only [wfHist, Bool.and_eq_true] at hw
    exact invS_run r _ _ (invS_step h op hw.1) hw.2

theorem invS_init : InvS Meta.init {} := by
  have := inv_init
  exact this.congr (fun d => by simp) (fun d f => by simp [Docs.get]) (fun f => by simp)

end Comet.Meta
