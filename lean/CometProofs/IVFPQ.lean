/-
  Helper lemmas for C14 (IVFPQ): the inverted lists of the model are the per-list
  projections of a ghost flat index over the stored form, which refines the flat
  "live list" specification of C01.  Core Lean only.
-/
import Comet.Vector.IVFPQ
import CometProofs.PQ
namespace Comet.IVFPQ
open Comet.PQ

variable {S : Type}

/-- the inverted lists that a sequence of stored entries induces -/
def split (n : Nat) (vs : List (Id × Stored S)) : List (List (Id × Stored S)) :=
  (List.range n).map fun c => vs.filter (fun p => p.2.list == c)

theorem split_length (n : Nat) (vs : List (Id × Stored S)) : (split n vs).length = n := by
  simp [split]

theorem split_getElem? (n : Nat) (vs : List (Id × Stored S)) (c : Nat) (hc : c < n) :
    (split n vs)[c]? = some (vs.filter (fun p => p.2.list == c)) := by
  simp [split, hc]

theorem split_nil (n : Nat) : split n ([] : List (Id × Stored S)) = List.replicate n [] := by
  apply List.ext_getElem?
  intro j
  by_cases hj : j < n
  · simp [split, hj]
  · simp [split, hj]

theorem split_append_single (n li : Nat) (vs : List (Id × Stored S)) (x : Id × Stored S)
    (hx : x.2.list = li) :
    split n (vs ++ [x]) = (split n vs).modify li (· ++ [x]) := by
  apply List.ext_getElem?
  intro j
  rw [List.getElem?_modify]
  by_cases hj : j < n
  · rw [split_getElem? _ _ _ hj, split_getElem? _ _ _ hj]
    by_cases hlj : li = j
    · subst hlj
      simp [List.filter_append, hx]
    · have : (x.2.list == j) = false := by
        rw [hx]; simpa using hlj
      simp [List.filter_append, this, hlj]
  · simp [split, hj]

theorem split_filter (n : Nat) (vs : List (Id × Stored S)) (f : Id × Stored S → Bool) :
    split n (vs.filter f) = (split n vs).map (·.filter f) := by
  simp only [split, List.map_map]
  apply List.map_congr_left
  intro c _
  simp only [Function.comp, List.filter_filter]
  apply List.filter_congr
  intro p _
  exact Bool.and_comm _ _

theorem split_any (n : Nat) (vs : List (Id × Stored S)) (P : Id × Stored S → Bool)
    (hb : ∀ p ∈ vs, p.2.list < n) :
    (split n vs).any (fun l => l.any P) = vs.any P := by
  apply Bool.eq_iff_iff.2
  simp only [List.any_eq_true, split, List.mem_map, List.mem_range]
  constructor
  · rintro ⟨l, ⟨c, _, rfl⟩, p, hp, hP⟩
    exact ⟨p, (List.mem_filter.1 hp).1, hP⟩
  · rintro ⟨p, hp, hP⟩
    exact ⟨_, ⟨p.2.list, hb p hp, rfl⟩, p, List.mem_filter.2 ⟨hp, by simp⟩, hP⟩

theorem split_flatten_find (n : Nat) (vs : List (Id × Stored S)) :
    ∀ p ∈ (split n vs).flatten, p ∈ vs := by
  intro p hp
  simp only [split, List.mem_flatten, List.mem_map, List.mem_range] at hp
  obtain ⟨l, ⟨c, _, rfl⟩, hp⟩ := hp
  exact (List.mem_filter.1 hp).1

variable (m : Metric (List S) S) (A : Arith S)

theorem assign_lt (cents : List (List S)) (v : List S) (h : cents ≠ []) :
    assign m A cents v < cents.length := by
  have := argmin_lt m.sc.lt A.inf (cents.map (m.dist v)) (by simpa using h)
  simpa [assign] using this

/-- the lifted metric the code implements (`uint8` conversion included) -/
def mm (s : State S) : Metric (Stored S) S := lift m A trunc8 s.dsub s.cents s.cbs

/-- what does not change along a history -/
structure Same (s t : State S) : Prop where
  dim : t.dim = s.dim
  M : t.M = s.M
  nbits : t.nbits = s.nbits
  nlist : t.nlist = s.nlist
  cents : t.cents = s.cents
  cbs : t.cbs = s.cbs
  trained : t.trained = s.trained

theorem Same.rfl' (s : State S) : Same s s := ⟨rfl, rfl, rfl, rfl, rfl, rfl, rfl⟩

theorem Same.trans' {s t u : State S} (h1 : Same s t) (h2 : Same t u) : Same s u :=
  ⟨h2.dim.trans h1.dim, h2.M.trans h1.M, h2.nbits.trans h1.nbits, h2.nlist.trans h1.nlist,
    h2.cents.trans h1.cents, h2.cbs.trans h1.cbs, h2.trained.trans h1.trained⟩

theorem Same.mm_eq {s t : State S} (h : Same s t) : mm m A t = mm m A s := by
  unfold mm State.dsub; rw [h.dim, h.M, h.cents, h.cbs]

theorem flushLocked_same (s : State S) : Same s (flushLocked s) := by
  unfold flushLocked; split <;> exact ⟨rfl, rfl, rfl, rfl, rfl, rfl, rfl⟩

theorem addEncoded_same (s : State S) (id : Id) (v' : List S) :
    Same s (addEncoded m A s id v').1 := by
  unfold addEncoded
  dsimp only
  split
  · exact Same.rfl' s
  · split
    · exact ⟨rfl, rfl, rfl, rfl, rfl, rfl, rfl⟩
    · exact Same.rfl' s

theorem step_same (s : State S) (op : Flat.Op (List S)) : Same s (step m A s op).1 := by
  cases op with
  | add id v =>
    simp only [step]
    split
    · exact Same.rfl' s
    · split
      · exact Same.rfl' s
      · split
        · exact Same.rfl' s
        · have h1 : Same s (if id ∈ s.deleted then flushLocked s else s) := by
            split
            · exact flushLocked_same s
            · exact Same.rfl' s
          exact Same.trans' h1 (addEncoded_same m A _ id _)
  | remove id =>
    simp only [step]
    split
    · exact Same.rfl' s
    · split
      · exact Same.rfl' s
      · exact ⟨rfl, rfl, rfl, rfl, rfl, rfl, rfl⟩
  | flush => exact flushLocked_same s

/-- the model state is the per-list projection of the ghost flat state -/
structure Rel (s : State S) (g : Flat.State (Stored S)) : Prop where
  lists : s.lists = split s.nlist g.vecs
  deleted : s.deleted = g.deleted
  dim : s.dim = g.dim
  bound : ∀ p ∈ g.vecs, p.2.list < s.nlist

theorem flushLocked_of_mem (s : State S) (id : Id) (h : id ∈ s.deleted) :
    flushLocked s =
      { s with lists := s.lists.map (·.filter (fun p => p.1 ∉ s.deleted)), deleted := [] } := by
  have : s.deleted.isEmpty = false := by
    cases hd : s.deleted with
    | nil => rw [hd] at h; cases h
    | cons a t => rfl
  simp [flushLocked, this]

/-- purging: the model's lists are the per-list projections of the purged ghost state -/
theorem purged_rel (s : State S) (g : Flat.State (Stored S)) (h : Rel s g) :
    Rel { s with lists := s.lists.map (·.filter (fun p => p.1 ∉ s.deleted)), deleted := [] }
      (Flat.flushed g) := by
  refine ⟨?_, rfl, h.dim, ?_⟩
  · simp only [Flat.flushed, h.lists, ← h.deleted]
    exact (split_filter _ _ _).symm
  · intro p hp
    exact h.bound p (List.mem_filter.1 hp).1

theorem flushLocked_rel (s : State S) (g : Flat.State (Stored S)) (h : Rel s g) :
    Rel (flushLocked s) (Flat.step (mm m A s) g .flush).1 := by
  unfold flushLocked
  simp only [Flat.step, ← h.deleted]
  by_cases hd : s.deleted.isEmpty = true
  · simp only [hd, if_true]; exact h
  · simp only [hd, Bool.false_eq_true, if_false]
    exact purged_rel s g h

/-- appending an encoded vector: the list it goes to exists, and the model state stays the
    per-list projection of the ghost state with the same entry appended -/
theorem addEncoded_rel (s : State S) (g : Flat.State (Stored S)) (h : Rel s g)
    (hc : s.cents.length = s.nlist) (hn : 0 < s.nlist) (id : Id) (v' : List S) :
    ∃ c, s.cents[assign m A s.cents v']? = some c ∧
      Rel (addEncoded m A s id v').1
        { g with vecs := g.vecs ++ [(id, ⟨v', assign m A s.cents v',
            encode (A.ops m.sc) m.sc.lt A.inf s.dsub s.cbs (vsub (A.ops m.sc) v' c)⟩)] } := by
  have hcne : s.cents ≠ [] := by
    intro h0; rw [h0] at hc; simp at hc; omega
  have hlt := assign_lt m A s.cents v' hcne
  have hcv : s.cents[assign m A s.cents v']? = some (s.cents[assign m A s.cents v']) :=
    List.getElem?_eq_getElem hlt
  have hll : assign m A s.cents v' < s.lists.length := by
    rw [h.lists, split_length, ← hc]; exact hlt
  refine ⟨_, hcv, ?_⟩
  simp only [addEncoded, hcv, hll, if_true]
  refine ⟨?_, h.deleted, h.dim, ?_⟩
  · simp only [h.lists]
    rw [split_append_single _ (assign m A s.cents v') _ _ rfl]
  · intro p hp
    rcases List.mem_append.1 hp with hp | hp
    · exact h.bound p hp
    · simp only [List.mem_singleton] at hp
      subst hp
      show assign m A s.cents v' < s.nlist
      rw [← hc]; exact hlt

/-- one step of the IVFPQ model is one step of the ghost flat model, for EVERY op -/
theorem step_rel (s : State S) (g : Flat.State (Stored S)) (op : Flat.Op (List S))
    (h : Rel s g) (htr : s.trained = true) (hc : s.cents.length = s.nlist) (hn : 0 < s.nlist) :
    Rel (step m A s op).1 (Flat.step (mm m A s) g (liftOp op)).1 := by
  cases op with
  | add id v =>
    simp only [step, htr, Bool.not_true, Bool.false_eq_true, if_false, liftOp, Flat.step, mm, lift,
      inject, ← h.dim]
    by_cases hdim : v.length = s.dim
    · simp only [hdim, ne_eq, not_true_eq_false, if_false]
      cases hp : m.pre v with
      | none => exact h
      | some v' =>
        by_cases hd : id ∈ s.deleted
        · have hd' : id ∈ g.deleted := by rw [← h.deleted]; exact hd
          have hrel1 := purged_rel s g h
          obtain ⟨c, hcv, hr⟩ := addEncoded_rel m A _ _ hrel1 hc hn id v'
          simp only [hd, hd', if_true, flushLocked_of_mem s id hd]
          simp only at hcv
          simp only [hcv]
          exact hr
        · have hd' : id ∉ g.deleted := by rw [← h.deleted]; exact hd
          obtain ⟨c, hcv, hr⟩ := addEncoded_rel m A s g h hc hn id v'
          simp only [hd, hd', if_false, hcv]
          exact hr
    · simp only [hdim, ne_eq, not_false_eq_true, if_true]; exact h
  | remove id =>
    have hany : (s.lists.any fun l => l.any (·.1 == id)) = g.vecs.any (·.1 == id) := by
      rw [h.lists]; exact split_any _ _ _ h.bound
    simp only [step, liftOp, Flat.step, hany, ← h.deleted]
    by_cases h1 : (g.vecs.any fun x => x.fst == id) = true
    · by_cases h2 : id ∈ s.deleted
      · simp only [h1, h2, not_true_eq_false, if_false, if_true]; exact h
      · simp only [h1, h2, not_true_eq_false, if_false]
        exact ⟨h.lists, by simp [h.deleted], h.dim, h.bound⟩
    · simp only [h1]; exact h
  | flush =>
    simp only [step, liftOp]
    exact flushLocked_rel m A s g h

theorem run_rel (s : State S) (g : Flat.State (Stored S)) (ops : List (Flat.Op (List S)))
    (h : Rel s g) (htr : s.trained = true) (hc : s.cents.length = s.nlist) (hn : 0 < s.nlist) :
    Rel (run m A s ops) (Flat.run (mm m A s) g (ops.map liftOp)) ∧ Same s (run m A s ops) := by
  induction ops generalizing s g with
  | nil => exact ⟨h, Same.rfl' s⟩
  | cons op t ih =>
    have hstep := step_rel m A s g op h htr hc hn
    have hsame := step_same m A s op
    obtain ⟨h1, h2⟩ := ih (step m A s op).1 _ hstep (by rw [hsame.trained]; exact htr)
      (by rw [hsame.cents, hsame.nlist]; exact hc) (by rw [hsame.nlist]; exact hn)
    simp only [run, List.foldl_cons, List.map_cons, Flat.run] at h1 h2 ⊢
    refine ⟨?_, Same.trans' hsame h2⟩
    rw [hsame.mm_eq] at h1
    exact h1

theorem lift_trunc8_eq {M ksub dsub : Nat} {cents : List (List S)} {cbs : List (List (List S))}
    (hwf : cbWF M ksub dsub cbs = true) (hk : 0 < ksub) (hk8 : ksub ≤ 256) :
    lift m A trunc8 dsub cents cbs = lift m A id dsub cents cbs := by
  simp only [lift, map_trunc8_encodeRaw hwf hk hk8]

/-- the shape invariant under which no index expression of `Add` can be out of range -/
structure Shape (s : State S) : Prop where
  cents : s.cents.length = s.nlist
  lists : s.lists.length = s.nlist
  pos : 0 < s.nlist

theorem flushLocked_shape (s : State S) (h : Shape s) : Shape (flushLocked s) := by
  unfold flushLocked
  split
  · exact h
  · exact ⟨h.cents, by simpa using h.lists, h.pos⟩

theorem addEncoded_shape (s : State S) (h : Shape s) (id : Id) (v' : List S) :
    Shape (addEncoded m A s id v').1 ∧ (addEncoded m A s id v').2 ≠ .panic := by
  have hcne : s.cents ≠ [] := by
    intro h0
    have := h.cents
    rw [h0] at this
    simp at this
    have := h.pos
    omega
  have hlt := assign_lt m A s.cents v' hcne
  have hcv : s.cents[assign m A s.cents v']? = some (s.cents[assign m A s.cents v']) :=
    List.getElem?_eq_getElem hlt
  have hll : assign m A s.cents v' < s.lists.length := by
    rw [h.lists, ← h.cents]; exact hlt
  simp only [addEncoded, hcv, hll, if_true]
  exact ⟨⟨h.cents, by simpa using h.lists, h.pos⟩, by simp⟩

/-- one step keeps the shape and does not panic -/
theorem step_shape (s : State S) (op : Flat.Op (List S)) (h : Shape s) :
    Shape (step m A s op).1 ∧ (step m A s op).2 ≠ .panic := by
  cases op with
  | add id v =>
    simp only [step]
    split
    · exact ⟨h, by simp⟩
    · split
      · exact ⟨h, by simp⟩
      · split
        · exact ⟨h, by simp⟩
        · have h1 : Shape (if id ∈ s.deleted then flushLocked s else s) := by
            split
            · exact flushLocked_shape s h
            · exact h
          exact addEncoded_shape m A _ h1 id _
  | remove id =>
    simp only [step]
    split
    · exact ⟨h, by simp⟩
    · split
      · exact ⟨h, by simp⟩
      · exact ⟨⟨h.cents, h.lists, h.pos⟩, by simp⟩
  | flush => exact ⟨flushLocked_shape s h, by simp [step]⟩

theorem run_shape (s : State S) (ops : List (Flat.Op (List S))) (h : Shape s) :
    Shape (run m A s ops) := by
  induction ops generalizing s with
  | nil => exact h
  | cons op t ih =>
    simp only [run, List.foldl_cons]
    exact ih _ (step_shape m A s op h).1

/-- what `lift.pre` produces -/
theorem lift_pre_some (tr : Nat → Nat) (dsub : Nat) (cents : List (List S))
    (cbs : List (List (List S))) (x e : Stored S)
    (h : (lift m A tr dsub cents cbs).pre x = some e) :
    ∃ v' c, m.pre x.vec = some v' ∧ cents[assign m A cents v']? = some c ∧
      e = ⟨v', assign m A cents v',
        (encodeRaw (A.ops m.sc) m.sc.lt A.inf dsub cbs (vsub (A.ops m.sc) v' c)).map tr⟩ := by
  simp only [lift] at h
  cases hp : m.pre x.vec with
  | none => simp [hp] at h
  | some v' =>
    simp only [hp] at h
    cases hcv : cents[assign m A cents v']? with
    | none => simp [hcv] at h
    | some c =>
      simp only [hcv, Option.some.injEq] at h
      exact ⟨v', c, rfl, hcv, h.symm⟩

theorem centroidHitsFrom_length (q' : List S) (i : Nat) (cents : List (List S)) :
    (centroidHitsFrom m q' i cents).length = cents.length := by
  induction cents generalizing i with
  | nil => rfl
  | cons c cs ih => simp [centroidHitsFrom, ih]

theorem centroidHitsFrom_id (q' : List S) (i : Nat) (cents : List (List S)) :
    ∀ h ∈ centroidHitsFrom m q' i cents, i ≤ h.id ∧ h.id < i + cents.length := by
  induction cents generalizing i with
  | nil => intro h hh; cases hh
  | cons c cs ih =>
    intro h hh
    simp only [centroidHitsFrom, List.mem_cons] at hh
    rcases hh with rfl | hh
    · simp
    · have := ih (i + 1) h hh
      simp only [List.length_cons]
      exact ⟨by omega, Nat.lt_of_lt_of_eq this.2 (by omega)⟩

theorem filterMap_congr' {α β : Type} {f g : α → Option β} :
    ∀ {l : List α}, (∀ x ∈ l, f x = g x) → l.filterMap f = l.filterMap g
  | [], _ => rfl
  | a :: l, h => by
    simp only [List.filterMap_cons, h a List.mem_cons_self]
    rw [filterMap_congr' (fun x hx => h x (List.mem_cons_of_mem _ hx))]

/-- The probe loop yields exactly the specification's candidates of the probed lists. -/
theorem scanProbed_eq (s : State S) (g : Flat.State (Stored S)) (h : Rel s g)
    (hc : s.cents.length = s.nlist) (hne : ∀ cb ∈ s.cbs, cb ≠ [])
    (l : List (Id × Stored S)) (heff : Flat.eff g = l)
    (hl : ∀ p ∈ l, ∃ x, (mm m A s).pre x = some p.2)
    (q' : List S) (thr : S) (F : List Id) (probed : List (Hit S))
    (hp : ∀ h ∈ probed, h.id < s.nlist) :
    scanProbed m A s q' thr F probed =
      some (cands (mm m A s) l probed (inject q') thr F) := by
  induction probed with
  | nil => rfl
  | cons hd tl ih =>
    have hid : hd.id < s.nlist := hp hd List.mem_cons_self
    have ih' := ih (fun x hx => hp x (List.mem_cons_of_mem _ hx))
    have hcv : s.cents[hd.id]? = some (s.cents[hd.id]'(by rw [hc]; exact hid)) :=
      List.getElem?_eq_getElem _
    have hlv : s.lists[hd.id]? = some (g.vecs.filter (fun p => p.2.list == hd.id)) := by
      rw [h.lists]; exact split_getElem? _ _ _ hid
    generalize hcdef : s.cents[hd.id]'(by rw [hc]; exact hid) = c at hcv
    simp only [scanProbed, hcv, hlv]
    have hok : ∀ p ∈ g.vecs.filter (fun p => p.2.list == hd.id), p.1 ∉ s.deleted →
        ∃ x, adcSum (A.ops m.sc)
          (tables (A.ops m.sc) s.dsub s.cbs (vsub (A.ops m.sc) q' c)) p.2.code = some x := by
      intro p hp hnd
      have hpl : p ∈ l := by
        rw [← heff]; simp only [Flat.eff, List.mem_filter]
        exact ⟨(List.mem_filter.1 hp).1, decide_eq_true (by rw [← h.deleted]; exact hnd)⟩
      obtain ⟨x, hx⟩ := hl p hpl
      obtain ⟨v', c', _, _, he⟩ := lift_pre_some m A trunc8 s.dsub s.cents s.cbs x p.2 hx
      rw [he]
      exact adcSum_encoded_isSome _ _ _ _ _ hne trunc8 trunc8_le _ _
    rw [PQ.scan_eq m.sc A _ s.deleted thr F _ hok, ih']
    simp only [cands, List.flatMap_cons]
    congr 2
    -- the candidates of this list
    rw [← heff]
    simp only [Flat.eff, Flat.cands, List.filter_filter, h.deleted]
    have hfil : List.filter (fun a => decide (a.1 ∉ g.deleted) && (a.2.list == hd.id)) g.vecs =
        List.filter (fun a => (a.2.list == hd.id) && decide (a.1 ∉ g.deleted)) g.vecs :=
      List.filter_congr (fun p _ => Bool.and_comm _ _)
    rw [hfil]
    apply filterMap_congr'
    intro p hp
    have hpl : p.2.list = hd.id := by
      have := (List.mem_filter.1 hp).2
      simp only [Bool.and_eq_true, beq_iff_eq] at this
      exact this.1
    simp only [scanHit, mm, lift, inject, hpl, hcv, Option.getD_some]

/-- The search of the IVFPQ model: the probed lists are a top-`nprobes` choice of the lists by
    centroid distance, and the answer is an exact top-k of the specification's candidates
    of those lists. -/
theorem searchSingle_topk (ord : m.sc.Ordered) (s : State S) (g : Flat.State (Stored S))
    (h : Rel s g) (hc : s.cents.length = s.nlist) (hne : ∀ cb ∈ s.cbs, cb ≠ [])
    (htr : s.trained = true)
    (l : List (Id × Stored S)) (heff : Flat.eff g = l)
    (hl : ∀ p ∈ l, ∃ x, (mm m A s).pre x = some p.2)
    (q q' : List S) (hq : q.length = s.dim) (hpre : m.pre q = some q')
    (k nprobes : Int) (thr : S) (F : List Id) :
    ∃ probed res, searchSingle m A s q k nprobes thr F = .ok res ∧
      IsTopK m.sc.le nprobes (centroidHits m q' s.cents) probed ∧
      IsTopK m.sc.le k (cands (mm m A s) l probed (inject q') thr F) res := by
  have hlen : (centroidHits m q' s.cents).length = s.nlist := by
    unfold centroidHits; rw [centroidHitsFrom_length, hc]
  refine ⟨selectK m.sc.le nprobes (centroidHits m q' s.cents), ?_⟩
  have hprobe := selectK_isTopK m.sc.le ord.total ord.trans nprobes (centroidHits m q' s.cents)
  have hpid : ∀ x ∈ selectK m.sc.le nprobes (centroidHits m q' s.cents), x.id < s.nlist := by
    intro x hx
    have hx' : x ∈ centroidHits m q' s.cents := by
      have := List.mem_of_mem_take hx
      exact List.mem_mergeSort.1 this
    have := (centroidHitsFrom_id m q' 0 s.cents x hx').2
    exact Nat.lt_of_lt_of_eq this (by omega)
  have hscan := scanProbed_eq m A s g h hc hne l heff hl q' thr F _ hpid
  have hnp : ¬ ((centroidHits m q' s.cents).mergeSort (hitLe m.sc.le)).length <
      clampProbes nprobes s.nlist := by
    rw [List.length_mergeSort, hlen]
    exact Nat.not_lt.2 (sanitizeK_le _ _)
  have hsel : ((centroidHits m q' s.cents).mergeSort (hitLe m.sc.le)).take
      (clampProbes nprobes s.nlist) = selectK m.sc.le nprobes (centroidHits m q' s.cents) := by
    simp [selectK, clampProbes, hlen]
  simp only [searchSingle, htr, hq, Bool.not_true, Bool.false_eq_true, if_false, ne_eq,
    not_true_eq_false, hpre, hnp, hsel, hscan]
  refine ⟨_, rfl, hprobe, ?_⟩
  have := selectK_isTopK m.sc.le ord.total ord.trans k
    (cands (mm m A s) l (selectK m.sc.le nprobes (centroidHits m q' s.cents)) (inject q') thr F)
  simpa [selectK, List.length_mergeSort] using this

end Comet.IVFPQ
