/-
  Specification vocabulary shared by the property files C08 / C09 / C10.
-/
import CometProofs.Storage.VisibleReach
namespace Comet.Storage

/-- `d` carries the modality probed by `q` and the store has a template for it
    (hybridSearchIndex.addInternal indexed it there) -/
def Doc.matches (tpl : Tpl) (d : Doc) : Q → Bool
  | .vec => (infoOf tpl d).hv
  | .txt => (infoOf tpl d).ht
  | .md => (infoOf tpl d).hm

/-- a schedule in which the segment goroutines of a search run one after the other, each
    registered segment exactly once, in any order (what the harness enforces) -/
def SerialFor (s : Store) (sched : List SegEv) : Prop :=
  ∃ order : List Nat, order.Perm (s.segs.map (·.id)) ∧ sched = serialSched order

/-- the search answers, and the answer contains `d` -/
def found (s : Store) (q : Q) (sched : List SegEv) (d : Doc) : Prop :=
  ∃ l, (exec s (.search q sched)).2 = .ids l ∧ d.id ∈ l

theorem reach_init (cfg : Cfg) : Reach cfg (Store.init cfg) := ⟨[], rfl⟩

theorem reach_xexec {cfg : Cfg} {s : Store} (h : Reach cfg s) (x : XStep) : Reach cfg (xexec s x) := by
  obtain ⟨xs, rfl⟩ := h
  exact ⟨xs ++ [x], by simp [xrun, List.foldl_append]⟩

theorem reach_step {cfg : Cfg} {s : Store} (h : Reach cfg s) (st : Step) : Reach cfg (exec s st).1 :=
  reach_xexec h (.step st)

theorem reach_run_from {cfg : Cfg} {s : Store} (h : Reach cfg s) (steps : List Step) :
    Reach cfg (run s steps) := by
  induction steps generalizing s with
  | nil => exact h
  | cons st r ih => exact ih (reach_step h st)

/-- every state produced by ordinary steps from the empty directory is reachable -/
theorem reach_run (cfg : Cfg) (steps : List Step) : Reach cfg (run (Store.init cfg) steps) :=
  reach_run_from (reach_init cfg) steps

theorem reach_xrun {cfg : Cfg} {s : Store} (h : Reach cfg s) (xs : List XStep) : Reach cfg (xrun s xs) := by
  induction xs generalizing s with
  | nil => exact h
  | cons x r ih => exact ih (reach_xexec h x)

/-! ### helpers for the visibility theorem -/

theorem acc_mono (cfg : Cfg) (fs : FS) (q : Q) (sched : List SegEv) (st : SearchSt) (i : Id)
    (h : i ∈ st.acc) : i ∈ (sched.foldl (segEvent cfg fs q) st).acc := by
  induction sched generalizing st with
  | nil => exact h
  | cons ev r ih =>
    simp only [List.foldl_cons]
    apply ih
    cases ev with
    | load id => simp only [segEvent]; split <;> exact h
    | scan id =>
      simp only [segEvent]; split
      · exact List.mem_append_left _ h
      · exact h

theorem matches_has {tpl : Tpl} {d : Doc} {q : Q} (h : Doc.matches tpl d q = true) : tpl.has q = true := by
  cases q <;> simp [Doc.matches, infoOf] at h <;> simp [Tpl.has, h.1]

theorem covered_matchIds {tpl : Tpl} {T : Shared} {d : Doc} {q : Q} (hc : covered tpl T d)
    (h : Doc.matches tpl d q = true) : d.id ∈ T.matchIds q := by
  cases q with
  | vec => exact hc.1 h
  | txt => exact hc.2.1 h
  | md => exact hc.2.2 h

/-- `Close()` as the client sees it when both workers are idle and nothing is buffered:
    closed := true; the compaction worker exits; the flush worker runs its final
    flushMemtables (here: finds nothing frozen); wg.Wait returns; LOCK is removed -/
def closeIdle : List Step := [.close, .bg .cexit, .bg .ffinal, .bg .flist, .closeDone]

/-- the same with `n` frozen memtables to flush in the final round -/
def closeFlushing (n : Nat) : List Step :=
  [.close, .bg .cexit, .bg .ffinal, .bg .flist] ++
  (List.replicate n [Step.bg .fwrite, Step.bg .fremove]).flatten ++ [.closeDone]

end Comet.Storage
