import CometProofs.Storage.DurableAllSteps
namespace Comet.Storage

theorem kInv_xexec {g : Nat} {d : Doc} {s : Store} (inv : IdInv s) (h : KInv g d s) (x : XStep)
    (hx : noSwap x = true) : KInv g d (xexec s x) := by
  cases x with
  | step st =>
    have : st ≠ .bg .cswap := by intro e; subst e; simp [noSwap] at hx
    exact kInv_exec inv h st this
  | crash st k cuts =>
    have hns : st ≠ .bg .cswap := by intro e; subst e; simp [noSwap] at hx
    simp only [xexec]
    split
    · exact ⟨segHolds_crash inv h.holds st hns k cuts, fun ho => by cases ho⟩
    · exact h

theorem kInv_xrun {cfg : Cfg} {g : Nat} {d : Doc} (xs : List XStep) {s : Store} (hr : Reach cfg s)
    (h : KInv g d s) (hx : ∀ x ∈ xs, noSwap x = true) : KInv g d (xrun s xs) := by
  induction xs generalizing s with
  | nil => exact h
  | cons x r ih =>
    simp only [xrun, List.foldl_cons]
    exact ih (reach_xexec hr x) (kInv_xexec (idInv_reach hr) h x (hx x (List.mem_cons_self ..)))
      (fun y hy => hx y (List.mem_cons_of_mem _ hy))

theorem isCached_append_new (segs : List Seg) (g : Nat) (c : Bool) (h : isCached segs g = none) :
    isCached (segs ++ [⟨g, c⟩]) g = some c := by
  induction segs with
  | nil => simp [isCached_cons]
  | cons x r ih =>
    rw [List.cons_append, isCached_cons]
    rw [isCached_cons] at h
    by_cases hx : x.id = g
    · simp [hx] at h
    · simp only [hx, if_false] at h ⊢; exact ih h

theorem flushAll_isCached (l : List Memtable) (s : Store) (g : Nat) (c : Bool) (h : isCached s.segs g = some c) :
    isCached (flushAll s l).segs g = some c := by
  induction l generalizing s with
  | nil => exact h
  | cons m r ih =>
    simp only [flushAll]
    apply ih
    show isCached ((writeSegment s m.info).1.segs ++ [⟨(writeSegment s m.info).2, false⟩]) g = some c
    exact isCached_append_left _ _ _ _ h

theorem isCached_new_none {s : Store} (inv : IdInv s) : isCached s.segs (s.counter + 1) = none := by
  apply isCached_none_of_not_mem
  intro hm
  obtain ⟨x, hx, he⟩ := List.mem_map.mp hm
  have := inv.segsLe x hx
  omega

/-- after a client Flush with a frozen memtable, the new segment `counter+1` satisfies the invariant
    for every document the templates cover -/
theorem kInv_after_flush {s : Store} (inv : IdInv s) (hrun : running s = true) {d : Doc}
    (hc : covered s.cfg.tpl s.T d) (hne : butLast s.mts ≠ []) :
    KInv (s.counter + 1) d (exec s .flush).1 := by
  refine ⟨segHolds_flush inv hrun hc hne, ?_⟩
  intro _
  have hseg : isCached (exec s .flush).1.segs (s.counter + 1) = some false := by
    simp only [exec, execFlush]
    rw [if_neg (by simp [hrun])]
    simp only [flushRotatesMutable, Bool.false_and, Bool.false_eq_true, if_false]
    cases hb : butLast s.mts with
    | nil => exact absurd hb hne
    | cons m rest =>
      simp only [flushAll]
      apply flushAll_isCached
      show isCached ((writeSegment s m.info).1.segs ++ [⟨(writeSegment s m.info).2, false⟩]) (s.counter + 1) = some false
      exact isCached_append_new _ _ _ (isCached_new_none inv)
  refine ⟨⟨false, hseg⟩, ?_⟩
  intro _ _ hcached
  rw [hseg] at hcached
  simp at hcached

theorem kInv_after_fwrite {s : Store} (inv : IdInv s) {f : Bool} {m : Memtable} {rest : List Memtable}
    (hfw : s.fw = .todo f (m :: rest)) {d : Doc} (hc : covered s.cfg.tpl s.T d) :
    KInv (s.counter + 1) d (exec s (.bg .fwrite)).1 := by
  refine ⟨segHolds_fwrite hfw hc, ?_⟩
  intro _
  have hseg : isCached (exec s (.bg .fwrite)).1.segs (s.counter + 1) = some false := by
    simp only [exec, execBg, hfw]
    show isCached ((writeSegment s m.info).1.segs ++ [⟨(writeSegment s m.info).2, false⟩]) (s.counter + 1) = some false
    exact isCached_append_new _ _ _ (isCached_new_none inv)
  refine ⟨⟨false, hseg⟩, ?_⟩
  intro _ _ hcached
  rw [hseg] at hcached
  simp at hcached

/-- in a state satisfying the invariant, with no lossy load so far and `d` not removed, EVERY
    serialised search finds `d` -/
theorem found_of_kInv {g : Nat} {d : Doc} {s : Store} (hv : VisInv s) (h : KInv g d s)
    (hrun : running s = true) (hl : s.gh.loadLost = false) (hr : d.id ∉ s.gh.removed)
    (q : Q) (hm : Doc.matches s.cfg.tpl d q = true) (sched : List SegEv) (hs : SerialFor s sched) :
    found s q sched d := by
  have ho : s.opened = true := by
    unfold running at hrun; cases hop : s.opened <;> simp [hop] at hrun ⊢
  obtain ⟨⟨b, hb⟩, hc⟩ := h.core ho
  cases b with
  | true =>
    have hcov := hc hl hr hb
    have hmem := covered_matchIds hcov hm
    have hne := hv.mtsNe ho
    unfold found
    simp only [exec, execSearch]
    rw [if_neg (by simp [hrun]), if_neg (by simp [matches_has hm])]
    refine ⟨_, rfl, ?_⟩
    apply List.mem_eraseDups.mpr
    apply acc_mono
    simp only
    cases hmts : s.mts with
    | nil => exact absurd hmts hne
    | cons m r => simp [hmem]
  | false =>
    obtain ⟨order, hperm, rfl⟩ := hs
    exact found_of_holds hrun h.holds hm hb order (hperm.symm.subset (isCached_some_mem _ _ _ hb))

end Comet.Storage
