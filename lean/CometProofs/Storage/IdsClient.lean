import CometProofs.Storage.IdsWrite
namespace Comet.Storage

/-! ### steps that do not touch directory, counter, segment ids or the compaction worker -/

theorem setCached_ids (segs : List Seg) (id : Nat) (c : Bool) :
    (setCached segs id c).map (·.id) = segs.map (·.id) := by
  unfold setCached
  rw [List.map_map]
  apply List.map_congr_left
  intro g _
  simp only [Function.comp]
  split <;> rfl

theorem segEvent_frame (cfg : Cfg) (fs : FS) (q : Q) (st : SearchSt) (ev : SegEv) :
    (segEvent cfg fs q st ev).segs.map (·.id) = st.segs.map (·.id) ∧
    (segEvent cfg fs q st ev).gh.everNamed = st.gh.everNamed ∧
    (segEvent cfg fs q st ev).gh.overwrote = st.gh.overwrote ∧
    (segEvent cfg fs q st ev).gh.reused = st.gh.reused := by
  cases ev with
  | load id =>
    simp only [segEvent]
    split
    · split <;> simp [setCached_ids]
    · simp
  | scan id =>
    simp only [segEvent]
    split <;> simp

theorem searchFold_frame (cfg : Cfg) (fs : FS) (q : Q) (sched : List SegEv) (st : SearchSt) :
    (sched.foldl (segEvent cfg fs q) st).segs.map (·.id) = st.segs.map (·.id) ∧
    (sched.foldl (segEvent cfg fs q) st).gh.everNamed = st.gh.everNamed ∧
    (sched.foldl (segEvent cfg fs q) st).gh.overwrote = st.gh.overwrote ∧
    (sched.foldl (segEvent cfg fs q) st).gh.reused = st.gh.reused := by
  induction sched generalizing st with
  | nil => simp
  | cons ev r ih =>
    simp only [List.foldl_cons]
    obtain ⟨a, b, c, d⟩ := ih (segEvent cfg fs q st ev)
    obtain ⟨a', b', c', d'⟩ := segEvent_frame cfg fs q st ev
    exact ⟨a.trans a', b.trans b', c.trans c', d.trans d'⟩

theorem idInv_search {s : Store} (h : IdInv s) (q : Q) (sched : List SegEv) :
    IdInv (execSearch s q sched).1 := by
  unfold execSearch
  split
  · exact h
  · split
    · exact h
    · obtain ⟨a, b, c, d⟩ := searchFold_frame s.cfg s.fs q sched
        ⟨s.T, s.segs, (s.mts.flatMap fun _ => s.T.matchIds q), 0, s.gh⟩
      exact idInv_congr h rfl rfl rfl a rfl (fun _ => rfl) b c d

theorem idInv_add {s : Store} (h : IdInv s) (d : Doc) : IdInv (execAdd s d).1 := by
  unfold execAdd
  split
  · exact h
  · split <;> exact idInv_congr h rfl rfl rfl rfl rfl (fun _ => rfl) rfl rfl rfl

theorem idInv_remove {s : Store} (h : IdInv s) (id : Id) : IdInv (execRemove s id).1 := by
  unfold execRemove
  split
  · exact h
  · split
    · exact h
    · split
      · exact h
      · split
        · exact h
        · exact h
        · exact idInv_congr h rfl rfl rfl rfl rfl (fun _ => rfl) rfl rfl rfl

theorem running_opened {s : Store} (h : (!running s) = false) : s.opened = true := by
  unfold running at h
  cases ho : s.opened <;> simp [ho] at h ⊢

theorem idInv_flush {s : Store} (h : IdInv s) : IdInv (execFlush s).1 := by
  unfold execFlush
  split
  · exact h
  · rename_i hr
    have ho := running_opened (by simpa using hr)
    simp only [flushRotatesMutable, Bool.false_and, Bool.false_eq_true, if_false]
    exact idInv_congr (idInv_flushAll h ho _) rfl rfl rfl rfl rfl (fun _ => rfl) rfl rfl rfl

end Comet.Storage
