import CometProofs.Storage.DurableKeep
namespace Comet.Storage

/-- an extended step that is neither the compaction's swap-and-delete nor a crash inside it -/
def noSwap : XStep → Bool
  | .step (.bg .cswap) => false
  | .crash (.bg .cswap) _ _ => false
  | _ => true

theorem xexec_cfg (s : Store) (x : XStep) : (xexec s x).cfg = s.cfg := by
  cases x with
  | step st => exact exec_cfg s st
  | crash st k cuts => simp only [xexec]; split <;> rfl

theorem segHolds_xexec {s : Store} (inv : IdInv s) {g : Nat} {d : Doc} (h : SegHolds s.cfg.tpl s.fs g d)
    (x : XStep) (hx : noSwap x = true) : SegHolds (xexec s x).cfg.tpl (xexec s x).fs g d := by
  cases x with
  | step st =>
    have : st ≠ .bg .cswap := by intro e; subst e; simp [noSwap] at hx
    exact segHolds_exec inv h st this
  | crash st k cuts =>
    have hns : st ≠ .bg .cswap := by intro e; subst e; simp [noSwap] at hx
    simp only [xexec]
    split
    · exact segHolds_crash inv h st hns k cuts
    · exact h

theorem segHolds_xrun {cfg : Cfg} (xs : List XStep) {s : Store} (hr : Reach cfg s) {g : Nat} {d : Doc}
    (h : SegHolds s.cfg.tpl s.fs g d) (hx : ∀ x ∈ xs, noSwap x = true) :
    SegHolds (xrun s xs).cfg.tpl (xrun s xs).fs g d := by
  induction xs generalizing s with
  | nil => exact h
  | cons x r ih =>
    simp only [xrun, List.foldl_cons]
    exact ih (reach_xexec hr x) (segHolds_xexec (idInv_reach hr) h x (hx x (List.mem_cons_self ..)))
      (fun y hy => hx y (List.mem_cons_of_mem _ hy))

theorem isCached_fresh (l : List Nat) (g : Nat) (h : g ∈ l) :
    isCached (l.map fun i => (⟨i, false⟩ : Seg)) g = some false := by
  induction l with
  | nil => cases h
  | cons x r ih =>
    rw [List.map_cons, isCached_cons]
    by_cases hx : x = g
    · simp [hx]
    · simp only [hx, if_false]
      rcases List.mem_cons.mp h with h | h
      · exact absurd h.symm hx
      · exact ih h

/-- a store opened (with fresh templates) on a directory holding a complete segment with `d`
    finds `d` in its first search, whatever else the directory contains -/
theorem found_after_open {cfg : Cfg} {fs : FS} {gh : Ghost} {g : Nat} {d : Doc} {q : Q}
    (h : SegHolds cfg.tpl fs g d) (hm : Doc.matches cfg.tpl d q = true)
    (hrun : running (openOn cfg fs Shared.empty gh).1 = true)
    (sched : List SegEv) (hs : SerialFor (openOn cfg fs Shared.empty gh).1 sched) :
    found (openOn cfg fs Shared.empty gh).1 q sched d := by
  unfold openOn at hrun hs ⊢
  split at hrun
  · simp [running] at hrun
  · rename_i hlock
    simp only [hlock, Bool.false_eq_true, if_false] at hs ⊢
    obtain ⟨order, hperm, rfl⟩ := hs
    have hfs : SegHolds cfg.tpl (FS.put fs .lock ⟨.lock, .full⟩) g d :=
      segHolds_congr h (fun k => find_put_ne _ _ _ _ (by intro e; cases e))
    have hg : g ∈ listSegments (FS.put fs .lock ⟨.lock, .full⟩) :=
      (mem_listSegments _ _).mpr (segHolds_mem_segIds hfs).2
    apply found_of_holds (s := _) hrun hfs hm
    · exact isCached_fresh _ _ hg
    · apply hperm.symm.subset
      simp only [List.map_map]
      exact List.mem_map.mpr ⟨g, hg, rfl⟩

end Comet.Storage

namespace Comet.Storage

theorem reach_cfg {cfg : Cfg} {s : Store} (h : Reach cfg s) : s.cfg = cfg := by
  obtain ⟨xs, rfl⟩ := h
  suffices ∀ s : Store, (xrun s xs).cfg = s.cfg by
    rw [this]; unfold Store.init openOn; split <;> rfl
  induction xs with
  | nil => intro s; rfl
  | cons x r ih => intro s; simp only [xrun, List.foldl_cons]; exact (ih _).trans (xexec_cfg s x)

/-- the client Flush of a store with at least one frozen memtable writes a complete segment that
    holds every document the shared templates cover -/
theorem segHolds_flush {s : Store} (inv : IdInv s) (hrun : running s = true) {d : Doc}
    (hc : covered s.cfg.tpl s.T d) (hne : butLast s.mts ≠ []) :
    SegHolds (exec s .flush).1.cfg.tpl (exec s .flush).1.fs (s.counter + 1) d := by
  rw [exec_cfg, exec_fs_eq]
  simp only [fsStepsOf, hrun, if_true, flushRotatesMutable, Bool.false_and, Bool.false_eq_true, if_false]
  cases hb : butLast s.mts with
  | nil => exact absurd hb hne
  | cons m rest =>
    simp only [flushStepsFrom]
    rw [applySteps_append]
    have h1 : SegHolds s.cfg.tpl (applySteps s.fs (writeSteps s.cfg.tpl (s.counter + 1) m.info s.T.flush)) (s.counter + 1) d :=
      segHolds_writeSegment (s := s) m.info hc
    apply segHolds_congr h1
    intro k
    apply find_applySteps_untouched
    intro ht
    obtain ⟨k', i, hi, he⟩ := touched_flushStepsFrom _ _ _ _ _ ht
    injection he with _ h2
    omega

/-- the flush worker's write step does the same -/
theorem segHolds_fwrite {s : Store} {f : Bool} {m : Memtable} {rest : List Memtable}
    (hfw : s.fw = .todo f (m :: rest)) {d : Doc} (hc : covered s.cfg.tpl s.T d) :
    SegHolds (exec s (.bg .fwrite)).1.cfg.tpl (exec s (.bg .fwrite)).1.fs (s.counter + 1) d := by
  rw [exec_cfg, exec_fs_eq]
  simp only [fsStepsOf, hfw]
  exact segHolds_writeSegment (s := s) m.info hc

end Comet.Storage
