import CometProofs.Storage.Basic
namespace Comet.Storage

/-- names removed by a list of steps -/
def removedBy : List FsStep → List Name
  | [] => []
  | .remove n :: r => n :: removedBy r
  | _ :: r => removedBy r

theorem names_applyStep_sub (fs : FS) (st : FsStep) (m : Name) (h : m ∈ FS.names (applyStep fs st)) :
    m ∈ FS.names fs ∨ m ∈ createdBy [st] := by
  cases st with
  | create n p =>
    simp only [applyStep] at h
    rcases (names_put _ _ _ _).mp h with h | h
    · exact .inl h
    · exact .inr (by simp [createdBy, h])
  | complete n => rw [names_complete] at h; exact .inl h
  | remove n =>
    simp only [applyStep] at h
    exact .inl ((names_erase _ _ _).mp h).1

theorem createdBy_cons (st : FsStep) (r : List FsStep) : createdBy (st :: r) = createdBy [st] ++ createdBy r := by
  cases st <;> simp [createdBy]

theorem removedBy_cons (st : FsStep) (r : List FsStep) : removedBy (st :: r) = removedBy [st] ++ removedBy r := by
  cases st <;> simp [removedBy]

theorem createdBy_append (a b : List FsStep) : createdBy (a ++ b) = createdBy a ++ createdBy b := by
  induction a with
  | nil => simp [createdBy]
  | cons st r ih => rw [List.cons_append, createdBy_cons, ih, createdBy_cons st r, List.append_assoc]

theorem removedBy_append (a b : List FsStep) : removedBy (a ++ b) = removedBy a ++ removedBy b := by
  induction a with
  | nil => simp [removedBy]
  | cons st r ih => rw [List.cons_append, removedBy_cons, ih, removedBy_cons st r, List.append_assoc]

/-- after any steps, a name is an old one or a created one -/
theorem names_applySteps_sub (steps : List FsStep) (fs : FS) (m : Name)
    (h : m ∈ FS.names (applySteps fs steps)) : m ∈ FS.names fs ∨ m ∈ createdBy steps := by
  induction steps generalizing fs with
  | nil => exact .inl h
  | cons st r ih =>
    simp only [applySteps, List.foldl_cons] at h
    rcases ih _ h with h | h
    · rcases names_applyStep_sub _ _ _ h with h | h
      · exact .inl h
      · exact .inr (by rw [createdBy_cons]; exact List.mem_append_left _ h)
    · exact .inr (by rw [createdBy_cons]; exact List.mem_append_right _ h)

theorem names_applyStep_keep (fs : FS) (st : FsStep) (m : Name) (h : m ∈ FS.names fs)
    (hr : m ∉ removedBy [st]) : m ∈ FS.names (applyStep fs st) := by
  cases st with
  | create n p => simp only [applyStep]; exact (names_put _ _ _ _).mpr (.inl h)
  | complete n => rw [names_complete]; exact h
  | remove n =>
    simp only [applyStep]
    refine (names_erase _ _ _).mpr ⟨h, ?_⟩
    intro e; apply hr; simp [removedBy, e]

/-- a name that is not removed survives -/
theorem names_applySteps_keep (steps : List FsStep) (fs : FS) (m : Name) (h : m ∈ FS.names fs)
    (hr : m ∉ removedBy steps) : m ∈ FS.names (applySteps fs steps) := by
  induction steps generalizing fs with
  | nil => exact h
  | cons st r ih =>
    simp only [applySteps, List.foldl_cons]
    rw [removedBy_cons] at hr
    apply ih
    · exact names_applyStep_keep _ _ _ h (fun x => hr (List.mem_append_left _ x))
    · exact fun x => hr (List.mem_append_right _ x)

theorem names_applyStep_created (fs : FS) (n : Name) (p : Payload) : n ∈ FS.names (applyStep fs (.create n p)) := by
  simp only [applyStep]; exact (names_put _ _ _ _).mpr (.inr rfl)

/-- a created name that is not removed later exists afterwards -/
theorem names_applySteps_created (steps : List FsStep) (fs : FS) (m : Name) (h : m ∈ createdBy steps)
    (hr : removedBy steps = []) : m ∈ FS.names (applySteps fs steps) := by
  induction steps generalizing fs with
  | nil => simp [createdBy] at h
  | cons st r ih =>
    simp only [applySteps, List.foldl_cons]
    rw [removedBy_cons] at hr
    have hr1 : removedBy [st] = [] := (List.append_eq_nil_iff.mp hr).1
    have hr2 : removedBy r = [] := (List.append_eq_nil_iff.mp hr).2
    rw [createdBy_cons] at h
    rcases List.mem_append.mp h with h | h
    · cases st with
      | create n p =>
        simp [createdBy] at h; subst h
        exact names_applySteps_keep _ _ _ (names_applyStep_created _ _ _) (by simp [hr2])
      | complete n => simp [createdBy] at h
      | remove n => simp [createdBy] at h
    · exact ih _ h hr2

/-! ### the steps of a segment write -/

theorem createdBy_map_create (l : List Kind) (f : Kind → Name) (g : Kind → Payload) :
    createdBy (l.map fun k => FsStep.create (f k) (g k)) = l.map f := by
  induction l with
  | nil => rfl
  | cons k r ih => simp [createdBy, ih]

theorem createdBy_map_complete (l : List Kind) (f : Kind → Name) :
    createdBy (l.map fun k => FsStep.complete (f k)) = [] := by
  induction l with
  | nil => rfl
  | cons k r ih => simp [createdBy, ih]

theorem removedBy_map_create (l : List Kind) (f : Kind → Name) (g : Kind → Payload) :
    removedBy (l.map fun k => FsStep.create (f k) (g k)) = [] := by
  induction l with
  | nil => rfl
  | cons k r ih => simp [removedBy, ih]

theorem removedBy_map_complete (l : List Kind) (f : Kind → Name) :
    removedBy (l.map fun k => FsStep.complete (f k)) = [] := by
  induction l with
  | nil => rfl
  | cons k r ih => simp [removedBy, ih]

theorem createdBy_writeSteps (tpl : Tpl) (id : Nat) (info : List Info) (T : Shared) :
    createdBy (writeSteps tpl id info T) = (comps tpl).map fun k => Name.seg k id := by
  unfold writeSteps
  rw [createdBy_append, createdBy_map_create, createdBy_map_complete, List.append_nil]

theorem removedBy_writeSteps (tpl : Tpl) (id : Nat) (info : List Info) (T : Shared) :
    removedBy (writeSteps tpl id info T) = [] := by
  unfold writeSteps
  rw [removedBy_append, removedBy_map_create, removedBy_map_complete]; rfl

theorem hybrid_mem_comps (tpl : Tpl) : Kind.hybrid ∈ comps tpl := by
  unfold comps; simp

/-- segment ids after a segment write: the old ones and the new one -/
theorem segIds_writeSteps (fs : FS) (tpl : Tpl) (id : Nat) (info : List Info) (T : Shared) (i : Nat) :
    i ∈ FS.segIds (applySteps fs (writeSteps tpl id info T)) ↔ i ∈ FS.segIds fs ∨ i = id := by
  rw [mem_segIds, mem_segIds]
  constructor
  · rintro ⟨k, hk⟩
    rcases names_applySteps_sub _ _ _ hk with h | h
    · exact .inl ⟨k, h⟩
    · rw [createdBy_writeSteps] at h
      simp only [List.mem_map] at h
      obtain ⟨k', _, hk'⟩ := h
      injection hk' with _ h2
      exact .inr h2.symm
  · rintro (⟨k, hk⟩ | rfl)
    · exact ⟨k, names_applySteps_keep _ _ _ hk (by rw [removedBy_writeSteps]; simp)⟩
    · refine ⟨.hybrid, names_applySteps_created _ _ _ ?_ (removedBy_writeSteps ..)⟩
      rw [createdBy_writeSteps]
      exact List.mem_map.mpr ⟨_, hybrid_mem_comps tpl, rfl⟩

/-- a step list whose creates all carry a name that is absent and pairwise distinct overwrites nothing -/
theorem overwrites_false (steps : List FsStep) (fs : FS)
    (hnew : ∀ n ∈ createdBy steps, n ∉ FS.names fs) (hnd : (createdBy steps).Nodup) :
    overwrites fs steps = false := by
  induction steps generalizing fs with
  | nil => rfl
  | cons st r ih =>
    simp only [overwrites, Bool.or_eq_false_iff]
    rw [createdBy_cons] at hnew hnd
    constructor
    · cases st with
      | create n p =>
        simp only
        cases hh : FS.has fs n with
        | false => rfl
        | true => exact absurd ((has_iff _ _).mp hh) (hnew n (by simp [createdBy]))
      | complete n => rfl
      | remove n => rfl
    · apply ih
      · intro n hn hmem
        rcases names_applyStep_sub _ _ _ hmem with h | h
        · exact hnew n (List.mem_append_right _ hn) h
        · exact (List.nodup_append.mp hnd).2.2 n h n hn rfl
      · exact (List.nodup_append.mp hnd).2.1

theorem comps_nodup (tpl : Tpl) : (comps tpl).Nodup := by
  unfold comps
  cases tpl.vec <;> cases tpl.txt <;> cases tpl.md <;> decide

theorem overwrites_writeSteps (fs : FS) (tpl : Tpl) (id : Nat) (info : List Info) (T : Shared)
    (h : id ∉ FS.segIds fs) : overwrites fs (writeSteps tpl id info T) = false := by
  apply overwrites_false
  · intro n hn hmem
    rw [createdBy_writeSteps] at hn
    obtain ⟨k, _, rfl⟩ := List.mem_map.mp hn
    exact h ((mem_segIds _ _).mpr ⟨k, hmem⟩)
  · rw [createdBy_writeSteps]
    exact List.Pairwise.map _ (fun a b hab h => hab (by injection h)) (comps_nodup tpl)

end Comet.Storage
