import CometProofs.Storage.PhantomReach
namespace Comet.Storage

/-! ## visibility of acknowledged writes while no load loses live content -/

/-- `d` is live in every sub-index it was added to -/
def covered (tpl : Tpl) (T : Shared) (d : Doc) : Prop :=
  ((infoOf tpl d).hv = true → d.id ∈ T.v.live) ∧
  ((infoOf tpl d).ht = true → d.id ∈ T.x.live) ∧
  ((infoOf tpl d).hm = true → d.id ∈ T.m.all)

/-- per-modality inclusion of live entries -/
def LiveSub (T T' : Shared) : Prop :=
  (∀ i ∈ T.v.live, i ∈ T'.v.live) ∧ (∀ i ∈ T.x.live, i ∈ T'.x.live) ∧ (∀ i ∈ T.m.all, i ∈ T'.m.all)

theorem covered_mono {tpl : Tpl} {T T' : Shared} {d : Doc} (h : covered tpl T d) (hl : LiveSub T T') :
    covered tpl T' d :=
  ⟨fun a => hl.1 _ (h.1 a), fun a => hl.2.1 _ (h.2.1 a), fun a => hl.2.2 _ (h.2.2 a)⟩

theorem coversLive_liveSub {T T' : Shared} (h : T'.coversLive T = true) : LiveSub T T' := by
  unfold Shared.coversLive at h
  simp only [Bool.and_eq_true, List.all_eq_true, List.contains_iff_mem] at h
  exact ⟨h.1.1, h.1.2, h.2⟩

theorem mem_vlive (v : VecIx) (i : Id) : i ∈ v.live ↔ i ∈ v.stored ∧ i ∉ v.deleted := by
  unfold VecIx.live; simp [List.mem_filter]

theorem mem_xlive (x : TxtIx) (i : Id) : i ∈ x.live ↔ i ∈ x.docs ∧ i ∉ x.deleted := by
  unfold TxtIx.live; simp [List.mem_filter]

theorem liveSub_flush (T : Shared) : LiveSub T T.flush := by
  refine ⟨?_, ?_, fun i h => h⟩
  · intro i hi; rw [mem_vlive]; exact ⟨hi, by simp [Shared.flush]⟩
  · intro i hi; rw [mem_xlive]; exact ⟨hi, by simp [Shared.flush]⟩

theorem liveSub_add (T : Shared) (i : Info) : LiveSub T (T.add i) := by
  unfold Shared.add
  refine ⟨?_, ?_, ?_⟩
  · intro j hj
    simp only
    split
    · split
      · rw [mem_vlive]; simp only [List.mem_append, List.mem_singleton]
        exact ⟨.inl hj, by simp⟩
      · rw [mem_vlive] at hj ⊢
        exact ⟨List.mem_append_left _ hj.1, hj.2⟩
    · exact hj
  · intro j hj
    simp only
    split
    · rw [mem_xlive] at hj ⊢
      simp only
      constructor
      · split
        · exact hj.1
        · exact List.mem_append_left _ hj.1
      · intro hm; exact hj.2 (List.mem_filter.mp hm).1
    · exact hj
  · intro j hj
    simp only
    split
    · split
      · exact hj
      · exact List.mem_append_left _ hj
    · exact hj

theorem covered_add_self (tpl : Tpl) (T : Shared) (d : Doc) : covered tpl (T.add (infoOf tpl d)) d := by
  have hid : (infoOf tpl d).id = d.id := rfl
  unfold Shared.add
  refine ⟨?_, ?_, ?_⟩
  · intro hv
    simp only [hv, if_true]
    split
    · rw [mem_vlive]; simp [hid]
    · rename_i hc
      rw [mem_vlive]
      refine ⟨by simp [hid], ?_⟩
      intro hm; apply hc; rw [hid]; simpa using hm
  · intro ht
    simp only [ht, if_true]
    rw [mem_xlive]
    simp only
    constructor
    · split
      · rename_i hc; rw [hid] at hc; simpa using hc
      · simp [hid]
    · intro hm
      have := (List.mem_filter.mp hm).2
      simp [hid] at this
  · intro hm
    simp only [hm, if_true]
    split
    · rename_i hc; rw [hid] at hc; simpa using hc
    · simp [hid]

/-- a successful remove of `i` keeps every other id live -/
theorem remove_keeps {T T' : Shared} (i : Info) (hr : T.remove i = .ok T') (tpl : Tpl) (d : Doc)
    (hne : d.id ≠ i.id) (h : covered tpl T d) : covered tpl T' d := by
  unfold Shared.remove at hr
  split at hr
  · cases hr
  · split at hr
    · cases hr
    · injection hr with hr
      subst hr
      refine ⟨?_, ?_, ?_⟩
      · intro a
        have := h.1 a
        simp only
        split
        · rw [mem_vlive] at this ⊢
          refine ⟨this.1, ?_⟩
          simp only [List.mem_cons, not_or]
          exact ⟨hne, this.2⟩
        · exact this
      · intro a
        have := h.2.1 a
        simp only
        split
        · rw [mem_xlive] at this ⊢
          refine ⟨this.1, ?_⟩
          simp only [List.mem_cons, not_or]
          exact ⟨hne, this.2⟩
        · exact this
      · intro a
        have := h.2.2 a
        simp only
        split
        · exact List.mem_filter.mpr ⟨this, by simpa using hne⟩
        · exact this

end Comet.Storage
