import CometProofs.Storage.PhantomBase
namespace Comet.Storage

/-! ### file-system steps keep file contents inside the acknowledged ids -/

/-- the payloads of the `create` steps -/
def createdPayloads : List FsStep → List Payload
  | [] => []
  | .create _ p :: r => p :: createdPayloads r
  | _ :: r => createdPayloads r

theorem createdPayloads_append (a b : List FsStep) :
    createdPayloads (a ++ b) = createdPayloads a ++ createdPayloads b := by
  induction a with
  | nil => rfl
  | cons st r ih => cases st <;> simp [createdPayloads, ih]

theorem createdPayloads_take_sub (l : List FsStep) (k : Nat) (p : Payload)
    (h : p ∈ createdPayloads (l.take k)) : p ∈ createdPayloads l := by
  induction l generalizing k with
  | nil => simp [createdPayloads] at h
  | cons st r ih =>
    cases k with
    | zero => simp [createdPayloads] at h
    | succ k =>
      rw [List.take_succ_cons] at h
      cases st with
      | create n q =>
        simp only [createdPayloads, List.mem_cons] at h ⊢
        rcases h with h | h
        · exact .inl h
        · exact .inr (ih _ h)
      | complete n => simp only [createdPayloads] at h ⊢; exact ih _ h
      | remove n => simp only [createdPayloads] at h ⊢; exact ih _ h

theorem fsub_erase {A : List Id} {fs : FS} (h : FSub A fs) (n : Name) : FSub A (FS.erase fs n) :=
  fun e he i hi => h e (List.mem_filter.mp he).1 i hi

theorem fsub_applyStep {A : List Id} {fs : FS} (h : FSub A fs) (st : FsStep)
    (hp : ∀ p ∈ createdPayloads [st], ∀ i ∈ p.content, i ∈ A) : FSub A (applyStep fs st) := by
  cases st with
  | create n p =>
    simp only [applyStep, FS.put]
    intro e he i hi
    rcases List.mem_append.mp he with he | he
    · exact fsub_erase h n e he i hi
    · simp only [List.mem_singleton] at he; subst he
      exact hp p (by simp [createdPayloads]) i hi
  | complete n =>
    simp only [applyStep]
    intro e he i hi
    obtain ⟨e0, he0, rfl⟩ := List.mem_map.mp he
    split at hi
    · exact h e0 he0 i hi
    · exact h e0 he0 i hi
  | remove n => exact fsub_erase h n

theorem fsub_applySteps {A : List Id} (steps : List FsStep) {fs : FS} (h : FSub A fs)
    (hp : ∀ p ∈ createdPayloads steps, ∀ i ∈ p.content, i ∈ A) : FSub A (applySteps fs steps) := by
  induction steps generalizing fs with
  | nil => exact h
  | cons st r ih =>
    simp only [applySteps, List.foldl_cons]
    have e : createdPayloads (st :: r) = createdPayloads [st] ++ createdPayloads r := by
      cases st <;> simp [createdPayloads]
    apply ih
    · exact fsub_applyStep h st (fun p hpm => hp p (by rw [e]; exact List.mem_append_left _ hpm))
    · exact fun p hpm => hp p (by rw [e]; exact List.mem_append_right _ hpm)

theorem fsub_recut {A : List Id} {fs : FS} (h : FSub A fs) (created : List Name) (cuts : Name → Cut) :
    FSub A (recut created cuts fs) := by
  intro e he i hi
  unfold recut at he
  obtain ⟨e0, he0, rfl⟩ := List.mem_map.mp he
  split at hi
  · exact h e0 he0 i hi
  · exact h e0 he0 i hi

theorem createdPayloads_writeSteps {A : List Id} (tpl : Tpl) (id : Nat) (info : List Info) (T : Shared)
    (h : Sub A T) : ∀ p ∈ createdPayloads (writeSteps tpl id info T), ∀ i ∈ p.content, i ∈ A := by
  intro p hp i hi
  unfold writeSteps at hp
  rw [createdPayloads_append] at hp
  have h2 : ∀ l : List Kind, createdPayloads (l.map fun k => FsStep.complete (Name.seg k id)) = [] := by
    intro l; induction l with
    | nil => rfl
    | cons k r ih => simp [createdPayloads, ih]
  rw [h2, List.append_nil] at hp
  have h1 : ∀ l : List Kind, ∀ p ∈ createdPayloads (l.map fun k => FsStep.create (Name.seg k id) (match k with
      | .hybrid => Payload.hybrid tpl info
      | .vector => .vector T.v.stored
      | .text => .text T.x.docs
      | .metadata => .mdata T.m.all)), ∀ i ∈ p.content, i ∈ A := by
    intro l
    induction l with
    | nil => intro p hp; simp [createdPayloads] at hp
    | cons k r ih =>
      intro p hp i hi
      simp only [List.map_cons, createdPayloads, List.mem_cons] at hp
      rcases hp with rfl | hp
      · cases k
        · simp [Payload.content] at hi
        · exact h i ((mem_ids _ _).mpr (.inl hi))
        · exact h i ((mem_ids _ _).mpr (.inr (.inl hi)))
        · exact h i ((mem_ids _ _).mpr (.inr (.inr hi)))
      · exact ih p hp i hi
  exact h1 _ p hp i hi

/-! ### the invariant -/

structure PhInv (s : Store) : Prop where
  T : Sub (ackedIds s) s.T
  fs : FSub (ackedIds s) s.fs

theorem phInv_writeSegment {s : Store} (h : PhInv s) (info : List Info) : PhInv (writeSegment s info).1 := by
  constructor
  · exact sub_flush h.T
  · show FSub (ackedIds s) (applySteps s.fs (writeSteps s.cfg.tpl (s.counter + 1) info s.T.flush))
    exact fsub_applySteps _ h.fs (createdPayloads_writeSteps _ _ _ _ (sub_flush h.T))

theorem phInv_flushOne {s : Store} (h : PhInv s) (m : Memtable) : PhInv (flushOne s m).1 := by
  have := phInv_writeSegment h m.info
  exact ⟨this.T, this.fs⟩

theorem phInv_flushAll {s : Store} (h : PhInv s) (l : List Memtable) : PhInv (flushAll s l) := by
  induction l generalizing s with
  | nil => exact h
  | cons m r ih =>
    simp only [flushAll]
    apply ih
    have := phInv_flushOne h m
    exact ⟨this.T, this.fs⟩

/-- the fold of a search keeps shared content and accumulated answer inside `A` -/
theorem searchFold_sub {A : List Id} (cfg : Cfg) (fs : FS) (q : Q) (hfs : FSub A fs)
    (sched : List SegEv) (st : SearchSt) (hT : Sub A st.T) (hacc : ∀ i ∈ st.acc, i ∈ A) :
    Sub A (sched.foldl (segEvent cfg fs q) st).T ∧ ∀ i ∈ (sched.foldl (segEvent cfg fs q) st).acc, i ∈ A := by
  induction sched generalizing st with
  | nil => exact ⟨hT, hacc⟩
  | cons ev r ih =>
    simp only [List.foldl_cons]
    apply ih
    · cases ev with
      | load id =>
        simp only [segEvent]
        split
        · exact sub_loadSeg _ _ _ _ hT hfs
        · exact hT
      | scan id =>
        simp only [segEvent]
        split <;> exact hT
    · cases ev with
      | load id =>
        simp only [segEvent]
        split <;> exact hacc
      | scan id =>
        simp only [segEvent]
        split
        · intro i hi
          rcases List.mem_append.mp hi with hi | hi
          · exact hacc i hi
          · exact hT i (matchIds_sub _ _ _ hi)
        · exact hacc

theorem search_acc0_sub {A : List Id} (s : Store) (q : Q) (hT : Sub A s.T) :
    ∀ i ∈ (s.mts.flatMap fun _ => s.T.matchIds q), i ∈ A := by
  intro i hi
  obtain ⟨_, _, hi⟩ := List.mem_flatMap.mp hi
  exact hT i (matchIds_sub _ _ _ hi)

theorem searchFold_acked (cfg : Cfg) (fs : FS) (q : Q) (sched : List SegEv) (st : SearchSt) :
    (sched.foldl (segEvent cfg fs q) st).gh.acked = st.gh.acked := by
  induction sched generalizing st with
  | nil => rfl
  | cons ev r ih =>
    simp only [List.foldl_cons]
    rw [ih]
    cases ev with
    | load id => simp only [segEvent]; split <;> rfl
    | scan id => simp only [segEvent]; split <;> rfl

theorem execSearch_acked (s : Store) (q : Q) (sched : List SegEv) :
    ackedIds (execSearch s q sched).1 = ackedIds s := by
  unfold execSearch ackedIds
  split
  · rfl
  · split
    · rfl
    · simp only
      rw [searchFold_acked]

theorem phInv_search {s : Store} (h : PhInv s) (q : Q) (sched : List SegEv) :
    PhInv (execSearch s q sched).1 := by
  have hA := execSearch_acked s q sched
  constructor
  · rw [hA]
    unfold execSearch
    split
    · exact h.T
    · split
      · exact h.T
      · exact (searchFold_sub s.cfg s.fs q h.fs sched
          ⟨s.T, s.segs, (s.mts.flatMap fun _ => s.T.matchIds q), 0, s.gh⟩ h.T (search_acc0_sub s q h.T)).1
  · rw [hA]
    unfold execSearch
    split
    · exact h.fs
    · split
      · exact h.fs
      · exact h.fs

/-- the answer of a search contains acknowledged ids only -/
theorem search_result_sub {s : Store} (h : PhInv s) (q : Q) (sched : List SegEv) (l : List Id)
    (hr : (execSearch s q sched).2.1 = .ids l) : ∀ i ∈ l, i ∈ ackedIds s := by
  unfold execSearch at hr
  split at hr
  · cases hr
  · split at hr
    · cases hr
    · have := searchFold_sub s.cfg s.fs q h.fs sched
        ⟨s.T, s.segs, (s.mts.flatMap fun _ => s.T.matchIds q), 0, s.gh⟩ h.T (search_acc0_sub s q h.T)
      simp only at hr
      injection hr with hr
      intro i hi
      rw [← hr] at hi
      exact this.2 i (List.mem_eraseDups.mp hi)

end Comet.Storage
