import CometProofs.Storage.IdsReach
namespace Comet.Storage

/-! ## no phantom ids: everything a search can see was acknowledged by an add -/

/-- document ids a component file publishes into the shared indexes when it is loaded -/
def Payload.content : Payload → List Id
  | .vector st => st
  | .text ds => ds
  | .mdata a => a
  | _ => []

def ackedIds (s : Store) : List Id := s.gh.acked.map (·.id)

def Sub (A : List Id) (T : Shared) : Prop := ∀ i ∈ T.ids, i ∈ A
def FSub (A : List Id) (fs : FS) : Prop := ∀ e ∈ fs, ∀ i ∈ e.2.payload.content, i ∈ A

theorem mem_ids (T : Shared) (i : Id) : i ∈ T.ids ↔ i ∈ T.v.stored ∨ i ∈ T.x.docs ∨ i ∈ T.m.all := by
  unfold Shared.ids; simp [List.mem_append]

theorem Sub.mono {A B : List Id} {T : Shared} (h : Sub A T) (hab : ∀ i ∈ A, i ∈ B) : Sub B T :=
  fun i hi => hab i (h i hi)

theorem FSub.mono {A B : List Id} {fs : FS} (h : FSub A fs) (hab : ∀ i ∈ A, i ∈ B) : FSub B fs :=
  fun e he i hi => hab i (h e he i hi)

theorem sub_empty (A : List Id) : Sub A Shared.empty := by
  intro i hi; simp [Shared.ids, Shared.empty] at hi

theorem vlive_sub (v : VecIx) (i : Id) (h : i ∈ v.live) : i ∈ v.stored := by
  unfold VecIx.live at h; exact (List.mem_filter.mp h).1

theorem xlive_sub (x : TxtIx) (i : Id) (h : i ∈ x.live) : i ∈ x.docs := by
  unfold TxtIx.live at h; exact (List.mem_filter.mp h).1

theorem matchIds_sub (T : Shared) (q : Q) (i : Id) (h : i ∈ T.matchIds q) : i ∈ T.ids := by
  rw [mem_ids]
  cases q with
  | vec => exact .inl (vlive_sub _ _ h)
  | txt => exact .inr (.inl (xlive_sub _ _ h))
  | md => exact .inr (.inr h)

theorem sub_add {A : List Id} {T : Shared} (h : Sub A T) (i : Info) (hi : i.id ∈ A) : Sub A (T.add i) := by
  intro j hj
  rw [mem_ids] at hj
  unfold Shared.add at hj
  simp only at hj
  rcases hj with hj | hj | hj
  · split at hj
    · split at hj
      · simp only [List.mem_append, List.mem_singleton] at hj
        rcases hj with hj | hj
        · exact h j ((mem_ids _ _).mpr (.inl (vlive_sub _ _ hj)))
        · rw [hj]; exact hi
      · simp only [List.mem_append, List.mem_singleton] at hj
        rcases hj with hj | hj
        · exact h j ((mem_ids _ _).mpr (.inl hj))
        · rw [hj]; exact hi
    · exact h j ((mem_ids _ _).mpr (.inl hj))
  · split at hj
    · simp only at hj
      split at hj
      · exact h j ((mem_ids _ _).mpr (.inr (.inl hj)))
      · simp only [List.mem_append, List.mem_singleton] at hj
        rcases hj with hj | hj
        · exact h j ((mem_ids _ _).mpr (.inr (.inl hj)))
        · rw [hj]; exact hi
    · exact h j ((mem_ids _ _).mpr (.inr (.inl hj)))
  · split at hj
    · split at hj
      · exact h j ((mem_ids _ _).mpr (.inr (.inr hj)))
      · simp only [List.mem_append, List.mem_singleton] at hj
        rcases hj with hj | hj
        · exact h j ((mem_ids _ _).mpr (.inr (.inr hj)))
        · rw [hj]; exact hi
    · exact h j ((mem_ids _ _).mpr (.inr (.inr hj)))

theorem sub_remove {A : List Id} {T T' : Shared} (h : Sub A T) (i : Info) (hr : T.remove i = .ok T') : Sub A T' := by
  unfold Shared.remove at hr
  split at hr
  · cases hr
  · split at hr
    · cases hr
    · injection hr with hr
      subst hr
      intro j hj
      rw [mem_ids] at hj
      simp only at hj
      rcases hj with hj | hj | hj
      · split at hj <;> exact h j ((mem_ids _ _).mpr (.inl hj))
      · split at hj <;> exact h j ((mem_ids _ _).mpr (.inr (.inl hj)))
      · split at hj
        · exact h j ((mem_ids _ _).mpr (.inr (.inr (List.mem_filter.mp hj).1)))
        · exact h j ((mem_ids _ _).mpr (.inr (.inr hj)))

theorem sub_flush {A : List Id} {T : Shared} (h : Sub A T) : Sub A T.flush := by
  intro j hj
  rw [mem_ids] at hj
  unfold Shared.flush at hj
  simp only at hj
  rcases hj with hj | hj | hj
  · exact h j ((mem_ids _ _).mpr (.inl (vlive_sub _ _ hj)))
  · exact h j ((mem_ids _ _).mpr (.inr (.inl (xlive_sub _ _ hj))))
  · exact h j ((mem_ids _ _).mpr (.inr (.inr hj)))

/-! ### loading -/

theorem find_mem (fs : FS) (n : Name) (f : File) (h : FS.find fs n = some f) : (n, f) ∈ fs := by
  induction fs with
  | nil => simp [FS.find] at h
  | cons e r ih =>
    obtain ⟨m, g⟩ := e
    simp only [FS.find] at h
    split at h
    · rename_i hm; injection h with h; subst h; subst hm; exact List.mem_cons_self ..
    · exact List.mem_cons_of_mem _ (ih h)

theorem openable_mem (fs : FS) (n : Name) (f : File) (h : openable fs n = some f) : (n, f) ∈ fs := by
  unfold openable at h
  split at h
  · rename_i g hg
    split at h
    · cases h
    · injection h with h; subst h; exact find_mem _ _ _ hg
  · cases h

theorem openAll_mem (fs : FS) (id : Nat) (ks : List Kind) (files : List (Kind × File))
    (h : openAll fs id ks = some files) : ∀ kf ∈ files, (Name.seg kf.1 id, kf.2) ∈ fs := by
  induction ks generalizing files with
  | nil => simp [openAll] at h; subst h; intro kf hkf; cases hkf
  | cons k r ih =>
    simp only [openAll] at h
    split at h
    · rename_i f rest hf hr
      injection h with h; subst h
      intro kf hkf
      rcases List.mem_cons.mp hkf with rfl | hkf
      · exact openable_mem _ _ _ hf
      · exact ih _ hr kf hkf
    · cases h

theorem sub_readComp {A : List Id} {T T' : Shared} (tpl : Tpl) (k : Kind) (f : File) (h : Sub A T)
    (hf : ∀ i ∈ f.payload.content, i ∈ A) (hr : readComp tpl T k f = some T') : Sub A T' := by
  unfold readComp at hr
  split at hr
  · cases hr
  · split at hr
    · split at hr
      · injection hr with hr; subst hr; exact h
      · cases hr
    · rename_i st hp
      injection hr with hr; subst hr
      intro j hj; rw [mem_ids] at hj; simp only at hj
      rcases hj with hj | hj | hj
      · exact hf j (by rw [hp]; exact hj)
      · exact h j ((mem_ids _ _).mpr (.inr (.inl hj)))
      · exact h j ((mem_ids _ _).mpr (.inr (.inr hj)))
    · rename_i ds hp
      injection hr with hr; subst hr
      intro j hj; rw [mem_ids] at hj; simp only at hj
      rcases hj with hj | hj | hj
      · exact h j ((mem_ids _ _).mpr (.inl hj))
      · exact hf j (by rw [hp]; exact hj)
      · exact h j ((mem_ids _ _).mpr (.inr (.inr hj)))
    · rename_i a hp
      injection hr with hr; subst hr
      intro j hj; rw [mem_ids] at hj; simp only at hj
      rcases hj with hj | hj | hj
      · exact h j ((mem_ids _ _).mpr (.inl hj))
      · exact h j ((mem_ids _ _).mpr (.inr (.inl hj)))
      · exact hf j (by rw [hp]; exact hj)
    · cases hr

theorem sub_readAll {A : List Id} (tpl : Tpl) (files : List (Kind × File)) (T : Shared) (pc : Bool)
    (h : Sub A T) (hf : ∀ kf ∈ files, ∀ i ∈ kf.2.payload.content, i ∈ A) :
    Sub A (readAll tpl T pc files).2 := by
  induction files generalizing T pc with
  | nil => exact h
  | cons kf r ih =>
    obtain ⟨k, f⟩ := kf
    simp only [readAll]
    split
    · exact h
    · split
      · exact h
      · rename_i T' hT'
        apply ih
        · exact sub_readComp tpl k f h (hf (k, f) (List.mem_cons_self ..)) hT'
        · intro kf hkf; exact hf kf (List.mem_cons_of_mem _ hkf)

theorem sub_loadSeg {A : List Id} (tpl : Tpl) (fs : FS) (id : Nat) (T : Shared)
    (h : Sub A T) (hfs : FSub A fs) : Sub A (loadSeg tpl fs id T).2 := by
  unfold loadSeg
  split
  · exact h
  · rename_i files hfiles
    apply sub_readAll _ _ _ _ h
    intro kf hkf i hi
    exact hfs _ (openAll_mem _ _ _ _ hfiles kf hkf) i hi

end Comet.Storage
