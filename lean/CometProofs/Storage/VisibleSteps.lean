import CometProofs.Storage.VisibleBase
namespace Comet.Storage

structure VisInv (s : Store) : Prop where
  cov : s.gh.loadLost = false → ∀ d ∈ s.gh.sess, covered s.cfg.tpl s.T d
  mtsNe : s.opened = true → s.mts ≠ []

theorem LiveSub.refl (T : Shared) : LiveSub T T := ⟨fun _ h => h, fun _ h => h, fun _ h => h⟩

theorem LiveSub.trans {a b c : Shared} (h1 : LiveSub a b) (h2 : LiveSub b c) : LiveSub a c :=
  ⟨fun i h => h2.1 i (h1.1 i h), fun i h => h2.2.1 i (h1.2.1 i h), fun i h => h2.2.2 i (h1.2.2 i h)⟩

theorem modifyLast_ne {α} (f : α → α) (l : List α) (h : l ≠ []) : modifyLast f l ≠ [] := by
  match l with
  | [] => exact absurd rfl h
  | [a] => simp [modifyLast]
  | a :: b :: r => simp [modifyLast]

theorem rotateQ_ne (l : List Memtable) (u : Nat) : rotateQ l u ≠ [] := by
  unfold rotateQ; simp

theorem removeMt_ne (uid : Nat) (l : List Memtable) (h : l ≠ []) : removeMt uid l ≠ [] := by
  match l with
  | [] => exact absurd rfl h
  | [a] => simp [removeMt]
  | a :: b :: r =>
    simp only [removeMt]
    split
    · simp
    · simp

/-- transfer along a step that only grows the live content -/
theorem visInv_of_liveSub {s s' : Store} (h : VisInv s) (hcfg : s'.cfg = s.cfg)
    (hl : s'.gh.loadLost = false → s.gh.loadLost = false ∧ LiveSub s.T s'.T)
    (hs : s'.gh.sess = s.gh.sess) (hm : s'.opened = true → s'.mts ≠ []) : VisInv s' := by
  constructor
  · intro hf d hd
    obtain ⟨h0, hsub⟩ := hl hf
    rw [hcfg]; rw [hs] at hd
    exact covered_mono (h.cov h0 d hd) hsub
  · exact hm

/-! ### flush -/

theorem flushOne_vis (s : Store) (m : Memtable) :
    (flushOne s m).1.cfg = s.cfg ∧ (flushOne s m).1.gh.loadLost = s.gh.loadLost ∧
    (flushOne s m).1.gh.sess = s.gh.sess ∧ (flushOne s m).1.T = s.T.flush ∧
    (flushOne s m).1.mts = s.mts ∧ (flushOne s m).1.opened = s.opened := by
  simp [flushOne, writeSegment]

theorem visInv_flushOne {s : Store} (h : VisInv s) (m : Memtable) : VisInv (flushOne s m).1 := by
  obtain ⟨a, b, c, d, e, f⟩ := flushOne_vis s m
  apply visInv_of_liveSub h a
  · intro hf; rw [b] at hf; exact ⟨hf, by rw [d]; exact liveSub_flush _⟩
  · exact c
  · intro ho; rw [e]; rw [f] at ho; exact h.mtsNe ho

theorem visInv_flushAll {s : Store} (h : VisInv s) (l : List Memtable) : VisInv (flushAll s l) := by
  induction l generalizing s with
  | nil => exact h
  | cons m r ih =>
    simp only [flushAll]
    apply ih
    have h1 := visInv_flushOne h m
    exact ⟨h1.cov, fun ho => removeMt_ne _ _ (h1.mtsNe ho)⟩

/-! ### search -/

theorem segEvent_vis (cfg : Cfg) (fs : FS) (q : Q) (st : SearchSt) (ev : SegEv) :
    (segEvent cfg fs q st ev).gh.sess = st.gh.sess ∧
    ((segEvent cfg fs q st ev).gh.loadLost = false →
      st.gh.loadLost = false ∧ LiveSub st.T (segEvent cfg fs q st ev).T) := by
  cases ev with
  | load id =>
    simp only [segEvent]
    split
    · refine ⟨rfl, ?_⟩
      intro hf
      simp only [Bool.or_eq_false_iff, Bool.not_eq_false'] at hf
      exact ⟨hf.1, coversLive_liveSub hf.2⟩
    · exact ⟨rfl, fun hf => ⟨hf, LiveSub.refl _⟩⟩
  | scan id =>
    simp only [segEvent]
    split <;> exact ⟨rfl, fun hf => ⟨hf, LiveSub.refl _⟩⟩

theorem searchFold_vis (cfg : Cfg) (fs : FS) (q : Q) (sched : List SegEv) (st : SearchSt) :
    (sched.foldl (segEvent cfg fs q) st).gh.sess = st.gh.sess ∧
    ((sched.foldl (segEvent cfg fs q) st).gh.loadLost = false →
      st.gh.loadLost = false ∧ LiveSub st.T (sched.foldl (segEvent cfg fs q) st).T) := by
  induction sched generalizing st with
  | nil => exact ⟨rfl, fun hf => ⟨hf, LiveSub.refl _⟩⟩
  | cons ev r ih =>
    simp only [List.foldl_cons]
    obtain ⟨a, b⟩ := ih (segEvent cfg fs q st ev)
    obtain ⟨a', b'⟩ := segEvent_vis cfg fs q st ev
    refine ⟨a.trans a', ?_⟩
    intro hf
    obtain ⟨h1, h2⟩ := b hf
    obtain ⟨h3, h4⟩ := b' h1
    exact ⟨h3, h4.trans h2⟩

theorem visInv_search {s : Store} (h : VisInv s) (q : Q) (sched : List SegEv) :
    VisInv (execSearch s q sched).1 := by
  unfold execSearch
  split
  · exact h
  · split
    · exact h
    · obtain ⟨a, b⟩ := searchFold_vis s.cfg s.fs q sched
        ⟨s.T, s.segs, (s.mts.flatMap fun _ => s.T.matchIds q), 0, s.gh⟩
      exact visInv_of_liveSub h rfl b a h.mtsNe

end Comet.Storage
