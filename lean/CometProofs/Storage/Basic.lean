/-
  Helper lemmas about the directory model (Comet/Storage/FS.lean).
-/
import Comet.Storage.Crash
namespace Comet.Storage

/-! ## names of a directory -/

theorem names_erase (fs : FS) (n m : Name) : m ∈ FS.names (FS.erase fs n) ↔ m ∈ FS.names fs ∧ m ≠ n := by
  unfold FS.names FS.erase
  simp only [List.mem_map, List.mem_filter, decide_eq_true_eq]
  constructor
  · rintro ⟨e, ⟨he, hne⟩, rfl⟩; exact ⟨⟨e, he, rfl⟩, hne⟩
  · rintro ⟨⟨e, he, rfl⟩, hne⟩; exact ⟨e, ⟨he, hne⟩, rfl⟩

theorem names_put (fs : FS) (n m : Name) (f : File) : m ∈ FS.names (FS.put fs n f) ↔ m ∈ FS.names fs ∨ m = n := by
  unfold FS.put
  have := names_erase fs n m
  unfold FS.names at *
  simp only [List.map_append, List.mem_append, List.map_cons, List.map_nil, List.mem_singleton]
  rw [this]
  by_cases h : m = n <;> simp [h]

theorem names_complete (fs : FS) (n : Name) : FS.names (applyStep fs (.complete n)) = FS.names fs := by
  unfold applyStep FS.names
  simp only [List.map_map]
  apply List.map_congr_left
  intro e _
  simp only [Function.comp]
  split <;> rfl

theorem mem_segIds (fs : FS) (i : Nat) : i ∈ FS.segIds fs ↔ ∃ k, Name.seg k i ∈ FS.names fs := by
  unfold FS.segIds
  simp only [List.mem_filterMap]
  constructor
  · rintro ⟨n, hn, h⟩
    cases n with
    | lock => simp [Name.segId?] at h
    | seg k j => simp [Name.segId?] at h; subst h; exact ⟨k, hn⟩
  · rintro ⟨k, hk⟩; exact ⟨_, hk, rfl⟩

theorem has_iff (fs : FS) (n : Name) : FS.has fs n = true ↔ n ∈ FS.names fs := by
  unfold FS.has; simp

theorem foldl_max_ge (l : List Nat) (a : Nat) : a ≤ l.foldl max a := by
  induction l generalizing a with
  | nil => simp
  | cons x xs ih => simp only [List.foldl_cons]; exact Nat.le_trans (Nat.le_max_left a x) (ih _)

theorem le_foldl_max (l : List Nat) (a i : Nat) (h : i ∈ l) : i ≤ l.foldl max a := by
  induction l generalizing a with
  | nil => cases h
  | cons x xs ih =>
    simp only [List.foldl_cons]
    rcases List.mem_cons.mp h with rfl | h
    · exact Nat.le_trans (Nat.le_max_right a i) (foldl_max_ge _ _)
    · exact ih _ h

theorem foldl_max_le (l : List Nat) (a n : Nat) (ha : a ≤ n) (h : ∀ i ∈ l, i ≤ n) : l.foldl max a ≤ n := by
  induction l generalizing a with
  | nil => simpa
  | cons x xs ih =>
    simp only [List.foldl_cons]
    apply ih
    · exact Nat.max_le.mpr ⟨ha, h x (List.mem_cons_self ..)⟩
    · intro i hi; exact h i (List.mem_cons_of_mem _ hi)

theorem le_initCounter (fs : FS) (i : Nat) (h : i ∈ FS.segIds fs) : i ≤ initCounter fs :=
  le_foldl_max _ _ _ h

theorem initCounter_le (fs : FS) (n : Nat) (h : ∀ i ∈ FS.segIds fs, i ≤ n) : initCounter fs ≤ n :=
  foldl_max_le _ _ _ (Nat.zero_le _) h

end Comet.Storage
