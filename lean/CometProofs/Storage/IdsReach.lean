import CometProofs.Storage.IdsBg
namespace Comet.Storage

/-! ### open / close / crash, and the invariant over all reachable states -/

theorem idInv_openOn (cfg : Cfg) (fs : FS) (T0 : Shared) (gh : Ghost)
    (hev : ∀ i ∈ gh.everNamed, i ≤ initCounter fs) (hov : gh.overwrote = false) (hre : gh.reused = false) :
    IdInv (openOn cfg fs T0 gh).1 := by
  unfold openOn
  split
  · refine ⟨?_, hev, ?_, ?_, ?_, hov, hre, ?_⟩
    · intro hf; cases hf
    · intro g hg; cases hg
    · intro srcs rest hl; cases hl
    · intro srcs n hl; cases hl
    · intro _; exact ⟨rfl, rfl⟩
  · have hc : initCounter (FS.put fs .lock ⟨.lock, .full⟩) = initCounter fs :=
      initCounter_congr _ _ (segIds_put_lock fs _)
    refine ⟨?_, ?_, ?_, ?_, ?_, hov, hre, ?_⟩
    · intro _ i hi; exact Storage.le_initCounter _ _ hi
    · intro i hi; show i ≤ initCounter (FS.put fs .lock ⟨.lock, .full⟩); rw [hc]; exact hev i hi
    · intro g hg
      obtain ⟨i, hi, rfl⟩ := List.mem_map.mp hg
      exact Storage.le_initCounter _ _ (listSegments_sub_segIds _ _ hi)
    · intro srcs rest hl; cases hl
    · intro srcs n hl; cases hl
    · intro hf; cases hf

theorem idInv_exec {s : Store} (h : IdInv s) (st : Step) : IdInv (exec s st).1 := by
  cases st with
  | add d => exact idInv_add h d
  | remove id => exact idInv_remove h id
  | flush => exact idInv_flush h
  | rotate =>
    simp only [exec]; split
    · exact h
    · exact idInv_congr h rfl rfl rfl rfl rfl (fun _ => rfl) rfl rfl rfl
  | trigger =>
    simp only [exec]; split
    · exact h
    · exact idInv_congr h rfl rfl rfl rfl rfl (fun _ => rfl) rfl rfl rfl
  | evict =>
    simp only [exec]; split
    · exact h
    · refine idInv_congr h rfl rfl rfl ?_ rfl (fun _ => rfl) rfl rfl rfl
      simp [List.map_map, Function.comp]
  | search q sched => exact idInv_search h q sched
  | close =>
    simp only [exec]; split
    · exact h
    · simp only [flushRotatesMutable, Bool.false_and, Bool.false_eq_true, if_false]
      refine idInv_congr h rfl rfl rfl rfl rfl (fun hf => ?_) rfl rfl rfl
      rfl
  | closeDone =>
    simp only [exec]; split
    · rename_i hg
      simp only [Bool.and_eq_true, decide_eq_true_eq] at hg
      obtain ⟨⟨⟨_, _⟩, hfw⟩, hcw⟩ := hg
      have hc : initCounter (FS.erase s.fs .lock) = initCounter s.fs :=
        initCounter_congr _ _ (segIds_erase_lock s.fs)
      refine ⟨?_, ?_, h.segsLe, ?_, ?_, h.noOver, h.noReuse, ?_⟩
      · intro hf; cases hf
      · intro i hi; show i ≤ initCounter (FS.erase s.fs .lock); rw [hc]; exact h.ever i hi
      · intro srcs rest hl; rw [show s.cw = .exited from hcw] at hl; cases hl
      · intro srcs n hl; rw [show s.cw = .exited from hcw] at hl; cases hl
      · intro _; exact ⟨hfw, hcw⟩
    · exact h
  | reopen =>
    simp only [exec]; split
    · exact h
    · exact idInv_openOn _ _ _ _ h.ever h.noOver h.noReuse
  | bg b => exact idInv_bg h b

/-- what a prefix of the FS steps of any step does to the segment ids -/
theorem keepsMax_fsStepsOf {s : Store} (h : IdInv s) (ho : s.opened = true) (st : Step) (k : Nat) :
    KeepsMax s.fs (applySteps s.fs ((fsStepsOf s st).take k)) := by
  -- steps that only create / complete keep every name
  have noRemove : ∀ steps : List FsStep, removedBy steps = [] →
      KeepsMax s.fs (applySteps s.fs (steps.take k)) := by
    intro steps hr
    apply KeepsMax.of_names_sub
    intro m hm
    apply names_applySteps_keep _ _ _ hm
    intro hmem
    have := removedBy_take_sub _ _ _ hmem
    rw [hr] at this; cases this
  have lockOnly : ∀ steps : List FsStep, (∀ m ∈ removedBy steps, m = Name.lock) →
      KeepsMax s.fs (applySteps s.fs (steps.take k)) := by
    intro steps hr i hi
    obtain ⟨kd, hk⟩ := (mem_segIds _ _).mp hi
    refine ⟨i, (mem_segIds _ _).mpr ⟨kd, names_applySteps_keep _ _ _ hk ?_⟩, Nat.le_refl _⟩
    intro hmem
    have := hr _ (removedBy_take_sub _ _ _ hmem)
    cases this
  have flushSteps : ∀ (l : List Memtable) (T : Shared) (c : Nat),
      removedBy (flushStepsFrom s.cfg.tpl T c l) = [] := by
    intro l
    induction l with
    | nil => intro T c; rfl
    | cons m r ih =>
      intro T c
      simp only [flushStepsFrom]
      rw [removedBy_append, removedBy_writeSteps, ih]; rfl
  cases st with
  | flush =>
    simp only [fsStepsOf]; split
    · exact noRemove _ (flushSteps _ _ _)
    · exact noRemove _ rfl
  | bg b =>
    cases b with
    | fwrite =>
      simp only [fsStepsOf]; split
      · exact noRemove _ (removedBy_writeSteps ..)
      · exact noRemove _ rfl
    | cwrite =>
      simp only [fsStepsOf]; split
      · exact noRemove _ (removedBy_writeSteps ..)
      · exact noRemove _ rfl
    | cswap =>
      simp only [fsStepsOf]; split
      · rename_i srcs n hcw
        obtain ⟨hlt, _, hn⟩ := h.wrote _ _ hcw
        exact (keepsMax_delete_prefix s.fs srcs n k hlt hn).1
      · exact noRemove _ rfl
    | fwake => exact noRemove _ rfl
    | ffinal => exact noRemove _ rfl
    | flist => exact noRemove _ rfl
    | fremove => exact noRemove _ rfl
    | cwake => exact noRemove _ rfl
    | cexit => exact noRemove _ rfl
    | clist => exact noRemove _ rfl
    | cload => exact noRemove _ rfl
  | closeDone =>
    simp only [fsStepsOf]; split
    · exact lockOnly _ (by intro m hm; simp [removedBy] at hm; exact hm)
    · exact noRemove _ rfl
  | reopen =>
    simp only [fsStepsOf]; split
    · exact noRemove _ rfl
    · exact noRemove _ rfl
  | add d => exact noRemove _ rfl
  | remove id => exact noRemove _ rfl
  | rotate => exact noRemove _ rfl
  | trigger => exact noRemove _ rfl
  | evict => exact noRemove _ rfl
  | search q sched => exact noRemove _ rfl
  | close => exact noRemove _ rfl

theorem idInv_crash {s : Store} (h : IdInv s) (ho : s.opened = true) (st : Step) (k : Nat) (cuts : Name → Cut) :
    IdInv (crashTo s (crashImage s.fs (fsStepsOf s st) k cuts)) := by
  have hseg : ∀ i, i ∈ FS.segIds (FS.erase (crashImage s.fs (fsStepsOf s st) k cuts) .lock) ↔
      i ∈ FS.segIds (applySteps s.fs ((fsStepsOf s st).take k)) := by
    intro i
    rw [segIds_erase_lock]
    unfold crashImage
    rw [segIds_recut]
  have hkm := keepsMax_fsStepsOf h ho st k
  unfold crashTo
  refine ⟨?_, ?_, ?_, ?_, ?_, h.noOver, h.noReuse, ?_⟩
  · intro hf; cases hf
  · intro i hi
    show i ≤ initCounter (FS.erase (crashImage s.fs (fsStepsOf s st) k cuts) .lock)
    rw [initCounter_congr _ _ hseg]
    rcases List.mem_append.mp hi with hi | hi
    · apply Storage.le_initCounter
      have : i ∈ FS.segIds (recut (createdBy (fsStepsOf s st)) cuts (applySteps s.fs ((fsStepsOf s st).take k))) := hi
      rw [segIds_recut] at this; exact this
    · exact hkm.le_initCounter _ (h.ever i hi)
  · intro g hg; cases hg
  · intro srcs rest hl; cases hl
  · intro srcs n hl; cases hl
  · intro _; exact ⟨rfl, rfl⟩

theorem idInv_xexec {s : Store} (h : IdInv s) (x : XStep) : IdInv (xexec s x) := by
  cases x with
  | step st => exact idInv_exec h st
  | crash st k cuts =>
    simp only [xexec]
    split
    · rename_i ho; exact idInv_crash h ho st k cuts
    · exact h

theorem idInv_init (cfg : Cfg) : IdInv (Store.init cfg) := by
  unfold Store.init
  apply idInv_openOn
  · intro i hi; cases hi
  · rfl
  · rfl

theorem idInv_xrun {s : Store} (h : IdInv s) (xs : List XStep) : IdInv (xrun s xs) := by
  induction xs generalizing s with
  | nil => exact h
  | cons x r ih => exact ih (idInv_xexec h x)

theorem idInv_reach {cfg : Cfg} {s : Store} (h : Reach cfg s) : IdInv s := by
  obtain ⟨xs, rfl⟩ := h
  exact idInv_xrun (idInv_init cfg) xs

end Comet.Storage
