import CometProofs.Storage.DurableOpen
namespace Comet.Storage

/-! ## a complete segment's documents stay found by EVERY search while no load loses live content -/

/-- the part of the invariant that lives in a search's running state -/
def KCore (tpl : Tpl) (g : Nat) (d : Doc) (T : Shared) (segs : List Seg) (gh : Ghost) : Prop :=
  (∃ b, isCached segs g = some b) ∧
  (gh.loadLost = false → d.id ∉ gh.removed → isCached segs g = some true → covered tpl T d)

structure KInv (g : Nat) (d : Doc) (s : Store) : Prop where
  holds : SegHolds s.cfg.tpl s.fs g d
  core : s.opened = true → KCore s.cfg.tpl g d s.T s.segs s.gh

theorem isCached_map_cached (segs : List Seg) (g : Nat) (c : Bool) :
    isCached (segs.map fun x => { x with cached := c }) g = (isCached segs g).map fun _ => c := by
  induction segs with
  | nil => rfl
  | cons x r ih =>
    rw [List.map_cons, isCached_cons, isCached_cons]
    by_cases hx : x.id = g
    · simp [hx]
    · simp only [hx, if_false]; exact ih

theorem isCached_append_left (a b : List Seg) (g : Nat) (c : Bool) (h : isCached a g = some c) :
    isCached (a ++ b) g = some c := by
  induction a with
  | nil => simp [isCached_nil] at h
  | cons x r ih =>
    rw [List.cons_append, isCached_cons]
    rw [isCached_cons] at h
    by_cases hx : x.id = g
    · simp only [hx, if_true] at h ⊢; exact h
    · simp only [hx, if_false] at h ⊢; exact ih h

theorem isCached_some_mem (segs : List Seg) (g : Nat) (c : Bool) (h : isCached segs g = some c) :
    g ∈ segs.map (·.id) := by
  induction segs with
  | nil => simp [isCached_nil] at h
  | cons x r ih =>
    rw [isCached_cons] at h
    by_cases hx : x.id = g
    · simp [hx]
    · simp only [hx, if_false] at h
      exact List.mem_cons_of_mem _ (ih h)

theorem isCached_none_of_not_mem (segs : List Seg) (g : Nat) (h : g ∉ segs.map (·.id)) : isCached segs g = none := by
  induction segs with
  | nil => rfl
  | cons x r ih =>
    rw [isCached_cons]
    have hx : ¬ x.id = g := fun e => h (by simp [e])
    simp only [hx, if_false]
    exact ih (fun hm => h (List.mem_cons_of_mem _ hm))

/-- one segment event keeps the core invariant (the files of `g` are complete in `fs`) -/
theorem kCore_segEvent {cfg : Cfg} {fs : FS} {g : Nat} {d : Doc} (hh : SegHolds cfg.tpl fs g d) (q : Q)
    (st : SearchSt) (ev : SegEv) (h : KCore cfg.tpl g d st.T st.segs st.gh) :
    KCore cfg.tpl g d (segEvent cfg fs q st ev).T (segEvent cfg fs q st ev).segs (segEvent cfg fs q st ev).gh := by
  obtain ⟨⟨b, hb⟩, hc⟩ := h
  cases ev with
  | scan id =>
    simp only [segEvent]; split <;> exact ⟨⟨b, hb⟩, hc⟩
  | load id =>
    simp only [segEvent]
    split
    · rename_i hunc
      by_cases hid : id = g
      · subst hid
        obtain ⟨hok, hcov⟩ := loadSeg_of_holds hh st.T
        simp only [hok, if_true]
        exact ⟨⟨true, isCached_setCached_same _ _ _ _ hunc⟩, fun _ _ _ => hcov⟩
      · have hne : g ≠ id := fun e => hid e.symm
        refine ⟨?_, ?_⟩
        · split
          · exact ⟨b, by rw [isCached_setCached_ne _ _ _ _ hne]; exact hb⟩
          · exact ⟨b, hb⟩
        · intro hl hr hcached
          simp only [Bool.or_eq_false_iff, Bool.not_eq_false'] at hl
          have hcached' : isCached st.segs g = some true := by
            split at hcached
            · rw [isCached_setCached_ne _ _ _ _ hne] at hcached; exact hcached
            · exact hcached
          exact covered_mono (hc hl.1 hr hcached') (coversLive_liveSub hl.2)
    · exact ⟨⟨b, hb⟩, hc⟩

theorem kCore_fold {cfg : Cfg} {fs : FS} {g : Nat} {d : Doc} (hh : SegHolds cfg.tpl fs g d) (q : Q)
    (sched : List SegEv) (st : SearchSt) (h : KCore cfg.tpl g d st.T st.segs st.gh) :
    KCore cfg.tpl g d (sched.foldl (segEvent cfg fs q) st).T (sched.foldl (segEvent cfg fs q) st).segs
      (sched.foldl (segEvent cfg fs q) st).gh := by
  induction sched generalizing st with
  | nil => exact h
  | cons ev r ih => simp only [List.foldl_cons]; exact ih _ (kCore_segEvent hh q st ev h)

/-- transfer of the core along a step that keeps segments and ghost flags and only grows live content -/
theorem kCore_mono {tpl : Tpl} {g : Nat} {d : Doc} {T T' : Shared} {segs : List Seg} {gh gh' : Ghost}
    (h : KCore tpl g d T segs gh) (hl : LiveSub T T')
    (h1 : gh'.loadLost = false → gh.loadLost = false) (h2 : d.id ∉ gh'.removed → d.id ∉ gh.removed) :
    KCore tpl g d T' segs gh' :=
  ⟨h.1, fun a b c => covered_mono (h.2 (h1 a) (h2 b) c) hl⟩

end Comet.Storage
