import CometProofs.Storage.DurableAllBase
namespace Comet.Storage

theorem kCore_append {tpl : Tpl} {g : Nat} {d : Doc} {T : Shared} {segs : List Seg} {gh : Ghost}
    (h : KCore tpl g d T segs gh) (extra : List Seg) : KCore tpl g d T (segs ++ extra) gh := by
  obtain ⟨⟨b, hb⟩, hc⟩ := h
  refine ⟨⟨b, isCached_append_left _ _ _ _ hb⟩, ?_⟩
  intro a r c
  rw [isCached_append_left _ _ _ _ hb] at c
  exact hc a r (by rw [hb]; exact c)

theorem kCore_flushOne {g : Nat} {d : Doc} (s : Store) (m : Memtable)
    (h : KCore s.cfg.tpl g d s.T s.segs s.gh) :
    KCore (flushOne s m).1.cfg.tpl g d (flushOne s m).1.T (flushOne s m).1.segs (flushOne s m).1.gh := by
  have : KCore s.cfg.tpl g d s.T.flush s.segs (writeSegment s m.info).1.gh :=
    kCore_mono h (liveSub_flush _) (fun a => a) (fun a => a)
  exact kCore_append this _

theorem kCore_flushAll {g : Nat} {d : Doc} (l : List Memtable) (s : Store)
    (h : KCore s.cfg.tpl g d s.T s.segs s.gh) :
    KCore (flushAll s l).cfg.tpl g d (flushAll s l).T (flushAll s l).segs (flushAll s l).gh := by
  induction l generalizing s with
  | nil => exact h
  | cons m r ih =>
    simp only [flushAll]
    exact ih _ (kCore_flushOne s m h)

theorem flushAll_opened (l : List Memtable) (s : Store) : (flushAll s l).opened = s.opened := by
  induction l generalizing s with
  | nil => rfl
  | cons m r ih => simp only [flushAll]; rw [ih]; rfl

/-- every step but the compaction swap keeps the invariant -/
theorem kInv_exec {g : Nat} {d : Doc} {s : Store} (inv : IdInv s) (h : KInv g d s) (st : Step)
    (hns : st ≠ .bg .cswap) : KInv g d (exec s st).1 := by
  refine ⟨segHolds_exec inv h.holds st hns, ?_⟩
  have hh := h.holds
  cases st with
  | add d' =>
    simp only [exec, execAdd]
    split
    · exact h.core
    · intro ho
      have key : ∀ s1 : Store, s1.cfg = s.cfg → s1.T = s.T → s1.segs = s.segs → s1.gh = s.gh → s1.opened = s.opened →
          KCore s1.cfg.tpl g d (s1.T.add (infoOf s1.cfg.tpl d')) s1.segs
            { s1.gh with acked := d' :: s1.gh.acked, sess := d' :: s1.gh.sess,
                         gone := s1.gh.gone.filter fun j => j != d'.id,
                         readded := s1.gh.readded || (s1.gh.acked.any fun a => a.id == d'.id) } := by
        intro s1 a b c e f
        rw [a, b, c, e]
        have ho' : s.opened = true := by
          split at ho <;> (simp only at ho; first | exact ho | (rw [← f]; exact ho))
        exact kCore_mono (h.core ho') (liveSub_add _ _) (fun x => x) (fun x => x)
      split
      · exact key s rfl rfl rfl rfl rfl
      · exact key _ rfl rfl rfl rfl rfl
  | remove id =>
    simp only [exec, execRemove]
    split
    · exact h.core
    · split
      · exact h.core
      · split
        · exact h.core
        · rename_i m hm i hi
          split
          · exact h.core
          · exact h.core
          · rename_i T' hT'
            intro ho
            obtain ⟨hb, hc⟩ := h.core ho
            refine ⟨hb, ?_⟩
            intro hl hr hcached
            simp only [List.mem_cons, not_or] at hr
            have hid : i.id = id := find?_id hi
            exact remove_keeps i hT' _ d (by rw [hid]; exact hr.1) (hc hl hr.2 hcached)
  | flush =>
    simp only [exec, execFlush]
    split
    · exact h.core
    · simp only [flushRotatesMutable, Bool.false_and, Bool.false_eq_true, if_false]
      intro ho
      have ho' : s.opened = true := by
        have : (flushAll s (butLast s.mts)).opened = true := ho
        rw [flushAll_opened] at this; exact this
      have := kCore_flushAll (g := g) (d := d) (butLast s.mts) s (h.core ho')
      exact ⟨this.1, this.2⟩
  | rotate => simp only [exec]; split <;> exact h.core
  | trigger => simp only [exec]; split <;> exact h.core
  | evict =>
    simp only [exec]; split
    · exact h.core
    · intro ho
      obtain ⟨⟨b, hb⟩, _⟩ := h.core ho
      refine ⟨⟨false, by rw [isCached_map_cached, hb]; rfl⟩, ?_⟩
      intro _ _ hc
      rw [isCached_map_cached, hb] at hc
      simp at hc
  | search q sched =>
    simp only [exec, execSearch]
    split
    · exact h.core
    · split
      · exact h.core
      · intro ho
        exact kCore_fold hh q sched _ (h.core ho)
  | close =>
    simp only [exec]; split
    · exact h.core
    · simp only [flushRotatesMutable, Bool.false_and, Bool.false_eq_true, if_false]; exact h.core
  | closeDone =>
    simp only [exec]; split
    · intro ho; cases ho
    · exact h.core
  | reopen =>
    simp only [exec]; split
    · exact h.core
    · unfold openOn
      split
      · intro ho; cases ho
      · intro _
        have hfs : SegHolds s.cfg.tpl (FS.put s.fs .lock ⟨.lock, .full⟩) g d :=
          segHolds_congr hh (fun k => find_put_ne _ _ _ _ (by intro e; cases e))
        have hg : g ∈ listSegments (FS.put s.fs .lock ⟨.lock, .full⟩) :=
          (mem_listSegments _ _).mpr (segHolds_mem_segIds hfs).2
        refine ⟨⟨false, isCached_fresh _ _ hg⟩, ?_⟩
        intro _ _ hc
        rw [isCached_fresh _ _ hg] at hc
        simp at hc
  | bg b =>
    cases b with
    | fwake => simp only [exec, execBg]; split <;> (try split) <;> exact h.core
    | ffinal => simp only [exec, execBg]; split <;> (try split) <;> exact h.core
    | flist => simp only [exec, execBg]; split <;> (try split) <;> exact h.core
    | fwrite =>
      simp only [exec, execBg]; split
      · rename_i f m rest _
        intro ho
        have ho' : s.opened = true := by
          have : (flushOne s m).1.opened = true := ho
          rw [flushOne_opened] at this; exact this
        have := kCore_flushOne (g := g) (d := d) s m (h.core ho')
        exact ⟨this.1, this.2⟩
      · exact h.core
    | fremove => simp only [exec, execBg]; split <;> exact h.core
    | cwake => simp only [exec, execBg]; split <;> (try split) <;> exact h.core
    | cexit => simp only [exec, execBg]; split <;> (try split) <;> exact h.core
    | clist =>
      simp only [exec, execBg]; split
      · split
        · exact h.core
        · split <;> exact h.core
      · exact h.core
    | cload =>
      simp only [exec, execBg]; split
      · rename_i srcs id rest _
        split
        · rename_i hunc
          -- the same as a `load id` event of a search
          have hev := fun ho => kCore_segEvent hh .vec ⟨s.T, s.segs, [], 0, s.gh⟩ (.load id) (h.core ho)
          simp only [segEvent, hunc] at hev
          split
          · rename_i hok
            simp only [hok, if_true] at hev
            intro ho
            exact ⟨(hev ho).1, (hev ho).2⟩
          · rename_i hok
            have hok' : (loadSeg s.cfg.tpl s.fs id s.T).1 = false := by simpa using hok
            simp only [hok', Bool.false_eq_true, if_false] at hev
            intro ho
            exact ⟨(hev ho).1, (hev ho).2⟩
        · exact h.core
      · exact h.core
    | cwrite =>
      simp only [exec, execBg]; split
      · intro ho
        exact kCore_mono (h.core ho) (liveSub_flush _) (fun a => a) (fun a => a)
      · exact h.core
    | cswap => exact absurd rfl hns

end Comet.Storage
