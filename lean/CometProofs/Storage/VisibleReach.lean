import CometProofs.Storage.VisibleSteps
namespace Comet.Storage

theorem visInv_add {s : Store} (h : VisInv s) (d : Doc) : VisInv (execAdd s d).1 := by
  unfold execAdd
  split
  · exact h
  · have key : ∀ s1 : Store, s1.cfg = s.cfg → s1.T = s.T → s1.gh = s.gh → s1.mts ≠ [] →
        VisInv { s1 with T := s1.T.add (infoOf s1.cfg.tpl d),
                         mts := modifyLast (fun m => { m with info := putInfo m.info (infoOf s1.cfg.tpl d), size := m.size + d.size, count := m.count + 1 }) s1.mts,
                         flushSig := s1.flushSig || decide (s1.cfg.flushThr ≤ totalSize (modifyLast (fun m => { m with info := putInfo m.info (infoOf s1.cfg.tpl d), size := m.size + d.size, count := m.count + 1 }) s1.mts)),
                         gh := { s1.gh with acked := d :: s1.gh.acked, sess := d :: s1.gh.sess,
                                            gone := s1.gh.gone.filter fun j => j != d.id,
                                            readded := s1.gh.readded || (s1.gh.acked.any fun a => a.id == d.id) } } := by
      intro s1 hc hT hg hne
      constructor
      · intro hf d' hd'
        simp only at hf hd' ⊢
        rw [hg] at hf
        rcases List.mem_cons.mp hd' with rfl | hd'
        · rw [hc]; exact covered_add_self _ _ _
        · rw [hg] at hd'
          rw [hc, hT]
          exact covered_mono (h.cov hf d' hd') (liveSub_add _ _)
      · intro _; exact modifyLast_ne _ _ hne
    split
    · rename_i hr _
      have ho := running_opened (by simpa using hr)
      exact key s rfl rfl rfl (h.mtsNe ho)
    · exact key _ rfl rfl rfl (rotateQ_ne _ _)

theorem find?_id {l : List Info} {id : Id} {i : Info} (h : l.find? (fun j => decide (j.id = id)) = some i) : i.id = id := by
  have := List.find?_some h
  simpa using this

theorem visInv_remove {s : Store} (h : VisInv s) (id : Id) : VisInv (execRemove s id).1 := by
  unfold execRemove
  split
  · exact h
  · rename_i hr
    have ho := running_opened (by simpa using hr)
    split
    · exact h
    · split
      · exact h
      · rename_i m hm i hi
        split
        · exact h
        · exact h
        · rename_i T' hT'
          have hid : i.id = id := find?_id hi
          constructor
          · intro hf d' hd'
            simp only at hf hd' ⊢
            obtain ⟨hmem, hne⟩ := List.mem_filter.mp hd'
            have hne' : d'.id ≠ i.id := by rw [hid]; simpa using hne
            exact remove_keeps i hT' _ d' hne' (h.cov hf d' hmem)
          · intro _; exact modifyLast_ne _ _ (h.mtsNe ho)

theorem visInv_flush {s : Store} (h : VisInv s) : VisInv (execFlush s).1 := by
  unfold execFlush
  split
  · exact h
  · simp only [flushRotatesMutable, Bool.false_and, Bool.false_eq_true, if_false]
    have h1 := visInv_flushAll h (butLast s.mts)
    exact ⟨h1.cov, h1.mtsNe⟩

theorem visInv_same {s s' : Store} (h : VisInv s) (hcfg : s'.cfg = s.cfg) (hT : s'.T = s.T)
    (hl : s'.gh.loadLost = s.gh.loadLost) (hs : s'.gh.sess = s.gh.sess)
    (hm : s'.opened = true → s'.mts ≠ []) : VisInv s' :=
  visInv_of_liveSub h hcfg (fun hf => ⟨by rw [← hl]; exact hf, by rw [hT]; exact LiveSub.refl _⟩) hs hm

theorem visInv_bg {s : Store} (h : VisInv s) (b : Bg) : VisInv (execBg s b).1 := by
  cases b with
  | fwake => simp only [execBg]; split <;> (try split) <;> first | exact h | exact visInv_same h rfl rfl rfl rfl h.mtsNe
  | ffinal => simp only [execBg]; split <;> (try split) <;> first | exact h | exact visInv_same h rfl rfl rfl rfl h.mtsNe
  | flist => simp only [execBg]; split <;> (try split) <;> first | exact h | exact visInv_same h rfl rfl rfl rfl h.mtsNe
  | fwrite =>
    simp only [execBg]; split
    · rename_i f m rest _
      have h1 := visInv_flushOne h m
      exact ⟨h1.cov, h1.mtsNe⟩
    · exact h
  | fremove =>
    simp only [execBg]; split
    · exact visInv_same h rfl rfl rfl rfl (fun ho => removeMt_ne _ _ (h.mtsNe ho))
    · exact h
  | cwake => simp only [execBg]; split <;> (try split) <;> first | exact h | exact visInv_same h rfl rfl rfl rfl h.mtsNe
  | cexit => simp only [execBg]; split <;> (try split) <;> first | exact h | exact visInv_same h rfl rfl rfl rfl h.mtsNe
  | clist =>
    simp only [execBg]; split
    · split
      · exact visInv_same h rfl rfl rfl rfl h.mtsNe
      · split <;> exact visInv_same h rfl rfl rfl rfl h.mtsNe
    · exact h
  | cload =>
    simp only [execBg]; split
    · split
      · have lost : ∀ (T' : Shared) (x : Bool), (s.gh.loadLost || !T'.coversLive s.T) = false →
            s.gh.loadLost = false ∧ LiveSub s.T T' := by
          intro T' _ hf
          simp only [Bool.or_eq_false_iff, Bool.not_eq_false'] at hf
          exact ⟨hf.1, coversLive_liveSub hf.2⟩
        split
        · exact visInv_of_liveSub h rfl (fun hf => lost _ true hf) rfl h.mtsNe
        · exact visInv_of_liveSub h rfl (fun hf => lost _ true hf) rfl h.mtsNe
      · exact visInv_same h rfl rfl rfl rfl h.mtsNe
    · exact h
  | cwrite =>
    simp only [execBg]; split
    · exact visInv_of_liveSub h rfl (fun hf => ⟨hf, liveSub_flush _⟩) rfl h.mtsNe
    · exact h
  | cswap =>
    simp only [execBg]; split
    · exact visInv_same h rfl rfl rfl rfl h.mtsNe
    · exact h

theorem visInv_openOn (cfg : Cfg) (fs : FS) (T0 : Shared) (gh : Ghost) : VisInv (openOn cfg fs T0 gh).1 := by
  unfold openOn
  split
  · exact ⟨fun _ d hd => (by cases hd), fun ho => (by cases ho)⟩
  · exact ⟨fun _ d hd => (by cases hd), fun _ => (by simp)⟩

theorem visInv_exec {s : Store} (h : VisInv s) (st : Step) : VisInv (exec s st).1 := by
  cases st with
  | add d => exact visInv_add h d
  | remove id => exact visInv_remove h id
  | flush => exact visInv_flush h
  | rotate =>
    simp only [exec]; split
    · exact h
    · exact visInv_same h rfl rfl rfl rfl (fun _ => rotateQ_ne _ _)
  | trigger => simp only [exec]; split <;> first | exact h | exact visInv_same h rfl rfl rfl rfl h.mtsNe
  | evict => simp only [exec]; split <;> first | exact h | exact visInv_same h rfl rfl rfl rfl h.mtsNe
  | search q sched => exact visInv_search h q sched
  | close =>
    simp only [exec]; split
    · exact h
    · simp only [flushRotatesMutable, Bool.false_and, Bool.false_eq_true, if_false]
      exact visInv_same h rfl rfl rfl rfl h.mtsNe
  | closeDone =>
    simp only [exec]; split
    · exact visInv_same h rfl rfl rfl rfl (fun ho => by cases ho)
    · exact h
  | reopen =>
    simp only [exec]; split
    · exact h
    · exact visInv_openOn _ _ _ _
  | bg b => exact visInv_bg h b

theorem visInv_xexec {s : Store} (h : VisInv s) (x : XStep) : VisInv (xexec s x) := by
  cases x with
  | step st => exact visInv_exec h st
  | crash st k cuts =>
    simp only [xexec]
    split
    · exact ⟨fun _ d hd => (by cases hd), fun ho => (by cases ho)⟩
    · exact h

theorem visInv_reach {cfg : Cfg} {s : Store} (h : Reach cfg s) : VisInv s := by
  obtain ⟨xs, rfl⟩ := h
  suffices ∀ s, VisInv s → VisInv (xrun s xs) from this _ (visInv_openOn _ _ _ _)
  induction xs with
  | nil => intro s hs; exact hs
  | cons x r ih => intro s hs; exact ih _ (visInv_xexec hs x)

end Comet.Storage
