import CometProofs.Storage.Spec
namespace Comet.Storage

/-! ## files of a complete segment: written by flush, kept by every step but the compaction swap -/

/-- every name mentioned by a step list -/
def touched : List FsStep → List Name
  | [] => []
  | .create n _ :: r => n :: touched r
  | .complete n :: r => n :: touched r
  | .remove n :: r => n :: touched r

theorem touched_append (a b : List FsStep) : touched (a ++ b) = touched a ++ touched b := by
  induction a with
  | nil => rfl
  | cons st r ih => cases st <;> simp [touched, ih]

theorem touched_take_sub (l : List FsStep) (k : Nat) (m : Name) (h : m ∈ touched (l.take k)) : m ∈ touched l := by
  induction l generalizing k with
  | nil => simp [touched] at h
  | cons st r ih =>
    cases k with
    | zero => simp [touched] at h
    | succ k =>
      rw [List.take_succ_cons] at h
      cases st <;> (simp only [touched, List.mem_cons] at h ⊢; rcases h with h | h; exact .inl h; exact .inr (ih _ h))

theorem createdBy_sub_touched (l : List FsStep) (m : Name) (h : m ∈ createdBy l) : m ∈ touched l := by
  induction l with
  | nil => simp [createdBy] at h
  | cons st r ih =>
    cases st with
    | create n p =>
      simp only [createdBy, touched, List.mem_cons] at h ⊢
      rcases h with h | h
      · exact .inl h
      · exact .inr (ih h)
    | complete n => simp only [createdBy, touched, List.mem_cons] at h ⊢; exact .inr (ih h)
    | remove n => simp only [createdBy, touched, List.mem_cons] at h ⊢; exact .inr (ih h)

theorem find_erase_ne (fs : FS) (n m : Name) (h : m ≠ n) : FS.find (FS.erase fs n) m = FS.find fs m := by
  induction fs with
  | nil => rfl
  | cons e r ih =>
    obtain ⟨a, f⟩ := e
    unfold FS.erase at ih ⊢
    simp only [List.filter]
    by_cases ha : a = n
    · subst ha
      simp only [ne_eq, not_true_eq_false, decide_false]
      rw [ih]
      simp only [FS.find]
      rw [if_neg (fun h' => h h'.symm)]
    · simp only [ne_eq, ha, not_false_eq_true, decide_true]
      simp only [FS.find]
      split
      · rfl
      · exact ih

theorem find_append_singleton_ne (fs : FS) (n m : Name) (f : File) (h : m ≠ n) :
    FS.find (fs ++ [(n, f)]) m = FS.find fs m := by
  induction fs with
  | nil =>
    simp only [List.nil_append, FS.find]
    rw [if_neg (fun h' => h h'.symm)]
  | cons e r ih =>
    obtain ⟨a, g⟩ := e
    simp only [List.cons_append, FS.find]
    split
    · rfl
    · exact ih

theorem find_put_ne (fs : FS) (n m : Name) (f : File) (h : m ≠ n) : FS.find (FS.put fs n f) m = FS.find fs m := by
  unfold FS.put
  rw [find_append_singleton_ne _ _ _ _ h, find_erase_ne _ _ _ h]

theorem find_map_ne (fs : FS) (n m : Name) (g : File → File) (h : m ≠ n) :
    FS.find (fs.map fun e => if e.1 = n then (e.1, g e.2) else e) m = FS.find fs m := by
  induction fs with
  | nil => rfl
  | cons e r ih =>
    obtain ⟨a, f⟩ := e
    simp only [List.map_cons, FS.find]
    by_cases ha : a = n
    · subst ha
      simp only [if_true]
      rw [if_neg (fun h' => h h'.symm), if_neg (fun h' => h h'.symm)]
      exact ih
    · simp only [ha, if_false]
      split
      · rfl
      · exact ih

theorem find_applyStep_untouched (fs : FS) (st : FsStep) (m : Name) (h : m ∉ touched [st]) :
    FS.find (applyStep fs st) m = FS.find fs m := by
  cases st with
  | create n p => simp only [touched, List.mem_cons, List.not_mem_nil, or_false] at h; exact find_put_ne _ _ _ _ h
  | complete n =>
    simp only [touched, List.mem_cons, List.not_mem_nil, or_false] at h
    simp only [applyStep]
    exact find_map_ne fs n m (fun f => { f with cut := .full }) h
  | remove n => simp only [touched, List.mem_cons, List.not_mem_nil, or_false] at h; exact find_erase_ne _ _ _ h

theorem find_applySteps_untouched (steps : List FsStep) (fs : FS) (m : Name) (h : m ∉ touched steps) :
    FS.find (applySteps fs steps) m = FS.find fs m := by
  induction steps generalizing fs with
  | nil => rfl
  | cons st r ih =>
    simp only [applySteps, List.foldl_cons]
    have e : touched (st :: r) = touched [st] ++ touched r := by cases st <;> simp [touched]
    rw [e] at h
    have := ih (applyStep fs st) (fun x => h (List.mem_append_right _ x))
    simp only [applySteps] at this
    rw [this]
    exact find_applyStep_untouched _ _ _ (fun x => h (List.mem_append_left _ x))

theorem find_recut_untouched (created : List Name) (cuts : Name → Cut) (fs : FS) (m : Name)
    (h : m ∉ created) : FS.find (recut created cuts fs) m = FS.find fs m := by
  unfold recut
  induction fs with
  | nil => rfl
  | cons e r ih =>
    obtain ⟨a, f⟩ := e
    simp only [List.map_cons, FS.find]
    by_cases ha : a = m
    · subst ha
      have hc : created.contains a = false := by simpa using h
      simp only [hc, Bool.false_eq_true, if_false, if_true]
    · by_cases hc : created.contains a = true
      · simp only [hc, if_true, ha, if_false]; exact ih
      · have hc' : created.contains a = false := by simpa using hc
        simp only [hc', Bool.false_eq_true, if_false, ha]; exact ih

theorem find_some_name (fs : FS) (n : Name) (f : File) (h : FS.find fs n = some f) : n ∈ FS.names fs := by
  have := find_mem fs n f h
  exact List.mem_map.mpr ⟨(n, f), this, rfl⟩

/-! ### what the steps of the store touch -/

theorem touched_writeSteps (tpl : Tpl) (id : Nat) (info : List Info) (T : Shared) (m : Name)
    (h : m ∈ touched (writeSteps tpl id info T)) : ∃ k, m = Name.seg k id := by
  unfold writeSteps at h
  rw [touched_append] at h
  rcases List.mem_append.mp h with h | h
  · generalize comps tpl = l at h
    induction l with
    | nil => simp [touched] at h
    | cons k r ih =>
      simp only [List.map_cons, touched, List.mem_cons] at h
      rcases h with h | h
      · exact ⟨k, h⟩
      · exact ih h
  · generalize closeOrder tpl = l at h
    induction l with
    | nil => simp [touched] at h
    | cons k r ih =>
      simp only [List.map_cons, touched, List.mem_cons] at h
      rcases h with h | h
      · exact ⟨k, h⟩
      · exact ih h

theorem touched_flushStepsFrom (tpl : Tpl) (l : List Memtable) (T : Shared) (c : Nat) (m : Name)
    (h : m ∈ touched (flushStepsFrom tpl T c l)) : ∃ k i, c < i ∧ m = Name.seg k i := by
  induction l generalizing T c with
  | nil => simp [flushStepsFrom, touched] at h
  | cons mt r ih =>
    simp only [flushStepsFrom] at h
    rw [touched_append] at h
    rcases List.mem_append.mp h with h | h
    · obtain ⟨k, hk⟩ := touched_writeSteps _ _ _ _ _ h
      exact ⟨k, c + 1, Nat.lt_succ_self _, hk⟩
    · obtain ⟨k, i, hi, hm⟩ := ih _ _ h
      exact ⟨k, i, by omega, hm⟩

/-- the steps of anything but the compaction swap touch only LOCK or names with an id above the counter -/
theorem touched_fsStepsOf (s : Store) (st : Step) (hns : st ≠ .bg .cswap) (m : Name)
    (h : m ∈ touched (fsStepsOf s st)) : m = .lock ∨ ∃ k i, s.counter < i ∧ m = Name.seg k i := by
  cases st with
  | flush =>
    simp only [fsStepsOf] at h; split at h
    · exact .inr (touched_flushStepsFrom _ _ _ _ _ h)
    · simp [touched] at h
  | bg b =>
    cases b with
    | fwrite =>
      simp only [fsStepsOf] at h; split at h
      · obtain ⟨k, hk⟩ := touched_writeSteps _ _ _ _ _ h
        exact .inr ⟨k, _, Nat.lt_succ_self _, hk⟩
      · simp [touched] at h
    | cwrite =>
      simp only [fsStepsOf] at h; split at h
      · obtain ⟨k, hk⟩ := touched_writeSteps _ _ _ _ _ h
        exact .inr ⟨k, _, Nat.lt_succ_self _, hk⟩
      · simp [touched] at h
    | cswap => exact absurd rfl hns
    | fwake => simp [fsStepsOf, touched] at h
    | ffinal => simp [fsStepsOf, touched] at h
    | flist => simp [fsStepsOf, touched] at h
    | fremove => simp [fsStepsOf, touched] at h
    | cwake => simp [fsStepsOf, touched] at h
    | cexit => simp [fsStepsOf, touched] at h
    | clist => simp [fsStepsOf, touched] at h
    | cload => simp [fsStepsOf, touched] at h
  | closeDone =>
    simp only [fsStepsOf] at h; split at h
    · simp [touched] at h; exact .inl h
    · simp [touched] at h
  | reopen =>
    simp only [fsStepsOf] at h; split at h
    · simp [touched] at h
    · simp [touched] at h; exact .inl h
  | add d => simp [fsStepsOf, touched] at h
  | remove id => simp [fsStepsOf, touched] at h
  | rotate => simp [fsStepsOf, touched] at h
  | trigger => simp [fsStepsOf, touched] at h
  | evict => simp [fsStepsOf, touched] at h
  | search q sched => simp [fsStepsOf, touched] at h
  | close => simp [fsStepsOf, touched] at h

end Comet.Storage
