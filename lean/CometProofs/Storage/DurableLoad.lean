import CometProofs.Storage.DurableFS
namespace Comet.Storage

/-- segment `g` of `fs` is complete for templates `tpl` and holds `d` in every component `d` was added to -/
def SegHolds (tpl : Tpl) (fs : FS) (g : Nat) (d : Doc) : Prop :=
  (∃ info, FS.find fs (.seg .hybrid g) = some ⟨.hybrid tpl info, .full⟩) ∧
  (tpl.vec = true → ∃ st, FS.find fs (.seg .vector g) = some ⟨.vector st, .full⟩ ∧
      ((infoOf tpl d).hv = true → d.id ∈ st)) ∧
  (tpl.txt = true → ∃ ds, FS.find fs (.seg .text g) = some ⟨.text ds, .full⟩ ∧
      ((infoOf tpl d).ht = true → d.id ∈ ds)) ∧
  (tpl.md = true → ∃ a, FS.find fs (.seg .metadata g) = some ⟨.mdata a, .full⟩ ∧
      ((infoOf tpl d).hm = true → d.id ∈ a))

theorem live_nil_deleted (st : List Id) : (⟨st, []⟩ : VecIx).live = st := by
  simp [VecIx.live]

theorem xlive_nil_deleted (ds : List Id) : (⟨ds, []⟩ : TxtIx).live = ds := by
  simp [TxtIx.live]

/-- loading a complete segment succeeds and publishes its documents, whatever the templates held -/
theorem loadSeg_of_holds {tpl : Tpl} {fs : FS} {g : Nat} {d : Doc} (h : SegHolds tpl fs g d) (T : Shared) :
    (loadSeg tpl fs g T).1 = true ∧ covered tpl (loadSeg tpl fs g T).2 d := by
  obtain ⟨⟨info, hh⟩, hv, ht, hm⟩ := h
  obtain ⟨vec, txt, md⟩ := tpl
  cases vec <;> cases txt <;> cases md
  all_goals simp only [Bool.false_eq_true, false_implies, true_implies, forall_const] at hv ht hm
  · simp [loadSeg, comps, openAll, openable, hh, readAll, readComp, covered, infoOf]
  · obtain ⟨a, ha, hma⟩ := hm
    simp [loadSeg, comps, openAll, openable, hh, ha, readAll, readComp, covered, infoOf] at hma ⊢
    exact hma
  · obtain ⟨ds, hds, hmd⟩ := ht
    simp [loadSeg, comps, openAll, openable, hh, hds, readAll, readComp, covered, infoOf, xlive_nil_deleted] at hmd ⊢
    exact hmd
  · obtain ⟨ds, hds, hmd⟩ := ht
    obtain ⟨a, ha, hma⟩ := hm
    simp [loadSeg, comps, openAll, openable, hh, hds, ha, readAll, readComp, covered, infoOf, xlive_nil_deleted] at hmd hma ⊢
    exact ⟨hmd, hma⟩
  · obtain ⟨st, hst, hms⟩ := hv
    simp [loadSeg, comps, openAll, openable, hh, hst, readAll, readComp, covered, infoOf, live_nil_deleted] at hms ⊢
    exact hms
  · obtain ⟨st, hst, hms⟩ := hv
    obtain ⟨a, ha, hma⟩ := hm
    simp [loadSeg, comps, openAll, openable, hh, hst, ha, readAll, readComp, covered, infoOf, live_nil_deleted] at hms hma ⊢
    exact ⟨hms, hma⟩
  · obtain ⟨st, hst, hms⟩ := hv
    obtain ⟨ds, hds, hmd⟩ := ht
    simp [loadSeg, comps, openAll, openable, hh, hst, hds, readAll, readComp, covered, infoOf, live_nil_deleted, xlive_nil_deleted] at hms hmd ⊢
    exact ⟨hms, hmd⟩
  · obtain ⟨st, hst, hms⟩ := hv
    obtain ⟨ds, hds, hmd⟩ := ht
    obtain ⟨a, ha, hma⟩ := hm
    simp [loadSeg, comps, openAll, openable, hh, hst, hds, ha, readAll, readComp, covered, infoOf, live_nil_deleted, xlive_nil_deleted] at hms hmd hma ⊢
    exact ⟨hms, hmd, hma⟩

end Comet.Storage

namespace Comet.Storage

theorem isCached_nil (g : Nat) : isCached [] g = none := rfl

theorem isCached_cons (x : Seg) (r : List Seg) (g : Nat) :
    isCached (x :: r) g = if x.id = g then some x.cached else isCached r g := by
  unfold isCached
  simp only [List.find?_cons]
  by_cases h : x.id = g <;> simp [h]

theorem setCached_cons (x : Seg) (r : List Seg) (id : Nat) (c : Bool) :
    setCached (x :: r) id c = (if x.id = id then { x with cached := c } else x) :: setCached r id c := rfl

theorem isCached_setCached_same (segs : List Seg) (g : Nat) (c b : Bool) (h : isCached segs g = some b) :
    isCached (setCached segs g c) g = some c := by
  induction segs with
  | nil => simp [isCached_nil] at h
  | cons x r ih =>
    rw [setCached_cons, isCached_cons]
    rw [isCached_cons] at h
    by_cases hx : x.id = g
    · simp [hx]
    · simp only [hx, if_false] at h ⊢
      exact ih h

theorem isCached_setCached_ne (segs : List Seg) (g id : Nat) (c : Bool) (hne : g ≠ id) :
    isCached (setCached segs id c) g = isCached segs g := by
  induction segs with
  | nil => rfl
  | cons x r ih =>
    rw [setCached_cons, isCached_cons, isCached_cons, ih]
    by_cases hx : x.id = id
    · have h1 : ¬ x.id = g := fun h => hne (h.symm.trans hx)
      have h2 : ¬ id = g := fun h => hne h.symm
      simp [hx, h2]
    · simp [hx]

def SegEv.id : SegEv → Nat
  | .load i => i
  | .scan i => i

theorem segEvent_other (cfg : Cfg) (fs : FS) (q : Q) (st : SearchSt) (ev : SegEv) (g : Nat) (hne : g ≠ ev.id) :
    isCached (segEvent cfg fs q st ev).segs g = isCached st.segs g := by
  cases ev with
  | load id =>
    simp only [segEvent]
    split
    · simp only
      split
      · exact isCached_setCached_ne _ _ _ _ hne
      · rfl
    · rfl
  | scan id =>
    simp only [segEvent]
    split <;> rfl

theorem fold_other (cfg : Cfg) (fs : FS) (q : Q) (sched : List SegEv) (st : SearchSt) (g : Nat)
    (hne : ∀ ev ∈ sched, g ≠ ev.id) :
    isCached (sched.foldl (segEvent cfg fs q) st).segs g = isCached st.segs g := by
  induction sched generalizing st with
  | nil => rfl
  | cons ev r ih =>
    simp only [List.foldl_cons]
    rw [ih _ (fun e he => hne e (List.mem_cons_of_mem _ he))]
    exact segEvent_other _ _ _ _ _ _ (hne ev (List.mem_cons_self ..))

theorem serialSched_ids (order : List Nat) (ev : SegEv) (h : ev ∈ serialSched order) : ev.id ∈ order := by
  unfold serialSched at h
  obtain ⟨i, hi, he⟩ := List.mem_flatMap.mp h
  simp only [List.mem_cons, List.not_mem_nil, or_false] at he
  rcases he with rfl | rfl <;> exact hi

theorem serialSched_append (a b : List Nat) : serialSched (a ++ b) = serialSched a ++ serialSched b := by
  unfold serialSched; simp [List.flatMap_append]

theorem exists_first_split (l : List Nat) (g : Nat) (h : g ∈ l) :
    ∃ pre post, l = pre ++ g :: post ∧ g ∉ pre := by
  induction l with
  | nil => cases h
  | cons x r ih =>
    by_cases hx : x = g
    · exact ⟨[], r, by simp [hx], by simp⟩
    · rcases List.mem_cons.mp h with h | h
      · exact absurd h.symm hx
      · obtain ⟨pre, post, e, hp⟩ := ih h
        refine ⟨x :: pre, post, by simp [e], ?_⟩
        intro hm
        rcases List.mem_cons.mp hm with hm | hm
        · exact hx hm.symm
        · exact hp hm

/-- a complete segment holding `d`, registered and not cached: any search that runs its goroutine
    (load, then scan) once finds `d` -/
theorem found_of_holds {s : Store} (hr : running s = true) {g : Nat} {d : Doc} {q : Q}
    (hh : SegHolds s.cfg.tpl s.fs g d) (hm : Doc.matches s.cfg.tpl d q = true)
    (hunc : isCached s.segs g = some false)
    (order : List Nat) (hg : g ∈ order) :
    found s q (serialSched order) d := by
  obtain ⟨pre, post, rfl, hpre⟩ := exists_first_split order g hg
  unfold found
  simp only [exec, execSearch]
  rw [if_neg (by simp [hr]), if_neg (by simp [matches_has hm])]
  refine ⟨_, rfl, ?_⟩
  apply List.mem_eraseDups.mpr
  have e : serialSched (pre ++ g :: post) = serialSched pre ++ ([SegEv.load g, SegEv.scan g] ++ serialSched post) := by
    rw [serialSched_append]
    congr 1
  rw [e, List.foldl_append, List.foldl_append]
  apply acc_mono
  generalize hst1 : (serialSched pre).foldl (segEvent s.cfg s.fs q)
    ⟨s.T, s.segs, (s.mts.flatMap fun _ => s.T.matchIds q), 0, s.gh⟩ = st1
  have hflag : isCached st1.segs g = some false := by
    rw [← hst1, fold_other _ _ _ _ _ _ (fun ev hev hge => hpre (by rw [hge]; exact serialSched_ids _ _ hev))]
    exact hunc
  obtain ⟨hok, hcov⟩ := loadSeg_of_holds hh st1.T
  simp only [List.foldl_cons, List.foldl_nil]
  have hload : segEvent s.cfg s.fs q st1 (.load g) =
      { st1 with T := (loadSeg s.cfg.tpl s.fs g st1.T).2, segs := setCached st1.segs g true,
                 loads := st1.loads + (if (openAll s.fs g (comps s.cfg.tpl)).isSome then 1 else 0),
                 gh := { st1.gh with loadLost := st1.gh.loadLost || !(loadSeg s.cfg.tpl s.fs g st1.T).2.coversLive st1.T,
                                     revived := st1.gh.revived || (loadSeg s.cfg.tpl s.fs g st1.T).2.livesAny st1.gh.gone } } := by
    simp only [segEvent, hflag, hok, if_true]
  rw [hload]
  simp only [segEvent, isCached_setCached_same _ _ _ _ hflag]
  exact List.mem_append_right _ (covered_matchIds hcov hm)

/-! ### a successful load needs every component complete -/

theorem readAll_ok_cuts (tpl : Tpl) (files : List (Kind × File)) (T : Shared) (pc : Bool)
    (h : (readAll tpl T pc files).1 = true) :
    pc = false ∧ ∀ kf ∈ files, kf.2.cut ≠ .data ∧ kf.2.cut ≠ .trailer := by
  induction files generalizing T pc with
  | nil =>
    simp only [readAll] at h
    exact ⟨by simpa using h, fun kf hkf => by cases hkf⟩
  | cons kf r ih =>
    obtain ⟨k, f⟩ := kf
    simp only [readAll] at h
    split at h
    · cases h
    · rename_i hpc
      split at h
      · cases h
      · rename_i T' hT'
        obtain ⟨htr, hrest⟩ := ih T' _ h
        have hnd : f.cut ≠ .data := by
          intro hd; unfold readComp at hT'; simp [hd] at hT'
        have hnt : f.cut ≠ .trailer := by
          intro ht; simp [ht] at htr
        refine ⟨by simpa using hpc, ?_⟩
        intro kf' hkf'
        rcases List.mem_cons.mp hkf' with rfl | hkf'
        · exact ⟨hnd, hnt⟩
        · exact hrest kf' hkf'

theorem openable_find (fs : FS) (n : Name) (f : File) (h : openable fs n = some f) :
    FS.find fs n = some f ∧ f.cut ≠ .header := by
  unfold openable at h
  split at h
  · rename_i g hg
    split at h
    · cases h
    · rename_i hc; injection h with h; subst h; exact ⟨hg, hc⟩
  · cases h

theorem openAll_spec (fs : FS) (id : Nat) (ks : List Kind) (files : List (Kind × File))
    (h : openAll fs id ks = some files) :
    ∀ k ∈ ks, ∃ f, (k, f) ∈ files ∧ FS.find fs (.seg k id) = some f ∧ f.cut ≠ .header := by
  induction ks generalizing files with
  | nil => intro k hk; cases hk
  | cons k0 r ih =>
    simp only [openAll] at h
    split at h
    · rename_i f rest hf hr
      injection h with h; subst h
      intro k hk
      rcases List.mem_cons.mp hk with rfl | hk
      · obtain ⟨h1, h2⟩ := openable_find _ _ _ hf
        exact ⟨f, List.mem_cons_self .., h1, h2⟩
      · obtain ⟨f', hm, h1, h2⟩ := ih _ hr k hk
        exact ⟨f', List.mem_cons_of_mem _ hm, h1, h2⟩
    · cases h

/-- a segment is loaded only if every component file the templates need is present and complete -/
theorem loadSeg_ok_complete (tpl : Tpl) (fs : FS) (id : Nat) (T : Shared)
    (h : (loadSeg tpl fs id T).1 = true) : segComplete tpl fs id = true := by
  unfold loadSeg at h
  split at h
  · cases h
  · rename_i files hfiles
    obtain ⟨_, hcuts⟩ := readAll_ok_cuts tpl files T false h
    unfold segComplete
    rw [List.all_eq_true]
    intro k hk
    obtain ⟨f, hm, hfind, hnh⟩ := openAll_spec _ _ _ _ hfiles k hk
    obtain ⟨hnd, hnt⟩ := hcuts _ hm
    rw [hfind]
    simp only [decide_eq_true_eq]
    cases hc : f.cut with
    | full => rfl
    | data => exact absurd hc hnd
    | trailer => exact absurd hc hnt
    | header => exact absurd hc hnh

end Comet.Storage
