import CometProofs.Storage.ExecFS
namespace Comet.Storage

/-! ## a flush writes complete segments holding what the templates hold -/

theorem find_append_singleton_same (fs : FS) (n : Name) (f : File) (h : FS.find fs n = none) :
    FS.find (fs ++ [(n, f)]) n = some f := by
  induction fs with
  | nil => simp [FS.find]
  | cons e r ih =>
    obtain ⟨a, g⟩ := e
    simp only [List.cons_append, FS.find] at h ⊢
    split
    · rename_i ha; simp [ha] at h
    · rename_i ha; simp only [ha, if_false] at h; exact ih h

theorem find_erase_same (fs : FS) (n : Name) : FS.find (FS.erase fs n) n = none := by
  induction fs with
  | nil => rfl
  | cons e r ih =>
    obtain ⟨a, g⟩ := e
    unfold FS.erase at ih ⊢
    simp only [List.filter]
    by_cases ha : a = n
    · simp only [ha, ne_eq, not_true_eq_false, decide_false]; exact ih
    · simp only [ne_eq, ha, not_false_eq_true, decide_true, FS.find, if_false]; exact ih

theorem find_put (fs : FS) (n m : Name) (f : File) :
    FS.find (FS.put fs n f) m = if m = n then some f else FS.find fs m := by
  by_cases h : m = n
  · subst h; simp only [if_true]; unfold FS.put; exact find_append_singleton_same _ _ _ (find_erase_same _ _)
  · simp only [h, if_false]; exact find_put_ne _ _ _ _ h

theorem find_complete (fs : FS) (n m : Name) :
    FS.find (fs.map fun e => if e.1 = n then (e.1, { e.2 with cut := Cut.full }) else e) m =
      if m = n then (FS.find fs m).map (fun f => { f with cut := Cut.full }) else FS.find fs m := by
  by_cases h : m = n
  · subst h
    simp only [if_true]
    induction fs with
    | nil => rfl
    | cons e r ih =>
      obtain ⟨a, g⟩ := e
      simp only [List.map_cons, FS.find]
      by_cases ha : a = m
      · simp [ha]
      · simp only [ha, if_false]; exact ih
  · simp only [h, if_false]; exact find_map_ne fs n m (fun f => { f with cut := Cut.full }) h

theorem find_applyStep_create (fs : FS) (n m : Name) (p : Payload) :
    FS.find (applyStep fs (.create n p)) m = if m = n then some ⟨p, .header⟩ else FS.find fs m :=
  find_put fs n m _

theorem find_applyStep_complete (fs : FS) (n m : Name) :
    FS.find (applyStep fs (.complete n)) m =
      if m = n then (FS.find fs m).map (fun f => { f with cut := Cut.full }) else FS.find fs m :=
  find_complete fs n m

/-- after the FS steps of a segment write, every component file of the templates is complete and
    holds the payload it was created with -/
theorem find_writeSteps (fs : FS) (tpl : Tpl) (id : Nat) (info : List Info) (T : Shared) :
    FS.find (applySteps fs (writeSteps tpl id info T)) (.seg .hybrid id) = some ⟨.hybrid tpl info, .full⟩ ∧
    (tpl.vec = true → FS.find (applySteps fs (writeSteps tpl id info T)) (.seg .vector id) = some ⟨.vector T.v.stored, .full⟩) ∧
    (tpl.txt = true → FS.find (applySteps fs (writeSteps tpl id info T)) (.seg .text id) = some ⟨.text T.x.docs, .full⟩) ∧
    (tpl.md = true → FS.find (applySteps fs (writeSteps tpl id info T)) (.seg .metadata id) = some ⟨.mdata T.m.all, .full⟩) := by
  obtain ⟨vec, txt, md⟩ := tpl
  cases vec <;> cases txt <;> cases md <;>
    simp [writeSteps, comps, closeOrder, applySteps, find_applyStep_create, find_applyStep_complete]

theorem segHolds_writeSegment {s : Store} {d : Doc} (info : List Info) (hc : covered s.cfg.tpl s.T d) :
    SegHolds s.cfg.tpl (writeSegment s info).1.fs (s.counter + 1) d := by
  have hfs : (writeSegment s info).1.fs = applySteps s.fs (writeSteps s.cfg.tpl (s.counter + 1) info s.T.flush) := rfl
  obtain ⟨h1, h2, h3, h4⟩ := find_writeSteps s.fs s.cfg.tpl (s.counter + 1) info s.T.flush
  rw [hfs]
  refine ⟨⟨info, h1⟩, ?_, ?_, ?_⟩
  · intro hv; exact ⟨_, h2 hv, fun a => hc.1 a⟩
  · intro ht; exact ⟨_, h3 ht, fun a => hc.2.1 a⟩
  · intro hm; exact ⟨_, h4 hm, fun a => hc.2.2 a⟩

/-! ## SegHolds is kept by everything but the compaction swap -/

theorem segHolds_congr {tpl : Tpl} {fs fs' : FS} {g : Nat} {d : Doc} (h : SegHolds tpl fs g d)
    (e : ∀ k, FS.find fs' (.seg k g) = FS.find fs (.seg k g)) : SegHolds tpl fs' g d := by
  unfold SegHolds at *
  simp only [e]
  exact h

theorem segHolds_mem_segIds {tpl : Tpl} {fs : FS} {g : Nat} {d : Doc} (h : SegHolds tpl fs g d) :
    g ∈ FS.segIds fs ∧ Name.seg .hybrid g ∈ FS.names fs := by
  obtain ⟨⟨info, hh⟩, _⟩ := h
  have := find_some_name _ _ _ hh
  exact ⟨(mem_segIds _ _).mpr ⟨_, this⟩, this⟩

theorem touched_fsStepsOf_closed {s : Store} (inv : IdInv s) (hc : s.opened = false) (st : Step) (m : Name)
    (h : m ∈ touched (fsStepsOf s st)) : m = .lock := by
  obtain ⟨hfw, hcw⟩ := inv.dead hc
  have hr : running s = false := by simp [running, hc]
  cases st with
  | flush => simp [fsStepsOf, hr, touched] at h
  | bg b => cases b <;> simp [fsStepsOf, hfw, hcw, touched] at h
  | closeDone => simp [fsStepsOf, hc, touched] at h
  | reopen =>
    simp only [fsStepsOf] at h; split at h
    · simp [touched] at h
    · simp [touched] at h; exact h
  | add d => simp [fsStepsOf, touched] at h
  | remove id => simp [fsStepsOf, touched] at h
  | rotate => simp [fsStepsOf, touched] at h
  | trigger => simp [fsStepsOf, touched] at h
  | evict => simp [fsStepsOf, touched] at h
  | search q sched => simp [fsStepsOf, touched] at h
  | close => simp [fsStepsOf, touched] at h

/-- no FS step of `st` (other than the compaction swap) touches a file of an existing segment -/
theorem untouched_fsStepsOf {s : Store} (inv : IdInv s) (st : Step) (hns : st ≠ .bg .cswap)
    (g : Nat) (hg : g ∈ FS.segIds s.fs) (k : Kind) : Name.seg k g ∉ touched (fsStepsOf s st) := by
  intro h
  cases ho : s.opened with
  | false => have := touched_fsStepsOf_closed inv ho st _ h; cases this
  | true =>
    rcases touched_fsStepsOf s st hns _ h with h | ⟨k', i, hi, he⟩
    · cases h
    · injection he with _ h2
      have := inv.fsLe ho g hg
      omega

theorem exec_cfg (s : Store) (st : Step) : (exec s st).1.cfg = s.cfg := by
  cases st with
  | add d => simp only [exec, execAdd]; split <;> (try split) <;> rfl
  | remove id =>
    simp only [exec, execRemove]
    split
    · rfl
    · split
      · rfl
      · split
        · rfl
        · split <;> rfl
  | flush =>
    simp only [exec, execFlush]; split
    · rfl
    · simp only [flushRotatesMutable, Bool.false_and, Bool.false_eq_true, if_false]
      have : ∀ (l : List Memtable) (s : Store), (flushAll s l).cfg = s.cfg := by
        intro l; induction l with
        | nil => intro s; rfl
        | cons m r ih => intro s; simp only [flushAll]; rw [ih]; rfl
      exact this _ _
  | rotate => simp only [exec]; split <;> rfl
  | trigger => simp only [exec]; split <;> rfl
  | evict => simp only [exec]; split <;> rfl
  | search q sched => simp only [exec, execSearch]; split <;> (try split) <;> rfl
  | close =>
    simp only [exec]; split
    · rfl
    · simp only [flushRotatesMutable, Bool.false_and, Bool.false_eq_true, if_false]
  | closeDone => simp only [exec]; split <;> rfl
  | reopen => simp only [exec]; split <;> (try (unfold openOn; split)) <;> rfl
  | bg b =>
    cases b <;> simp only [exec, execBg] <;> split <;> (try split) <;> (try split) <;> rfl

theorem segHolds_exec {s : Store} (inv : IdInv s) {g : Nat} {d : Doc} (h : SegHolds s.cfg.tpl s.fs g d)
    (st : Step) (hns : st ≠ .bg .cswap) : SegHolds (exec s st).1.cfg.tpl (exec s st).1.fs g d := by
  rw [exec_cfg, exec_fs_eq]
  apply segHolds_congr h
  intro k
  exact find_applySteps_untouched _ _ _ (untouched_fsStepsOf inv st hns g (segHolds_mem_segIds h).1 k)

theorem segHolds_crash {s : Store} (inv : IdInv s) {g : Nat} {d : Doc} (h : SegHolds s.cfg.tpl s.fs g d)
    (st : Step) (hns : st ≠ .bg .cswap) (k : Nat) (cuts : Name → Cut) :
    SegHolds s.cfg.tpl (FS.erase (crashImage s.fs (fsStepsOf s st) k cuts) .lock) g d := by
  apply segHolds_congr h
  intro kd
  have hnt := untouched_fsStepsOf inv st hns g (segHolds_mem_segIds h).1 kd
  rw [find_erase_ne _ _ _ (by intro e; cases e)]
  unfold crashImage
  rw [find_recut_untouched _ _ _ _ (fun hc => hnt (createdBy_sub_touched _ _ hc))]
  exact find_applySteps_untouched _ _ _ (fun ht => hnt (touched_take_sub _ _ _ ht))

end Comet.Storage
