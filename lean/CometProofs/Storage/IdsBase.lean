import CometProofs.Storage.Steps
namespace Comet.Storage

/-! ## the segment-id invariant -/

structure IdInv (s : Store) : Prop where
  fsLe : s.opened = true → ∀ i ∈ FS.segIds s.fs, i ≤ s.counter
  ever : ∀ i ∈ s.gh.everNamed, i ≤ initCounter s.fs
  segsLe : ∀ g ∈ s.segs, g.id ≤ s.counter
  loadingLe : ∀ srcs rest, s.cw = .loading srcs rest → ∀ i ∈ srcs, i ≤ s.counter
  wrote : ∀ srcs n, s.cw = .wrote srcs n →
    (∀ i ∈ srcs, i < n) ∧ n ≤ s.counter ∧ Name.seg .hybrid n ∈ FS.names s.fs
  noOver : s.gh.overwrote = false
  noReuse : s.gh.reused = false
  dead : s.opened = false → s.fw = .exited ∧ s.cw = .exited

/-- `fs'` still has, for every segment id of `fs`, an id at least as large -/
def KeepsMax (fs fs' : FS) : Prop := ∀ i ∈ FS.segIds fs, ∃ j ∈ FS.segIds fs', i ≤ j

theorem initCounter_witness (fs : FS) (i : Nat) (h : i ≤ initCounter fs) (hi : 0 < i) :
    ∃ j ∈ FS.segIds fs, i ≤ j := by
  by_cases hex : ∃ j ∈ FS.segIds fs, i ≤ j
  · exact hex
  · exfalso
    have : initCounter fs ≤ i - 1 := by
      apply initCounter_le
      intro j hj
      have : ¬ i ≤ j := fun h' => hex ⟨j, hj, h'⟩
      omega
    omega

theorem KeepsMax.le_initCounter {fs fs' : FS} (h : KeepsMax fs fs') (i : Nat) (hi : i ≤ initCounter fs) :
    i ≤ initCounter fs' := by
  by_cases h0 : i = 0
  · omega
  · obtain ⟨j, hj, hij⟩ := initCounter_witness fs i hi (by omega)
    obtain ⟨j', hj', hjj⟩ := h j hj
    exact Nat.le_trans (Nat.le_trans hij hjj) (Storage.le_initCounter _ _ hj')

theorem KeepsMax.of_names_sub {fs fs' : FS} (h : ∀ m ∈ FS.names fs, m ∈ FS.names fs') : KeepsMax fs fs' := by
  intro i hi
  obtain ⟨k, hk⟩ := (mem_segIds _ _).mp hi
  exact ⟨i, (mem_segIds _ _).mpr ⟨k, h _ hk⟩, Nat.le_refl _⟩

theorem KeepsMax.refl (fs : FS) : KeepsMax fs fs := fun i hi => ⟨i, hi, Nat.le_refl _⟩

theorem KeepsMax.trans {a b c : FS} (h1 : KeepsMax a b) (h2 : KeepsMax b c) : KeepsMax a c := by
  intro i hi
  obtain ⟨j, hj, hij⟩ := h1 i hi
  obtain ⟨k, hk, hjk⟩ := h2 j hj
  exact ⟨k, hk, Nat.le_trans hij hjk⟩

/-! ### segIds under lock operations and recut -/

theorem segIds_erase_lock (fs : FS) (i : Nat) : i ∈ FS.segIds (FS.erase fs .lock) ↔ i ∈ FS.segIds fs := by
  rw [mem_segIds, mem_segIds]
  constructor
  · rintro ⟨k, hk⟩; exact ⟨k, ((names_erase _ _ _).mp hk).1⟩
  · rintro ⟨k, hk⟩; exact ⟨k, (names_erase _ _ _).mpr ⟨hk, by intro h; cases h⟩⟩

theorem segIds_put_lock (fs : FS) (f : File) (i : Nat) : i ∈ FS.segIds (FS.put fs .lock f) ↔ i ∈ FS.segIds fs := by
  rw [mem_segIds, mem_segIds]
  constructor
  · rintro ⟨k, hk⟩
    rcases (names_put _ _ _ _).mp hk with h | h
    · exact ⟨k, h⟩
    · cases h
  · rintro ⟨k, hk⟩; exact ⟨k, (names_put _ _ _ _).mpr (.inl hk)⟩

theorem initCounter_congr (fs fs' : FS) (h : ∀ i, i ∈ FS.segIds fs ↔ i ∈ FS.segIds fs') :
    initCounter fs = initCounter fs' := by
  apply Nat.le_antisymm
  · exact initCounter_le _ _ fun i hi => Storage.le_initCounter _ _ ((h i).mp hi)
  · exact initCounter_le _ _ fun i hi => Storage.le_initCounter _ _ ((h i).mpr hi)

theorem names_recut (created : List Name) (cuts : Name → Cut) (fs : FS) :
    FS.names (recut created cuts fs) = FS.names fs := by
  unfold recut FS.names
  simp only [List.map_map]
  apply List.map_congr_left
  intro e _
  simp only [Function.comp]
  split <;> rfl

theorem segIds_recut (created : List Name) (cuts : Name → Cut) (fs : FS) :
    FS.segIds (recut created cuts fs) = FS.segIds fs := by
  unfold FS.segIds; rw [names_recut]

/-! ### membership in listSegments -/

theorem mem_insertSorted (x y : Nat) (l : List Nat) : y ∈ insertSorted x l ↔ y = x ∨ y ∈ l := by
  induction l with
  | nil => simp [insertSorted]
  | cons z zs ih =>
    simp only [insertSorted]
    split
    · simp
    · simp [ih]; constructor
      · rintro (h | h | h) <;> simp [h]
      · rintro (h | h | h) <;> simp [h]

theorem mem_sortNat (y : Nat) (l : List Nat) : y ∈ sortNat l ↔ y ∈ l := by
  induction l with
  | nil => simp [sortNat]
  | cons x xs ih =>
    have : sortNat (x :: xs) = insertSorted x (sortNat xs) := rfl
    rw [this, mem_insertSorted, ih]; simp

theorem mem_listSegments (fs : FS) (i : Nat) :
    i ∈ listSegments fs ↔ Name.seg .hybrid i ∈ FS.names fs := by
  unfold listSegments
  rw [mem_sortNat, List.mem_eraseDups, List.mem_filterMap]
  constructor
  · rintro ⟨n, hn, h⟩
    cases n with
    | lock => simp at h
    | seg k j =>
      cases k <;> simp at h
      subst h; exact hn
  · intro h; exact ⟨_, h, rfl⟩

theorem listSegments_sub_segIds (fs : FS) (i : Nat) (h : i ∈ listSegments fs) : i ∈ FS.segIds fs :=
  (mem_segIds _ _).mpr ⟨.hybrid, (mem_listSegments _ _).mp h⟩

end Comet.Storage
