import CometProofs.Storage.PhantomSteps
namespace Comet.Storage

theorem createdPayloads_flatMap_delete (srcs : List Nat) :
    createdPayloads (srcs.flatMap deleteSteps) = [] := by
  induction srcs with
  | nil => rfl
  | cons x r ih => rw [List.flatMap_cons, createdPayloads_append, ih]; rfl

theorem phInv_congr {s s' : Store} (h : PhInv s) (hT : s'.T = s.T) (hfs : s'.fs = s.fs)
    (ha : s'.gh.acked = s.gh.acked) : PhInv s' := by
  have : ackedIds s' = ackedIds s := by unfold ackedIds; rw [ha]
  exact ⟨by rw [this, hT]; exact h.T, by rw [this, hfs]; exact h.fs⟩

theorem writeSegment_acked (s : Store) (info : List Info) :
    (writeSegment s info).1.gh.acked = s.gh.acked := rfl

theorem flushOne_acked (s : Store) (m : Memtable) : (flushOne s m).1.gh.acked = s.gh.acked := rfl

theorem phInv_add {s : Store} (h : PhInv s) (d : Doc) : PhInv (execAdd s d).1 := by
  unfold execAdd
  split
  · exact h
  · have hsub : ∀ i ∈ ackedIds s, i ∈ d.id :: ackedIds s := fun i hi => List.mem_cons_of_mem _ hi
    split
    · constructor
      · show Sub (d.id :: ackedIds s) (s.T.add (infoOf s.cfg.tpl d))
        exact sub_add (h.T.mono hsub) _ (List.mem_cons_self ..)
      · show FSub (d.id :: ackedIds s) s.fs
        exact h.fs.mono hsub
    · constructor
      · show Sub (d.id :: ackedIds s) (s.T.add (infoOf s.cfg.tpl d))
        exact sub_add (h.T.mono hsub) _ (List.mem_cons_self ..)
      · show FSub (d.id :: ackedIds s) s.fs
        exact h.fs.mono hsub

theorem phInv_remove {s : Store} (h : PhInv s) (id : Id) : PhInv (execRemove s id).1 := by
  unfold execRemove
  split
  · exact h
  · split
    · exact h
    · split
      · exact h
      · split
        · exact h
        · exact h
        · rename_i T' hT'
          exact ⟨sub_remove h.T _ hT', h.fs⟩

theorem phInv_flush {s : Store} (h : PhInv s) : PhInv (execFlush s).1 := by
  unfold execFlush
  split
  · exact h
  · simp only [flushRotatesMutable, Bool.false_and, Bool.false_eq_true, if_false]
    exact phInv_congr (phInv_flushAll h _) rfl rfl rfl

theorem phInv_bg {s : Store} (h : PhInv s) (b : Bg) : PhInv (execBg s b).1 := by
  cases b with
  | fwake => simp only [execBg]; split <;> (try split) <;> first | exact h | exact phInv_congr h rfl rfl rfl
  | ffinal => simp only [execBg]; split <;> (try split) <;> first | exact h | exact phInv_congr h rfl rfl rfl
  | flist => simp only [execBg]; split <;> (try split) <;> first | exact h | exact phInv_congr h rfl rfl rfl
  | fwrite =>
    simp only [execBg]; split
    · rename_i f m rest _
      have := phInv_flushOne h m
      exact ⟨this.T, this.fs⟩
    · exact h
  | fremove => simp only [execBg]; split <;> first | exact h | exact phInv_congr h rfl rfl rfl
  | cwake => simp only [execBg]; split <;> (try split) <;> first | exact h | exact phInv_congr h rfl rfl rfl
  | cexit => simp only [execBg]; split <;> (try split) <;> first | exact h | exact phInv_congr h rfl rfl rfl
  | clist =>
    simp only [execBg]; split
    · split
      · exact phInv_congr h rfl rfl rfl
      · split <;> exact phInv_congr h rfl rfl rfl
    · exact h
  | cload =>
    simp only [execBg]; split
    · split
      · split
        · exact ⟨sub_loadSeg _ _ _ _ h.T h.fs, h.fs⟩
        · exact ⟨sub_loadSeg _ _ _ _ h.T h.fs, h.fs⟩
      · exact phInv_congr h rfl rfl rfl
    · exact h
  | cwrite =>
    simp only [execBg]; split
    · have := phInv_writeSegment h []
      exact ⟨this.T, this.fs⟩
    · exact h
  | cswap =>
    simp only [execBg]; split
    · rename_i srcs n _
      refine ⟨h.T, ?_⟩
      show FSub (ackedIds s) (applySteps s.fs (srcs.flatMap deleteSteps))
      apply fsub_applySteps _ h.fs
      intro p hp
      rw [createdPayloads_flatMap_delete] at hp; cases hp
    · exact h

theorem phInv_openOn (cfg : Cfg) (fs : FS) (gh : Ghost) (hfs : FSub (gh.acked.map (·.id)) fs) :
    PhInv (openOn cfg fs Shared.empty gh).1 := by
  unfold openOn
  split
  · exact ⟨sub_empty _, hfs⟩
  · constructor
    · exact sub_empty _
    · show FSub (gh.acked.map (·.id)) (FS.put fs .lock ⟨.lock, .full⟩)
      intro e he i hi
      unfold FS.put at he
      rcases List.mem_append.mp he with he | he
      · exact fsub_erase hfs _ e he i hi
      · simp only [List.mem_singleton] at he; subst he
        simp [Payload.content] at hi

theorem phInv_exec {s : Store} (h : PhInv s) (st : Step) : PhInv (exec s st).1 := by
  cases st with
  | add d => exact phInv_add h d
  | remove id => exact phInv_remove h id
  | flush => exact phInv_flush h
  | rotate => simp only [exec]; split <;> first | exact h | exact phInv_congr h rfl rfl rfl
  | trigger => simp only [exec]; split <;> first | exact h | exact phInv_congr h rfl rfl rfl
  | evict => simp only [exec]; split <;> first | exact h | exact phInv_congr h rfl rfl rfl
  | search q sched => exact phInv_search h q sched
  | close =>
    simp only [exec]; split
    · exact h
    · simp only [flushRotatesMutable, Bool.false_and, Bool.false_eq_true, if_false]
      exact phInv_congr h rfl rfl rfl
  | closeDone =>
    simp only [exec]; split
    · exact ⟨h.T, fsub_erase h.fs _⟩
    · exact h
  | reopen =>
    simp only [exec]; split
    · exact h
    · exact phInv_openOn _ _ _ h.fs
  | bg b => exact phInv_bg h b

/-- the payloads any step may create hold acknowledged ids only -/
theorem createdPayloads_fsStepsOf {s : Store} (h : PhInv s) (st : Step) :
    ∀ p ∈ createdPayloads (fsStepsOf s st), ∀ i ∈ p.content, i ∈ ackedIds s := by
  have flushSteps : ∀ (l : List Memtable) (T : Shared) (c : Nat), Sub (ackedIds s) T →
      ∀ p ∈ createdPayloads (flushStepsFrom s.cfg.tpl T c l), ∀ i ∈ p.content, i ∈ ackedIds s := by
    intro l
    induction l with
    | nil => intro T c _ p hp; simp [flushStepsFrom, createdPayloads] at hp
    | cons m r ih =>
      intro T c hT p hp
      simp only [flushStepsFrom] at hp
      rw [createdPayloads_append] at hp
      rcases List.mem_append.mp hp with hp | hp
      · exact createdPayloads_writeSteps _ _ _ _ (sub_flush hT) p hp
      · exact ih _ _ (sub_flush hT) p hp
  have none : ∀ p ∈ createdPayloads ([] : List FsStep), ∀ i ∈ p.content, i ∈ ackedIds s := by
    intro p hp; cases hp
  cases st with
  | flush =>
    simp only [fsStepsOf]; split
    · exact flushSteps _ _ _ h.T
    · exact none
  | bg b =>
    cases b with
    | fwrite =>
      simp only [fsStepsOf]; split
      · exact createdPayloads_writeSteps _ _ _ _ (sub_flush h.T)
      · exact none
    | cwrite =>
      simp only [fsStepsOf]; split
      · exact createdPayloads_writeSteps _ _ _ _ (sub_flush h.T)
      · exact none
    | cswap =>
      simp only [fsStepsOf]; split
      · rename_i srcs n _
        intro p hp
        rw [createdPayloads_flatMap_delete] at hp; cases hp
      · exact none
    | fwake => exact none
    | ffinal => exact none
    | flist => exact none
    | fremove => exact none
    | cwake => exact none
    | cexit => exact none
    | clist => exact none
    | cload => exact none
  | closeDone =>
    simp only [fsStepsOf]; split
    · intro p hp; simp [createdPayloads] at hp
    · exact none
  | reopen =>
    simp only [fsStepsOf]; split
    · exact none
    · intro p hp i hi
      simp [createdPayloads] at hp; subst hp
      simp [Payload.content] at hi
  | add d => exact none
  | remove id => exact none
  | rotate => exact none
  | trigger => exact none
  | evict => exact none
  | search q sched => exact none
  | close => exact none

theorem fsub_crashImage {s : Store} (h : PhInv s) (st : Step) (k : Nat) (cuts : Name → Cut) :
    FSub (ackedIds s) (crashImage s.fs (fsStepsOf s st) k cuts) := by
  unfold crashImage
  apply fsub_recut
  apply fsub_applySteps _ h.fs
  intro p hp
  exact createdPayloads_fsStepsOf h st p (createdPayloads_take_sub _ _ _ hp)

theorem phInv_crash {s : Store} (h : PhInv s) (st : Step) (k : Nat) (cuts : Name → Cut) :
    PhInv (crashTo s (crashImage s.fs (fsStepsOf s st) k cuts)) := by
  constructor
  · exact sub_empty _
  · show FSub (ackedIds s) (FS.erase (crashImage s.fs (fsStepsOf s st) k cuts) .lock)
    exact fsub_erase (fsub_crashImage h st k cuts) _

theorem phInv_xexec {s : Store} (h : PhInv s) (x : XStep) : PhInv (xexec s x) := by
  cases x with
  | step st => exact phInv_exec h st
  | crash st k cuts =>
    simp only [xexec]
    split
    · exact phInv_crash h st k cuts
    · exact h

theorem phInv_init (cfg : Cfg) : PhInv (Store.init cfg) := by
  unfold Store.init
  apply phInv_openOn
  intro e he; cases he

theorem phInv_reach {cfg : Cfg} {s : Store} (h : Reach cfg s) : PhInv s := by
  obtain ⟨xs, rfl⟩ := h
  suffices ∀ s, PhInv s → PhInv (xrun s xs) from this _ (phInv_init cfg)
  induction xs with
  | nil => intro s hs; exact hs
  | cons x r ih => intro s hs; exact ih _ (phInv_xexec hs x)

end Comet.Storage
