import CometProofs.Storage.IdsClient
namespace Comet.Storage

/-! ### background steps -/

theorem mem_replaceFirst (id : Nat) (l g : Seg) (segs : List Seg) (h : g ∈ replaceFirst id l segs) :
    g = l ∨ g ∈ segs := by
  induction segs with
  | nil => simp [replaceFirst] at h
  | cons s r ih =>
    simp only [replaceFirst] at h
    split at h
    · rcases List.mem_cons.mp h with h | h
      · exact .inl h
      · exact .inr (List.mem_cons_of_mem _ h)
    · rcases List.mem_cons.mp h with h | h
      · exact .inr (by rw [h]; exact List.mem_cons_self ..)
      · rcases ih h with h | h
        · exact .inl h
        · exact .inr (List.mem_cons_of_mem _ h)

theorem mem_removeSwap (segs : List Seg) (id : Nat) (g : Seg) (h : g ∈ removeSwap segs id) : g ∈ segs := by
  unfold removeSwap at h
  split at h
  · simp at h
  · rename_i l hl
    split at h
    · have := List.dropLast_subset _ h
      rcases mem_replaceFirst _ _ _ _ this with h | h
      · rw [h]; exact List.mem_of_getLast? hl
      · exact h
    · exact h

theorem mem_foldl_removeSwap (srcs : List Nat) (segs : List Seg) (g : Seg)
    (h : g ∈ srcs.foldl removeSwap segs) : g ∈ segs := by
  induction srcs generalizing segs with
  | nil => exact h
  | cons x r ih => exact mem_removeSwap _ _ _ (ih _ h)

theorem removedBy_flatMap_delete (srcs : List Nat) (m : Name) (h : m ∈ removedBy (srcs.flatMap deleteSteps)) :
    ∃ k, ∃ i ∈ srcs, m = Name.seg k i := by
  induction srcs with
  | nil => simp [removedBy] at h
  | cons x r ih =>
    rw [List.flatMap_cons, removedBy_append] at h
    rcases List.mem_append.mp h with h | h
    · simp only [deleteSteps, removedBy, List.mem_cons, List.not_mem_nil, or_false] at h
      rcases h with h | h | h | h <;> exact ⟨_, x, List.mem_cons_self .., h⟩
    · obtain ⟨k, i, hi, hm⟩ := ih h
      exact ⟨k, i, List.mem_cons_of_mem _ hi, hm⟩

theorem removedBy_take_sub (l : List FsStep) (k : Nat) (m : Name) (h : m ∈ removedBy (l.take k)) :
    m ∈ removedBy l := by
  induction l generalizing k with
  | nil => simp [removedBy] at h
  | cons st r ih =>
    cases k with
    | zero => simp [removedBy] at h
    | succ k =>
      rw [List.take_succ_cons, removedBy_cons] at h
      rw [removedBy_cons]
      rcases List.mem_append.mp h with h | h
      · exact List.mem_append_left _ h
      · exact List.mem_append_right _ (ih _ h)

theorem createdBy_flatMap_delete (srcs : List Nat) : createdBy (srcs.flatMap deleteSteps) = [] := by
  induction srcs with
  | nil => rfl
  | cons x r ih => rw [List.flatMap_cons, createdBy_append, ih]; rfl

theorem createdBy_take_sub (l : List FsStep) (k : Nat) (m : Name) (h : m ∈ createdBy (l.take k)) :
    m ∈ createdBy l := by
  induction l generalizing k with
  | nil => simp [createdBy] at h
  | cons st r ih =>
    cases k with
    | zero => simp [createdBy] at h
    | succ k =>
      rw [List.take_succ_cons, createdBy_cons] at h
      rw [createdBy_cons]
      rcases List.mem_append.mp h with h | h
      · exact List.mem_append_left _ h
      · exact List.mem_append_right _ (ih _ h)

/-- deleting (a prefix of the deletions of) sources that are all smaller than a segment whose
    hybrid file exists keeps the maximum -/
theorem keepsMax_delete_prefix (fs : FS) (srcs : List Nat) (n k : Nat)
    (hlt : ∀ i ∈ srcs, i < n) (hn : Name.seg .hybrid n ∈ FS.names fs) :
    KeepsMax fs (applySteps fs ((srcs.flatMap deleteSteps).take k)) ∧
    Name.seg .hybrid n ∈ FS.names (applySteps fs ((srcs.flatMap deleteSteps).take k)) := by
  have keep : ∀ m ∈ FS.names fs, (∀ kd, ∀ i ∈ srcs, m ≠ Name.seg kd i) →
      m ∈ FS.names (applySteps fs ((srcs.flatMap deleteSteps).take k)) := by
    intro m hm hne
    apply names_applySteps_keep _ _ _ hm
    intro hr
    obtain ⟨kd, i, hi, he⟩ := removedBy_flatMap_delete _ _ (removedBy_take_sub _ _ _ hr)
    exact hne kd i hi he
  have hn' := keep _ hn (by
    intro kd i hi he
    injection he with _ h2
    have := hlt i hi; omega)
  refine ⟨?_, hn'⟩
  intro i hi
  by_cases hle : i ≤ n
  · exact ⟨n, (mem_segIds _ _).mpr ⟨_, hn'⟩, hle⟩
  · obtain ⟨kd, hk⟩ := (mem_segIds _ _).mp hi
    refine ⟨i, (mem_segIds _ _).mpr ⟨kd, keep _ hk ?_⟩, Nat.le_refl _⟩
    intro kd' j hj he
    injection he with _ h2
    have := hlt j hj; omega

theorem take_length_self {α} (l : List α) : l.take l.length = l := List.take_length

theorem names_sub_of_delete (fs : FS) (srcs : List Nat) (k : Nat) (m : Name)
    (h : m ∈ FS.names (applySteps fs ((srcs.flatMap deleteSteps).take k))) : m ∈ FS.names fs := by
  rcases names_applySteps_sub _ _ _ h with h | h
  · exact h
  · have := createdBy_take_sub _ _ _ h
    rw [createdBy_flatMap_delete] at this
    cases this

theorem execBg_dead {s : Store} (hfw : s.fw = .exited) (hcw : s.cw = .exited) (b : Bg) :
    (execBg s b).1 = s := by
  cases b <;> simp [execBg, hfw, hcw]

theorem idInv_bg {s : Store} (h : IdInv s) (b : Bg) : IdInv (execBg s b).1 := by
  cases ho : s.opened with
  | false =>
    obtain ⟨hfw, hcw⟩ := h.dead ho
    rw [execBg_dead hfw hcw]; exact h
  | true =>
    have mk : ∀ s' : Store, s'.fs = s.fs → s'.counter = s.counter → s'.opened = s.opened →
        s'.segs.map (·.id) = s.segs.map (·.id) → s'.cw = s.cw →
        s'.gh.everNamed = s.gh.everNamed → s'.gh.overwrote = s.gh.overwrote →
        s'.gh.reused = s.gh.reused → IdInv s' := by
      intro s' a b c d e f g i
      exact idInv_congr h a b c d e (fun hf => by rw [ho] at hf; cases hf) f g i
    cases b with
    | fwake =>
      simp only [execBg]; split
      · split
        · exact mk _ rfl rfl rfl rfl rfl rfl rfl rfl
        · exact h
      · exact h
    | ffinal =>
      simp only [execBg]; split
      · split
        · exact mk _ rfl rfl rfl rfl rfl rfl rfl rfl
        · exact h
      · exact h
    | flist =>
      simp only [execBg]; split
      · split <;> exact mk _ rfl rfl rfl rfl rfl rfl rfl rfl
      · exact h
    | fwrite =>
      simp only [execBg]; split
      · rename_i f m rest hfw
        have := idInv_flushOne h ho m
        exact idInv_congr this rfl rfl rfl rfl rfl (fun hf => by
          rw [flushOne_opened, ho] at hf; cases hf) rfl rfl rfl
      · exact h
    | fremove =>
      simp only [execBg]; split
      · exact mk _ rfl rfl rfl rfl rfl rfl rfl rfl
      · exact h
    | cwake =>
      simp only [execBg]; split
      · split
        · rename_i hcw _
          refine ⟨h.fsLe, h.ever, h.segsLe, ?_, ?_, h.noOver, h.noReuse, ?_⟩
          · intro srcs rest hl; cases hl
          · intro srcs n hl; cases hl
          · intro hf; rw [ho] at hf; cases hf
        · exact h
      · exact h
    | cexit =>
      simp only [execBg]; split
      · split
        · refine ⟨h.fsLe, h.ever, h.segsLe, ?_, ?_, h.noOver, h.noReuse, ?_⟩
          · intro srcs rest hl; cases hl
          · intro srcs n hl; cases hl
          · intro hf; rw [ho] at hf; cases hf
        · exact h
      · exact h
    | clist =>
      simp only [execBg]; split
      · have idle : IdInv { s with cw := .idle } := by
          refine ⟨h.fsLe, h.ever, h.segsLe, ?_, ?_, h.noOver, h.noReuse, ?_⟩
          · intro srcs rest hl; cases hl
          · intro srcs n hl; cases hl
          · intro hf; rw [ho] at hf; cases hf
        split
        · exact idle
        · split
          · exact idle
          · rename_i srcs hs _
            refine ⟨h.fsLe, h.ever, h.segsLe, ?_, ?_, h.noOver, h.noReuse, ?_⟩
            · intro srcs' rest hl i hi
              injection hl with h1 h2
              subst h1
              have : i ∈ (s.segs.take s.cfg.compThr).map (·.id) := hi
              obtain ⟨g, hg, rfl⟩ := List.mem_map.mp this
              exact h.segsLe g (List.mem_of_mem_take hg)
            · intro srcs' n hl; cases hl
            · intro hf; rw [ho] at hf; cases hf
      · exact h
    | cload =>
      simp only [execBg]; split
      · rename_i srcs id rest hcw
        have next : ∀ s' : Store, s'.fs = s.fs → s'.counter = s.counter → s'.opened = s.opened →
            s'.segs.map (·.id) = s.segs.map (·.id) → (s'.cw = .loading srcs rest ∨ s'.cw = .idle) →
            s'.gh.everNamed = s.gh.everNamed → s'.gh.overwrote = s.gh.overwrote →
            s'.gh.reused = s.gh.reused → IdInv s' := by
          intro s' a b c d e f g i
          constructor
          · rw [a, b, c]; exact h.fsLe
          · rw [a, f]; exact h.ever
          · intro g' hg'
            have : g'.id ∈ s'.segs.map (·.id) := List.mem_map.mpr ⟨g', hg', rfl⟩
            rw [d] at this
            obtain ⟨g'', hg'', he⟩ := List.mem_map.mp this
            rw [b, ← he]; exact h.segsLe g'' hg''
          · intro srcs' rest' hl j hj
            rcases e with e | e
            · rw [e] at hl; injection hl with h1 h2; subst h1
              rw [b]; exact h.loadingLe _ _ hcw j hj
            · rw [e] at hl; cases hl
          · intro srcs' n hl
            rcases e with e | e <;> (rw [e] at hl; cases hl)
          · rw [g]; exact h.noOver
          · rw [i]; exact h.noReuse
          · intro hf; rw [c, ho] at hf; cases hf
        split
        · split
          · exact next _ rfl rfl rfl (setCached_ids _ _ _) (.inl rfl) rfl rfl rfl
          · exact next _ rfl rfl rfl rfl (.inr rfl) rfl rfl rfl
        · exact next _ rfl rfl rfl rfl (.inl rfl) rfl rfl rfl
      · exact h
    | cwrite =>
      simp only [execBg]; split
      · rename_i srcs hcw
        have hw := idInv_writeSegment h ho []
        obtain ⟨hid, hc, hfs, hop, _, hsegs, hcw', _, _, _, _⟩ := writeSegment_fields s []
        refine ⟨hw.fsLe, hw.ever, hw.segsLe, ?_, ?_, hw.noOver, hw.noReuse, ?_⟩
        · intro srcs' rest hl; cases hl
        · intro srcs' n hl
          injection hl with h1 h2
          subst h1
          have hn : n = s.counter + 1 := by rw [← h2]; exact hid
          refine ⟨?_, ?_, ?_⟩
          · intro i hi; have := h.loadingLe _ _ hcw i hi; omega
          · show n ≤ (writeSegment s []).1.counter; rw [hc]; omega
          · show Name.seg .hybrid n ∈ FS.names (writeSegment s []).1.fs
            rw [hfs, hn]
            apply names_applySteps_created _ _ _ _ (removedBy_writeSteps ..)
            rw [createdBy_writeSteps]
            exact List.mem_map.mpr ⟨_, hybrid_mem_comps _, rfl⟩
        · intro hf
          have : (writeSegment s []).1.opened = false := hf
          rw [hop, ho] at this; cases this
      · exact h
    | cswap =>
      simp only [execBg]; split
      · rename_i srcs n hcw
        obtain ⟨hlt, hle, hn⟩ := h.wrote _ _ hcw
        have key := keepsMax_delete_prefix s.fs srcs n (srcs.flatMap deleteSteps).length hlt hn
        rw [List.take_length] at key
        refine ⟨?_, ?_, ?_, ?_, ?_, h.noOver, h.noReuse, ?_⟩
        · intro _ i hi
          obtain ⟨kd, hk⟩ := (mem_segIds _ _).mp hi
          have := names_sub_of_delete s.fs srcs (srcs.flatMap deleteSteps).length _ (by rw [List.take_length]; exact hk)
          exact h.fsLe ho i ((mem_segIds _ _).mpr ⟨kd, this⟩)
        · intro i hi; exact key.1.le_initCounter _ (h.ever i hi)
        · intro g hg
          have := mem_foldl_removeSwap _ _ _ hg
          rcases List.mem_append.mp this with h' | h'
          · exact h.segsLe g h'
          · simp at h'; subst h'; exact hle
        · intro srcs' rest hl; cases hl
        · intro srcs' n' hl; cases hl
        · intro hf; rw [ho] at hf; cases hf
      · exact h

end Comet.Storage
