import CometProofs.Storage.DurableLoad
namespace Comet.Storage

/-! ## every step's effect on the directory IS its list of FS steps -/

theorem applySteps_append (fs : FS) (a b : List FsStep) :
    applySteps fs (a ++ b) = applySteps (applySteps fs a) b := by
  simp [applySteps, List.foldl_append]

theorem flushAll_fields (l : List Memtable) (s : Store) :
    (flushAll s l).fs = applySteps s.fs (flushStepsFrom s.cfg.tpl s.T s.counter l) := by
  induction l generalizing s with
  | nil => rfl
  | cons m r ih =>
    simp only [flushAll, flushStepsFrom]
    rw [ih, applySteps_append]
    rfl

theorem put_then_complete (fs : FS) (n : Name) (p : Payload) :
    applyStep (FS.put fs n ⟨p, .header⟩) (.complete n) = FS.put fs n ⟨p, .full⟩ := by
  simp only [applyStep, FS.put, List.map_append, List.map_cons, List.map_nil, if_true]
  congr 1
  have : ∀ e ∈ FS.erase fs n, (if e.1 = n then (e.1, { e.2 with cut := Cut.full }) else e) = e := by
    intro e he
    have := (List.mem_filter.mp he).2
    simp only [ne_eq, decide_eq_true_eq] at this
    rw [if_neg this]
  rw [List.map_congr_left this, List.map_id']

theorem execSearch_fs (s : Store) (q : Q) (sched : List SegEv) : (execSearch s q sched).1.fs = s.fs := by
  unfold execSearch
  split
  · rfl
  · split <;> rfl

/-- the directory after a step is the directory before with the step's FS operations applied, in order
    (so the crash images of Comet/Storage/Crash.lean are prefixes of what the step really does) -/
theorem exec_fs_eq (s : Store) (st : Step) : (exec s st).1.fs = applySteps s.fs (fsStepsOf s st) := by
  cases st with
  | add d => simp only [exec, fsStepsOf, execAdd]; split <;> (try split) <;> rfl
  | remove id =>
    simp only [exec, fsStepsOf, execRemove]
    split
    · rfl
    · split
      · rfl
      · split
        · rfl
        · split <;> rfl
  | flush =>
    simp only [exec, fsStepsOf, execFlush]
    split
    · rename_i h
      have : running s = false := by simpa using h
      simp [this, applySteps]
    · rename_i h
      have : running s = true := by simpa using h
      simp only [this, if_true, flushRotatesMutable, Bool.false_and, Bool.false_eq_true, if_false]
      exact flushAll_fields _ _
  | rotate => simp only [exec, fsStepsOf]; split <;> rfl
  | trigger => simp only [exec, fsStepsOf]; split <;> rfl
  | evict => simp only [exec, fsStepsOf]; split <;> rfl
  | search q sched => simp only [exec, fsStepsOf]; exact execSearch_fs s q sched
  | close =>
    simp only [exec, fsStepsOf]; split
    · rfl
    · simp only [flushRotatesMutable, Bool.false_and, Bool.false_eq_true, if_false]; rfl
  | closeDone =>
    simp only [exec, fsStepsOf]; split <;> rfl
  | reopen =>
    simp only [exec, fsStepsOf]
    cases ho : s.opened with
    | true => simp [applySteps]
    | false =>
      simp only [Bool.false_eq_true, if_false, Bool.false_or]
      unfold openOn
      split
      · rfl
      · simp only [applySteps, List.foldl_cons, List.foldl_nil]
        have := put_then_complete s.fs .lock .lock
        simp only [applyStep] at this ⊢
        exact this.symm
  | bg b =>
    cases b with
    | fwake => simp only [exec, fsStepsOf, execBg]; split <;> (try split) <;> rfl
    | ffinal => simp only [exec, fsStepsOf, execBg]; split <;> (try split) <;> rfl
    | flist => simp only [exec, fsStepsOf, execBg]; split <;> (try split) <;> rfl
    | fwrite =>
      simp only [exec, fsStepsOf, execBg]
      split
      · rename_i f m rest h
        simp only [h]; rfl
      · rename_i h
        split
        · rename_i f m rest h'
          exact absurd h' (h f m rest)
        · rfl
    | fremove => simp only [exec, fsStepsOf, execBg]; split <;> rfl
    | cwake => simp only [exec, fsStepsOf, execBg]; split <;> (try split) <;> rfl
    | cexit => simp only [exec, fsStepsOf, execBg]; split <;> (try split) <;> rfl
    | clist =>
      simp only [exec, fsStepsOf, execBg]; split
      · split
        · rfl
        · split <;> rfl
      · rfl
    | cload =>
      simp only [exec, fsStepsOf, execBg]; split
      · split
        · split <;> rfl
        · rfl
      · rfl
    | cwrite =>
      simp only [exec, fsStepsOf, execBg]
      split
      · rename_i srcs h
        simp only [h]; rfl
      · rename_i h
        split
        · rename_i srcs h'
          exact absurd h' (h srcs)
        · rfl
    | cswap =>
      simp only [exec, fsStepsOf, execBg]
      split
      · rename_i srcs n h
        simp only [h]
      · rename_i h
        split
        · rename_i srcs n h'
          exact absurd h' (h srcs n)
        · rfl

end Comet.Storage
