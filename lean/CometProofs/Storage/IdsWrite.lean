import CometProofs.Storage.IdsBase
namespace Comet.Storage

/-! ### writeSegment -/

theorem writeSegment_fields (s : Store) (info : List Info) :
    (writeSegment s info).2 = s.counter + 1 ∧
    (writeSegment s info).1.counter = s.counter + 1 ∧
    (writeSegment s info).1.fs = applySteps s.fs (writeSteps s.cfg.tpl (s.counter + 1) info s.T.flush) ∧
    (writeSegment s info).1.opened = s.opened ∧ (writeSegment s info).1.closed = s.closed ∧
    (writeSegment s info).1.segs = s.segs ∧ (writeSegment s info).1.cw = s.cw ∧
    (writeSegment s info).1.fw = s.fw ∧ (writeSegment s info).1.mts = s.mts ∧
    (writeSegment s info).1.cfg = s.cfg ∧
    (writeSegment s info).1.gh.everNamed = (s.counter + 1) :: s.gh.everNamed := by
  simp [writeSegment]

theorem idInv_writeSegment {s : Store} (h : IdInv s) (ho : s.opened = true) (info : List Info) :
    IdInv (writeSegment s info).1 := by
  obtain ⟨_, hc, hfs, hop, _, hsegs, hcw, hfw, _, _, hev⟩ := writeSegment_fields s info
  have hnew : s.counter + 1 ∉ FS.segIds s.fs := fun hm => by have := h.fsLe ho _ hm; omega
  have hsub : ∀ m ∈ FS.names s.fs, m ∈ FS.names (writeSegment s info).1.fs := by
    intro m hm; rw [hfs]
    exact names_applySteps_keep _ _ _ hm (by rw [removedBy_writeSteps]; simp)
  have hkm : KeepsMax s.fs (writeSegment s info).1.fs := KeepsMax.of_names_sub hsub
  constructor
  · intro _ i hi
    rw [hfs] at hi; rw [hc]
    rcases (segIds_writeSteps _ _ _ _ _ _).mp hi with hi | hi
    · have := h.fsLe ho _ hi; omega
    · omega
  · intro i hi
    rw [hev] at hi
    rcases List.mem_cons.mp hi with rfl | hi
    · apply Storage.le_initCounter
      rw [hfs]; exact (segIds_writeSteps _ _ _ _ _ _).mpr (.inr rfl)
    · exact hkm.le_initCounter _ (h.ever _ hi)
  · intro g hg; rw [hsegs] at hg; rw [hc]; have := h.segsLe g hg; omega
  · intro srcs rest hl i hi; rw [hcw] at hl; rw [hc]; have := h.loadingLe _ _ hl i hi; omega
  · intro srcs n hw; rw [hcw] at hw
    obtain ⟨h1, h2, h3⟩ := h.wrote _ _ hw
    exact ⟨h1, by rw [hc]; omega, hsub _ h3⟩
  · simp only [Storage.writeSegment, h.noOver, Bool.false_or]
    exact overwrites_writeSteps _ _ _ _ _ hnew
  · simp only [Storage.writeSegment, h.noReuse, Bool.false_or]
    rw [List.any_eq_false]
    intro j hj
    have h1 := h.ever j hj
    have h2 : initCounter s.fs ≤ s.counter := initCounter_le _ _ (h.fsLe ho)
    simp; omega
  · intro hf; rw [hop] at hf; rw [ho] at hf; cases hf

theorem idInv_flushOne {s : Store} (h : IdInv s) (ho : s.opened = true) (m : Memtable) :
    IdInv (flushOne s m).1 := by
  have hw := idInv_writeSegment h ho m.info
  obtain ⟨hid, hc, _, _, _, _, _, _, _, _, _⟩ := writeSegment_fields s m.info
  unfold Storage.flushOne
  refine ⟨hw.fsLe, hw.ever, ?_, hw.loadingLe, hw.wrote, hw.noOver, hw.noReuse, hw.dead⟩
  intro g hg
  simp only [List.mem_append, List.mem_singleton] at hg
  rcases hg with hg | rfl
  · exact hw.segsLe g hg
  · show (writeSegment s m.info).2 ≤ (writeSegment s m.info).1.counter
    rw [hid, hc]; exact Nat.le_refl _

theorem flushOne_opened (s : Store) (m : Memtable) : (flushOne s m).1.opened = s.opened := by
  simp [flushOne, writeSegment]

/-- changing only the memtable queue (or other fields the invariant does not read) -/
theorem idInv_congr {s s' : Store} (h : IdInv s)
    (hfs : s'.fs = s.fs) (hc : s'.counter = s.counter) (ho : s'.opened = s.opened)
    (hsegs : s'.segs.map (·.id) = s.segs.map (·.id)) (hcw : s'.cw = s.cw)
    (hfw : s.opened = false → s'.fw = s.fw)
    (hev : s'.gh.everNamed = s.gh.everNamed) (hov : s'.gh.overwrote = s.gh.overwrote)
    (hre : s'.gh.reused = s.gh.reused) : IdInv s' := by
  constructor
  · rw [hfs, hc, ho]; exact h.fsLe
  · rw [hfs, hev]; exact h.ever
  · intro g hg
    have : g.id ∈ s'.segs.map (·.id) := List.mem_map.mpr ⟨g, hg, rfl⟩
    rw [hsegs] at this
    obtain ⟨g', hg', he⟩ := List.mem_map.mp this
    rw [hc, ← he]; exact h.segsLe g' hg'
  · rw [hcw, hc]; exact h.loadingLe
  · rw [hcw, hc, hfs]; exact h.wrote
  · rw [hov]; exact h.noOver
  · rw [hre]; exact h.noReuse
  · intro hf; rw [ho] at hf; rw [hcw, hfw hf]; exact h.dead hf

theorem idInv_flushAll {s : Store} (h : IdInv s) (ho : s.opened = true) (l : List Memtable) :
    IdInv (flushAll s l) := by
  induction l generalizing s with
  | nil => exact h
  | cons m rest ih =>
    simp only [Storage.flushAll]
    apply ih
    · exact idInv_congr (idInv_flushOne h ho m) rfl rfl rfl rfl rfl (fun _ => rfl) rfl rfl rfl
    · show (flushOne s m).1.opened = true
      rw [flushOne_opened]; exact ho

end Comet.Storage
