/-
  Helper lemmas for C19 (limiter.go): index safety of the `Autocut` model.
-/
import Comet.Limiter
namespace Comet

theorem idx_ok (xs : List α) (i : Nat) (h : i < xs.length) : idx xs (i : Int) = .ok xs[i] := by
  unfold idx
  have : ¬ ((i : Int) < 0) := by omega
  simp [this, h]

theorem idx_ok' (xs : List α) (i : Int) (h0 : 0 ≤ i) (h : i.toNat < xs.length) :
    ∃ x, idx xs i = .ok x := by
  unfold idx
  have : ¬ (i < 0) := by omega
  simp only [this, if_false]
  rw [List.getElem?_eq_getElem h]
  exact ⟨_, rfl⟩

theorem idx_neg (xs : List α) (i : Int) (h : i < 0) : idx xs i = .error (.index i xs.length) := by
  unfold idx; simp [h]

/-- a `mapM` in `Except` whose every call succeeds, succeeds, with as many results -/
theorem mapM_ok {ε α β : Type} (f : α → Except ε β) :
    ∀ (l : List α), (∀ a ∈ l, ∃ b, f a = .ok b) →
      ∃ bs, l.mapM f = .ok bs ∧ bs.length = l.length
  | [], _ => ⟨[], by simp [pure, Except.pure], rfl⟩
  | a :: l, h => by
    obtain ⟨b, hb⟩ := h a (by simp)
    obtain ⟨bs, hbs, hl⟩ := mapM_ok f l (fun a' ha' => h a' (by simp [ha']))
    refine ⟨b :: bs, ?_, by simp [hl]⟩
    simp [List.mapM_cons, hb, hbs, bind, Except.bind, pure, Except.pure]

/-- the first loop never panics and yields `len(yValues)` differences (any operations) -/
theorem autocutDiff_ok (o : FOps F) (ys : List F) :
    ∃ d, autocutDiff o ys = .ok d ∧ d.length = ys.length := by
  unfold autocutDiff
  have := mapM_ok (ε := Panic) (fun (i : Nat) => do
    let yi ← idx ys (i : Int)
    let y0 ← idx ys 0
    let yl ← idx ys ((ys.length : Int) - 1)
    let y0' ← idx ys 0
    pure (o.sub (o.div (o.sub yi y0) (o.sub yl y0'))
            (o.add o.zero (o.mul (o.ofNat i) (autocutStep o ys.length))))) (List.range ys.length) ?_
  · obtain ⟨bs, h1, h2⟩ := this
    exact ⟨bs, h1, by simpa using h2⟩
  · intro i hi
    have hi' : i < ys.length := List.mem_range.1 hi
    have h0 : 0 < ys.length := by omega
    have e0 := idx_ok ys 0 h0
    have ei := idx_ok ys i hi'
    obtain ⟨yl, el⟩ := idx_ok' ys ((ys.length : Int) - 1) (by omega) (by omega)
    have e0' : idx ys 0 = .ok ys[0] := by simpa using e0
    simp [ei, e0', el, bind, Except.bind, pure, Except.pure]

/-- for two scores the differences are exactly the two `diffAt` expressions -/
theorem autocutDiff_two (o : FOps F) (y0 y1 : F) :
    autocutDiff o [y0, y1] = .ok [diffAt o 2 y0 y1 y0 0, diffAt o 2 y0 y1 y1 1] := by
  simp [autocutDiff, idx, List.range, List.range.loop, List.mapM_cons, bind, Except.bind, pure,
    Except.pure, diffAt]

/-- The second loop never panics when there are at least three differences (any
    operations), or exactly two with a false guard; it returns `n` or a scanned index. -/
theorem autocutScan_ok (o : FOps F) (diff : List F) (c : Int) (n : Nat)
    (hL : 3 ≤ diff.length ∨ ∃ a b, diff = [b, a] ∧ o.gt a b = false) :
    ∀ (is : List Nat) (cnt : Int), (∀ i ∈ is, i < diff.length) →
      ∃ r, autocutScan o diff c n is cnt = .ok r ∧ (r = n ∨ r ∈ is)
  | [], cnt, _ => ⟨n, rfl, Or.inl rfl⟩
  | i :: is, cnt, h => by
    have hi : i < diff.length := h i (by simp)
    have hrec := fun cnt' => autocutScan_ok o diff c n hL is cnt' (fun j hj => h j (by simp [hj]))
    have lift : ∀ cnt', ∃ r, autocutScan o diff c n is cnt' = .ok r ∧ (r = n ∨ r ∈ i :: is) := by
      intro cnt'
      obtain ⟨r, h1, h2⟩ := hrec cnt'
      exact ⟨r, h1, h2.imp id (fun h => by simp [h])⟩
    unfold autocutScan
    by_cases hi0 : i = 0
    · subst hi0; simpa using lift cnt
    · have hb : (i == 0) = false := by simpa using hi0
      simp only [hb, Bool.false_eq_true, if_false]
      have ea := idx_ok diff i hi
      obtain ⟨b, eb⟩ := idx_ok' diff ((i : Int) - 1) (by omega) (by omega)
      simp only [ea, eb, bind, Except.bind]
      by_cases hg : o.gt diff[i] b = true
      · -- the guard holds: this is only possible with ≥ 3 differences
        rcases hL with h3 | ⟨a, b', hd, hgf⟩
        · obtain ⟨cc, ec⟩ : ∃ cc, idx diff
              (if ((i : Int) == (diff.length : Int) - 1 && decide (diff.length > 1)) = true
                then (i : Int) - 2 else (i : Int) + 1) = .ok cc := by
            by_cases hl : ((i : Int) == (diff.length : Int) - 1 && decide (diff.length > 1)) = true
            · simp only [hl, if_true]
              simp only [Bool.and_eq_true, beq_iff_eq, decide_eq_true_eq] at hl
              exact idx_ok' diff _ (by omega) (by omega)
            · simp only [hl, Bool.false_eq_true, if_false]
              simp only [Bool.and_eq_true, beq_iff_eq, decide_eq_true_eq, not_and] at hl
              have : (i : Int) ≠ (diff.length : Int) - 1 := fun he => hl he (by omega)
              exact idx_ok' diff _ (by omega) (by omega)
          simp only [hg, if_true, ec, pure, Except.pure]
          by_cases hh : o.gt diff[i] cc = true
          · simp only [hh, if_true]
            by_cases hc : cnt + 1 ≥ c
            · simp only [hc, if_true]; exact ⟨i, rfl, Or.inr (by simp)⟩
            · simp only [hc, if_false]; exact lift _
          · simp only [hh, Bool.false_eq_true, if_false]; exact lift _
        · -- two differences: i = 1, the guard is `gt a b'`, which is false
          subst hd
          have hi1 : i = 1 := by simp at hi; omega
          subst hi1
          simp [idx] at eb
          subst eb
          simp at hg
          rw [hgf] at hg; cases hg
      · simp only [hg, Bool.false_eq_true, if_false, pure, Except.pure]; exact lift _

end Comet
