/-
  Aggregation of a result list in which every id occurs once (a single-query answer of a
  duplicate-free index): each hit is kept with the reduction of its one score.
-/
import Comet.Agg
namespace Comet

variable {S : Type}

theorem firstIds_of_nodup : ∀ (l : List Id), l.Nodup → firstIds l = l
  | [], _ => rfl
  | a :: t, h => by
    have hn := List.nodup_cons.1 h
    simp only [firstIds, firstIds_of_nodup t hn.2]
    congr 1
    apply List.filter_eq_self.2
    intro b hb
    simp only [bne_iff_ne, ne_eq]
    intro he; exact hn.1 (he ▸ hb)

theorem scoresOf_unique (xs : List (Hit S)) (hn : (xs.map (·.id)).Nodup) (h : Hit S)
    (hm : h ∈ xs) : scoresOf h.id xs = [h.score] := by
  induction xs with
  | nil => cases hm
  | cons x t ih =>
    simp only [List.map_cons, List.nodup_cons] at hn
    simp only [scoresOf, List.filter_cons]
    rcases List.mem_cons.1 hm with rfl | hm'
    · have : t.filter (fun y => y.id == h.id) = [] := by
        apply List.filter_eq_nil_iff.2
        intro y hy
        simp only [beq_iff_eq]
        intro he
        exact hn.1 (List.mem_map.2 ⟨y, hy, he⟩)
      simp [this]
    · have hne : (x.id == h.id) = false := by
        simp only [beq_eq_false_iff_ne, ne_eq]
        intro he
        exact hn.1 (List.mem_map.2 ⟨h, hm', he.symm⟩)
      simp only [hne, Bool.false_eq_true, if_false]
      exact ih hn.2 hm'

theorem groupScores_of_nodup (xs : List (Hit S)) (hn : (xs.map (·.id)).Nodup) :
    groupScores xs = xs.map fun h => (h.id, [h.score]) := by
  unfold groupScores
  rw [firstIds_of_nodup _ hn, List.map_map]
  apply List.map_congr_left
  intro h hm
  simp only [Function.comp]
  rw [scoresOf_unique xs hn h hm]

/-- with every id once, aggregation is "reduce each single score, then sort" -/
theorem vecAggregate_of_nodup (sc : Scalar S) (kind : AggKind) (xs : List (Hit S))
    (hn : (xs.map (·.id)).Nodup) :
    vecAggregate sc kind xs =
      (xs.map fun h => (⟨h.id, reduceVec sc kind [h.score]⟩ : Hit S)).mergeSort (hitLe sc.le) := by
  unfold vecAggregate
  rw [groupScores_of_nodup xs hn, List.map_map]
  rfl

/-- when reducing a single score is the identity (exact arithmetic: 0 + d = d, d / 1 = d),
    aggregation of a sorted duplicate-free list is the identity -/
theorem vecAggregate_id (sc : Scalar S) (kind : AggKind) (xs : List (Hit S))
    (hn : (xs.map (·.id)).Nodup)
    (hred : ∀ d : S, reduceVec sc kind [d] = d)
    (hs : xs.Pairwise fun a b => hitLe sc.le a b = true) :
    vecAggregate sc kind xs = xs := by
  rw [vecAggregate_of_nodup sc kind xs hn]
  have : (xs.map fun h => (⟨h.id, reduceVec sc kind [h.score]⟩ : Hit S)) = xs := by
    conv => rhs; rw [← List.map_id xs]
    apply List.map_congr_left
    intro h _
    simp [hred]
  rw [this]
  exact List.mergeSort_of_pairwise hs

end Comet
