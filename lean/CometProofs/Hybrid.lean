/-
  Helper lemmas for C06: visibility algebra of the three sub-index models and the
  consistency invariant of the hybrid index.
-/
import Comet.Hybrid
namespace Comet.Hybrid

variable {V T M : Type}

/-! ### vector index -/
namespace VecIdx

@[simp] theorem visible_purge (x : VecIdx V) (j : Id) : x.purge.visible j = x.visible j := by
  simp [visible, purge]

@[simp] theorem visible_flush (x : VecIdx V) (j : Id) : x.flush.visible j = x.visible j :=
  visible_purge x j

/-- a validation failure leaves the index untouched -/
theorem add_err (vpre : V → Except Err V) (x : VecIdx V) (id : Id) (v : V)
    (h : (x.add vpre id v).2.isSome) : (x.add vpre id v).1 = x := by
  unfold add at *
  cases hv : vpre v with
  | error e => rfl
  | ok v' => simp [hv] at h

theorem add_ok_iff (vpre : V → Except Err V) (x : VecIdx V) (id : Id) (v : V) :
    (x.add vpre id v).2 = none ↔ ∃ v', vpre v = .ok v' := by
  unfold add
  cases hv : vpre v <;> simp

/-- after a successful add the new vector is visible under `id`, after whatever was
    visible under `id` before; other ids are unaffected -/
theorem visible_add (vpre : V → Except Err V) (x : VecIdx V) (id : Id) (v v' : V)
    (h : vpre v = .ok v') (j : Id) :
    (x.add vpre id v).1.visible j = if j = id then x.visible id ++ [v'] else x.visible j := by
  unfold add
  simp only [h]
  by_cases hd : x.deleted id = true
  · by_cases hj : j = id
    · subst hj; simp [visible, purge, hd]
    · simp only [visible, purge, hd, if_true, hj, if_false]
      split <;> simp_all
  · by_cases hj : j = id
    · subst hj; simp [visible, hd]
    · simp [visible, hd, hj]

theorem remove_err (x : VecIdx V) (id : Id) (h : (x.remove id).2.isSome) :
    (x.remove id).1 = x := by
  unfold remove at *
  by_cases h1 : (x.entries id).isEmpty = true
  · simp [h1]
  · by_cases h2 : x.deleted id = true
    · simp [h1, h2]
    · simp [h1, h2] at h

/-- a successful removal hides everything stored under `id` and nothing else -/
theorem visible_remove (x : VecIdx V) (id : Id) (h : (x.remove id).2 = none) (j : Id) :
    (x.remove id).1.visible j = if j = id then [] else x.visible j := by
  unfold remove at *
  by_cases h1 : (x.entries id).isEmpty = true
  · simp [h1] at h
  · by_cases h2 : x.deleted id = true
    · simp [h1, h2] at h
    · by_cases hj : j = id
      · subst hj; simp [visible, h1, h2]
      · simp [visible, h1, h2, hj]

/-- removal succeeds when something is visible under `id` -/
theorem remove_ok_of_visible (x : VecIdx V) (id : Id) (h : x.visible id ≠ []) :
    (x.remove id).2 = none := by
  unfold remove
  unfold visible at h
  by_cases h2 : x.deleted id = true
  · simp [h2] at h
  · have h1 : (x.entries id).isEmpty = false := by
      cases he : x.entries id with
      | nil => simp [h2, he] at h
      | cons a t => rfl
    simp [h1, h2]

end VecIdx

/-! ### text index -/
namespace TxtIdx

@[simp] theorem visible_flush (x : TxtIdx T) (j : Id) : x.flush.visible j = x.visible j := by
  simp [visible, flush]

/-- Add replaces: afterwards exactly the new text is visible under `id` -/
theorem visible_add (x : TxtIdx T) (id : Id) (t : T) (j : Id) :
    (x.add id t).visible j = if j = id then some t else x.visible j := by
  by_cases hj : j = id
  · subst hj; simp [visible, add]
  · simp [visible, add, hj]

theorem visible_remove (x : TxtIdx T) (id : Id) (j : Id) :
    (x.remove id).visible j = if j = id then none else x.visible j := by
  unfold remove
  by_cases h1 : (x.docs id).isNone = true
  · by_cases hj : j = id
    · subst hj
      have : x.docs j = none := by simpa using h1
      simp [visible, this]
    · simp [h1, hj]
  · by_cases h2 : x.deleted id = true
    · by_cases hj : j = id
      · subst hj; simp [visible, h1, h2]
      · simp [h1, h2, hj]
    · by_cases hj : j = id
      · subst hj; simp [visible, h1, h2]
      · simp [visible, h1, h2, hj]

end TxtIdx

/-! ### metadata index -/
namespace MetaIdx

theorem add_err (mok : M → Bool) (x : MetaIdx M) (id : Id) (m : M)
    (h : (x.add mok id m).2.isSome) : (x.add mok id m).1 = x := by
  unfold add at *
  by_cases hm : mok m = true
  · simp [hm] at h
  · simp [hm]

theorem add_ok_iff (mok : M → Bool) (x : MetaIdx M) (id : Id) (m : M) :
    (x.add mok id m).2 = none ↔ mok m = true := by
  unfold add
  by_cases hm : mok m = true <;> simp [hm]

theorem visible_add (mok : M → Bool) (x : MetaIdx M) (id : Id) (m : M) (h : mok m = true)
    (j : Id) :
    (x.add mok id m).1.visible j = if j = id then x.visible id ++ [m] else x.visible j := by
  unfold add
  by_cases hj : j = id
  · subst hj; simp [visible, h]
  · simp [visible, h, hj]

theorem visible_remove (x : MetaIdx M) (id : Id) (j : Id) :
    (x.remove id).visible j = if j = id then [] else x.visible j := by
  by_cases hj : j = id
  · subst hj; simp [visible, remove]
  · simp [visible, remove, hj]

end MetaIdx

/-! ### structure eta helpers -/
theorem State.set_vec_self (s : State V T M) (x : VecIdx V) (h : s.vec = some x) :
    { s with vec := some x } = s := by cases s; simp_all

/-! ### the three sub-steps of addInternal, by cases -/

theorem addVec_some (p : Params V M) (s : State V T M) (id : Id) (d : Doc V T M)
    (x : VecIdx V) (v : V) (hx : s.vec = some x) (hv : d.vec = some v) :
    addVec p s id d =
      ({ s with vec := some (x.add p.vpre id v).1 }, true, (x.add p.vpre id v).2) := by
  unfold addVec; simp [hx, hv]

theorem addVec_none (p : Params V M) (s : State V T M) (id : Id) (d : Doc V T M)
    (h : s.vec = none ∨ d.vec = none) : addVec p s id d = (s, false, none) := by
  unfold addVec
  rcases h with h | h
  · simp [h]
  · cases hs : s.vec <;> simp [h]

theorem addTxt_some (s : State V T M) (id : Id) (d : Doc V T M)
    (x : TxtIdx T) (t : T) (hx : s.txt = some x) (ht : d.txt = some t) :
    addTxt s id d = ({ s with txt := some (x.add id t) }, true) := by
  unfold addTxt; simp [hx, ht]

theorem addTxt_none (s : State V T M) (id : Id) (d : Doc V T M)
    (h : s.txt = none ∨ d.txt = none) : addTxt s id d = (s, false) := by
  unfold addTxt
  rcases h with h | h
  · simp [h]
  · cases hs : s.txt <;> simp [h]

theorem addMeta_some (p : Params V M) (s : State V T M) (id : Id) (d : Doc V T M)
    (x : MetaIdx M) (m : M) (hx : s.mdx = some x) (hm : d.md = some m) :
    addMeta p s id d =
      ({ s with mdx := some (x.add p.mok id m).1 }, true, (x.add p.mok id m).2) := by
  unfold addMeta; simp [hx, hm]

theorem addMeta_none (p : Params V M) (s : State V T M) (id : Id) (d : Doc V T M)
    (h : s.mdx = none ∨ d.md = none) : addMeta p s id d = (s, false, none) := by
  unfold addMeta
  rcases h with h | h
  · simp [h]
  · cases hs : s.mdx <;> simp [h]

theorem badMeta_some (p : Params V M) (s : State V T M) (d : Doc V T M)
    (x : MetaIdx M) (m : M) (hx : s.mdx = some x) (hm : d.md = some m) :
    badMeta p s d = !p.mok m := by
  unfold badMeta; simp [hx, hm]

/-- what the sub-steps leave alone -/
theorem addVec_frame (p : Params V M) (s : State V T M) (id : Id) (d : Doc V T M) :
    (addVec p s id d).1.txt = s.txt ∧ (addVec p s id d).1.mdx = s.mdx ∧
    (addVec p s id d).1.info = s.info ∧ (addVec p s id d).1.counter = s.counter := by
  cases hx : s.vec with
  | none => rw [addVec_none p s id d (Or.inl hx)]; simp
  | some x =>
    cases hv : d.vec with
    | none => rw [addVec_none p s id d (Or.inr hv)]; simp
    | some v => rw [addVec_some p s id d x v hx hv]; simp

theorem addTxt_frame (s : State V T M) (id : Id) (d : Doc V T M) :
    (addTxt s id d).1.vec = s.vec ∧ (addTxt s id d).1.mdx = s.mdx ∧
    (addTxt s id d).1.info = s.info ∧ (addTxt s id d).1.counter = s.counter := by
  cases hx : s.txt with
  | none => rw [addTxt_none s id d (Or.inl hx)]; simp
  | some x =>
    cases ht : d.txt with
    | none => rw [addTxt_none s id d (Or.inr ht)]; simp
    | some t => rw [addTxt_some s id d x t hx ht]; simp

theorem addMeta_frame (p : Params V M) (s : State V T M) (id : Id) (d : Doc V T M) :
    (addMeta p s id d).1.vec = s.vec ∧ (addMeta p s id d).1.txt = s.txt ∧
    (addMeta p s id d).1.info = s.info ∧ (addMeta p s id d).1.counter = s.counter := by
  cases hx : s.mdx with
  | none => rw [addMeta_none p s id d (Or.inl hx)]; simp
  | some x =>
    cases hm : d.md with
    | none => rw [addMeta_none p s id d (Or.inr hm)]; simp
    | some m => rw [addMeta_some p s id d x m hx hm]; simp

/-- a failing vector sub-add changes nothing -/
theorem addVec_err (p : Params V M) (s : State V T M) (id : Id) (d : Doc V T M)
    (h : (addVec p s id d).2.2.isSome) : (addVec p s id d).1 = s := by
  cases hx : s.vec with
  | none => rw [addVec_none p s id d (Or.inl hx)]
  | some x =>
    cases hv : d.vec with
    | none => rw [addVec_none p s id d (Or.inr hv)]
    | some v =>
      rw [addVec_some p s id d x v hx hv] at h ⊢
      simp only at h ⊢
      rw [VecIdx.add_err p.vpre x id v h]
      exact State.set_vec_self s x hx

/-- after the up-front validation the metadata sub-add cannot fail -/
theorem addMeta_ok_of_not_bad (p : Params V M) (s : State V T M) (id : Id) (d : Doc V T M)
    (h : badMeta p s d = false) : (addMeta p s id d).2.2 = none := by
  cases hx : s.mdx with
  | none => rw [addMeta_none p s id d (Or.inl hx)]
  | some x =>
    cases hm : d.md with
    | none => rw [addMeta_none p s id d (Or.inr hm)]
    | some m =>
      rw [addMeta_some p s id d x m hx hm]
      rw [badMeta_some p s d x m hx hm] at h
      exact (MetaIdx.add_ok_iff p.mok x id m).2 (by simpa using h)

theorem badMeta_congr (p : Params V M) (s s' : State V T M) (d : Doc V T M)
    (h : s'.mdx = s.mdx) : badMeta p s' d = badMeta p s d := by
  unfold badMeta; rw [h]

/-! ### observations across the sub-steps -/

theorem vecVisible_addVec (p : Params V M) (s : State V T M) (id : Id) (d : Doc V T M)
    (h : (addVec p s id d).2.2 = none) (j : Id) :
    vecVisible (addVec p s id d).1 j =
      if j = id ∧ (addVec p s id d).2.1 = true then vecVisible (addVec p s id d).1 id
      else vecVisible s j := by
  cases hx : s.vec with
  | none => rw [addVec_none p s id d (Or.inl hx)]; simp
  | some x =>
    cases hv : d.vec with
    | none => rw [addVec_none p s id d (Or.inr hv)]; simp
    | some v =>
      rw [addVec_some p s id d x v hx hv] at h ⊢
      obtain ⟨v', hv'⟩ := (VecIdx.add_ok_iff p.vpre x id v).1 h
      by_cases hj : j = id
      · subst hj; simp
      · simp only [vecVisible, hx, hj, false_and, if_false]
        rw [VecIdx.visible_add p.vpre x id v v' hv' j]; simp [hj]

theorem vecVisible_addVec_other (p : Params V M) (s : State V T M) (id : Id) (d : Doc V T M)
    (h : (addVec p s id d).2.2 = none) (j : Id)
    (hj : j ≠ id ∨ (addVec p s id d).2.1 = false) :
    vecVisible (addVec p s id d).1 j = vecVisible s j := by
  rw [vecVisible_addVec p s id d h j]
  rcases hj with hj | hj
  · simp [hj]
  · simp [hj]

theorem txtVisible_addTxt_other (s : State V T M) (id : Id) (d : Doc V T M) (j : Id)
    (hj : j ≠ id ∨ (addTxt s id d).2 = false) :
    txtVisible (addTxt s id d).1 j = txtVisible s j := by
  cases hx : s.txt with
  | none => rw [addTxt_none s id d (Or.inl hx)]
  | some x =>
    cases ht : d.txt with
    | none => rw [addTxt_none s id d (Or.inr ht)]
    | some t =>
      rw [addTxt_some s id d x t hx ht] at hj ⊢
      rcases hj with hj | hj
      · simp only [txtVisible, hx]
        rw [TxtIdx.visible_add x id t j]; simp [hj]
      · simp at hj

theorem metaVisible_addMeta_other (p : Params V M) (s : State V T M) (id : Id) (d : Doc V T M)
    (h : (addMeta p s id d).2.2 = none) (j : Id)
    (hj : j ≠ id ∨ (addMeta p s id d).2.1 = false) :
    metaVisible (addMeta p s id d).1 j = metaVisible s j := by
  cases hx : s.mdx with
  | none => rw [addMeta_none p s id d (Or.inl hx)]
  | some x =>
    cases hm : d.md with
    | none => rw [addMeta_none p s id d (Or.inr hm)]
    | some m =>
      rw [addMeta_some p s id d x m hx hm] at h hj ⊢
      have hm' := (MetaIdx.add_ok_iff p.mok x id m).1 h
      rcases hj with hj | hj
      · simp only [metaVisible, hx]
        rw [MetaIdx.visible_add p.mok x id m hm' j]; simp [hj]
      · simp at hj

/-- shape of a successful addInternal -/
theorem addInternal_ok (p : Params V M) (s : State V T M) (id : Id) (d : Doc V T M)
    (h : (addInternal p s id d).2 = none) :
    (addVec p s id d).2.2 = none ∧
    (addMeta p (addTxt (addVec p s id d).1 id d).1 id d).2.2 = none ∧
    (addInternal p s id d).1 =
      { (addMeta p (addTxt (addVec p s id d).1 id d).1 id d).1 with
        info := fun j => if j = id then
            some ⟨(addVec p s id d).2.1, (addTxt (addVec p s id d).1 id d).2,
                  (addMeta p (addTxt (addVec p s id d).1 id d).1 id d).2.1⟩
          else (addMeta p (addTxt (addVec p s id d).1 id d).1 id d).1.info j } := by
  unfold addInternal at *
  by_cases hb : badMeta p s d = true
  · simp [hb] at h
  · simp only [hb, Bool.false_eq_true, if_false] at h ⊢
    by_cases h1 : (addVec p s id d).2.2.isSome = true
    · simp only [h1, if_true] at h; simp [h] at h1
    · simp only [h1, Bool.false_eq_true, if_false] at h ⊢
      by_cases h3 : (addMeta p (addTxt (addVec p s id d).1 id d).1 id d).2.2.isSome = true
      · simp only [h3, if_true] at h; simp [h] at h3
      · simp only [h3, Bool.false_eq_true, if_false]
        refine ⟨?_, ?_, trivial⟩
        · cases he : (addVec p s id d).2.2 with
          | none => rfl
          | some e => simp [he] at h1
        · cases he : (addMeta p (addTxt (addVec p s id d).1 id d).1 id d).2.2 with
          | none => rfl
          | some e => simp [he] at h3

/-- the flags recorded in docInfo say which modalities were supplied AND configured -/
theorem addVec_flag (p : Params V M) (s : State V T M) (id : Id) (d : Doc V T M) :
    (addVec p s id d).2.1 = true ↔ (∃ x v, s.vec = some x ∧ d.vec = some v) := by
  cases hx : s.vec with
  | none => rw [addVec_none p s id d (Or.inl hx)]; simp
  | some x =>
    cases hv : d.vec with
    | none => rw [addVec_none p s id d (Or.inr hv)]; simp
    | some v => rw [addVec_some p s id d x v hx hv]; simp

theorem addTxt_flag (s : State V T M) (id : Id) (d : Doc V T M) :
    (addTxt s id d).2 = true ↔ (∃ x t, s.txt = some x ∧ d.txt = some t) := by
  cases hx : s.txt with
  | none => rw [addTxt_none s id d (Or.inl hx)]; simp
  | some x =>
    cases ht : d.txt with
    | none => rw [addTxt_none s id d (Or.inr ht)]; simp
    | some t => rw [addTxt_some s id d x t hx ht]; simp

theorem addMeta_flag (p : Params V M) (s : State V T M) (id : Id) (d : Doc V T M) :
    (addMeta p s id d).2.1 = true ↔ (∃ x m, s.mdx = some x ∧ d.md = some m) := by
  cases hx : s.mdx with
  | none => rw [addMeta_none p s id d (Or.inl hx)]; simp
  | some x =>
    cases hm : d.md with
    | none => rw [addMeta_none p s id d (Or.inr hm)]; simp
    | some m => rw [addMeta_some p s id d x m hx hm]; simp

/-! ### the consistency invariant of reachable hybrid states -/

/-- `docInfo` and the sub-indexes agree: an id without docInfo is findable nowhere; an id
    with docInfo is findable by vector search iff its `hasVector` flag is set, and not
    findable through a modality whose flag is clear. -/
def Inv (s : State V T M) : Prop := ∀ j,
  match s.info j with
  | none => vecVisible s j = [] ∧ txtVisible s j = none ∧ metaVisible s j = []
  | some inf =>
      (inf.hasVector = true → vecVisible s j ≠ []) ∧
      (inf.hasVector = false → vecVisible s j = []) ∧
      (inf.hasText = false → txtVisible s j = none) ∧
      (inf.hasMeta = false → metaVisible s j = [])

end Comet.Hybrid
