/-
  Helper lemmas for the flat codec (Comet/Codec/Flat.lean): the decoder is `Good`
  and `Exact`, and it reads back what the encoder printed.
-/
import CometProofs.Codec.Parser
import Comet.Codec.Flat
namespace Comet.Codec

/-- the assumed behaviour of the roaring library on the bitmaps in `dom`:
    `UnmarshalBinary(ToBytes b) = b`, and a blob is shorter than 4 GiB -/
structure BlobCodec.Lawful (bm : BlobCodec) (dom : List Nat → Prop) : Prop where
  rt : ∀ b, dom b → bm.dec (bm.enc b) = .ok b
  small : ∀ b, dom b → (bm.enc b).length < 4294967296

namespace Flat

theorem good_decVec (dim : Nat) : Good (decVec dim) := by
  unfold decVec
  simp only [CP.bind_eq, CP.pure_eq]
  good_tac

theorem good_decodeC (bm : BlobCodec) (p : Params) : Good (decodeC bm p) := by
  simp only [decodeC, decVec, CP.bind_eq, CP.pure_eq]
  good_tac

theorem exact_decVec (dim : Nat) : Exact (decVec dim) := by
  unfold decVec
  simp only [CP.bind_eq, CP.pure_eq]
  exact_tac

theorem exact_decodeC (bm : BlobCodec) (p : Params) : Exact (decodeC bm p) := by
  simp only [decodeC, decVec, CP.bind_eq, CP.pure_eq]
  exact_tac


theorem reads_decVec (dim : Nat) (p : Nat × List Nat) (h1 : p.1 < 4294967296)
    (h2 : p.2.length = dim) (hd : dim < 4294967296) (h3 : ∀ x ∈ p.2, x < 4294967296) :
    Reads (decVec dim) (flat (vecItems p)) p := by
  unfold decVec
  simp only [CP.bind_eq, CP.pure_eq]
  refine Reads.of_eq
    (Reads.bind (Reads.rU32 _ h1)
    (Reads.bind (Reads.rU32 _ (n := p.2.length) (by omega))
    (Reads.bind (Reads.guard (by simp [h2]) _)
    (Reads.bind (Reads.repeat encU32 p.2 fun x hx => Reads.rF32 _ (h3 x hx))
    (Reads.pure _))))) ?_
  simp [vecItems]

theorem magic_length : magic.length = 4 := by decide

theorem reads_decodeC (bm : BlobCodec) (dom : List Nat → Prop) (hbm : bm.Lawful dom)
    (s : State) (hwf : wf s = true) (hdel : dom s.deleted) :
    Reads (decodeC bm s.params) (encodeRaw bm s) s := by
  simp only [wf, Bool.and_eq_true, decide_eq_true_eq, List.all_eq_true] at hwf
  obtain ⟨⟨⟨hdim, hmk⟩, hn⟩, hv⟩ := hwf
  unfold decodeC
  simp only [CP.bind_eq, CP.pure_eq]
  refine Reads.of_eq
    (Reads.bind (magic_length ▸ Reads.rRaw magic)
    (Reads.bind (Reads.guard (by simp) _)
    (Reads.bind (Reads.rU32 _ (n := 1) (by omega))
    (Reads.bind (Reads.guard (by simp) _)
    (Reads.bind (Reads.rU32 _ hdim)
    (Reads.bind (Reads.guard (by simp [State.params]) _)
    (Reads.bind (Reads.rLenBytes _ hmk)
    (Reads.bind (Reads.guard (by simp [State.params]) _)
    (Reads.bind (Reads.rU32 _ hn)
    (Reads.bind (Reads.repeat (fun p => flat (vecItems p)) s.vecs fun p hp =>
        reads_decVec s.dim p (hv p hp).1.1 (hv p hp).1.2 hdim (hv p hp).2)
    (Reads.bind (Reads.rLenBytes _ (hbm.small _ hdel))
    (Reads.bind (Reads.ofExcept (hbm.rt _ hdel))
    (Reads.pure _))))))))))))) ?_
  simp [encodeRaw, items]


theorem flush_params (s : State) : (flush s).params = s.params := by
  unfold flush; split <;> rfl

theorem flush_deleted (s : State) : (flush s).deleted = [] := by
  unfold flush
  split
  · next h => simpa using h
  · rfl

theorem wf_flush (s : State) (h : wf s = true) : wf (flush s) = true := by
  unfold flush
  split
  · exact h
  · simp only [wf, Bool.and_eq_true, decide_eq_true_eq, List.all_eq_true] at h ⊢
    obtain ⟨⟨⟨hdim, hmk⟩, hn⟩, hv⟩ := h
    exact ⟨⟨⟨hdim, hmk⟩, Nat.lt_of_le_of_lt (List.length_filter_le _ _) hn⟩,
      fun p hp => hv p (List.mem_filter.1 hp).1⟩

theorem flush_of_nil (s : State) (h : s.deleted = []) : flush s = s := by
  unfold flush; simp [h]

theorem flush_flush (s : State) : flush (flush s) = flush s :=
  flush_of_nil _ (flush_deleted s)

theorem removed_absent (s : State) : ∀ id ∈ s.deleted, id ∉ streamIds (flush s) := by
  intro id hid
  unfold flush streamIds
  split
  · next h => simp [List.isEmpty_iff] at h; simp [h] at hid
  · simp only [List.mem_map, List.mem_filter, not_exists, not_and]
    intro p hp hpid
    subst hpid
    simp [hid] at hp

end Flat
end Comet.Codec
