/-
  A lawful blob codec (length-prefixed list of u32) showing that the hypotheses
  `BlobCodec.Lawful` / `Meta.NonEmpty` of the C07 / C16 theorems are satisfiable on a
  non-trivial domain, and small concrete states used by the non-vacuity examples.
-/
import CometProofs.Codec.Eval
import CometProofs.Codec.Hybrid
namespace Comet.Codec.Example
open Comet.Codec

def sw : Switch := fun t => t.width

def listP : CP (List Nat) := CP.bind (CP.rU32 sw) fun n => CP.repeat n (CP.rU32 sw)

def listCodec : BlobCodec where
  enc ids := encU32 ids.length ++ ids.flatMap encU32
  dec b := match CP.run listP b with
    | .ok (ids, []) => .ok ids
    | _ => .error .blob

/-- ids below 2^32, at most 1000 of them -/
def dom (ids : List Nat) : Prop := ids.length ≤ 1000 ∧ ∀ x ∈ ids, x < 4294967296

instance : DecidablePred dom := fun ids => by unfold dom; infer_instance

theorem listCodec_lawful : listCodec.Lawful dom := by
  constructor
  · intro b ⟨hl, hb⟩
    have hr : Reads listP (encU32 b.length ++ b.flatMap encU32) b :=
      Reads.bind (Reads.rU32 sw (by omega)) (Reads.repeat encU32 b fun x hx => Reads.rU32 sw (hb x hx))
    have := run_of_reads hr []
    simp only [List.append_nil] at this
    simp [listCodec, this]
  · intro b ⟨hl, _⟩
    have : ∀ l : List Nat, (l.flatMap encU32).length = 4 * l.length := by
      intro l
      induction l with
      | nil => rfl
      | cons a l ih =>
        simp only [List.flatMap_cons, List.length_append, length_encU32, List.length_cons, ih]
        omega
    have := this b
    simp only [listCodec, List.length_append, length_encU32, this]
    omega

theorem listCodec_nonEmpty : Meta.NonEmpty listCodec dom := by
  constructor
  intro b _ h
  have := congrArg List.length h
  simp [listCodec] at this

theorem dom_nil : dom [] := ⟨by decide, by simp⟩

/-- a flat index with three vectors, one of them soft-deleted -/
def flat1 : Flat.State :=
  { dim := 2, metric := asciiBytes ['l', '2'], deleted := [7],
    vecs := [(3, [1065353216, 0]), (7, [0, 1065353216]), (9, [1073741824, 1073741824])] }

/-- a trained IVF index with a removed entry -/
def ivf1 : IVF.State :=
  { dim := 1, metric := asciiBytes ['l', '2'], nlist := 2, trained := true,
    centroids := [[0], [1065353216]], lists := [[(1, [0]), (2, [5])], [(4, [1065353216])]],
    deleted := [2] }

def pq1 : PQ.State :=
  { dim := 2, metric := asciiBytes ['l', '2'], m := 2, nbits := 1, ksub := 2, dsub := 1,
    trained := true, codebooks := [[0, 1065353216], [0, 1073741824]],
    entries := [⟨1, some [0, 0], [0, 1]⟩, ⟨2, some [1065353216, 0], [1, 0]⟩], deleted := [1] }

def ivfpq1 : IVFPQ.State :=
  { dim := 2, metric := asciiBytes ['l', '2'], nlist := 1, m := 2, nbits := 1, ksub := 2, dsub := 1,
    trained := true, centroids := [[0, 0]], codebooks := [[0, 1065353216], [0, 1073741824]],
    lists := [[⟨1, some [0, 0], [0, 1]⟩, ⟨2, some [1065353216, 0], [1, 0]⟩]], deleted := [2] }

/-- an HNSW graph with a soft-deleted entry point -/
def hnsw1 : HNSW.State :=
  { dim := 1, metric := asciiBytes ['l', '2'], m := 16, efC := 200, efS := 200,
    levelMult := 4599676419421066581, maxLevel := 1, entry := 5,
    nodes := [(5, ⟨1, [0], [[8], []]⟩), (8, ⟨0, [1065353216], [[5]]⟩)], deleted := [5] }

def bm25_1 : BM25.State :=
  { numDocs := 2, totalTokens := 3, avgDocLen := 4609434218613702656,
    docLengths := [(1, 2), (2, 1)],
    docTokens := [(2, [asciiBytes ['a']]), (1, [asciiBytes ['a'], asciiBytes ['b']])],
    postings := [(asciiBytes ['b'], [1]), (asciiBytes ['a'], [1, 2])],
    tf := [(asciiBytes ['a'], [(2, 1), (1, 1)]), (asciiBytes ['b'], [(1, 1)])],
    deleted := [2] }

def meta1 : Meta.State :=
  { allDocs := [1, 2], categorical := [(asciiBytes ['c', ':', 'x'], [1]), (asciiBytes ['c', ':', 'y'], [])],
    numeric := [(asciiBytes ['n'], [1, 2] :: [2] :: List.replicate 63 [])] }

def hybrid1 : Hybrid.State :=
  { docInfo := [(2, ⟨false, true, true⟩), (1, ⟨true, true, true⟩)],
    vec := some (.flat flat1), txt := some bm25_1, md := some meta1 }

end Comet.Codec.Example
