/-
  Helper lemmas about the parser combinators of Comet/Codec/Parser.lean, proved once:

    * `Good p`  — whenever `p` succeeds it consumed a prefix `u` of its input, it
      returns the same value on `u ++ r'` for every other continuation `r'`
      (`Stable`), and it fails on every strict prefix of `u` (`Strict`);
    * `Exact p` — the byte count a counting parser reports equals what it consumed;
    * `Reads p u a` — `p` reads exactly the bytes `u` and returns `a` (round trips).

  All three are closed under `pure / bind / map / repeat / guard / if`.
-/
import Comet.Codec.Parser
namespace Comet.Codec

def IsErr {β : Type} (x : Except Err β) : Prop := ∃ e, x = .error e

theorem IsErr.error {β : Type} (e : Err) : IsErr (Except.error e : Except Err β) := ⟨e, rfl⟩

/-- success on `u ++ r` with remainder `r` ⇒ the same value on `u ++ r'` with remainder `r'` -/
def Stable (p : Parser α) : Prop :=
  ∀ u r v, p (u ++ r) = .ok (v, r) → ∀ r', p (u ++ r') = .ok (v, r')

/-- success on `u ++ r` leaving `r` ⇒ every strict prefix of `u` is an error -/
def Strict (p : Parser α) : Prop :=
  ∀ u r v, p (u ++ r) = .ok (v, r) → ∀ u', u' <+: u → u' ≠ u → IsErr (p u')

/-- the bundled invariant that is preserved by the combinators -/
structure Good (p : Parser α) : Prop where
  split : ∀ inp v rest, p inp = .ok (v, rest) →
    ∃ u, inp = u ++ rest ∧ (∀ r', p (u ++ r') = .ok (v, r')) ∧
      (∀ u', u' <+: u → u' ≠ u → IsErr (p u'))

theorem Good.stable {p : Parser α} (h : Good p) : Stable p := by
  intro u r v hp r'
  obtain ⟨u0, he, hs, _⟩ := h.split _ _ _ hp
  have : u = u0 := List.append_cancel_right he
  subst this
  exact hs r'

theorem Good.strict {p : Parser α} (h : Good p) : Strict p := by
  intro u r v hp u' hpre hne
  obtain ⟨u0, he, _, hs⟩ := h.split _ _ _ hp
  have : u = u0 := List.append_cancel_right he
  subst this
  exact hs u' hpre hne

/-- a successful parse leaves a suffix of its input -/
theorem Good.suffix {p : Parser α} (h : Good p) {inp v rest} (hp : p inp = .ok (v, rest)) :
    ∃ u, inp = u ++ rest := by
  obtain ⟨u, he, _, _⟩ := h.split _ _ _ hp
  exact ⟨u, he⟩

/-! ### closure -/

theorem Good.pure (a : α) : Good (Parser.pure a) := by
  constructor
  intro inp v rest h
  simp only [Parser.pure, Except.ok.injEq, Prod.mk.injEq] at h
  obtain ⟨rfl, rfl⟩ := h
  refine ⟨[], rfl, fun r' => rfl, ?_⟩
  intro u' hpre hne
  exact absurd (List.prefix_nil.1 hpre) hne

theorem Good.fail (e : Err) : Good (Parser.fail e : Parser α) := by
  constructor
  intro inp v rest h
  simp [Parser.fail] at h

theorem bind_ok {p : Parser α} {f : α → Parser β} {inp a mid}
    (h : p inp = .ok (a, mid)) : (p.bind f) inp = f a mid := by
  simp [Parser.bind, h]

theorem bind_err {p : Parser α} {f : α → Parser β} {inp}
    (h : IsErr (p inp)) : IsErr ((p.bind f) inp) := by
  obtain ⟨e, he⟩ := h
  exact ⟨e, by simp [Parser.bind, he]⟩

theorem bind_inv {p : Parser α} {f : α → Parser β} {inp w rest}
    (h : (p.bind f) inp = .ok (w, rest)) :
    ∃ a mid, p inp = .ok (a, mid) ∧ f a mid = .ok (w, rest) := by
  unfold Parser.bind at h
  split at h
  · cases h
  · next a mid hp => exact ⟨a, mid, hp, h⟩

theorem Good.bind {p : Parser α} {f : α → Parser β} (hp : Good p) (hf : ∀ a, Good (f a)) :
    Good (p.bind f) := by
  constructor
  intro inp w rest h
  obtain ⟨a, mid, h1, h2⟩ := bind_inv h
  obtain ⟨u1, e1, s1, t1⟩ := hp.split _ _ _ h1
  obtain ⟨u2, e2, s2, t2⟩ := (hf a).split _ _ _ h2
  refine ⟨u1 ++ u2, by rw [e1, e2, List.append_assoc], ?_, ?_⟩
  · intro r'
    rw [List.append_assoc, bind_ok (s1 _)]
    exact s2 r'
  · intro u' hpre hne
    -- either u' is a strict prefix of u1, or u' = u1 ++ u2' with u2' a strict prefix of u2
    rcases List.prefix_or_prefix_of_prefix hpre (List.prefix_append u1 u2) with h | h
    · by_cases heq : u' = u1
      · subst heq
        have := s1 []
        rw [List.append_nil] at this
        rw [bind_ok this]
        apply t2 [] (List.nil_prefix)
        intro h0
        apply hne
        rw [← h0, List.append_nil]
      · exact bind_err (t1 u' h heq)
    · obtain ⟨u2', rfl⟩ := h
      have hpre2 : u2' <+: u2 := by
        exact (List.prefix_append_right_inj u1).1 hpre
      rw [bind_ok (s1 _)]
      apply t2 u2' hpre2
      intro h0
      apply hne
      rw [h0]

theorem Good.map (f : α → β) {p : Parser α} (hp : Good p) : Good (Parser.map f p) :=
  Good.bind hp fun a => Good.pure (f a)

theorem Good.bytes (n : Nat) : Good (bytes n) := by
  constructor
  intro inp v rest h
  unfold Comet.Codec.bytes at h
  split at h
  · cases h
  · next hlen =>
    simp only [Except.ok.injEq, Prod.mk.injEq] at h
    obtain ⟨rfl, rfl⟩ := h
    have hlen' : n ≤ inp.length := Nat.le_of_not_lt hlen
    refine ⟨inp.take n, (List.take_append_drop n inp).symm, ?_, ?_⟩
    · intro r'
      have hl : (inp.take n).length = n := by simp [List.length_take, Nat.min_eq_left hlen']
      unfold Comet.Codec.bytes
      have : ¬ (List.take n inp ++ r').length < n := by simp [hl]
      rw [if_neg this]
      congr 2
      · rw [List.take_append_of_le_length (by omega)]
        rw [List.take_of_length_le (by omega)]
      · rw [List.drop_append_of_le_length (by omega)]
        rw [List.drop_of_length_le (by omega)]
        rfl
    · intro u' hpre hne
      have hl : (inp.take n).length = n := by simp [List.length_take, Nat.min_eq_left hlen']
      have h1 : u'.length ≤ (inp.take n).length := hpre.length_le
      have h2 : u'.length ≠ (inp.take n).length := by
        intro he
        exact hne (List.IsPrefix.eq_of_length hpre he)
      unfold Comet.Codec.bytes
      rw [if_pos (by omega)]
      exact IsErr.error _

theorem Good.u8 : Good u8 := Good.map _ (Good.bytes 1)
theorem Good.u32le : Good u32le := Good.map _ (Good.bytes 4)
theorem Good.u64le : Good u64le := Good.map _ (Good.bytes 8)
theorem Good.i32le : Good i32le := Good.map _ Good.u32le
theorem Good.f32bits : Good f32bits := Good.u32le
theorem Good.f64bits : Good f64bits := Good.u64le
theorem Good.lenPrefixedBytes : Good lenPrefixedBytes := Good.bind Good.u32le Good.bytes

theorem Good.guard (c : Bool) (e : Err) : Good (guard c e) := by
  unfold Comet.Codec.guard
  split
  · exact Good.pure ()
  · exact Good.fail e

theorem Good.eqCheck [BEq α] (x want : α) (e : Err) : Good (eqCheck x want e) := Good.guard _ _

theorem Good.ite {c : Prop} [Decidable c] {p q : Parser α} (hp : Good p) (hq : Good q) :
    Good (if c then p else q) := by
  split
  · exact hp
  · exact hq

theorem Good.ofOption (o : Option α) (e : Err) : Good (ofOption o e) := by
  unfold Comet.Codec.ofOption
  split
  · exact Good.pure _
  · exact Good.fail _

theorem Good.ofExcept (o : Except Err α) : Good (ofExcept o) := by
  unfold Comet.Codec.ofExcept
  split
  · exact Good.pure _
  · exact Good.fail _

theorem Good.repeat (n : Nat) {p : Parser α} (hp : Good p) : Good («repeat» n p) := by
  induction n with
  | zero => exact Good.pure []
  | succ n ih => exact Good.bind hp fun a => Good.bind ih fun as => Good.pure _

/-! ### counting parsers -/

theorem Good.cp_pure (a : α) : Good (CP.pure a) := Good.pure _
theorem Good.cp_fail (e : Err) : Good (CP.fail e : CP α) := Good.fail e

theorem Good.cp_bind {p : CP α} {f : α → CP β} (hp : Good p) (hf : ∀ a, Good (f a)) :
    Good (CP.bind p f) :=
  Good.bind hp fun an => Good.bind (hf an.1) fun _ => Good.pure _

theorem Good.cp_map (f : α → β) {p : CP α} (hp : Good p) : Good (CP.map f p) :=
  Good.cp_bind hp fun a => Good.cp_pure (f a)

theorem Good.cp_run {p : CP α} (hp : Good p) : Good (CP.run p) := Good.map _ hp

theorem Good.rd (sw : Switch) (t : Ty) {p : Parser α} (hp : Good p) : Good (CP.rd sw t p) :=
  Good.map _ hp

theorem Good.rU8 (sw : Switch) : Good (CP.rU8 sw) := Good.rd sw _ Good.u8
theorem Good.rU32 (sw : Switch) : Good (CP.rU32 sw) := Good.rd sw _ Good.u32le
theorem Good.rI32 (sw : Switch) : Good (CP.rI32 sw) := Good.rd sw _ Good.i32le
theorem Good.rF32 (sw : Switch) : Good (CP.rF32 sw) := Good.rd sw _ Good.f32bits
theorem Good.rF64 (sw : Switch) : Good (CP.rF64 sw) := Good.rd sw _ Good.f64bits
theorem Good.rRaw (n : Nat) : Good (CP.rRaw n) := Good.map _ (Good.bytes n)
theorem Good.rLenBytes (sw : Switch) : Good (CP.rLenBytes sw) :=
  Good.cp_bind (Good.rU32 sw) Good.rRaw

theorem Good.cp_guard (c : Bool) (e : Err) : Good (CP.guard c e) := by
  unfold CP.guard
  split
  · exact Good.cp_pure ()
  · exact Good.cp_fail e

theorem Good.cp_ofOption (o : Option α) (e : Err) : Good (CP.ofOption o e) := by
  unfold CP.ofOption
  split
  · exact Good.cp_pure _
  · exact Good.cp_fail _

theorem Good.cp_ofExcept (o : Except Err α) : Good (CP.ofExcept o) := by
  unfold CP.ofExcept
  split
  · exact Good.cp_pure _
  · exact Good.cp_fail _

theorem Good.cp_repeat (n : Nat) {p : CP α} (hp : Good p) : Good (CP.repeat n p) := by
  induction n with
  | zero => exact Good.cp_pure []
  | succ n ih => exact Good.cp_bind hp fun a => Good.cp_bind ih fun as => Good.cp_pure _

theorem Good.cp_sub {p : CP α} (hp : Good p) : Good (CP.sub p) := by unfold CP.sub; exact hp

theorem Good.cp_cond (c : Bool) {p : CP α} (hp : Good p) (d : α) : Good (CP.cond c p d) := by
  unfold CP.cond
  split
  · exact hp
  · exact Good.cp_pure d

theorem Good.cp_opt (o : Option β) {p : β → CP α} (hp : ∀ b, Good (p b)) : Good (CP.opt o p) := by
  unfold CP.opt
  split
  · exact Good.cp_map _ (hp _)
  · exact Good.cp_pure _

/-- the count a counting parser reports equals the number of bytes it consumed -/
def Exact (p : CP α) : Prop :=
  ∀ inp v n rest, p inp = .ok ((v, n), rest) → inp.length = n + rest.length

theorem Exact.pure (a : α) : Exact (CP.pure a) := by
  intro inp v n rest h
  simp only [CP.pure, Parser.pure, Except.ok.injEq, Prod.mk.injEq] at h
  obtain ⟨⟨_, rfl⟩, rfl⟩ := h
  simp

theorem Exact.fail (e : Err) : Exact (CP.fail e : CP α) := by
  intro inp v n rest h
  simp [CP.fail, Parser.fail] at h

theorem Exact.bind {p : CP α} {f : α → CP β} (hp : Exact p) (hf : ∀ a, Exact (f a)) :
    Exact (CP.bind p f) := by
  intro inp w n rest h
  obtain ⟨an, mid, h1, h2⟩ := bind_inv h
  obtain ⟨bm, mid2, h3, h4⟩ := bind_inv h2
  simp only [Parser.pure, Except.ok.injEq, Prod.mk.injEq] at h4
  obtain ⟨⟨rfl, rfl⟩, rfl⟩ := h4
  have e1 := hp inp an.1 an.2 mid (by simpa using h1)
  have e2 := hf an.1 mid bm.1 bm.2 mid2 (by simpa using h3)
  omega

theorem Exact.map (f : α → β) {p : CP α} (hp : Exact p) : Exact (CP.map f p) :=
  Exact.bind hp fun _ => Exact.pure _

/-- `p` consumes exactly `k` bytes when it succeeds -/
def Consumes (p : Parser α) (k : Nat) : Prop :=
  ∀ inp v rest, p inp = .ok (v, rest) → inp.length = k + rest.length

theorem Consumes.bytes (n : Nat) : Consumes (bytes n) n := by
  intro inp v rest h
  unfold Comet.Codec.bytes at h
  split at h
  · cases h
  · simp only [Except.ok.injEq, Prod.mk.injEq] at h
    obtain ⟨_, rfl⟩ := h
    simp only [List.length_drop]
    omega

theorem Consumes.map (f : α → β) {p : Parser α} {k} (hp : Consumes p k) :
    Consumes (Parser.map f p) k := by
  intro inp v rest h
  obtain ⟨_, mid, h1, h2⟩ := bind_inv h
  simp only [Parser.pure, Except.ok.injEq, Prod.mk.injEq] at h2
  obtain ⟨_, rfl⟩ := h2
  exact hp _ _ _ h1

theorem Exact.rd {sw : Switch} {t : Ty} {p : Parser α} {k : Nat} (hp : Consumes p k)
    (hsw : sw t = k) : Exact (CP.rd sw t p) := by
  intro inp v n rest h
  obtain ⟨a, mid, h1, h2⟩ := bind_inv h
  simp only [Parser.pure, Except.ok.injEq, Prod.mk.injEq] at h2
  obtain ⟨⟨_, rfl⟩, rfl⟩ := h2
  rw [hsw]
  exact hp _ _ _ h1

theorem Exact.rU8 {sw : Switch} (h : sw .u8 = 1) : Exact (CP.rU8 sw) :=
  Exact.rd (Consumes.map _ (Consumes.bytes 1)) h
theorem Exact.rU32 {sw : Switch} (h : sw .u32 = 4) : Exact (CP.rU32 sw) :=
  Exact.rd (Consumes.map _ (Consumes.bytes 4)) h
theorem Exact.rI32 {sw : Switch} (h : sw .i32 = 4) : Exact (CP.rI32 sw) :=
  Exact.rd (Consumes.map _ (Consumes.map _ (Consumes.bytes 4))) h
theorem Exact.rF32 {sw : Switch} (h : sw .f32 = 4) : Exact (CP.rF32 sw) :=
  Exact.rd (Consumes.map _ (Consumes.bytes 4)) h
theorem Exact.rF64 {sw : Switch} (h : sw .f64 = 8) : Exact (CP.rF64 sw) :=
  Exact.rd (Consumes.map _ (Consumes.bytes 8)) h

theorem Exact.rRaw (n : Nat) : Exact (CP.rRaw n) := by
  intro inp v m rest h
  obtain ⟨a, mid, h1, h2⟩ := bind_inv h
  simp only [Parser.pure, Except.ok.injEq, Prod.mk.injEq] at h2
  obtain ⟨⟨_, rfl⟩, rfl⟩ := h2
  exact Consumes.bytes n _ _ _ h1

theorem Exact.rLenBytes {sw : Switch} (h : sw .u32 = 4) : Exact (CP.rLenBytes sw) :=
  Exact.bind (Exact.rU32 h) Exact.rRaw

theorem Exact.guard (c : Bool) (e : Err) : Exact (CP.guard c e) := by
  unfold CP.guard
  split
  · exact Exact.pure ()
  · exact Exact.fail e

theorem Exact.ofOption (o : Option α) (e : Err) : Exact (CP.ofOption o e) := by
  unfold CP.ofOption
  split
  · exact Exact.pure _
  · exact Exact.fail _

theorem Exact.ofExcept (o : Except Err α) : Exact (CP.ofExcept o) := by
  unfold CP.ofExcept
  split
  · exact Exact.pure _
  · exact Exact.fail _

theorem Exact.ite {c : Prop} [Decidable c] {p q : CP α} (hp : Exact p) (hq : Exact q) :
    Exact (if c then p else q) := by
  split
  · exact hp
  · exact hq

theorem Exact.repeat (n : Nat) {p : CP α} (hp : Exact p) : Exact (CP.repeat n p) := by
  induction n with
  | zero => exact Exact.pure []
  | succ n ih => exact Exact.bind hp fun a => Exact.bind ih fun as => Exact.pure _

theorem Exact.sub {p : CP α} (hp : Exact p) : Exact (CP.sub p) := by unfold CP.sub; exact hp

theorem Exact.cond (c : Bool) {p : CP α} (hp : Exact p) (d : α) : Exact (CP.cond c p d) := by
  unfold CP.cond
  split
  · exact hp
  · exact Exact.pure d

theorem Exact.opt (o : Option β) {p : β → CP α} (hp : ∀ b, Exact (p b)) : Exact (CP.opt o p) := by
  unfold CP.opt
  split
  · exact Exact.map _ (hp _)
  · exact Exact.pure _

/-! ### do-notation normal forms -/

@[simp] theorem CP.bind_eq (p : CP α) (f : α → CP β) : (p >>= f) = CP.bind p f := rfl
@[simp] theorem CP.pure_eq (a : α) : (Pure.pure a : CP α) = CP.pure a := rfl
@[simp] theorem CP.seq_eq (p : CP PUnit) (q : CP β) : (do p; q) = CP.bind p fun _ => q := rfl

/-! ### encoders -/

theorem length_encLE (w n : Nat) : (encLE w n).length = w := by
  induction w generalizing n with
  | zero => rfl
  | succ w ih => simp [encLE, ih]

@[simp] theorem length_encU8 (n : Nat) : (encU8 n).length = 1 := length_encLE 1 n
@[simp] theorem length_encU32 (n : Nat) : (encU32 n).length = 4 := length_encLE 4 n
@[simp] theorem length_encU64 (n : Nat) : (encU64 n).length = 8 := length_encLE 8 n
@[simp] theorem length_encI32 (z : Int) : (encI32 z).length = 4 := length_encLE 4 _

theorem leNat_encLE (w n : Nat) : leNat (encLE w n) = n % 256 ^ w := by
  induction w generalizing n with
  | zero => simp [encLE, leNat, Nat.mod_one]
  | succ w ih =>
    simp only [encLE, leNat, ih]
    have h1 : (UInt8.ofNat (n % 256)).toNat = n % 256 := by
      simp [UInt8.toNat_ofNat']
    rw [h1, Nat.pow_succ, Nat.mul_comm (256 ^ w) 256, Nat.mod_mul]

theorem leNat_encLE_of_lt {w n : Nat} (h : n < 256 ^ w) : leNat (encLE w n) = n := by
  rw [leNat_encLE, Nat.mod_eq_of_lt h]

theorem bytes_append (b rest : Bytes) : bytes b.length (b ++ rest) = .ok (b, rest) := by
  unfold bytes
  rw [if_neg (by simp)]
  simp

theorem toI32_enc {z : Int} (h1 : -2147483648 ≤ z) (h2 : z < 2147483648) :
    toI32 ((z % 4294967296).toNat) = z := by
  unfold toI32
  split <;> omega

/-! ### `Reads p u a`: `p` reads exactly the bytes `u` and returns `a` -/

def Reads (p : CP α) (u : Bytes) (a : α) : Prop :=
  ∀ rest, ∃ n, p (u ++ rest) = .ok ((a, n), rest)

theorem Reads.pure (a : α) : Reads (CP.pure a) [] a := fun _ => ⟨0, rfl⟩

theorem Reads.pure_of_eq {a b : α} (h : a = b) : Reads (CP.pure a) [] b := h ▸ Reads.pure a

theorem Reads.bind {p : CP α} {f : α → CP β} {u w a b}
    (hp : Reads p u a) (hf : Reads (f a) w b) : Reads (CP.bind p f) (u ++ w) b := by
  intro rest
  obtain ⟨n, h1⟩ := hp (w ++ rest)
  obtain ⟨m, h2⟩ := hf rest
  refine ⟨n + m, ?_⟩
  unfold CP.bind
  rw [List.append_assoc, bind_ok h1]
  show (Parser.bind (f a) _) (w ++ rest) = _
  rw [bind_ok h2]
  rfl

/-- `bind` where the continuation reads nothing more is often convenient -/
theorem Reads.bind' {p : CP α} {f : α → CP β} {u w uw a b}
    (hp : Reads p u a) (hf : Reads (f a) w b) (h : uw = u ++ w) : Reads (CP.bind p f) uw b :=
  h ▸ Reads.bind hp hf

theorem Reads.of_eq {p : CP α} {u uw a} (h : Reads p u a) (e : uw = u) : Reads p uw a := e ▸ h

theorem Reads.map (f : α → β) {p : CP α} {u a} (hp : Reads p u a) : Reads (CP.map f p) u (f a) := by
  have := Reads.bind (f := fun a => CP.pure (f a)) hp (Reads.pure (f a))
  rwa [List.append_nil] at this

theorem Reads.rd (sw : Switch) (t : Ty) {p : Parser α} {u a}
    (hp : ∀ rest, p (u ++ rest) = .ok (a, rest)) : Reads (CP.rd sw t p) u a := by
  intro rest
  refine ⟨sw t, ?_⟩
  unfold CP.rd Parser.map
  rw [bind_ok (hp rest)]
  rfl

theorem pmap_ok {p : Parser α} {f : α → β} {inp a rest} (h : p inp = .ok (a, rest)) :
    (Parser.map f p) inp = .ok (f a, rest) := by
  unfold Parser.map
  rw [bind_ok h]
  rfl

theorem u8_enc {n : Nat} (h : n < 256) (rest : Bytes) : u8 (encU8 n ++ rest) = .ok (n, rest) := by
  have hb := bytes_append (encU8 n) rest
  rw [length_encU8] at hb
  have := pmap_ok (f := leNat) hb
  rw [show leNat (encU8 n) = n from leNat_encLE_of_lt (by simpa using h)] at this
  exact this

theorem u32le_enc {n : Nat} (h : n < 4294967296) (rest : Bytes) :
    u32le (encU32 n ++ rest) = .ok (n, rest) := by
  have hb := bytes_append (encU32 n) rest
  rw [length_encU32] at hb
  have := pmap_ok (f := leNat) hb
  rw [show leNat (encU32 n) = n from leNat_encLE_of_lt (by simpa using h)] at this
  exact this

theorem u64le_enc {n : Nat} (h : n < 18446744073709551616) (rest : Bytes) :
    u64le (encU64 n ++ rest) = .ok (n, rest) := by
  have hb := bytes_append (encU64 n) rest
  rw [length_encU64] at hb
  have := pmap_ok (f := leNat) hb
  rw [show leNat (encU64 n) = n from leNat_encLE_of_lt (by simpa using h)] at this
  exact this

theorem i32le_enc {z : Int} (h1 : -2147483648 ≤ z) (h2 : z < 2147483648) (rest : Bytes) :
    i32le (encI32 z ++ rest) = .ok (z, rest) := by
  have hlt : (z % 4294967296).toNat < 4294967296 := by omega
  have := pmap_ok (f := toI32) (u32le_enc hlt rest)
  rw [toI32_enc h1 h2] at this
  exact this

theorem Reads.rU8 (sw : Switch) {n : Nat} (h : n < 256) : Reads (CP.rU8 sw) (encU8 n) n :=
  Reads.rd sw _ (u8_enc h)
theorem Reads.rU32 (sw : Switch) {n : Nat} (h : n < 4294967296) : Reads (CP.rU32 sw) (encU32 n) n :=
  Reads.rd sw _ (u32le_enc h)
theorem Reads.rF32 (sw : Switch) {n : Nat} (h : n < 4294967296) : Reads (CP.rF32 sw) (encU32 n) n :=
  Reads.rd sw _ (u32le_enc h)
theorem Reads.rF64 (sw : Switch) {n : Nat} (h : n < 18446744073709551616) :
    Reads (CP.rF64 sw) (encU64 n) n :=
  Reads.rd sw _ (u64le_enc h)
theorem Reads.rI32 (sw : Switch) {z : Int} (h1 : -2147483648 ≤ z) (h2 : z < 2147483648) :
    Reads (CP.rI32 sw) (encI32 z) z :=
  Reads.rd sw _ (i32le_enc h1 h2)

theorem Reads.rRaw (b : Bytes) : Reads (CP.rRaw b.length) b b := by
  intro rest
  refine ⟨b.length, ?_⟩
  unfold CP.rRaw
  exact pmap_ok (bytes_append b rest)

theorem Reads.rLenBytes (sw : Switch) {b : Bytes} (h : b.length < 4294967296) :
    Reads (CP.rLenBytes sw) (encU32 b.length ++ b) b :=
  Reads.bind (Reads.rU32 sw h) (Reads.rRaw b)

theorem Reads.guard_true (e : Err) : Reads (CP.guard true e) [] () := Reads.pure ()

theorem Reads.guard {c : Bool} (h : c = true) (e : Err) : Reads (CP.guard c e) [] () := by
  subst h; exact Reads.pure ()

theorem Reads.ofOption {o : Option α} {a : α} (h : o = some a) (e : Err) :
    Reads (CP.ofOption o e) [] a := by
  subst h; exact Reads.pure a

theorem Reads.ofExcept {o : Except Err α} {a : α} (h : o = .ok a) :
    Reads (CP.ofExcept o) [] a := by
  subst h; exact Reads.pure a

theorem Reads.repeat {p : CP α} (enc : α → Bytes) (l : List α)
    (h : ∀ a ∈ l, Reads p (enc a) a) : Reads (CP.repeat l.length p) (l.flatMap enc) l := by
  induction l with
  | nil => exact Reads.pure []
  | cons a l ih =>
    have h1 := h a (List.mem_cons_self)
    have h2 := ih fun b hb => h b (List.mem_cons_of_mem _ hb)
    have := Reads.bind h1 (f := fun a => CP.bind (CP.repeat l.length p) fun as => CP.pure (a :: as))
      (Reads.bind h2 (Reads.pure (a :: l)))
    simpa [CP.repeat, List.flatMap_cons] using this

theorem Reads.sub {p : CP α} {u a} (h : Reads p u a) : Reads (CP.sub p) u a := by unfold CP.sub; exact h

theorem Reads.cond_true {p : CP α} {u a} (h : Reads p u a) (d : α) : Reads (CP.cond true p d) u a := h
theorem Reads.cond_false (p : CP α) (d : α) : Reads (CP.cond false p d) [] d := Reads.pure d

theorem Reads.opt_some {b : β} {p : β → CP α} {u a} (h : Reads (p b) u a) :
    Reads (CP.opt (some b) p) u (some a) := Reads.map some h
theorem Reads.opt_none (p : β → CP α) : Reads (CP.opt (none : Option β) p) [] none := Reads.pure none

/-- a parser that reads `u` and fails does so whatever follows -/
def Rejects (p : CP α) (u : Bytes) : Prop := ∀ rest, IsErr (p (u ++ rest))

theorem Rejects.bind_left {p : CP α} {f : α → CP β} {u} (h : Rejects p u) (w : Bytes) :
    Rejects (CP.bind p f) (u ++ w) := by
  intro rest
  rw [List.append_assoc]
  exact bind_err (h _)

theorem Rejects.bind_right {p : CP α} {f : α → CP β} {u w a}
    (hp : Reads p u a) (hf : Rejects (f a) w) : Rejects (CP.bind p f) (u ++ w) := by
  intro rest
  obtain ⟨n, h1⟩ := hp (w ++ rest)
  unfold CP.bind
  rw [List.append_assoc, bind_ok h1]
  exact bind_err (hf rest)

theorem Rejects.guard_false {c : Bool} (h : c = false) (e : Err) : Rejects (CP.guard c e) [] := by
  subst h
  intro _
  exact IsErr.error _

/-! ### the two facts every kind needs, derived from `Good` + a round trip -/

/-- a round trip plus `Good` gives: every strict prefix of the encoding is rejected -/
theorem strict_prefix_of_reads {p : CP α} (hg : Good p) {u : Bytes} {a : α} (hr : Reads p u a)
    (n : Nat) (hn : n < u.length) : IsErr (p (u.take n)) := by
  obtain ⟨c, h⟩ := hr []
  rw [List.append_nil] at h
  have h' : p (u ++ []) = .ok ((a, c), []) := by rw [List.append_nil]; exact h
  apply hg.strict u [] (a, c) h' (u.take n) (List.take_prefix n u)
  intro he
  have := congrArg List.length he
  simp only [List.length_take] at this
  omega

/-- a round trip plus `Exact` gives: the reported read count is the stream length -/
theorem count_of_reads {p : CP α} (he : Exact p) {u : Bytes} {a : α} (hr : Reads p u a)
    (rest : Bytes) : p (u ++ rest) = .ok ((a, u.length), rest) := by
  obtain ⟨c, h⟩ := hr rest
  have := he _ _ _ _ h
  simp only [List.length_append] at this
  have hc : c = u.length := by omega
  rw [h, hc]

/-! ### write side -/

@[simp] theorem flat_append (a b : List Item) : flat (a ++ b) = flat a ++ flat b := by
  simp [flat, List.flatMap_append]
@[simp] theorem flat_nil : flat [] = [] := rfl
@[simp] theorem flat_cons (it : Item) (its : List Item) : flat (it :: its) = it.data ++ flat its := by
  simp [flat]
@[simp] theorem flat_flatMap (l : List α) (f : α → List Item) :
    flat (l.flatMap f) = l.flatMap fun a => flat (f a) := by
  induction l with
  | nil => rfl
  | cons a l ih => simp [List.flatMap_cons, ih]
@[simp] theorem wU8_data (n : Nat) : (wU8 n).data = encU8 n := rfl
@[simp] theorem wU32_data (n : Nat) : (wU32 n).data = encU32 n := rfl
@[simp] theorem wI32_data (z : Int) : (wI32 z).data = encI32 z := rfl
@[simp] theorem wF32_data (n : Nat) : (wF32 n).data = encU32 n := rfl
@[simp] theorem wF64_data (n : Nat) : (wF64 n).data = encU64 n := rfl
@[simp] theorem wRaw_data (b : Bytes) : (wRaw b).data = b := rfl
@[simp] theorem flat_wLenBytes (b : Bytes) : flat (wLenBytes b) = encU32 b.length ++ b := by
  simp [wLenBytes]
@[simp] theorem flat_map_wF32 (l : List Nat) : flat (l.map wF32) = l.flatMap encU32 := by
  induction l with
  | nil => rfl
  | cons a l ih => simp [ih, List.flatMap_cons]
@[simp] theorem flat_map_wU32 (l : List Nat) : flat (l.map wU32) = l.flatMap encU32 := by
  induction l with
  | nil => rfl
  | cons a l ih => simp [ih, List.flatMap_cons]

theorem reported_append (sw : Switch) (a b : List Item) :
    reported sw (a ++ b) = reported sw a + reported sw b := by
  simp [reported, List.map_append, List.sum_append]

/-- if every item is counted with its own length, the reported count is the stream length -/
theorem reported_eq_length (sw : Switch) (its : List Item)
    (h : ∀ it ∈ its, it.counted sw = it.data.length) : reported sw its = (flat its).length := by
  induction its with
  | nil => rfl
  | cons it its ih =>
    have h1 := h it (List.mem_cons_self)
    have h2 := ih fun x hx => h x (List.mem_cons_of_mem _ hx)
    simp only [reported, List.map_cons, List.sum_cons, flat, List.flatMap_cons,
      List.length_append] at *
    omega

/-- association lists with duplicate-free keys are what a Go map built from them holds -/
theorem mkMap_of_nodup [BEq κ] [LawfulBEq κ] (l : List (κ × ν)) (h : (l.map (·.1)).Nodup) :
    mkMap l = l := by
  unfold mkMap
  suffices ∀ (acc : List (κ × ν)), (∀ e ∈ acc, ∀ kv ∈ l, ¬ e.1 = kv.1) → (l.map (·.1)).Nodup →
      l.foldl (fun m kv => m.filter (fun e => !(e.1 == kv.1)) ++ [kv]) acc = acc ++ l by
    simpa using this [] (by simp) h
  clear h
  induction l with
  | nil => intro acc _ _; simp
  | cons kv l ih =>
    intro acc hacc hnd
    simp only [List.map_cons, List.nodup_cons] at hnd
    simp only [List.foldl_cons]
    have hf : acc.filter (fun e => !(e.1 == kv.1)) = acc := by
      apply List.filter_eq_self.2
      intro e he
      have := hacc e he kv (List.mem_cons_self)
      simp [this]
    rw [hf, ih (acc ++ [kv]) ?_ hnd.2]
    · simp
    · intro e he kv' hkv'
      rcases List.mem_append.1 he with h1 | h1
      · exact hacc e h1 kv' (List.mem_cons_of_mem _ hkv')
      · simp only [List.mem_singleton] at h1
        subst h1
        intro heq
        apply hnd.1
        rw [heq]
        exact List.mem_map_of_mem hkv'

end Comet.Codec

namespace Comet.Codec
attribute [irreducible] Exact

/-- closes `Exact (…)` goals for decoders written with the combinators -/
macro "exact_tac" : tactic => `(tactic|
  repeat (first
    | assumption
    | apply_assumption
    | apply Exact.opt | apply Exact.cond | apply Exact.sub | apply Exact.repeat
    | apply Exact.rU8 | apply Exact.rU32 | apply Exact.rI32 | apply Exact.rF32 | apply Exact.rF64
    | apply Exact.rRaw | apply Exact.rLenBytes | apply Exact.guard | apply Exact.ofOption
    | apply Exact.ofExcept | apply Exact.pure | apply Exact.fail
    | apply Exact.bind | apply Exact.map | apply Exact.ite
    | intro _ | rfl))
/-- closes `Good (…)` goals for decoders written with the combinators -/
macro "good_tac" : tactic => `(tactic|
  repeat (first
    | assumption
    | apply_assumption
    | apply Good.cp_opt | apply Good.cp_cond | apply Good.cp_sub | apply Good.cp_repeat
    | apply Good.rU8 | apply Good.rU32 | apply Good.rI32 | apply Good.rF32 | apply Good.rF64
    | apply Good.rRaw | apply Good.rLenBytes | apply Good.cp_guard | apply Good.cp_ofOption
    | apply Good.cp_ofExcept | apply Good.cp_pure | apply Good.cp_fail
    | apply Good.cp_bind | apply Good.cp_map | apply Good.ite
    | intro _))
end Comet.Codec
