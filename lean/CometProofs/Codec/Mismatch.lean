/-
  Helper lemmas for C16: what each decoder answers on a stream with a foreign magic,
  another version, or parameters that differ from the receiver's.  All proofs run the
  decoder symbolically on the known header of the stream (`eval_dec`).
-/
import CometProofs.Codec.Eval
import CometProofs.Codec.Hybrid
import Comet.Codec.Any
namespace Comet.Codec

/-- unfolds a decoder and the header of the stream it is applied to -/
macro "open_stream" : tactic => `(tactic|
  simp only [Flat.decodeC, HNSW.decodeC, IVF.decodeC, PQ.decodeC, IVFPQ.decodeC, BM25.decodeC,
    Meta.decodeC, Hybrid.decodeC, Hybrid.decodeCWith, Hybrid.headC, CP.bind_eq, CP.pure_eq,
    Flat.encodeRaw, HNSW.encodeRaw, IVF.encodeRaw, PQ.encodeRaw, IVFPQ.encodeRaw, BM25.encodeRaw,
    Meta.encodeRaw, Hybrid.encodeRaw, Hybrid.encode4Raw,
    Flat.items, HNSW.items, IVF.items, PQ.items, IVFPQ.items, BM25.items, Meta.items,
    Hybrid.headItems, flat_append, flat_cons, flat_nil, wRaw_data, wU32_data, wU8_data,
    flat_wLenBytes])


/-! ### header bounds a well-formed state provides -/

theorem Flat.wf_hdr {s : Flat.State} (h : Flat.wf s = true) :
    s.dim < 4294967296 ∧ s.metric.length < 4294967296 := by
  simp only [Flat.wf, Bool.and_eq_true, decide_eq_true_eq] at h
  exact ⟨h.1.1.1, h.1.1.2⟩

theorem HNSW.wf_hdr {s : HNSW.State} (h : HNSW.wf s = true) :
    s.dim < 4294967296 ∧ s.metric.length < 4294967296 ∧ s.m < 4294967296 ∧
    s.efC < 4294967296 ∧ s.efS < 4294967296 := by
  simp only [HNSW.wf, Bool.and_eq_true, decide_eq_true_eq] at h
  obtain ⟨⟨⟨⟨⟨⟨⟨⟨⟨⟨hdim, hmk⟩, hm⟩, hefc⟩, hefs⟩, _⟩, _⟩, _⟩, _⟩, _⟩, _⟩ := h
  exact ⟨hdim, hmk, hm, hefc, hefs⟩

theorem IVF.wf_hdr {s : IVF.State} (h : IVF.wf s = true) :
    s.dim < 4294967296 ∧ s.metric.length < 4294967296 ∧ s.nlist < 4294967296 := by
  simp only [IVF.wf, Bool.and_eq_true, decide_eq_true_eq] at h
  obtain ⟨⟨⟨⟨⟨⟨hdim, hmk⟩, hnl⟩, _⟩, _⟩, _⟩, _⟩ := h
  exact ⟨hdim, hmk, hnl⟩

theorem PQ.wf_hdr {s : PQ.State} (h : PQ.wf s = true) :
    s.dim < 4294967296 ∧ s.metric.length < 4294967296 ∧ s.m < 4294967296 ∧
    s.nbits < 4294967296 ∧ s.ksub < 4294967296 ∧ s.dsub < 4294967296 := by
  simp only [PQ.wf, Bool.and_eq_true, decide_eq_true_eq] at h
  obtain ⟨⟨⟨⟨⟨⟨⟨⟨⟨hdim, hmk⟩, hm⟩, hnb⟩, hks⟩, hds⟩, _⟩, _⟩, _⟩, _⟩ := h
  exact ⟨hdim, hmk, hm, hnb, hks, hds⟩

theorem IVFPQ.wf_hdr {s : IVFPQ.State} (h : IVFPQ.wf s = true) :
    s.dim < 4294967296 ∧ s.metric.length < 4294967296 ∧ s.nlist < 4294967296 ∧
    s.m < 4294967296 ∧ s.nbits < 4294967296 ∧ s.ksub < 4294967296 ∧ s.dsub < 4294967296 := by
  simp only [IVFPQ.wf, Bool.and_eq_true, decide_eq_true_eq] at h
  obtain ⟨⟨⟨⟨⟨⟨⟨⟨⟨⟨⟨hdim, hmk⟩, hnl⟩, hm⟩, hnb⟩, hks⟩, hds⟩, _⟩, _⟩, _⟩, _⟩, _⟩ := h
  exact ⟨hdim, hmk, hnl, hm, hnb, hks, hds⟩

/-! ### foreign magic -/

theorem isErr_of_or {β : Type} {x : Except Err β} {e1 e2 : Err}
    (h : x = .error e1 ∨ x = .error e2) : IsErr x := by
  rcases h with h | h <;> exact ⟨_, h⟩

theorem Flat.magic_rejected (bm : BlobCodec) (p : Flat.Params) (inp : Bytes)
    (h : inp.take 4 ≠ Flat.magic) : IsErr (Flat.decodeC bm p inp) := by
  simp only [Flat.decodeC, CP.bind_eq]
  exact isErr_of_or (magic_rejects _ _ _ h)
theorem HNSW.magic_rejected (bm : BlobCodec) (p : HNSW.Params) (inp : Bytes)
    (h : inp.take 4 ≠ HNSW.magic) : IsErr (HNSW.decodeC bm p inp) := by
  simp only [HNSW.decodeC, CP.bind_eq]
  exact isErr_of_or (magic_rejects _ _ _ h)
theorem IVF.magic_rejected (bm : BlobCodec) (p : IVF.Params) (inp : Bytes)
    (h : inp.take 4 ≠ IVF.magic) : IsErr (IVF.decodeC bm p inp) := by
  simp only [IVF.decodeC, CP.bind_eq]
  exact isErr_of_or (magic_rejects _ _ _ h)
theorem PQ.magic_rejected (bm : BlobCodec) (p : PQ.Params) (inp : Bytes)
    (h : inp.take 4 ≠ PQ.magic) : IsErr (PQ.decodeC bm p inp) := by
  simp only [PQ.decodeC, CP.bind_eq]
  exact isErr_of_or (magic_rejects _ _ _ h)
theorem IVFPQ.magic_rejected (bm : BlobCodec) (p : IVFPQ.Params) (cb : List (List Nat)) (inp : Bytes)
    (h : inp.take 4 ≠ IVFPQ.magic) : IsErr (IVFPQ.decodeC bm p cb inp) := by
  simp only [IVFPQ.decodeC, CP.bind_eq]
  exact isErr_of_or (magic_rejects _ _ _ h)
theorem BM25.magic_rejected (bm : BlobCodec) (inp : Bytes)
    (h : inp.take 4 ≠ BM25.magic) : IsErr (BM25.decodeC bm inp) := by
  simp only [BM25.decodeC, CP.bind_eq]
  exact isErr_of_or (magic_rejects _ _ _ h)
theorem Meta.magic_rejected (bm : BlobCodec) (inp : Bytes)
    (h : inp.take 4 ≠ Meta.magic) : IsErr (Meta.decodeC bm inp) := by
  simp only [Meta.decodeC, CP.bind_eq]
  exact isErr_of_or (magic_rejects _ _ _ h)
theorem Hybrid.magic_rejected (bm : BlobCodec) (p : Hybrid.Params) (inp : Bytes)
    (h : inp.take 4 ≠ Hybrid.magic) : IsErr (Hybrid.decodeC bm p inp) := by
  simp only [Hybrid.decodeC, Hybrid.decodeCWith, Hybrid.headC, CP.bind_eq]
  exact bind_err (isErr_of_or (magic_rejects _ _ _ h))

theorem map_isErr {α β : Type} (f : α → β) {p : CP α} {inp : Bytes} (h : IsErr (p inp)) :
    IsErr (CP.map f p inp) := by
  unfold CP.map
  exact bind_err h

/-- every stream starts with its kind's magic -/
theorem AnyState.take4 (bm : BlobCodec) (s : AnyState) (rest : Bytes) :
    (s.encodeRaw bm ++ rest).take 4 = s.kind.magic := by
  cases s <;>
    simp [AnyState.encodeRaw, AnyState.kind, Kind.magic, Flat.encodeRaw, Flat.items, HNSW.encodeRaw,
      HNSW.items, IVF.encodeRaw, IVF.items, PQ.encodeRaw, PQ.items, IVFPQ.encodeRaw, IVFPQ.items,
      BM25.encodeRaw, BM25.items, Meta.encodeRaw, Meta.items, Hybrid.encodeRaw, Hybrid.encode4Raw,
      Hybrid.headItems, Flat.magic, HNSW.magic, IVF.magic, PQ.magic, IVFPQ.magic, BM25.magic,
      Meta.magic, Hybrid.magic, asciiBytes]

theorem Recv.magic_rejected (bm : BlobCodec) (r : Recv) (inp : Bytes)
    (h : inp.take 4 ≠ r.kind.magic) : IsErr (r.decodeC bm inp) := by
  cases r <;> simp only [Recv.decodeC, Recv.kind, Kind.magic] at h ⊢
  · exact map_isErr _ (Flat.magic_rejected bm _ inp h)
  · exact map_isErr _ (HNSW.magic_rejected bm _ inp h)
  · exact map_isErr _ (IVF.magic_rejected bm _ inp h)
  · exact map_isErr _ (PQ.magic_rejected bm _ inp h)
  · exact map_isErr _ (IVFPQ.magic_rejected bm _ _ inp h)
  · exact map_isErr _ (BM25.magic_rejected bm inp h)
  · exact map_isErr _ (Meta.magic_rejected bm inp h)
  · exact map_isErr _ (Hybrid.magic_rejected bm _ inp h)

theorem accepts_false_of_isErr (bm : BlobCodec) (r : Recv) (inp : Bytes)
    (h : IsErr (r.decodeC bm inp)) : r.accepts bm inp = false := by
  obtain ⟨e, he⟩ := h
  unfold Recv.accepts Recv.decode
  rw [CP.run_err he]

end Comet.Codec
