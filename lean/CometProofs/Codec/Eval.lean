/-
  Symbolic evaluation of a decoder on a stream whose first fields are known
  (`simp` with the lemmas below runs the decoder up to the first failing guard), and
  the generic consequences of a round trip (`Reads`).
-/
import CometProofs.Codec.Parser
namespace Comet.Codec

theorem CP.bind_apply (p : CP α) (f : α → CP β) (inp : Bytes) :
    CP.bind p f inp = match p inp with
      | .ok (an, mid) => (match f an.1 mid with
          | .ok (bm, rest) => .ok ((bm.1, an.2 + bm.2), rest)
          | .error e => .error e)
      | .error e => .error e := by
  unfold CP.bind Parser.bind
  cases h : p inp with
  | error e => simp
  | ok x =>
    obtain ⟨an, mid⟩ := x
    simp only
    cases h2 : f an.1 mid with
    | error e => simp
    | ok y => obtain ⟨bm, rest⟩ := y; simp [Parser.pure]

theorem CP.run_apply (p : CP α) (inp : Bytes) :
    CP.run p inp = match p inp with
      | .ok (an, rest) => .ok (an.1, rest)
      | .error e => .error e := by
  unfold CP.run Parser.map Parser.bind
  cases h : p inp with
  | error e => simp
  | ok x => obtain ⟨an, mid⟩ := x; simp [Parser.pure]

theorem CP.run_ok {p : CP α} {inp a n rest} (h : p inp = .ok ((a, n), rest)) :
    CP.run p inp = .ok (a, rest) := by
  rw [CP.run_apply, h]

theorem CP.run_err {p : CP α} {inp e} (h : p inp = .error e) : CP.run p inp = .error e := by
  rw [CP.run_apply, h]

theorem CP.run_isErr {p : CP α} {inp} (h : IsErr (p inp)) : IsErr (CP.run p inp) := by
  obtain ⟨e, he⟩ := h
  exact ⟨e, CP.run_err he⟩

theorem CP.rU8_enc (sw : Switch) {n : Nat} (h : n < 256) (rest : Bytes) :
    CP.rU8 sw (encU8 n ++ rest) = .ok ((n, sw .u8), rest) := by
  unfold CP.rU8 CP.rd
  exact pmap_ok (u8_enc h rest)

theorem CP.rU32_enc (sw : Switch) {n : Nat} (h : n < 4294967296) (rest : Bytes) :
    CP.rU32 sw (encU32 n ++ rest) = .ok ((n, sw .u32), rest) := by
  unfold CP.rU32 CP.rd
  exact pmap_ok (u32le_enc h rest)

theorem CP.rRaw_append (b rest : Bytes) {n : Nat} (h : b.length = n) :
    CP.rRaw n (b ++ rest) = .ok ((b, n), rest) := by
  subst h
  unfold CP.rRaw
  exact pmap_ok (bytes_append b rest)

theorem CP.rLenBytes_enc (sw : Switch) {b : Bytes} (h : b.length < 4294967296) (rest : Bytes) :
    CP.rLenBytes sw (encU32 b.length ++ (b ++ rest)) = .ok ((b, sw .u32 + b.length), rest) := by
  unfold CP.rLenBytes
  rw [CP.bind_apply, CP.rU32_enc sw h]
  simp only
  rw [CP.rRaw_append b rest rfl]

theorem CP.pure_apply {α : Type} (a : α) (inp : Bytes) : CP.pure a inp = .ok ((a, 0), inp) := rfl
theorem CP.fail_apply {α : Type} (e : Err) (inp : Bytes) : (CP.fail e : CP α) inp = .error e := rfl
theorem CP.repeat_zero {α : Type} (p : CP α) : CP.repeat 0 p = CP.pure [] := rfl
theorem CP.repeat_one {α : Type} (p : CP α) :
    CP.repeat 1 p = CP.bind p fun a => CP.bind (CP.pure []) fun as => CP.pure (a :: as) := rfl

theorem CP.guard_true_apply (e : Err) (inp : Bytes) : CP.guard true e inp = .ok (((), 0), inp) := rfl
theorem CP.guard_false_apply (e : Err) (inp : Bytes) : CP.guard false e inp = .error e := rfl

/-- a short or foreign 4-byte tag is rejected by `rRaw 4` + magic guard -/
theorem magic_rejects {β : Type} (magic : Bytes) (f : Unit → CP β) (inp : Bytes)
    (h : inp.take 4 ≠ magic) :
    (CP.bind (CP.rRaw 4) fun m => CP.bind (CP.guard (m == magic) .magic) f) inp = .error .eof ∨
    (CP.bind (CP.rRaw 4) fun m => CP.bind (CP.guard (m == magic) .magic) f) inp = .error .magic := by
  rw [CP.bind_apply]
  by_cases hl : inp.length < 4
  · left
    have : CP.rRaw 4 inp = .error .eof := by
      unfold CP.rRaw Parser.map Parser.bind bytes
      simp [hl]
    rw [this]
  · right
    have : CP.rRaw 4 inp = .ok ((inp.take 4, 4), inp.drop 4) := by
      unfold CP.rRaw Parser.map Parser.bind bytes
      simp [hl, Parser.pure]
    rw [this]
    simp only
    rw [CP.bind_apply]
    have hb : (inp.take 4 == magic) = false := by simpa using h
    rw [hb, CP.guard_false_apply]

/-! ### consequences of a round trip -/

theorem run_of_reads {p : CP α} {u : Bytes} {a : α} (hr : Reads p u a) (rest : Bytes) :
    CP.run p (u ++ rest) = .ok (a, rest) := by
  obtain ⟨n, h⟩ := hr rest
  exact CP.run_ok h

theorem strict_prefix_run {p : CP α} (hg : Good p) {u : Bytes} {a : α} (hr : Reads p u a)
    (n : Nat) (hn : n < u.length) : IsErr (CP.run p (u.take n)) :=
  CP.run_isErr (strict_prefix_of_reads hg hr n hn)

/-- the reported write count is the stream length when every typed item is counted
    with its width -/
theorem reported_ok (sw : Switch) (its : List Item)
    (h : ∀ it ∈ its, ∀ t, it.ty = some t → sw t = it.data.length) :
    reported sw its = (flat its).length := by
  apply reported_eq_length
  intro it hit
  unfold Item.counted
  cases ht : it.ty with
  | none => rfl
  | some t => simp only; exact h it hit t ht

end Comet.Codec

namespace Comet.Codec

/-- an item is counted with its own length by the switch `sw` -/
def itemOk (sw : Switch) (it : Item) : Bool :=
  match it.ty with
  | some t => sw t == it.data.length
  | none => true

theorem reported_of_all (sw : Switch) (its : List Item) (h : its.all (itemOk sw) = true) :
    reported sw its = (flat its).length := by
  apply reported_ok
  intro it hit t ht
  have := List.all_eq_true.1 h it hit
  simp only [itemOk, ht, beq_iff_eq] at this
  exact this

@[simp] theorem itemOk_wU32 (sw : Switch) (n : Nat) : itemOk sw (wU32 n) = (sw .u32 == 4) := by
  simp [itemOk, wU32]
@[simp] theorem itemOk_wU8 (sw : Switch) (n : Nat) : itemOk sw (wU8 n) = (sw .u8 == 1) := by
  simp [itemOk, wU8]
@[simp] theorem itemOk_wF32 (sw : Switch) (n : Nat) : itemOk sw (wF32 n) = (sw .f32 == 4) := by
  simp [itemOk, wF32]
@[simp] theorem itemOk_wF64 (sw : Switch) (n : Nat) : itemOk sw (wF64 n) = (sw .f64 == 8) := by
  simp [itemOk, wF64]
@[simp] theorem itemOk_wI32 (sw : Switch) (z : Int) : itemOk sw (wI32 z) = (sw .i32 == 4) := by
  simp [itemOk, wI32]
@[simp] theorem itemOk_wRaw (sw : Switch) (b : Bytes) : itemOk sw (wRaw b) = true := rfl

/-- runs a decoder symbolically on a stream with known leading fields -/
macro "eval_dec" : tactic => `(tactic|
  simp (disch := first | assumption | omega | decide) only
    [CP.bind_apply, CP.rRaw_append, CP.rU32_enc, CP.rU8_enc, CP.rLenBytes_enc,
     CP.guard_true_apply, CP.guard_false_apply, beq_self_eq_true, List.append_assoc,
     List.cons_append, List.nil_append, *])

end Comet.Codec
