/- Helper lemmas for the IVF codec (Comet/Codec/IVF.lean). -/
import CometProofs.Codec.Flat
import Comet.Codec.IVF
namespace Comet.Codec.IVF
open Comet.Codec

theorem good_decodeC (bm : BlobCodec) (p : Params) : Good (decodeC bm p) := by
  simp only [decodeC, decCentroid, decEntry, decList, CP.bind_eq, CP.pure_eq]
  good_tac

theorem exact_decodeC (bm : BlobCodec) (p : Params) : Exact (decodeC bm p) := by
  simp only [decodeC, decCentroid, decEntry, decList, CP.bind_eq, CP.pure_eq]
  exact_tac

theorem magic_length : magic.length = 4 := by decide

theorem f32s_iff (v : List Nat) : f32s v = true ↔ ∀ x ∈ v, x < 4294967296 := by
  simp [f32s]

theorem reads_f32list (c : List Nat) (h1 : c.length < 4294967296) (h2 : f32s c = true) :
    Reads decCentroid (flat (centroidItems c)) c := by
  unfold decCentroid
  simp only [CP.bind_eq, CP.pure_eq]
  refine Reads.of_eq
    (Reads.bind (Reads.rU32 _ h1)
      (Reads.repeat encU32 c fun x hx => Reads.rF32 _ ((f32s_iff c).1 h2 x hx))) ?_
  simp [centroidItems]

theorem reads_decEntry (dim : Nat) (p : Nat × List Nat) (h1 : p.1 < 4294967296)
    (h2 : p.2.length = dim) (h3 : f32s p.2 = true) :
    Reads (decEntry dim) (flat (entryItems p)) p := by
  unfold decEntry
  simp only [CP.bind_eq, CP.pure_eq]
  subst h2
  refine Reads.of_eq
    (Reads.bind (Reads.rU32 _ h1)
    (Reads.bind (Reads.repeat encU32 p.2 fun x hx => Reads.rF32 _ ((f32s_iff p.2).1 h3 x hx))
    (Reads.pure _))) ?_
  simp [entryItems]

theorem reads_decList (dim : Nat) (l : List (Nat × List Nat)) (h1 : l.length < 4294967296)
    (h2 : ∀ p ∈ l, p.1 < 4294967296 ∧ p.2.length = dim ∧ f32s p.2 = true) :
    Reads (decList dim) (flat (listItems l)) l := by
  unfold decList
  simp only [CP.bind_eq, CP.pure_eq]
  refine Reads.of_eq
    (Reads.bind (Reads.rU32 _ h1)
      (Reads.repeat (fun p => flat (entryItems p)) l fun p hp =>
        reads_decEntry dim p (h2 p hp).1 (h2 p hp).2.1 (h2 p hp).2.2)) ?_
  simp [listItems]

theorem reads_decodeC (bm : BlobCodec) (dom : List Nat → Prop) (hbm : bm.Lawful dom)
    (s : State) (hwf : wf s = true) (hdel : dom s.deleted) :
    Reads (decodeC bm s.params) (encodeRaw bm s) s := by
  simp only [wf, Bool.and_eq_true, decide_eq_true_eq, List.all_eq_true] at hwf
  obtain ⟨⟨⟨⟨⟨⟨hdim, hmk⟩, hnl⟩, htr⟩, hc⟩, hll⟩, hl⟩ := hwf
  unfold decodeC
  simp only [CP.bind_eq, CP.pure_eq]
  have hcent : Reads (CP.cond ((if s.trained then 1 else 0 : Nat) == 1)
        (CP.repeat s.params.nlist decCentroid) [])
      (if s.trained then flat (s.centroids.flatMap centroidItems) else []) s.centroids := by
    cases ht : s.trained
    · simp only [ht, Bool.false_eq_true, if_false] at htr ⊢
      simp only [List.isEmpty_iff] at htr
      rw [htr]
      exact Reads.cond_false _ _
    · simp only [ht, if_true, decide_eq_true_eq] at htr ⊢
      have := Reads.repeat (fun c => flat (centroidItems c)) s.centroids fun c hc' =>
        reads_f32list c (hc c hc').1 (hc c hc').2
      rw [htr] at this
      simpa [State.params] using Reads.cond_true this []
  refine Reads.of_eq
    (Reads.bind (magic_length ▸ Reads.rRaw magic)
    (Reads.bind (Reads.guard (by simp) _)
    (Reads.bind (Reads.rU32 _ (n := 1) (by omega))
    (Reads.bind (Reads.guard (by simp) _)
    (Reads.bind (Reads.rU32 _ hdim)
    (Reads.bind (Reads.guard (by simp [State.params]) _)
    (Reads.bind (Reads.rLenBytes _ hmk)
    (Reads.bind (Reads.guard (by simp [State.params]) _)
    (Reads.bind (Reads.rU32 _ hnl)
    (Reads.bind (Reads.guard (by simp [State.params]) _)
    (Reads.bind (Reads.rU8 _ (n := if s.trained then 1 else 0) (by split <;> omega))
    (Reads.bind hcent
    (Reads.bind (Reads.rU32 _ hll)
    (Reads.bind (Reads.repeat (fun l => flat (listItems l)) s.lists fun l hl' =>
        reads_decList s.dim l (hl l hl').1 fun p hp =>
          ⟨((hl l hl').2 p hp).1.1, ((hl l hl').2 p hp).1.2, ((hl l hl').2 p hp).2⟩)
    (Reads.bind (Reads.rLenBytes _ (hbm.small _ hdel))
    (Reads.bind (Reads.ofExcept (hbm.rt _ hdel))
    (Reads.pure_of_eq ?_))))))))))))))))) ?_
  · cases s with | mk d mk nl tr c l del => cases tr <;> simp [State.params]
  · cases ht : s.trained <;> simp [encodeRaw, items, ht]
  

theorem flush_params (s : State) : (flush s).params = s.params := by
  unfold flush; split <;> rfl

theorem flush_deleted (s : State) : (flush s).deleted = [] := by
  unfold flush
  split
  · next h => simpa using h
  · rfl

theorem wf_flush (s : State) (h : wf s = true) : wf (flush s) = true := by
  unfold flush
  split
  · exact h
  · simp only [wf, Bool.and_eq_true, decide_eq_true_eq, List.all_eq_true, List.length_map,
      List.mem_map, forall_exists_index, and_imp, forall_apply_eq_imp_iff₂] at h ⊢
    obtain ⟨⟨⟨⟨⟨⟨hdim, hmk⟩, hnl⟩, htr⟩, hc⟩, hll⟩, hl⟩ := h
    refine ⟨⟨⟨⟨⟨⟨hdim, hmk⟩, hnl⟩, htr⟩, hc⟩, hll⟩, ?_⟩
    intro l hl'
    exact ⟨Nat.lt_of_le_of_lt (List.length_filter_le _ _) (hl l hl').1,
      fun p hp => (hl l hl').2 p (List.mem_filter.1 hp).1⟩

theorem flush_of_nil (s : State) (h : s.deleted = []) : flush s = s := by
  unfold flush; simp [h]

theorem flush_flush (s : State) : flush (flush s) = flush s :=
  flush_of_nil _ (flush_deleted s)

theorem removed_absent (s : State) : ∀ id ∈ s.deleted, id ∉ streamIds (flush s) := by
  intro id hid
  unfold flush streamIds
  split
  · next h => simp [List.isEmpty_iff] at h; simp [h] at hid
  · simp only [List.mem_flatMap, List.mem_map, List.mem_filter, not_exists, not_and]
    intro l' hl p hp hpid
    obtain ⟨l, _, rfl⟩ := hl
    subst hpid
    simp only [List.mem_filter] at hp
    simp [hid] at hp

end Comet.Codec.IVF
