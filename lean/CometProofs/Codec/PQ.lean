/- Helper lemmas for the PQ and IVFPQ codecs (Comet/Codec/PQ.lean, IVFPQ.lean). -/
import CometProofs.Codec.Flat
import Comet.Codec.PQ
import Comet.Codec.IVFPQ
namespace Comet.Codec.PQ
open Comet.Codec

theorem good_decodeC (bm : BlobCodec) (p : Params) : Good (decodeC bm p) := by
  simp only [decodeC, decCodebook, decEntry, CP.bind_eq, CP.pure_eq]
  good_tac

theorem exact_decodeC (bm : BlobCodec) (p : Params) : Exact (decodeC bm p) := by
  simp only [decodeC, decCodebook, decEntry, CP.bind_eq, CP.pure_eq]
  exact_tac

theorem magic_length : magic.length = 4 := by decide

theorem f32s_iff (v : List Nat) : f32s v = true ↔ ∀ x ∈ v, x < 4294967296 := by
  simp [f32s]

theorem reads_codebook (c : List Nat) (h1 : c.length < 4294967296) (h2 : f32s c = true) :
    Reads decCodebook (flat (codebookItems c)) c := by
  unfold decCodebook
  simp only [CP.bind_eq]
  refine Reads.of_eq
    (Reads.bind (Reads.rU32 _ h1)
      (Reads.repeat encU32 c fun x hx => Reads.rF32 _ ((f32s_iff c).1 h2 x hx))) ?_
  simp [codebookItems]

theorem reads_decEntry (m : Nat) (e : Entry) (h1 : e.id < 4294967296) (h2 : e.code.length = m) :
    Reads (decEntry m) (flat (entryItems e)) { e with vec := none } := by
  unfold decEntry
  simp only [CP.bind_eq, CP.pure_eq]
  subst h2
  refine Reads.of_eq
    (Reads.bind (Reads.rU32 _ h1)
    (Reads.bind (Reads.rRaw e.code)
    (Reads.pure _))) ?_
  simp [entryItems]

/-- reading a list whose decoded form is a function of the written one -/
theorem Reads.repeat_map {α β : Type} {p : CP β} (enc : α → Bytes) (g : α → β) (l : List α)
    (h : ∀ a ∈ l, Reads p (enc a) (g a)) :
    Reads (CP.repeat l.length p) (l.flatMap enc) (l.map g) := by
  induction l with
  | nil => exact Reads.pure []
  | cons a l ih =>
    have h1 := h a (List.mem_cons_self)
    have h2 := ih fun b hb => h b (List.mem_cons_of_mem _ hb)
    have := Reads.bind h1 (f := fun a => CP.bind (CP.repeat l.length p) fun as => CP.pure (a :: as))
      (Reads.bind h2 (Reads.pure (g a :: l.map g)))
    simpa [CP.repeat, List.flatMap_cons] using this

theorem reads_decodeC (bm : BlobCodec) (dom : List Nat → Prop) (hbm : bm.Lawful dom)
    (s : State) (hwf : wf s = true) (hdel : dom s.deleted) :
    Reads (decodeC bm s.params) (encodeRaw bm s) (forget s) := by
  simp only [wf, Bool.and_eq_true, decide_eq_true_eq, List.all_eq_true] at hwf
  obtain ⟨⟨⟨⟨⟨⟨⟨⟨⟨hdim, hmk⟩, hm⟩, hnb⟩, hks⟩, hds⟩, htr⟩, hc⟩, hel⟩, he⟩ := hwf
  unfold decodeC
  simp only [CP.bind_eq, CP.pure_eq]
  have hcb : Reads (CP.cond ((if s.trained then 1 else 0 : Nat) == 1)
        (CP.repeat s.params.m decCodebook) [])
      (if s.trained then flat (s.codebooks.flatMap codebookItems) else []) s.codebooks := by
    cases ht : s.trained
    · simp only [ht, Bool.false_eq_true, if_false] at htr ⊢
      simp only [List.isEmpty_iff] at htr
      rw [htr]
      exact Reads.cond_false _ _
    · simp only [ht, if_true, decide_eq_true_eq] at htr ⊢
      have := Reads.repeat (fun c => flat (codebookItems c)) s.codebooks fun c hc' =>
        reads_codebook c (hc c hc').1 (hc c hc').2
      rw [htr] at this
      simpa [State.params] using Reads.cond_true this []
  have hent := Reads.repeat_map (p := decEntry s.m) (fun e => flat (entryItems e))
    (fun e => { e with vec := none }) s.entries fun e he' =>
      reads_decEntry s.m e (he e he').1 (he e he').2
  refine Reads.of_eq
    (Reads.bind (magic_length ▸ Reads.rRaw magic)
    (Reads.bind (Reads.guard (by simp) _)
    (Reads.bind (Reads.rU32 _ (n := 1) (by omega))
    (Reads.bind (Reads.guard (by simp) _)
    (Reads.bind (Reads.rU32 _ hdim)
    (Reads.bind (Reads.guard (by simp [State.params]) _)
    (Reads.bind (Reads.rLenBytes _ hmk)
    (Reads.bind (Reads.guard (by simp [State.params]) _)
    (Reads.bind (Reads.rU32 _ hm)
    (Reads.bind (Reads.rU32 _ hnb)
    (Reads.bind (Reads.rU32 _ hks)
    (Reads.bind (Reads.rU32 _ hds)
    (Reads.bind (Reads.guard (by simp [State.params]) _)
    (Reads.bind (Reads.guard (by simp [State.params]) _)
    (Reads.bind (Reads.guard (by simp [State.params]) _)
    (Reads.bind (Reads.guard (by simp [State.params]) _)
    (Reads.bind (Reads.rU8 _ (n := if s.trained then 1 else 0) (by split <;> omega))
    (Reads.bind hcb
    (Reads.bind (Reads.rU32 _ hel)
    (Reads.bind hent
    (Reads.bind (Reads.rLenBytes _ (hbm.small _ hdel))
    (Reads.bind (Reads.ofExcept (hbm.rt _ hdel))
    (Reads.pure_of_eq ?_))))))))))))))))))))))) ?_
  · cases s with | mk d mk m nb ks ds tr c e del => cases tr <;> simp [State.params, forget]
  · cases ht : s.trained <;> simp [encodeRaw, items, ht]


theorem flush_params (s : State) : (flush s).params = s.params := by
  unfold flush; split <;> rfl

theorem flush_deleted (s : State) : (flush s).deleted = [] := by
  unfold flush
  split
  · next h => simpa using h
  · rfl

theorem flush_of_nil (s : State) (h : s.deleted = []) : flush s = s := by
  unfold flush; simp [h]

theorem flush_flush (s : State) : flush (flush s) = flush s :=
  flush_of_nil _ (flush_deleted s)

theorem forget_params (s : State) : (forget s).params = s.params := rfl

theorem wf_flush (s : State) (h : wf s = true) : wf (flush s) = true := by
  unfold flush
  split
  · exact h
  · simp only [wf, Bool.and_eq_true, decide_eq_true_eq, List.all_eq_true] at h ⊢
    obtain ⟨⟨⟨⟨⟨⟨⟨⟨⟨hdim, hmk⟩, hm⟩, hnb⟩, hks⟩, hds⟩, htr⟩, hc⟩, hel⟩, he⟩ := h
    exact ⟨⟨⟨⟨⟨⟨⟨⟨⟨hdim, hmk⟩, hm⟩, hnb⟩, hks⟩, hds⟩, htr⟩, hc⟩,
      Nat.lt_of_le_of_lt (List.length_filter_le _ _) hel⟩, fun e he' => he e (List.mem_filter.1 he').1⟩

theorem removed_absent (s : State) : ∀ id ∈ s.deleted, id ∉ streamIds (flush s) := by
  intro id hid
  unfold flush streamIds
  split
  · next h => simp [List.isEmpty_iff] at h; simp [h] at hid
  · simp only [List.mem_map, List.mem_filter, not_exists, not_and]
    intro e he heid
    subst heid
    simp [hid] at he

end Comet.Codec.PQ

namespace Comet.Codec.IVFPQ
open Comet.Codec
open Comet.Codec.PQ (Entry Reads.repeat_map)

theorem good_decodeC (bm : BlobCodec) (p : Params) (cb : List (List Nat)) :
    Good (decodeC bm p cb) := by
  simp only [decodeC, decTrained, decF32List, decList, decEntry, CP.bind_eq, CP.pure_eq]
  good_tac

theorem exact_decodeC (bm : BlobCodec) (p : Params) (cb : List (List Nat)) :
    Exact (decodeC bm p cb) := by
  simp only [decodeC, decTrained, decF32List, decList, decEntry, CP.bind_eq, CP.pure_eq]
  exact_tac

theorem magic_length : magic.length = 4 := by decide

theorem f32s_iff (v : List Nat) : f32s v = true ↔ ∀ x ∈ v, x < 4294967296 := by
  simp [f32s]

theorem reads_f32list (c : List Nat) (h1 : c.length < 4294967296) (h2 : f32s c = true) :
    Reads decF32List (flat (f32ListItems c)) c := by
  unfold decF32List
  simp only [CP.bind_eq]
  refine Reads.of_eq
    (Reads.bind (Reads.rU32 _ h1)
      (Reads.repeat encU32 c fun x hx => Reads.rF32 _ ((f32s_iff c).1 h2 x hx))) ?_
  simp [f32ListItems]

theorem reads_decEntry (m : Nat) (e : Entry) (h1 : e.id < 4294967296) (h2 : e.code.length = m) :
    Reads (decEntry m) (flat (entryItems e)) { e with vec := none } := by
  unfold decEntry
  simp only [CP.bind_eq, CP.pure_eq]
  subst h2
  refine Reads.of_eq
    (Reads.bind (Reads.rU32 _ h1)
    (Reads.bind (Reads.rRaw e.code)
    (Reads.pure _))) ?_
  simp [entryItems]

theorem reads_decList (m : Nat) (l : List Entry) (h1 : l.length < 4294967296)
    (h2 : ∀ e ∈ l, e.id < 4294967296 ∧ e.code.length = m) :
    Reads (decList m) (flat (listItems l)) (l.map fun e => { e with vec := none }) := by
  unfold decList
  simp only [CP.bind_eq]
  refine Reads.of_eq
    (Reads.bind (Reads.rU32 _ h1)
      (Reads.repeat_map (fun e => flat (entryItems e)) (fun e => { e with vec := none }) l
        fun e he => reads_decEntry m e (h2 e he).1 (h2 e he).2)) ?_
  simp [listItems]

theorem reads_decodeC (bm : BlobCodec) (dom : List Nat → Prop) (hbm : bm.Lawful dom)
    (s : State) (hwf : wf s = true) (hdel : dom s.deleted) :
    Reads (decodeC bm s.params []) (encodeRaw bm s) (forget s) := by
  simp only [wf, Bool.and_eq_true, decide_eq_true_eq, List.all_eq_true] at hwf
  obtain ⟨⟨⟨⟨⟨⟨⟨⟨⟨⟨⟨hdim, hmk⟩, hnl⟩, hm⟩, hnb⟩, hks⟩, hds⟩, htr⟩, hc⟩, hcb⟩, hll⟩, hl⟩ := hwf
  unfold decodeC
  simp only [CP.bind_eq, CP.pure_eq]
  have htrained : Reads (CP.cond ((if s.trained then 1 else 0 : Nat) == 1)
        (decTrained s.params) ([], []))
      (if s.trained then flat (s.centroids.flatMap f32ListItems ++ s.codebooks.flatMap f32ListItems)
       else []) (s.centroids, s.codebooks) := by
    cases ht : s.trained
    · simp only [ht, Bool.false_eq_true, if_false, Bool.and_eq_true, List.isEmpty_iff] at htr ⊢
      rw [htr.1, htr.2]
      exact Reads.cond_false _ _
    · simp only [ht, if_true, decide_eq_true_eq, Bool.and_eq_true] at htr ⊢
      have h1 := Reads.repeat (fun c => flat (f32ListItems c)) s.centroids fun c hc' =>
        reads_f32list c (hc c hc').1 (hc c hc').2
      have h2 := Reads.repeat (fun c => flat (f32ListItems c)) s.codebooks fun c hc' =>
        reads_f32list c (hcb c hc').1 (hcb c hc').2
      rw [htr.1] at h1
      rw [htr.2] at h2
      have : Reads (decTrained s.params)
          (s.centroids.flatMap (fun c => flat (f32ListItems c)) ++
            (s.codebooks.flatMap (fun c => flat (f32ListItems c)) ++ []))
          (s.centroids, s.codebooks) := by
        unfold decTrained
        simp only [CP.bind_eq, CP.pure_eq]
        exact Reads.bind h1 (Reads.bind h2 (Reads.pure _))
      simpa [State.params] using Reads.cond_true this ([], [])
  have hlists := Reads.repeat_map (p := decList s.m) (fun l => flat (listItems l))
    (fun l => l.map fun e => { e with vec := none }) s.lists fun l hl' =>
      reads_decList s.m l (hl l hl').1 fun e he => (hl l hl').2 e he
  refine Reads.of_eq
    (Reads.bind (magic_length ▸ Reads.rRaw magic)
    (Reads.bind (Reads.guard (by simp) _)
    (Reads.bind (Reads.rU32 _ (n := 1) (by omega))
    (Reads.bind (Reads.guard (by simp) _)
    (Reads.bind (Reads.rU32 _ hdim)
    (Reads.bind (Reads.guard (by simp [State.params]) _)
    (Reads.bind (Reads.rLenBytes _ hmk)
    (Reads.bind (Reads.guard (by simp [State.params]) _)
    (Reads.bind (Reads.rU32 _ hnl)
    (Reads.bind (Reads.rU32 _ hm)
    (Reads.bind (Reads.rU32 _ hnb)
    (Reads.bind (Reads.rU32 _ hks)
    (Reads.bind (Reads.rU32 _ hds)
    (Reads.bind (Reads.guard (by simp [State.params]) _)
    (Reads.bind (Reads.guard (by simp [State.params]) _)
    (Reads.bind (Reads.guard (by simp [State.params]) _)
    (Reads.bind (Reads.guard (by simp [State.params]) _)
    (Reads.bind (Reads.guard (by simp [State.params]) _)
    (Reads.bind (Reads.rU8 _ (n := if s.trained then 1 else 0) (by split <;> omega))
    (Reads.bind htrained
    (Reads.bind (Reads.rU32 _ hll)
    (Reads.bind hlists
    (Reads.bind (Reads.rLenBytes _ (hbm.small _ hdel))
    (Reads.bind (Reads.ofExcept (hbm.rt _ hdel))
    (Reads.pure_of_eq ?_))))))))))))))))))))))))) ?_
  · cases s with | mk d mk nl m nb ks ds tr c cb l del => cases tr <;> simp [State.params, forget]
  · cases ht : s.trained <;> simp [encodeRaw, items, ht]


theorem flush_params (s : State) : (flush s).params = s.params := by
  unfold flush; split <;> rfl

theorem flush_deleted (s : State) : (flush s).deleted = [] := by
  unfold flush
  split
  · next h => simpa using h
  · rfl

theorem flush_of_nil (s : State) (h : s.deleted = []) : flush s = s := by
  unfold flush; simp [h]

theorem flush_flush (s : State) : flush (flush s) = flush s :=
  flush_of_nil _ (flush_deleted s)

theorem forget_params (s : State) : (forget s).params = s.params := rfl

theorem wf_flush (s : State) (h : wf s = true) : wf (flush s) = true := by
  unfold flush
  split
  · exact h
  · simp only [wf, Bool.and_eq_true, decide_eq_true_eq, List.all_eq_true, List.length_map,
      List.mem_map, forall_exists_index, and_imp, forall_apply_eq_imp_iff₂] at h ⊢
    obtain ⟨⟨⟨⟨⟨⟨⟨⟨⟨⟨⟨hdim, hmk⟩, hnl⟩, hm⟩, hnb⟩, hks⟩, hds⟩, htr⟩, hc⟩, hcb⟩, hll⟩, hl⟩ := h
    refine ⟨⟨⟨⟨⟨⟨⟨⟨⟨⟨⟨hdim, hmk⟩, hnl⟩, hm⟩, hnb⟩, hks⟩, hds⟩, htr⟩, hc⟩, hcb⟩, hll⟩, ?_⟩
    intro l hl'
    exact ⟨Nat.lt_of_le_of_lt (List.length_filter_le _ _) (hl l hl').1,
      fun e he => (hl l hl').2 e (List.mem_filter.1 he).1⟩

theorem removed_absent (s : State) : ∀ id ∈ s.deleted, id ∉ streamIds (flush s) := by
  intro id hid
  unfold flush streamIds
  split
  · next h => simp [List.isEmpty_iff] at h; simp [h] at hid
  · simp only [List.mem_flatMap, List.mem_map, List.mem_filter, not_exists, not_and]
    intro l' hl e he heid
    obtain ⟨l, _, rfl⟩ := hl
    subst heid
    simp only [List.mem_filter] at he
    simp [hid] at he

end Comet.Codec.IVFPQ
