/- Helper lemmas for the BM25 and metadata codecs (Comet/Codec/BM25.lean, Meta.lean). -/
import CometProofs.Codec.Flat
import Comet.Codec.BM25
import Comet.Codec.Meta
namespace Comet.Codec

theorem Reads.lenBytesList (sw : Switch) (l : List Bytes) (h : ∀ b ∈ l, b.length < 4294967296) :
    Reads (CP.repeat l.length (CP.rLenBytes sw)) (l.flatMap fun b => flat (wLenBytes b)) l :=
  Reads.repeat (fun b => flat (wLenBytes b)) l fun b hb => by
    have := Reads.rLenBytes sw (h b hb)
    simpa using this

namespace BM25

theorem good_decodeC (bm : BlobCodec) : Good (decodeC bm) := by
  simp only [decodeC, decPair, decDocTok, decPosting, decTf, CP.bind_eq, CP.pure_eq]
  good_tac

theorem exact_decodeC (bm : BlobCodec) : Exact (decodeC bm) := by
  simp only [decodeC, decPair, decDocTok, decPosting, decTf, CP.bind_eq, CP.pure_eq]
  exact_tac

theorem magic_length : magic.length = 4 := by decide

theorem u32ok_iff (n : Nat) : u32ok n = true ↔ n < 4294967296 := by simp [u32ok]
theorem keysNodup_iff [DecidableEq κ] (l : List (κ × ν)) :
    keysNodup l = true ↔ (l.map (·.1)).Nodup := by simp [keysNodup]

theorem reads_decPair (p : Nat × Nat) (h1 : p.1 < 4294967296) (h2 : p.2 < 4294967296) :
    Reads decPair (flat (docLenItems p)) p := by
  unfold decPair
  simp only [CP.bind_eq, CP.pure_eq]
  refine Reads.of_eq
    (Reads.bind (Reads.rU32 _ h1) (Reads.bind (Reads.rU32 _ h2) (Reads.pure _))) ?_
  simp [docLenItems]

theorem reads_decDocTok (p : Nat × List Bytes) (h1 : p.1 < 4294967296)
    (h2 : p.2.length < 4294967296) (h3 : ∀ t ∈ p.2, t.length < 4294967296) :
    Reads decDocTok (flat (docTokItems p)) p := by
  unfold decDocTok
  simp only [CP.bind_eq, CP.pure_eq]
  refine Reads.of_eq
    (Reads.bind (Reads.rU32 _ h1)
    (Reads.bind (Reads.rU32 _ h2)
    (Reads.bind (Reads.lenBytesList _ p.2 h3)
    (Reads.pure _)))) ?_
  simp [docTokItems]

theorem reads_decPosting (bm : BlobCodec) (dom : List Nat → Prop) (hbm : bm.Lawful dom)
    (p : Bytes × List Nat) (h1 : p.1.length < 4294967296) (h2 : dom p.2) :
    Reads (decPosting bm) (flat (postingItems bm p)) p := by
  unfold decPosting
  simp only [CP.bind_eq, CP.pure_eq]
  refine Reads.of_eq
    (Reads.bind (Reads.rLenBytes _ h1)
    (Reads.bind (Reads.rLenBytes _ (hbm.small _ h2))
    (Reads.bind (Reads.ofExcept (hbm.rt _ h2))
    (Reads.pure _)))) ?_
  simp [postingItems]

theorem reads_decTf (p : Bytes × List (Nat × Nat)) (h1 : p.1.length < 4294967296)
    (h2 : p.2.length < 4294967296) (h3 : (p.2.map (·.1)).Nodup)
    (h4 : ∀ q ∈ p.2, q.1 < 4294967296 ∧ q.2 < 4294967296) :
    Reads decTf (flat (tfItems p)) p := by
  unfold decTf
  simp only [CP.bind_eq, CP.pure_eq]
  refine Reads.of_eq
    (Reads.bind (Reads.rLenBytes _ h1)
    (Reads.bind (Reads.rU32 _ h2)
    (Reads.bind (Reads.repeat (fun q => flat (docLenItems q)) p.2 fun q hq =>
        reads_decPair q (h4 q hq).1 (h4 q hq).2)
    (Reads.pure_of_eq ?_)))) ?_
  · rw [mkMap_of_nodup _ h3]
  · simp [tfItems]

theorem reads_decodeC (bm : BlobCodec) (dom : List Nat → Prop) (hbm : bm.Lawful dom)
    (s : State) (hwf : wf s = true) (hdom : ∀ b ∈ bitmaps s, dom b) :
    Reads (decodeC bm) (encodeRaw bm s) s := by
  simp only [wf, Bool.and_eq_true, decide_eq_true_eq, List.all_eq_true, u32ok_iff,
    keysNodup_iff] at hwf
  obtain ⟨⟨⟨⟨⟨⟨⟨⟨⟨⟨⟨⟨⟨⟨hnd, htt⟩, havg⟩, hdl1⟩, hdl2⟩, hdl3⟩, hdt1⟩, hdt2⟩, hdt3⟩, hp1⟩, hp2⟩, hp3⟩,
    htf1⟩, htf2⟩, htf3⟩ := hwf
  have hdel : dom s.deleted := hdom _ (by simp [bitmaps])
  unfold decodeC
  simp only [CP.bind_eq, CP.pure_eq]
  refine Reads.of_eq
    (Reads.bind (magic_length ▸ Reads.rRaw magic)
    (Reads.bind (Reads.guard (by simp) _)
    (Reads.bind (Reads.rU32 _ (n := 1) (by omega))
    (Reads.bind (Reads.guard (by simp) _)
    (Reads.bind (Reads.rU32 _ hnd)
    (Reads.bind (Reads.rU32 _ htt)
    (Reads.bind (Reads.rF64 _ havg)
    (Reads.bind (Reads.rU32 _ hdl1)
    (Reads.bind (Reads.repeat (fun p => flat (docLenItems p)) s.docLengths fun p hp =>
        reads_decPair p (hdl3 p hp).1 (hdl3 p hp).2)
    (Reads.bind (Reads.rU32 _ hdt1)
    (Reads.bind (Reads.repeat (fun p => flat (docTokItems p)) s.docTokens fun p hp =>
        reads_decDocTok p (hdt3 p hp).1.1 (hdt3 p hp).1.2 (hdt3 p hp).2)
    (Reads.bind (Reads.rU32 _ hp1)
    (Reads.bind (Reads.repeat (fun p => flat (postingItems bm p)) s.postings fun p hp =>
        reads_decPosting bm dom hbm p (hp3 p hp)
          (hdom _ (by simp only [bitmaps, List.mem_cons, List.mem_map]; exact Or.inr ⟨p, hp, rfl⟩)))
    (Reads.bind (Reads.rU32 _ htf1)
    (Reads.bind (Reads.repeat (fun p => flat (tfItems p)) s.tf fun p hp =>
        reads_decTf p (htf3 p hp).1.1.1 (htf3 p hp).1.1.2 (htf3 p hp).1.2 (htf3 p hp).2)
    (Reads.bind (Reads.rLenBytes _ (hbm.small _ hdel))
    (Reads.bind (Reads.ofExcept (hbm.rt _ hdel))
    (Reads.pure_of_eq ?_)))))))))))))))))) ?_
  · rw [mkMap_of_nodup _ hdl2, mkMap_of_nodup _ hdt2, mkMap_of_nodup _ hp2, mkMap_of_nodup _ htf2]
  · simp [encodeRaw, items]


theorem flush_deleted (avg : Nat → Nat → Nat) (s : State) : (flush avg s).deleted = [] := by
  unfold flush
  split
  · next h => simpa using h
  · rfl

theorem flush_of_nil (avg : Nat → Nat → Nat) (s : State) (h : s.deleted = []) : flush avg s = s := by
  unfold flush; simp [h]

theorem flush_flush (avg : Nat → Nat → Nat) (s : State) : flush avg (flush avg s) = flush avg s :=
  flush_of_nil _ _ (flush_deleted avg s)


theorem sublist_keys_filterMap {κ ν : Type} (l : List (κ × ν)) (f : κ × ν → Option (κ × ν))
    (hf : ∀ a b, f a = some b → b.1 = a.1) :
    ((l.filterMap f).map (·.1)).Sublist (l.map (·.1)) := by
  induction l with
  | nil => simp
  | cons a l ih =>
    rw [List.filterMap_cons]
    cases h : f a with
    | none => simp only [List.map_cons]; exact List.Sublist.cons _ ih
    | some b =>
      simp only [List.map_cons]
      rw [hf a b h]
      exact List.Sublist.cons_cons _ ih

theorem nodup_keys_filter {κ ν : Type} (l : List (κ × ν)) (f : κ × ν → Bool)
    (h : (l.map (·.1)).Nodup) : ((l.filter f).map (·.1)).Nodup :=
  (List.Sublist.map _ List.filter_sublist).nodup h

theorem wf_removeInternal (avg : Nat → Nat → Nat) (havg : ∀ t n, avg t n < 18446744073709551616)
    (s : State) (id : Nat) (h : wf s = true) : wf (removeInternal avg s id) = true := by
  unfold removeInternal
  split
  · exact h
  · next tokens _ =>
    simp only [wf, Bool.and_eq_true, decide_eq_true_eq, List.all_eq_true, u32ok_iff,
      keysNodup_iff] at h ⊢
    obtain ⟨⟨⟨⟨⟨⟨⟨⟨⟨⟨⟨⟨⟨⟨hnd, htt⟩, hav⟩, hdl1⟩, hdl2⟩, hdl3⟩, hdt1⟩, hdt2⟩, hdt3⟩, hp1⟩, hp2⟩, hp3⟩,
      htf1⟩, htf2⟩, htf3⟩ := h
    refine ⟨⟨⟨⟨⟨⟨⟨⟨⟨⟨⟨⟨⟨⟨?_, ?_⟩, ?_⟩, ?_⟩, ?_⟩, ?_⟩, ?_⟩, ?_⟩, ?_⟩, ?_⟩, ?_⟩, ?_⟩, ?_⟩, ?_⟩, ?_⟩
    · exact Nat.mod_lt _ (by decide)
    · split <;> omega
    · split
      · exact havg _ _
      · decide
    · exact Nat.lt_of_le_of_lt (List.length_filter_le _ _) hdl1
    · exact nodup_keys_filter _ _ hdl2
    · intro p hp; exact hdl3 p (List.mem_filter.1 hp).1
    · exact Nat.lt_of_le_of_lt (List.length_filter_le _ _) hdt1
    · exact nodup_keys_filter _ _ hdt2
    · intro p hp; exact hdt3 p (List.mem_filter.1 hp).1
    · exact Nat.lt_of_le_of_lt (List.length_filterMap_le _ _) hp1
    · refine (sublist_keys_filterMap _ _ ?_).nodup hp2
      intro a b hab
      split at hab
      · split at hab
        · cases hab
        · cases hab; rfl
      · cases hab; rfl
    · intro p hp
      simp only [List.mem_filterMap] at hp
      obtain ⟨a, ha, hab⟩ := hp
      split at hab
      · split at hab
        · cases hab
        · cases hab; exact hp3 a ha
      · cases hab; exact hp3 a ha
    · exact Nat.lt_of_le_of_lt (List.length_filterMap_le _ _) htf1
    · refine (sublist_keys_filterMap _ _ ?_).nodup htf2
      intro a b hab
      split at hab
      · split at hab
        · cases hab
        · cases hab; rfl
      · cases hab; rfl
    · intro p hp
      simp only [List.mem_filterMap] at hp
      obtain ⟨a, ha, hab⟩ := hp
      have hA := htf3 a ha
      split at hab
      · split at hab
        · cases hab
        · cases hab
          exact ⟨⟨⟨hA.1.1.1, Nat.lt_of_le_of_lt (List.length_filter_le _ _) hA.1.1.2⟩,
            nodup_keys_filter _ _ hA.1.2⟩, fun q hq => hA.2 q (List.mem_filter.1 hq).1⟩
      · cases hab; exact hA

theorem wf_flush (avg : Nat → Nat → Nat) (havg : ∀ t n, avg t n < 18446744073709551616)
    (s : State) (h : wf s = true) : wf (flush avg s) = true := by
  unfold flush
  split
  · exact h
  · have key : ∀ (l : List Nat) (t : State), wf t = true →
        wf (l.foldl (removeInternal avg) t) = true := by
      intro l
      induction l with
      | nil => intro t ht; exact ht
      | cons a l ih => intro t ht; exact ih _ (wf_removeInternal avg havg t a ht)
    have := key s.deleted s h
    simpa [wf] using this

end BM25

namespace Meta

theorem good_decodeC (bm : BlobCodec) : Good (decodeC bm) := by
  simp only [decodeC, decCat, decNum, CP.bind_eq, CP.pure_eq]
  good_tac

theorem exact_decodeC (bm : BlobCodec) : Exact (decodeC bm) := by
  simp only [decodeC, decCat, decNum, CP.bind_eq, CP.pure_eq]
  exact_tac

theorem magic_length : magic.length = 4 := by decide

theorem u32ok_iff (n : Nat) : u32ok n = true ↔ n < 4294967296 := by simp [u32ok]
theorem keysNodup_iff [DecidableEq κ] (l : List (κ × ν)) :
    keysNodup l = true ↔ (l.map (·.1)).Nodup := by simp [keysNodup]

/-- blobs are never empty (a roaring blob has at least a cookie) -/
structure NonEmpty (bm : BlobCodec) (dom : List Nat → Prop) : Prop where
  ne : ∀ b, dom b → bm.enc b ≠ []

theorem mapM_slices (bm : BlobCodec) (dom : List Nat → Prop) (hbm : bm.Lawful dom)
    (hne : NonEmpty bm dom) (sl : List (List Nat)) (h : ∀ b ∈ sl, dom b) :
    (sl.map bm.enc).mapM (fun b => if b.isEmpty then (.ok [] : Except Err (List Nat)) else bm.dec b)
      = .ok sl := by
  induction sl with
  | nil => rfl
  | cons b sl ih =>
    have hb := h b (List.mem_cons_self)
    have := ih fun x hx => h x (List.mem_cons_of_mem _ hx)
    have hn : (bm.enc b).isEmpty = false := by
      simpa [List.isEmpty_iff] using hne.ne b hb
    simp only [List.map_cons, List.mapM_cons, this, hn, hbm.rt b hb]
    rfl

theorem bsiDec_enc (bm : BlobCodec) (dom : List Nat → Prop) (hbm : bm.Lawful dom)
    (hne : NonEmpty bm dom) (b : BSI) (hlen : bsiSlices + 1 ≤ b.length) (h : ∀ x ∈ b, dom x) :
    bsiDec bm (bsiEnc bm b) = .ok b := by
  cases b with
  | nil => simp at hlen
  | cons e sl =>
    simp only [bsiEnc, List.map_cons, bsiDec]
    rw [mapM_slices bm dom hbm hne sl fun x hx => h x (List.mem_cons_of_mem _ hx),
      hbm.rt e (h e (List.mem_cons_self))]
    simp only [List.length_cons] at hlen
    have : bsiSlices - sl.length = 0 := by omega
    simp [this, bind, Except.bind]

theorem reads_decCat (bm : BlobCodec) (dom : List Nat → Prop) (hbm : bm.Lawful dom)
    (p : Bytes × List Nat) (h1 : p.1.length < 4294967296) (h2 : dom p.2) :
    Reads (decCat bm) (flat (catItems bm p)) p := by
  unfold decCat
  simp only [CP.bind_eq, CP.pure_eq]
  refine Reads.of_eq
    (Reads.bind (Reads.rLenBytes _ h1)
    (Reads.bind (Reads.rLenBytes _ (hbm.small _ h2))
    (Reads.bind (Reads.ofExcept (hbm.rt _ h2))
    (Reads.pure _)))) ?_
  simp [catItems]

theorem reads_decNum (bm : BlobCodec) (dom : List Nat → Prop) (hbm : bm.Lawful dom)
    (hne : NonEmpty bm dom) (p : Bytes × BSI) (h1 : p.1.length < 4294967296)
    (h2 : p.2.length < 4294967296) (h3 : bsiSlices + 1 ≤ p.2.length) (h4 : ∀ x ∈ p.2, dom x) :
    Reads (decNum bm) (flat (numItems bm p)) p := by
  unfold decNum
  simp only [CP.bind_eq, CP.pure_eq]
  have hl : (bsiEnc bm p.2).length = p.2.length := by simp [bsiEnc]
  refine Reads.of_eq
    (Reads.bind (Reads.rLenBytes _ h1)
    (Reads.bind (Reads.rU32 _ (n := (bsiEnc bm p.2).length) (by omega))
    (Reads.bind (Reads.lenBytesList _ (bsiEnc bm p.2) (by
        intro b hb
        simp only [bsiEnc, List.mem_map] at hb
        obtain ⟨x, hx, rfl⟩ := hb
        exact hbm.small _ (h4 x hx)))
    (Reads.bind (Reads.ofExcept (bsiDec_enc bm dom hbm hne p.2 h3 h4))
    (Reads.pure _))))) ?_
  simp [numItems]

theorem reads_decodeC (bm : BlobCodec) (dom : List Nat → Prop) (hbm : bm.Lawful dom)
    (hne : NonEmpty bm dom) (s : State) (hwf : wf s = true) (hdom : ∀ b ∈ bitmaps s, dom b) :
    Reads (decodeC bm) (encodeRaw bm s) s := by
  simp only [wf, Bool.and_eq_true, decide_eq_true_eq, List.all_eq_true, u32ok_iff,
    keysNodup_iff] at hwf
  obtain ⟨⟨⟨⟨⟨hc1, hc2⟩, hc3⟩, hn1⟩, hn2⟩, hn3⟩ := hwf
  have hall : dom s.allDocs := hdom _ (by simp [bitmaps])
  unfold decodeC
  simp only [CP.bind_eq, CP.pure_eq]
  refine Reads.of_eq
    (Reads.bind (magic_length ▸ Reads.rRaw magic)
    (Reads.bind (Reads.guard (by simp) _)
    (Reads.bind (Reads.rU32 _ (n := 1) (by omega))
    (Reads.bind (Reads.guard (by simp) _)
    (Reads.bind (Reads.rLenBytes _ (hbm.small _ hall))
    (Reads.bind (Reads.ofExcept (hbm.rt _ hall))
    (Reads.bind (Reads.rU32 _ hc1)
    (Reads.bind (Reads.repeat (fun p => flat (catItems bm p)) s.categorical fun p hp =>
        reads_decCat bm dom hbm p (hc3 p hp) (hdom _ (by
          simp only [bitmaps, List.mem_cons, List.mem_append, List.mem_map]
          exact Or.inr (Or.inl ⟨p, hp, rfl⟩))))
    (Reads.bind (Reads.rU32 _ hn1)
    (Reads.bind (Reads.repeat (fun p => flat (numItems bm p)) s.numeric fun p hp =>
        reads_decNum bm dom hbm hne p (hn3 p hp).1.1 (hn3 p hp).1.2 (hn3 p hp).2 (by
          intro x hx
          apply hdom
          simp only [bitmaps, List.mem_cons, List.mem_append, List.mem_flatMap]
          exact Or.inr (Or.inr ⟨p, hp, hx⟩)))
    (Reads.pure_of_eq ?_))))))))))) ?_
  · rw [mkMap_of_nodup _ hc2, mkMap_of_nodup _ hn2]
  · simp [encodeRaw, items]

end Meta
end Comet.Codec
