/- Helper lemmas for the hybrid codec (Comet/Codec/Hybrid.lean). -/
import CometProofs.Codec.Flat
import CometProofs.Codec.HNSW
import CometProofs.Codec.IVF
import CometProofs.Codec.PQ
import CometProofs.Codec.BM25
import Comet.Codec.Hybrid
namespace Comet.Codec.Hybrid
open Comet.Codec

theorem good_vecDecodeC (bm : BlobCodec) (vp : VecParams) : Good (vecDecodeC bm vp) := by
  cases vp <;> simp only [vecDecodeC]
  · exact Good.cp_map _ (Flat.good_decodeC bm _)
  · exact Good.cp_map _ (HNSW.good_decodeC bm _)
  · exact Good.cp_map _ (IVF.good_decodeC bm _)
  · exact Good.cp_map _ (PQ.good_decodeC bm _)
  · exact Good.cp_map _ (IVFPQ.good_decodeC bm _ _)

theorem exact_vecDecodeC (bm : BlobCodec) (vp : VecParams) : Exact (vecDecodeC bm vp) := by
  cases vp <;> simp only [vecDecodeC]
  · exact Exact.map _ (Flat.exact_decodeC bm _)
  · exact Exact.map _ (HNSW.exact_decodeC bm _)
  · exact Exact.map _ (IVF.exact_decodeC bm _)
  · exact Exact.map _ (PQ.exact_decodeC bm _)
  · exact Exact.map _ (IVFPQ.exact_decodeC bm _ _)

theorem good_decodeCWith (vecDec : VecParams → CP VecState) (txtDec : CP BM25.State)
    (mdDec : CP Meta.State) (hv : ∀ vp, Good (vecDec vp)) (ht : Good txtDec) (hm : Good mdDec)
    (p : Params) : Good (decodeCWith vecDec txtDec mdDec p) := by
  simp only [decodeCWith, headC, decDocInfo, CP.bind_eq, CP.pure_eq]
  good_tac

theorem exact_decodeCWith (vecDec : VecParams → CP VecState) (txtDec : CP BM25.State)
    (mdDec : CP Meta.State) (hv : ∀ vp, Exact (vecDec vp)) (ht : Exact txtDec) (hm : Exact mdDec)
    (p : Params) : Exact (decodeCWith vecDec txtDec mdDec p) := by
  simp only [decodeCWith, headC, decDocInfo, CP.bind_eq, CP.pure_eq]
  exact_tac

theorem good_decodeC (bm : BlobCodec) (p : Params) : Good (decodeC bm p) :=
  good_decodeCWith _ _ _ (good_vecDecodeC bm) (BM25.good_decodeC bm) (Meta.good_decodeC bm) p

theorem exact_decodeC (bm : BlobCodec) (p : Params) : Exact (decodeC bm p) :=
  exact_decodeCWith _ _ _ (exact_vecDecodeC bm) (BM25.exact_decodeC bm) (Meta.exact_decodeC bm) p

theorem magic_length : magic.length = 4 := by decide

theorem reads_vec (bm : BlobCodec) (dom : List Nat → Prop) (hbm : bm.Lawful dom)
    (v : VecState) (hwf : v.wf = true) (hdel : dom v.deleted) :
    Reads (vecDecodeC bm v.params) (flat (v.items bm)) v.forget := by
  cases v with
  | flat s => exact Reads.map VecState.flat (Flat.reads_decodeC bm dom hbm s hwf hdel)
  | hnsw s => exact Reads.map VecState.hnsw (HNSW.reads_decodeC bm dom hbm s hwf hdel)
  | ivf s => exact Reads.map VecState.ivf (IVF.reads_decodeC bm dom hbm s hwf hdel)
  | pq s => exact Reads.map VecState.pq (PQ.reads_decodeC bm dom hbm s hwf hdel)
  | ivfpq s => exact Reads.map VecState.ivfpq (IVFPQ.reads_decodeC bm dom hbm s hwf hdel)

theorem reads_decDocInfo (p : Nat × DocInfo) (h : p.1 < 4294967296) :
    Reads decDocInfo (flat (docInfoItems p)) p := by
  unfold decDocInfo
  simp only [CP.bind_eq, CP.pure_eq]
  refine Reads.of_eq
    (Reads.bind (Reads.rU32 _ h)
    (Reads.bind (Reads.rU8 _ (n := b2n p.2.hasVector) (by unfold b2n; split <;> omega))
    (Reads.bind (Reads.rU8 _ (n := b2n p.2.hasText) (by unfold b2n; split <;> omega))
    (Reads.bind (Reads.rU8 _ (n := b2n p.2.hasMetadata) (by unfold b2n; split <;> omega))
    (Reads.pure_of_eq ?_))))) ?_
  · obtain ⟨id, ⟨a, b, c⟩⟩ := p
    cases a <;> cases b <;> cases c <;> simp [b2n]
  · simp [docInfoItems]

theorem reads_headC (s : State) (hn : s.docInfo.length < 4294967296)
    (hid : ∀ p ∈ s.docInfo, p.1 < 4294967296) :
    Reads (headC s.params) (flat (headItems s)) s.docInfo := by
  unfold headC
  simp only [CP.bind_eq, CP.pure_eq]
  refine Reads.of_eq
    (Reads.bind (magic_length ▸ Reads.rRaw magic)
    (Reads.bind (Reads.guard (by simp) _)
    (Reads.bind (Reads.rU32 _ (n := 1) (by omega))
    (Reads.bind (Reads.guard (by simp) _)
    (Reads.bind (Reads.rU8 _ (n := b2n s.vec.isSome) (by unfold b2n; split <;> omega))
    (Reads.bind (Reads.rU8 _ (n := b2n s.txt.isSome) (by unfold b2n; split <;> omega))
    (Reads.bind (Reads.rU8 _ (n := b2n s.md.isSome) (by unfold b2n; split <;> omega))
    (Reads.bind (Reads.guard (by cases h : s.vec <;> simp [State.params, b2n, h]) _)
    (Reads.bind (Reads.guard (by cases h : s.txt <;> simp [State.params, b2n, h]) _)
    (Reads.bind (Reads.guard (by cases h : s.md <;> simp [State.params, b2n, h]) _)
    (Reads.bind (Reads.rU32 _ hn)
    (Reads.repeat (fun p => flat (docInfoItems p)) s.docInfo fun p hp =>
        reads_decDocInfo p (hid p hp))))))))))))) ?_
  simp [headItems]

theorem reads_decodeC (bm : BlobCodec) (dom : List Nat → Prop) (hbm : bm.Lawful dom)
    (hne : Meta.NonEmpty bm dom) (s : State) (hwf : wf s = true) (hdom : ∀ b ∈ bitmaps s, dom b) :
    Reads (decodeC bm s.params) (encodeRaw bm s) (forget s) := by
  simp only [wf, Bool.and_eq_true, decide_eq_true_eq, List.all_eq_true, u32ok] at hwf
  obtain ⟨⟨⟨⟨⟨hn, hnd⟩, hid⟩, hv⟩, ht⟩, hm⟩ := hwf
  unfold decodeC decodeCWith
  simp only [CP.bind_eq, CP.pure_eq]
  have hvec : Reads (CP.opt s.params.vec fun vp => CP.sub (vecDecodeC bm vp))
      (flat (optItems s.vec (VecState.items bm))) (s.vec.map VecState.forget) := by
    cases hvv : s.vec with
    | none => simp only [State.params, hvv, optItems]; exact Reads.opt_none _
    | some v =>
      simp only [State.params, hvv, optItems, Option.map_some]
      rw [hvv] at hv
      exact Reads.opt_some (Reads.sub (reads_vec bm dom hbm v hv
        (hdom _ (by simp [bitmaps, hvv]))))
  have htxt : Reads (CP.opt (txtOpt s.params) fun _ => CP.sub (BM25.decodeC bm))
      (flat (optItems s.txt (BM25.items bm))) s.txt := by
    cases htt : s.txt with
    | none => simp only [txtOpt, State.params, htt, optItems]; exact Reads.opt_none _
    | some t =>
      simp only [txtOpt, State.params, htt, optItems, Option.isSome_some, if_true]
      rw [htt] at ht
      exact Reads.opt_some (Reads.sub (BM25.reads_decodeC bm dom hbm t ht
        fun b hb => hdom _ (by simp only [bitmaps, htt, List.mem_append]; exact Or.inl (Or.inr hb))))
  have hmd : Reads (CP.opt (mdOpt s.params) fun _ => CP.sub (Meta.decodeC bm))
      (flat (optItems s.md (Meta.items bm))) s.md := by
    cases hmm : s.md with
    | none => simp only [mdOpt, State.params, hmm, optItems]; exact Reads.opt_none _
    | some m =>
      simp only [mdOpt, State.params, hmm, optItems, Option.isSome_some, if_true]
      rw [hmm] at hm
      exact Reads.opt_some (Reads.sub (Meta.reads_decodeC bm dom hbm hne m hm
        fun b hb => hdom _ (by simp only [bitmaps, hmm, List.mem_append]; exact Or.inr hb)))
  refine Reads.of_eq
    (Reads.bind (reads_headC s hn hid)
    (Reads.bind hvec
    (Reads.bind htxt
    (Reads.bind hmd
    (Reads.pure_of_eq ?_))))) ?_
  · rw [mkMap_of_nodup _ hnd]
    rfl
  · simp [encodeRaw, encode4Raw]

theorem vec_flush_params (v : VecState) : v.flush.params = v.params := by
  cases v <;> simp only [VecState.flush, VecState.params]
  · rw [Flat.flush_params]
  · rw [HNSW.flush_params]
  · rw [IVF.flush_params]
  · rw [PQ.flush_params]
  · rw [IVFPQ.flush_params]

theorem vec_flush_flush (v : VecState) : v.flush.flush = v.flush := by
  cases v <;> simp only [VecState.flush]
  · rw [Flat.flush_flush]
  · rw [HNSW.flush_flush]
  · rw [IVF.flush_flush]
  · rw [PQ.flush_flush]
  · rw [IVFPQ.flush_flush]

theorem vec_wf_flush (v : VecState) (h : v.wf = true) : v.flush.wf = true := by
  cases v <;> simp only [VecState.flush, VecState.wf] at h ⊢
  · exact Flat.wf_flush _ h
  · exact HNSW.wf_flush _ h
  · exact IVF.wf_flush _ h
  · exact PQ.wf_flush _ h
  · exact IVFPQ.wf_flush _ h

theorem flush_params (avg : Nat → Nat → Nat) (s : State) : (flush avg s).params = s.params := by
  unfold flush State.params
  cases s.vec <;> cases s.txt <;> cases s.md <;> simp [vec_flush_params]

theorem flush_flush (avg : Nat → Nat → Nat) (s : State) : flush avg (flush avg s) = flush avg s := by
  unfold flush
  cases s.vec <;> cases s.txt <;> cases s.md <;>
    simp [vec_flush_flush, BM25.flush_flush, Meta.flush]

theorem wf_flush (avg : Nat → Nat → Nat) (havg : ∀ t n, avg t n < 18446744073709551616)
    (s : State) (h : wf s = true) : wf (flush avg s) = true := by
  simp only [wf, Bool.and_eq_true] at h ⊢
  obtain ⟨⟨⟨⟨⟨hn, hnd⟩, hid⟩, hv⟩, ht⟩, hm⟩ := h
  refine ⟨⟨⟨⟨⟨hn, hnd⟩, hid⟩, ?_⟩, ?_⟩, ?_⟩
  · unfold flush
    cases hvv : s.vec with
    | none => rfl
    | some v => rw [hvv] at hv; exact vec_wf_flush v hv
  · unfold flush
    cases htt : s.txt with
    | none => rfl
    | some t => rw [htt] at ht; exact BM25.wf_flush avg havg t ht
  · unfold flush
    cases hmm : s.md with
    | none => rfl
    | some m => rw [hmm] at hm; exact hm

end Comet.Codec.Hybrid
