/- Helper lemmas for the HNSW codec (Comet/Codec/HNSW.lean). -/
import CometProofs.Codec.Flat
import Comet.Codec.HNSW
namespace Comet.Codec.HNSW
open Comet.Codec

theorem good_decodeC (bm : BlobCodec) (p : Params) : Good (decodeC bm p) := by
  simp only [decodeC, decEdges, decNode, CP.bind_eq, CP.pure_eq]
  good_tac

theorem exact_decodeC (bm : BlobCodec) (p : Params) : Exact (decodeC bm p) := by
  simp only [decodeC, decEdges, decNode, CP.bind_eq, CP.pure_eq]
  exact_tac

theorem magic_length : magic.length = 4 := by decide

theorem i32ok_iff (z : Int) : i32ok z = true ↔ -2147483648 ≤ z ∧ z < 2147483648 := by
  simp [i32ok]

theorem reads_decEdges (es : List Nat) (h1 : es.length < 4294967296)
    (h2 : ∀ e ∈ es, e < 4294967296) : Reads decEdges (flat (edgeItems es)) es := by
  unfold decEdges
  simp only [CP.bind_eq]
  refine Reads.of_eq
    (Reads.bind (Reads.rU32 _ h1)
      (Reads.repeat encU32 es fun x hx => Reads.rU32 _ (h2 x hx))) ?_
  simp [edgeItems]

theorem reads_decNode (p : Nat × Node) (h : wfNode p = true) :
    Reads decNode (flat (nodeItems p)) p := by
  simp only [wfNode, Bool.and_eq_true, decide_eq_true_eq, List.all_eq_true, i32ok_iff] at h
  obtain ⟨⟨⟨⟨⟨hid, hlv⟩, hvl⟩, hv⟩, hel⟩, he⟩ := h
  unfold decNode
  simp only [CP.bind_eq, CP.pure_eq]
  refine Reads.of_eq
    (Reads.bind (Reads.rU32 _ hid)
    (Reads.bind (Reads.rI32 _ hlv.1 hlv.2)
    (Reads.bind (Reads.rU32 _ hvl)
    (Reads.bind (Reads.repeat encU32 p.2.vec fun x hx => Reads.rF32 _ (hv x hx))
    (Reads.bind (Reads.rU32 _ hel)
    (Reads.bind (Reads.repeat (fun es => flat (edgeItems es)) p.2.edges fun es hes =>
        reads_decEdges es (he es hes).1 (he es hes).2)
    (Reads.pure _))))))) ?_
  simp [nodeItems]

theorem reads_decodeC (bm : BlobCodec) (dom : List Nat → Prop) (hbm : bm.Lawful dom)
    (s : State) (hwf : wf s = true) (hdel : dom s.deleted) :
    Reads (decodeC bm s.params) (encodeRaw bm s) s := by
  simp only [wf, Bool.and_eq_true, decide_eq_true_eq, List.all_eq_true, i32ok_iff] at hwf
  obtain ⟨⟨⟨⟨⟨⟨⟨⟨⟨⟨hdim, hmk⟩, hm⟩, hefc⟩, hefs⟩, hlm⟩, hml⟩, hen⟩, hnl⟩, hnd⟩, hn⟩ := hwf
  unfold decodeC
  simp only [CP.bind_eq, CP.pure_eq]
  refine Reads.of_eq
    (Reads.bind (magic_length ▸ Reads.rRaw magic)
    (Reads.bind (Reads.guard (by simp) _)
    (Reads.bind (Reads.rU32 _ (n := 1) (by omega))
    (Reads.bind (Reads.guard (by simp) _)
    (Reads.bind (Reads.rU32 _ hdim)
    (Reads.bind (Reads.guard (by simp [State.params]) _)
    (Reads.bind (Reads.rLenBytes _ hmk)
    (Reads.bind (Reads.guard (by simp [State.params]) _)
    (Reads.bind (Reads.rU32 _ hm)
    (Reads.bind (Reads.rU32 _ hefc)
    (Reads.bind (Reads.rU32 _ hefs)
    (Reads.bind (Reads.guard (by simp [State.params]) _)
    (Reads.bind (Reads.guard (by simp [State.params]) _)
    (Reads.bind (Reads.guard (by simp [State.params]) _)
    (Reads.bind (Reads.rF64 _ hlm)
    (Reads.bind (Reads.rI32 _ hml.1 hml.2)
    (Reads.bind (Reads.rU32 _ hen)
    (Reads.bind (Reads.rU32 _ hnl)
    (Reads.bind (Reads.repeat (fun p => flat (nodeItems p)) s.nodes fun p hp =>
        reads_decNode p (hn p hp))
    (Reads.bind (Reads.rLenBytes _ (hbm.small _ hdel))
    (Reads.bind (Reads.ofExcept (hbm.rt _ hdel))
    (Reads.pure_of_eq ?_)))))))))))))))))))))) ?_
  · rw [mkMap_of_nodup _ hnd]
    cases s; simp [State.params]
  · simp [encodeRaw, items]


theorem flush_params (s : State) : (flush s).params = s.params := by
  unfold flush; split <;> rfl

theorem flush_deleted (s : State) : (flush s).deleted = [] := by
  unfold flush
  split
  · next h => simpa using h
  · rfl

theorem flush_of_nil (s : State) (h : s.deleted = []) : flush s = s := by
  unfold flush; simp [h]

theorem flush_flush (s : State) : flush (flush s) = flush s :=
  flush_of_nil _ (flush_deleted s)

theorem removed_absent (s : State) : ∀ id ∈ s.deleted, id ∉ streamIds (flush s) := by
  intro id hid
  unfold flush streamIds
  split
  · next h => simp [List.isEmpty_iff] at h; simp [h] at hid
  · simp only [List.mem_map, List.mem_filter, not_exists, not_and]
    intro p hp hpid
    subst hpid
    simp [dead, hid] at hp

theorem foldl_inv {α β : Type} (P : β → Prop) (f : β → α → β) (l : List α) (b : β) (h0 : P b)
    (hstep : ∀ b a, a ∈ l → P b → P (f b a)) : P (l.foldl f b) := by
  induction l generalizing b with
  | nil => exact h0
  | cons a l ih =>
    exact ih (f b a) (hstep b a (List.mem_cons_self) h0)
      fun b' a' ha' => hstep b' a' (List.mem_cons_of_mem _ ha')

theorem wfNode_prune (f : Nat → Bool) (p : Nat × Node) (h : wfNode p = true) :
    wfNode (p.1, { p.2 with edges := p.2.edges.map (·.filter f) }) = true := by
  simp only [wfNode, Bool.and_eq_true, decide_eq_true_eq, List.all_eq_true, List.length_map,
    List.mem_map, forall_exists_index, and_imp, forall_apply_eq_imp_iff₂] at h ⊢
  obtain ⟨⟨⟨⟨⟨hid, hlv⟩, hvl⟩, hv⟩, hel⟩, he⟩ := h
  refine ⟨⟨⟨⟨⟨hid, hlv⟩, hvl⟩, hv⟩, hel⟩, ?_⟩
  intro es hes
  exact ⟨Nat.lt_of_le_of_lt (List.length_filter_le _ _) (he es hes).1,
    fun e he' => (he es hes).2 e (List.mem_filter.1 he').1⟩

theorem pruned_keys (s : State) : (pruned s).map (·.1) = s.nodes.map (·.1) := by
  unfold pruned
  rw [List.map_map]
  apply List.map_congr_left
  intro x _
  simp only [Function.comp]
  split <;> rfl

theorem pruned_wf (s : State) (hn : ∀ p ∈ s.nodes, wfNode p = true) :
    ∀ p ∈ pruned s, wfNode p = true := by
  intro p hp
  simp only [pruned, List.mem_map] at hp
  obtain ⟨x, hx, rfl⟩ := hp
  split
  · exact hn x hx
  · exact wfNode_prune _ x (hn x hx)

theorem wfNode_id {p : Nat × Node} (h : wfNode p = true) : p.1 < 4294967296 := by
  simp only [wfNode, Bool.and_eq_true, decide_eq_true_eq] at h
  exact h.1.1.1.1.1

theorem wfNode_level {p : Nat × Node} (h : wfNode p = true) : i32ok p.2.level = true := by
  simp only [wfNode, Bool.and_eq_true] at h
  exact h.1.1.1.1.2

theorem elect_ok (s : State) (nodes1 : List (Nat × Node)) (hn : ∀ p ∈ nodes1, wfNode p = true)
    (he : s.entry < 4294967296) (hl : i32ok s.maxLevel = true) :
    (elect s nodes1).1 < 4294967296 ∧ i32ok (elect s nodes1).2 = true := by
  unfold elect
  split
  · split
    · next p hp => exact ⟨wfNode_id (hn p (List.mem_of_find?_eq_some hp)), hl⟩
    · have := foldl_inv (fun acc : Int × Nat => i32ok acc.1 = true ∧ acc.2 < 4294967296)
        (fun (acc : Int × Nat) (p : Nat × Node) =>
          if (!dead s p.1 && decide (p.2.level > acc.1)) = true then (p.2.level, p.1) else acc)
        nodes1 ((-1 : Int), s.entry) ⟨by simp [i32ok], he⟩ (by
          intro b a ha hb
          split
          · exact ⟨wfNode_level (hn a ha), wfNode_id (hn a ha)⟩
          · exact hb)
      simp only at this ⊢
      split
      · exact ⟨this.2, this.1⟩
      · exact ⟨by omega, by simp [i32ok]⟩
  · exact ⟨he, hl⟩

theorem wf_flush (s : State) (h : wf s = true) : wf (flush s) = true := by
  unfold flush
  split
  · exact h
  · simp only [wf, Bool.and_eq_true, decide_eq_true_eq, List.all_eq_true] at h
    obtain ⟨⟨⟨⟨⟨⟨⟨⟨⟨⟨hdim, hmk⟩, hm⟩, hefc⟩, hefs⟩, hlm⟩, hml⟩, hen⟩, hnl⟩, hnd⟩, hn⟩ := h
    have hel := elect_ok s (pruned s) (pruned_wf s hn) hen hml
    have hlen : (pruned s).length = s.nodes.length := by
      have := congrArg List.length (pruned_keys s)
      simpa using this
    simp only [wf, Bool.and_eq_true, decide_eq_true_eq, List.all_eq_true]
    refine ⟨⟨⟨⟨⟨⟨⟨⟨⟨⟨hdim, hmk⟩, hm⟩, hefc⟩, hefs⟩, hlm⟩, hel.2⟩, hel.1⟩, ?_⟩, ?_⟩, ?_⟩
    · exact Nat.lt_of_le_of_lt (List.length_filter_le _ _) (hlen ▸ hnl)
    · have : ((pruned s).filter fun p => !dead s p.1).map (·.1) |>.Sublist ((pruned s).map (·.1)) :=
        List.Sublist.map _ (List.filter_sublist)
      rw [pruned_keys] at this
      exact this.nodup hnd
    · intro p hp
      exact pruned_wf s hn p (List.mem_filter.1 hp).1

end Comet.Codec.HNSW
