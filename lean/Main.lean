import Comet.Driver.Loop
def main : IO Unit := Comet.Driver.main
